#!/usr/bin/env python3
"""integrate.py Cxx file.v [file.v ...]: add a builder's Coq files to _CoqProject (model/proof files before the Props block,
Props/Cxx.v at the end), append .work/design/Cxx.md to DESIGN.md §10.1, regenerate the Makefile and MANIFEST.json."""
import os, subprocess, sys
pid, files = sys.argv[1], sys.argv[2:]
p = "/verif/coq/_CoqProject"
lines = open(p).read().split("\n")
lines = [l for l in lines if l.strip()]
first_prop = next(i for i, l in enumerate(lines) if l.startswith("theories/Props/"))
for f in files:
    path = f"theories/{f}"
    assert os.path.exists(f"/verif/coq/{path}"), path
    if path in lines:
        continue
    if f.startswith("Props/"):
        lines.append(path)
    else:
        lines.insert(first_prop, path)
        first_prop += 1
open(p, "w").write("\n".join(lines) + "\n")
d = f"/verif/.work/design/{pid}.md"
if os.path.exists(d):
    s = open("/verif/DESIGN.md").read()
    marker = "---------------------------------------------------------------------------\n\n## Appendix A"
    txt = open(d).read().strip()
    if txt[:60] not in s:
        s = s.replace(marker, txt + "\n\n" + marker, 1)
        open("/verif/DESIGN.md", "w").write(s)
subprocess.run("cd /verif/coq && coq_makefile -f _CoqProject -o Makefile", shell=True, check=True)
subprocess.run(["/venv/bin/python", "/verif/tools/gen_manifest.py"], check=True)
