#!/bin/bash
# run_all.sh [quick|thorough] [ID ...]: run the registered checks one after another on /repo, print exit code and wall time each.
TIER="${1:-quick}"; shift
IDS="$@"
[ -z "$IDS" ] && IDS=$(python3 -c "import json; print(' '.join(c['property_id'] for c in json.load(open('/verif/MANIFEST.json'))['checks']))")
cd /verif
for id in $IDS; do
  t0=$(date +%s)
  out=$(./check "$id" --tier "$TIER" 2>&1); rc=$?
  t1=$(date +%s)
  echo "$id rc=$rc $((t1-t0))s viol=$(echo "$out" | grep -c '^VIOLATION') known=$(echo "$out" | grep -c '^KNOWN-FINDING')"
  echo "$out" | grep -E '^VIOLATION|CHECK-ERROR|^  \(' | cut -c1-300 | head -6
done
