#!/usr/bin/env python3
"""keep_seed.py <ID> <srcdir> <name> <detected-by text>: re-verify a seeded change against /repo HEAD in a scratch
worktree and store it under /verif/seeded/<ID>-<name>/ (patch.diff regenerated against HEAD, demo.py, meta.json)."""
import json, os, shutil, subprocess, sys, tempfile

pid, src, name, detected = sys.argv[1:5]
wt = tempfile.mkdtemp(prefix="kseed.", dir="/tmp"); os.rmdir(wt)
subprocess.run(["git", "-C", "/repo", "worktree", "add", "-q", "--detach", wt, "HEAD"], check=True)
env = dict(os.environ, PYTHONPATH=wt, PYTHONDONTWRITEBYTECODE="1")
try:
    base = subprocess.run(["timeout", "300", "/venv/bin/python", f"{src}/demo.py"], cwd=wt, env=env, capture_output=True).returncode
    if subprocess.run(["git", "apply", f"{src}/patch.diff"], cwd=wt, capture_output=True).returncode != 0:
        subprocess.run(["git", "apply", "-C1", f"{src}/patch.diff"], cwd=wt, check=True)
    mut = subprocess.run(["timeout", "300", "/venv/bin/python", f"{src}/demo.py"], cwd=wt, env=env, capture_output=True).returncode
    t = subprocess.run(["/venv/bin/python", "-m", "pytest", "-q", "-p", "no:cacheprovider", "--continue-on-collection-errors"],
                       cwd=wt, env=env, capture_output=True, text=True).stdout.strip().splitlines()[-1]
    diff = subprocess.run(["git", "diff"], cwd=wt, capture_output=True, text=True).stdout
    head = subprocess.run(["git", "-C", "/repo", "rev-parse", "--short", "HEAD"], capture_output=True, text=True).stdout.strip()
finally:
    subprocess.run(["git", "-C", "/repo", "worktree", "remove", "--force", wt])
ok = base == 0 and mut != 0 and t.startswith("1385 passed, 1 error")
print(f"demo unchanged={base} mutated={mut} tests={t!r} ok={ok}")
if not ok:
    sys.exit(1)
dst = f"/verif/seeded/{pid}-{name}"
os.makedirs(dst, exist_ok=True)
open(f"{dst}/patch.diff", "w").write(diff)
shutil.copy(f"{src}/demo.py", f"{dst}/demo.py")
meta = json.load(open(f"{src}/meta.json"))
meta.update({"property": pid, "verified": {"repo_head": head, "demo_exit_unchanged": base, "demo_exit_with_change": mut,
             "test_suite_with_change": t, "how": "tools/keep_seed.py: scratch worktree of /repo HEAD, git apply, demo.py, pytest"},
             "detected_by": detected})
json.dump(meta, open(f"{dst}/meta.json", "w"), indent=1)
print("kept", dst)
