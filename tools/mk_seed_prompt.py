#!/usr/bin/env python3
"""mk_seed_prompt.py <ID> <variant-letter> [hint] : print the prompt for a fresh seed sub-agent (property text only, nothing from /verif)."""
import json, sys
pid, k = sys.argv[1], sys.argv[2]
hint = sys.argv[3] if len(sys.argv) > 3 else ""
props = {json.loads(l)["id"]: json.loads(l) for l in open("/verif/properties.jsonl")}
p = props[pid]
text = (f"{pid} — {p['title']}\nStatement: {p['statement']}\nQuantified over: {p['quantifier']['text']}\n"
        f"Anchored in: {', '.join(p['anchors']['files'])}")
s = open("/verif/tools/seed_prompt.txt").read()
print(s.replace("PROPERTY_TEXT", text).replace("WORKTREE", f"/tmp/seedwt/{pid}-{k}").replace("OUTDIR", f"/tmp/seed_out/{pid}/mut{k}")
      .replace('"ID"', f'"{pid}"').replace("VARIANT_HINT", hint))
