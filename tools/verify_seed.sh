#!/bin/bash
# verify_seed.sh <dir-with-patch.diff-and-demo.py>: confirm in a scratch worktree of /repo HEAD that the patch
# applies, the test suite still passes, and the demo fails with the patch and passes without it.
set -u
D="$1"; WT=$(mktemp -d /tmp/vseed.XXXXXX); rmdir "$WT"
git -C /repo worktree add -q --detach "$WT" HEAD || exit 2
trap 'git -C /repo worktree remove --force "$WT" >/dev/null 2>&1' EXIT
cd "$WT"
export PYTHONDONTWRITEBYTECODE=1
PYTHONPATH="$WT" timeout 300 /venv/bin/python "$D/demo.py" >/dev/null 2>&1; base=$?
git apply "$D/patch.diff" 2>/dev/null || git apply -C1 "$D/patch.diff" || { echo "RESULT patch-does-not-apply"; exit 1; }
PYTHONPATH="$WT" timeout 300 /venv/bin/python "$D/demo.py" >/dev/null 2>&1; mut=$?
tests=$(PYTHONPATH="$WT" /venv/bin/python -m pytest -q -p no:cacheprovider --continue-on-collection-errors 2>&1 | tail -1)
echo "RESULT demo_unchanged_exit=$base demo_mutated_exit=$mut tests: $tests"
