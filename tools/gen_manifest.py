#!/usr/bin/env python3
"""Regenerate /verif/MANIFEST.json from the table below (kept valid at all times)."""
import json

ALL = [f"C{i:02d}" for i in range(1, 28)]

# id -> (level text, level note, technique, design ref)
CLAIMED = {
 "C12": (
  "Coq theorems about a Gallina model of Liquid conditions: truthy v = false iff v is false/nil/undefined (all values); and/or/not on "
  "truthiness with short circuit; for EVERY condition tree, parse (print e) = e where print parenthesises only where the documented "
  "grouping needs it (so and/or have equal precedence and group from the right, comparisons bind tighter, parentheses override), and "
  "every flat and/or chain of any length is right-nested; == symmetric with the documented table (bools only equal bools, nil = undefined, "
  "empty/blank, numbers by value across int/decimal); each operator built from ==/< as documented; < raises exactly the Liquid type error "
  "and exactly on non-orderable pairs; contains clauses; if/elsif/else picks the first truthy arm and evaluates nothing after it, else iff all "
  "falsy, and conversely; unless c = if not c; case/when renders a when block once per == match and else iff no earlier match. The one "
  "known finding (contains matches true against the integer 1) is a witness theorem. Tied to /repo by the exhaustive 30x30 operand "
  "representatives x 8 operators cross product (literals and variables), every and/or/not chain with every single parenthesisation, random "
  "trees, if/unless/elsif chains, case/when layouts and ternaries, rendered sync and async and evaluated inside Coq, plus an independent "
  "documented-semantics evaluator.",
  "Trusted: Coq kernel+vm_compute; harness operand table/spelling/Gallina printers and the documented-semantics evaluator; Python ==/< on the "
  "operand universe, str.isspace, str() of numbers and the expression tokenizer are modelled, not verified; floats restricted to short "
  "decimals; drops and user-defined __eq__/__lt__/__contains__ outside the model. All theorems closed under the global context.",
  "Coq proof (Pratt-parser round trip by strong induction on tree size with explicit fuel, case analysis on the value universe) + "
  "model/implementation correspondence by vm_compute",
  "DESIGN.md §6 C12"),
 "C24": (
  "Coq theorems over all operation sequences / all atomic-section schedules of a Gallina model of LRUCache and "
  "ThreadSafeLRUCache (capacity+NoDup invariant, eviction = oldest ghost time stamp, get = last store of the history, "
  "listing order, linearisability of method calls, snapshot listings never fail; lazy listing refuted by witness), tied to "
  "/repo by a correspondence run (exhaustive small op sequences and schedules + random long ones, compared inside Coq) and an "
  "independent reference-LRU oracle. Real preemption is only sampled by a thread stress run (partial).",
  "Trusted: Coq kernel+vm_compute; harness generators/printers; threading.Lock mutual exclusion (atomic sections are an "
  "assumption of the model); CPython OrderedDict order/invalidation modelled not verified. All theorems closed under the global context.",
  "Coq proof (invariants by induction over op lists, ghost time-stamp refinement) + model/implementation correspondence by vm_compute",
  "DESIGN.md §6 C24"),
 "C13": (
  "Coq theorems for all Z limits/offsets (zero, negative, huge), offset:continue and reversed: the visited items equal the "
  "reference (Shopify each-loop) semantics; helper length = items visited; else iff nothing visited; the for loop prints each visited "
  "item once in order with the right helpers; continue chains are contiguous; tablerow row/col = k/c+1, k mod c+1 for all c>0; the "
  "pre-fix arithmetic is refuted by witness. Tied to /repo by a correspondence run of a loop mini-language (for/tablerow/break/continue/"
  "parentloop/else; exhaustive small scopes + random nests) evaluated inside Coq against sync and async renders, plus an independent reference renderer.",
  "Trusted: Coq kernel+vm_compute; harness generator/printers; Python int()/islice/reversed and the parser for the generated subset are "
  "modelled, not verified; drops/custom iterables outside the model. All theorems closed under the global context.",
  "Coq proof (induction over item lists, lia) + model/implementation correspondence by vm_compute",
  "DESIGN.md §6 C13"),
 "C21": (
  "Coq theorems about a Gallina model of TagAnalysis._audit_tags over tag-name sequences: the audit is total for every sequence; for every "
  "tag register passing the computable check wf_envb (evaluated on the live Environment tables on every run) a sequence accepted by the "
  "tag-level grammar wellnested (a superset of what the strict parser accepts, validated on every generated source that parses) yields the empty "
  "report; unknown names are always reported; a block tag with no end tag anywhere is reported unclosed once per occurrence; the pre-fix code is "
  "refuted by witness. Tied to /repo by exhaustive tag sequences (default and extra environments) evaluated inside Coq against "
  "analyze_tags_from_string, and a direct oracle against from_string in strict mode. Two recorded known findings (break/continue outside for; "
  "tags inside sections skipped by the extraneous-else rule).",
  "Trusted: Coq kernel+vm_compute; harness generator/markup table/Gallina printers; the lexer (tag names taken as tokens) and Python set/dict "
  "semantics are modelled, not verified; assumes no tag named 'endend…'. All theorems closed under the global context.",
  "Coq proof (stack invariant by induction over token lists) + model/implementation correspondence by vm_compute",
  "DESIGN.md §6 C21"),
 "C27": (
  "Coq theorems: for every macro signature (unique names), every positional list and every keyword list, CallNode.macro_args (modelled "
  "loop by loop: zip_longest/break, dict updates) computes exactly the documented binding (last keyword, else i-th positional, else default, "
  "else undefined; surplus positionals in order; surplus keywords in first-appearance order with their last value); with: a bound name has "
  "its last binding evaluated outside the block, other names are untouched, and after any node list the scope chain is restored. Tied to "
  "/repo by the exhaustive sweep of the property's quantifier (0..3 params x defaults x 0..4 positional x all 0..3 keyword sequences) and "
  "random with-nests, evaluated in Coq against sync and async renders, plus an independent reference binder/resolver.",
  "Trusted: Coq kernel+vm_compute; harness generators/printers; Python dict order and zip_longest modelled not verified; argument values are "
  "integers (expression evaluation itself is C14). All theorems closed under the global context.",
  "Coq proof (induction over argument lists; dict-update lemmas) + model/implementation correspondence by vm_compute",
  "DESIGN.md §6 C27"),
 "C26": (
  "Coq theorems about Gallina models of the translation filters' placeholder substitution, the translate tag's message construction "
  "(percent doubling, variable collection with the repaired pattern, printf formatting) and plural selection: a filter message without "
  "placeholders is output unchanged for every text (any percent signs); in a message of placeholder-free text pieces and placeholders exactly "
  "the placeholders are replaced; for EVERY block of characters and variables the tag's build-and-format pipeline returns the text with "
  "variables substituted (whole pipeline incl. normalisation proved for whitespace-free blocks: _partial; whitespace collapse by "
  "correspondence only); plural form = NullTranslations rule for every integer count; the pre-fix code refuted by witnesses. Tied to /repo "
  "by exhaustive small messages/blocks/counts through all five filters and the tag, evaluated in Coq, plus a regex-based reference substitution.",
  "Trusted: Coq kernel+vm_compute; harness generators/printers; Python re, str.strip, % formatting with a mapping and gettext.NullTranslations "
  "are modelled, not verified; \\w and \\s restricted to ASCII; autoescape off (C05). All theorems closed under the global context.",
  "Coq proof (structural scanners with skip counters, induction over messages) + model/implementation correspondence by vm_compute",
  "DESIGN.md §6 C26"),
 "C25": (
  "Coq theorems, one per contract clause, about Gallina models of the filters: truncate (all strings, all integer limits, all ellipses; "
  "pre-fix code refuted), truncatewords (at most max(n,1) words), split/join round trip under exactly the guard the code needs "
  "(_partial; the two excluded shapes are refuted by witness and recorded as known findings), sort (ascending permutation, generic "
  "stable sort by key), uniq, compact, reverse, concat, where/reject partition, exact integer arithmetic with floor division/modulo and "
  "zero-divisor errors, default, size, slice (from start / from end), first/last. Tied to /repo by ~6500 exhaustive pool cases per run "
  "through templates `{{ v | f: args | json }}` evaluated inside Coq, plus contract predicates written from the documentation.",
  "Trusted: Coq kernel+vm_compute; harness pools/printers/JSON observation; Python str/list methods, sorted, int(), Decimal(str(float)) "
  "and float repr on short decimals are modelled, not verified; binary float division/modulo, non-ASCII case mapping and exact-half "
  "rounding are outside the model. All theorems closed under the global context.",
  "Coq proof (list induction, Permutation/StronglySorted, lia) + model/implementation correspondence by vm_compute",
  "DESIGN.md §6 C25"),
}

# further claims, one file per property: tools/claims/Cxx.json {"text":…, "note":…, "technique":…, "design_ref":…}
import glob, os
_listed = open("/verif/coq/_CoqProject").read()
for _f in sorted(glob.glob(os.path.join(os.path.dirname(os.path.abspath(__file__)), "claims", "C*.json"))):
    if f"theories/Props/{os.path.basename(_f)[:3]}.v" not in _listed:
        continue  # a builder's claim whose Coq files are not integrated yet
    _d = json.load(open(_f))
    CLAIMED[os.path.basename(_f)[:3]] = (_d["text"], _d["note"], _d["technique"], _d.get("design_ref", "DESIGN.md §10"))

PENDING_REASON = "not yet built in this round (planned: DESIGN.md §6/§9); no check is claimed for it yet"

def main():
    checks = []
    for pid in ALL:
        if pid not in CLAIMED:
            continue
        text, note, tech, ref = CLAIMED[pid]
        checks.append({
            "property_id": pid,
            "quick_cmd": f"./check {pid} --tier quick",
            "thorough_cmd": f"./check {pid} --tier thorough",
            "evidence_file": f"/verif/evidence/{pid}.json",
            "replay_cmd_template": f"./check {pid} --replay {{path}}",
            "engine": "coq+harness",
            "level_claimed": {"category": "proof", "text": text, "design_ref": ref},
            "level_note": note,
            "technique": tech,
        })
    m = {
        "version": 1,
        "setup_cmd": "cd /verif/coq && coq_makefile -f _CoqProject -o Makefile && timeout 3000 make -j16",
        "hooks": {
            "guard": "LIQUID_VERIF",
            "enable": "no hooks are compiled into /repo: the harness imports liquid from /repo's working tree "
                      "(PYTHONPATH=/repo PYTHONHASHSEED=0 /venv/bin/python) in a fresh process on every run; LIQUID_VERIF=1 is set by ./check and "
                      "only switches harness-side wrappers on",
            "baseline_off_cmd": "cd /repo && /venv/bin/python -m pytest -ra -q -p no:cacheprovider --timeout=900 --continue-on-collection-errors",
            "source_commits": [],
            "add_only": True,
        },
        "engines": [{
            "name": "coq+harness", "path": "/verif/check",
            "serves_properties": sorted(CLAIMED),
            "kind_free_text": "Coq 8.16.1 development (coq/theories: models, *_Proofs.v, Props/Cxx.v) + Python harness "
                              "(harness/liquid_verif) that re-checks the property file, runs /repo, evaluates the model on the same "
                              "cases inside Coq (vm_compute) and applies an independent property oracle",
        }],
        "checks": checks,
        "notes": "Fix commits in /repo and known findings are listed in /verif/known_findings.json; seeded changes and which check "
                 "detects them in /verif/seeded/*/meta.json and DESIGN.md §10.",
        "not_applicable": [{"property_id": p, "reason": PENDING_REASON} for p in ALL if p not in CLAIMED],
    }
    json.dump(m, open("/verif/MANIFEST.json", "w"), indent=1)
    print("claimed:", sorted(CLAIMED))

main()
