#!/bin/bash
# try_seed.sh <ID> <dir-with-patch.diff> [tier]: run the check against a scratch worktree of /repo HEAD carrying the
# seeded change (VERIF_REPO), with evidence/replays written to a scratch directory (VERIF_OUT).  /repo is not touched,
# so several trials and ordinary checks can run at the same time.
set -u
ID="$1"; D="$(readlink -f "$2")"; TIER="${3:-quick}"
WT=$(mktemp -d /tmp/tseed.XXXXXX); rmdir "$WT"; OUT=$(mktemp -d /tmp/tseedout.XXXXXX)
git -C /repo worktree add -q --detach "$WT" HEAD || exit 2
trap 'git -C /repo worktree remove --force "$WT" >/dev/null 2>&1; rm -rf "$OUT"' EXIT
( cd "$WT" && { git apply "$D/patch.diff" 2>/dev/null || git apply -C1 "$D/patch.diff" || git apply -3 "$D/patch.diff"; } ) || { echo "patch does not apply"; exit 2; }
cd /verif && VERIF_REPO="$WT" VERIF_OUT="$OUT" ./check "$ID" --tier "$TIER" 2>&1 | grep -E "VIOLATION|KNOWN|CHECK-ERROR|^  \(" | head -8
echo "exit=${PIPESTATUS[0]}"
