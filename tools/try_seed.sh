#!/bin/bash
# try_seed.sh <ID> <dir-with-patch.diff> [tier]: apply a seeded change to /repo, run the check, undo it.
set -u
ID="$1"; D="$2"; TIER="${3:-quick}"
if [ -n "$(git -C /repo status --porcelain)" ]; then echo "/repo not clean"; exit 2; fi
git -C /repo apply "$D/patch.diff" 2>/dev/null || git -C /repo apply -C1 "$D/patch.diff" || exit 2
trap 'git -C /repo checkout -- . ' EXIT
cd /verif && ./check "$ID" --tier "$TIER" 2>&1 | grep -E "VIOLATION|KNOWN|CHECK-ERROR|^  \(" | head -8
echo "exit=${PIPESTATUS[0]}"
