#!/bin/bash
# recheck_seeds.sh [ID-prefix]: re-validate every kept seeded change against /repo HEAD:
#   the patch applies strictly, the demo fails with it (and passes without), the pinned tests pass with it, and the check reports it.
cd /verif
for D in seeded/${1:-C}*; do
  ID=$(basename "$D" | cut -c1-3)
  WT=$(mktemp -d /tmp/rseed.XXXXXX); rmdir "$WT"
  git -C /repo worktree add -q --detach "$WT" HEAD || continue
  st="ok"
  ( cd "$WT" && PYTHONPATH="$WT" timeout 300 /venv/bin/python "/verif/$D/demo.py" >/dev/null 2>&1 ) || st="demo-fails-unchanged"
  if ( cd "$WT" && git apply "/verif/$D/patch.diff" 2>/dev/null ); then
    ( cd "$WT" && PYTHONPATH="$WT" timeout 300 /venv/bin/python "/verif/$D/demo.py" >/dev/null 2>&1 ) && st="$st,demo-passes-with-change"
    t=$(cd "$WT" && PYTHONPATH="$WT" /venv/bin/python -m pytest -q -p no:cacheprovider --continue-on-collection-errors 2>&1 | tail -1)
    case "$t" in "1385 passed, 1 error"*) ;; *) st="$st,tests:[$t]";; esac
    OUT=$(mktemp -d /tmp/rseedout.XXXXXX)
    v=$(VERIF_REPO="$WT" VERIF_OUT="$OUT" ./check "$ID" --tier quick 2>&1 | grep -c '^VIOLATION')
    rm -rf "$OUT"
    [ "$v" -gt 0 ] || st="$st,NOT-DETECTED"
  else
    st="STALE-patch-does-not-apply"
  fi
  git -C /repo worktree remove --force "$WT" >/dev/null 2>&1
  echo "$(basename $D): $st"
done
