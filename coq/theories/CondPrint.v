(* Token-level printers of conditions.  [pr] / [print] put parentheses only where the documented grouping rules need
   them (left operand of and/or that is itself and/or/not; compound operands of a comparison); it is the
   SPECIFICATION of grouping used by C12 (parse (print e) = e for every tree) and the printer a repair of
   BooleanExpression.__str__ would have to match (C04, not claimed yet; no such change has been made to /repo).
   [pr_old] / [print_old] model BooleanExpression.__str__ as it is in /repo today.  Executable definitions only. *)
From LiquidVerif Require Import Prelude PyPrims Cond.

Inductive pctx :=
| CRight       (* top level, right operand of and/or, operand of not, inside parentheses *)
| CLeft        (* left operand of and/or *)
| COperand.    (* operand of a comparison / contains *)

Definition wrap (b : bool) (l : list tok) : list tok := if b then TLParen :: l ++ [TRParen] else l.

Definition wraps (c : pctx) (e : bexpr) : bool :=
  match c, e with
  | CRight, _ => false
  | CLeft, (BAnd _ _ | BOr _ _ | BNot _) => true
  | CLeft, _ => false
  | COperand, (BLit _ | BVar _) => false
  | COperand, _ => true
  end.

Fixpoint pr (c : pctx) (e : bexpr) : list tok :=
  wrap (wraps c e)
    (match e with
     | BLit v => [TLit v]
     | BVar x => [TVar x]
     | BNot a => TNot :: pr CRight a
     | BAnd a b => pr CLeft a ++ TAnd :: pr CRight b
     | BOr a b => pr CLeft a ++ TOr :: pr CRight b
     | BCmp op a b => pr COperand a ++ TOp op :: pr COperand b
     end).

Definition print (e : bexpr) : list tok := pr CRight e.

(* ---- BooleanExpression.__str__ as it is in /repo: `and` printed as if it bound tighter than `or`, `not` never parenthesised,
        comparison operands printed with no parentheses at all ---- *)
Fixpoint plain (e : bexpr) : list tok :=
  match e with
  | BLit v => [TLit v]
  | BVar x => [TVar x]
  | BNot a => TNot :: plain a
  | BAnd a b => plain a ++ TAnd :: plain b
  | BOr a b => plain a ++ TOr :: plain b
  | BCmp op a b => plain a ++ TOp op :: plain b
  end.

Fixpoint pr_old (parent : nat) (e : bexpr) : list tok :=
  match e with
  | BAnd a b => wrap (Nat.ltb 4 parent) (pr_old 4 a ++ TAnd :: pr_old 4 b)
  | BOr a b => wrap (Nat.ltb 3 parent) (pr_old 3 a ++ TOr :: pr_old 3 b)
  | BNot a => wrap (Nat.ltb 7 parent) (TNot :: pr_old 7 a)
  | _ => plain e
  end.

Definition print_old (e : bexpr) : list tok := pr_old 0 e.

(* ---- correspondence: str() of a parsed condition, as a token list ---- *)
Record pcase := { pc_toks : list tok }.
Definition run_print (c : pcase) : option (list tok) :=
  match parse flags_on (pc_toks c) with Ok e => Some (print e) | _ => None end.

Fixpoint val_same (a b : val) : bool := py_eq a b && match a, b with
  | VBool _, VBool _ | VInt _, VInt _ | VDec _ _, VDec _ _ | VStr _, VStr _ | VNil, VNil | VUndef, VUndef
  | VList _, VList _ | VDict _, VDict _ | VRange _ _, VRange _ _ | VEmpty, VEmpty | VBlank, VBlank => true
  | _, _ => false end.

Definition cmpop_eqb (a b : cmpop) : bool :=
  match a, b with
  | OEq, OEq | ONe, ONe | OLt, OLt | OGt, OGt | OLe, OLe | OGe, OGe | OContains, OContains => true
  | _, _ => false
  end.

Definition tok_eqb (a b : tok) : bool :=
  match a, b with
  | TLit x, TLit y => val_same x y
  | TVar x, TVar y => str_eqb x y
  | TLParen, TLParen | TRParen, TRParen | TNot, TNot | TAnd, TAnd | TOr, TOr | TJunk, TJunk => true
  | TOp x, TOp y => cmpop_eqb x y
  | _, _ => false
  end.

Definition run_print_eqb (a b : option (list tok)) : bool := option_eqb (list_eqb tok_eqb) a b.
