(* C01 -- proofs about PairInherit.v.

   [Rel P m1 m2]: whenever every event of the run of m1 satisfies P, the runs of m1 and m2 end the same way, leave the
   same block stacks and produce the same events up to the API marker.  P is the guard: it says for which events the two
   primitives (template loading, item access) must agree between the APIs.

   inherit_async_eq        render_async ~ render (guard: agreement on what is reached OUTSIDE block.super; inside it both
                           APIs run the synchronous copies, so nothing is required there)
   super_sync_in_async     render_async ~ the fully asynchronous render (guard: agreement on what is reached INSIDE
                           block.super: no awaitable-only data, no asynchronous-only template source)
   async_modes             which API every event of render_async goes through: asynchronous outside block.super,
                           synchronous inside
   and witnesses that each guard is needed. *)
From Coq Require Import String ZArith List Bool Lia.
From LiquidVerif Require Import Prelude PairInherit.
Import ListNotations.
Local Open Scope list_scope.

Definition tr {A} (r : outc A * store * list ev) : list ev := snd r.

Definition Rel {A} (P : ev -> Prop) (m1 m2 : M A) : Prop :=
  forall st, Forall P (tr (m1 st)) -> erase_run (m1 st) = erase_run (m2 st).

Lemma erase_app a b : erase (a ++ b) = erase a ++ erase b.
Proof. apply map_app. Qed.

Lemma Rel_refl {A} (P : ev -> Prop) (m : M A) : Rel P m m.
Proof. intros st _. reflexivity. Qed.

Lemma Rel_bind {A B} (P : ev -> Prop) (m1 m2 : M A) (f1 f2 : A -> M B) :
  Rel P m1 m2 -> (forall a, Rel P (f1 a) (f2 a)) -> Rel P (mbind m1 f1) (mbind m2 f2).
Proof.
  intros Hm Hf st. unfold mbind. specialize (Hm st).
  destruct (m1 st) as [[o1 s1] t1]. destruct (m2 st) as [[o2 s2] t2].
  destruct o1 as [a| |e|].
  - specialize (Hf a s1).
    destruct (f1 a s1) as [[r1 s1'] t1'] eqn:E1. cbn [tr snd]. intro HP.
    apply Forall_app in HP. destruct HP as [HP1 HP2].
    specialize (Hm HP1). cbn [erase_run] in Hm. inversion Hm; subst.
    specialize (Hf HP2). destruct (f2 a s2) as [[r2 s2'] t2'].
    cbn [erase_run] in *. inversion Hf; subst. rewrite !erase_app. congruence.
  - cbn [tr snd]. intro HP. specialize (Hm HP). cbn [erase_run] in Hm. inversion Hm; subst. cbn. congruence.
  - cbn [tr snd]. intro HP. specialize (Hm HP). cbn [erase_run] in Hm. inversion Hm; subst. cbn. congruence.
  - cbn [tr snd]. intro HP. specialize (Hm HP). cbn [erase_run] in Hm. inversion Hm; subst. cbn. congruence.
Qed.

Lemma Rel_catch (P : ev -> Prop) (m1 m2 : M unit) : Rel P m1 m2 -> Rel P (catch_stop m1) (catch_stop m2).
Proof.
  intros Hm st. unfold catch_stop. specialize (Hm st).
  destruct (m1 st) as [[o1 s1] t1]. destruct (m2 st) as [[o2 s2] t2].
  destruct o1; cbn [tr snd]; intro HP; specialize (Hm HP); cbn [erase_run] in Hm; inversion Hm; subst; cbn [erase_run]; congruence.
Qed.

Lemma Rel_emit (P : ev -> Prop) (e1 e2 : ev) : (P e1 -> erase1 e1 = erase1 e2) -> Rel P (emit e1) (emit e2).
Proof.
  intros H st. unfold emit. cbn. intro HP. inversion HP; subst. rewrite (H H2). reflexivity.
Qed.

(* ---- agreement of the two primitives between the APIs ---- *)
Definition agree (w : world) (e : ev) : Prop :=
  match e with
  | EText _ => True
  | EVal _ _ x _ => w_acc w Sync x = w_acc w Async x
  | ELoad _ _ n _ => w_ld w Sync n = w_ld w Async n
  end.
(* the guard P demands agreement for events raised at block.super level b *)
Definition Good (P : ev -> Prop) (w : world) (b : bool) : Prop := forall e, ev_sup e = b -> P e -> agree w e.

Lemma load_sa P w c n : Good P w (c_super c) -> Rel P (load w Sync c n) (load w Async c n).
Proof.
  intros G st. unfold load.
  destruct (w_ld w Sync n) as [t|] eqn:E.
  - cbn. intro HP. inversion HP; subst. pose proof (G (ELoad Sync (c_super c) n _) eq_refl H1) as Ag. cbn in Ag. rewrite <- Ag, E. reflexivity.
  - cbn. intro HP. inversion HP; subst. pose proof (G (ELoad Sync (c_super c) n _) eq_refl H1) as Ag. cbn in Ag. rewrite <- Ag, E. reflexivity.
Qed.

Lemma access_sa P w c x : Good P w (c_super c) -> Rel P (access w Sync c x) (access w Async c x).
Proof.
  intro G. unfold access. apply Rel_emit. intro HP. pose proof (G (EVal Sync (c_super c) x _) eq_refl HP) as Ag. cbn in Ag. cbn. rewrite Ag. reflexivity.
Qed.

Ltac rel :=
  repeat first
    [ assumption
    | apply Rel_refl
    | apply Rel_catch
    | apply Rel_bind; [ | intro ] ].

Lemma stb_sa P w c seen t :
  Good P w (c_super c) -> Rel P (stack_template_blocks_sync w c seen t) (stack_template_blocks_async w c seen t).
Proof.
  intro G. unfold stack_template_blocks_sync, stack_template_blocks_async.
  apply Rel_bind; [apply Rel_refl|]. intros [p|]; [|apply Rel_refl].
  destruct (smem p seen); [apply Rel_refl|].
  apply Rel_bind; [apply load_sa; assumption|]. intro. apply Rel_refl.
Qed.

Lemma build_loop_sa P w c : Good P w (c_super c) -> forall fuel seen base next,
  Rel P (build_loop_sync fuel w c seen base next) (build_loop_async fuel w c seen base next).
Proof.
  intro G. induction fuel as [|f IH]; intros; cbn [build_loop_sync build_loop_async]; [apply Rel_refl|].
  apply Rel_bind; [apply stb_sa; assumption|]. intros [[p t']|]; [apply IH|apply Rel_refl].
Qed.

Lemma build_sa P w c fuel t :
  Good P w (c_super c) -> Rel P (build_stacks_sync fuel w c t) (build_stacks_async fuel w c t).
Proof.
  intro G. unfold build_stacks_sync, build_stacks_async.
  apply Rel_bind; [apply stb_sa; assumption|]. intros [[p t']|]; [apply build_loop_sa; assumption|apply Rel_refl].
Qed.

(* the copies of BlockNode.render_to_output, given related renderers for the bodies *)
Lemma block_rel P (rec1 rec2 : ctx -> list node -> M unit) c name req body :
  (forall c' ns, c_super c' = c_super c -> Rel P (rec1 c' ns) (rec2 c' ns)) ->
  Rel P (block_sync rec1 c name req body) (block_async rec2 c name req body).
Proof.
  intro H. unfold block_sync, block_async.
  apply Rel_bind; [apply Rel_refl|]. intro s.
  destruct (stack_of name (s_stacks s)) as [|a l].
  - destruct req; [apply Rel_refl|]. apply H. reflexivity.
  - apply Rel_bind; [apply Rel_refl|]. intro it. destruct (it_required it); [apply Rel_refl|]. apply H. reflexivity.
Qed.

Lemma extends_sa P w fuel (rec1 rec2 : ctx -> list node -> M unit) c :
  Good P w (c_super c) ->
  (forall c' ns, c_super c' = c_super c -> Rel P (rec1 c' ns) (rec2 c' ns)) ->
  Rel P (extends_sync fuel w rec1 c) (extends_async fuel w rec2 c).
Proof.
  intros G H. unfold extends_sync, extends_async, render_with_context_sync, render_with_context_async.
  apply Rel_bind; [apply build_sa; assumption|]. intro base.
  apply Rel_bind; [apply Rel_catch; apply H; reflexivity|]. intro. apply Rel_refl.
Qed.

Lemma extends_aa P w fuel (rec1 rec2 : ctx -> list node -> M unit) c :
  (forall c' ns, c_super c' = c_super c -> Rel P (rec1 c' ns) (rec2 c' ns)) ->
  Rel P (extends_async fuel w rec1 c) (extends_async fuel w rec2 c).
Proof.
  intros H. unfold extends_async, render_with_context_async.
  apply Rel_bind; [apply Rel_refl|]. intro base.
  apply Rel_bind; [apply Rel_catch; apply H; reflexivity|]. intro. apply Rel_refl.
Qed.

Lemma include_sa P w (rec1 rec2 : ctx -> list node -> M unit) c name :
  Good P w (c_super c) ->
  (forall c' ns, c_super c' = c_super c -> Rel P (rec1 c' ns) (rec2 c' ns)) ->
  Rel P (include_sync w rec1 c name) (include_async w rec2 c name).
Proof.
  intros G H. unfold include_sync, include_async, render_with_context_sync, render_with_context_async.
  apply Rel_bind; [apply load_sa; assumption|]. intro t. apply Rel_catch. apply H. reflexivity.
Qed.

Lemma include_aa P w (rec1 rec2 : ctx -> list node -> M unit) c name :
  (forall c' ns, c_super c' = c_super c -> Rel P (rec1 c' ns) (rec2 c' ns)) ->
  Rel P (include_async w rec1 c name) (include_async w rec2 c name).
Proof.
  intros H. unfold include_async, render_with_context_async.
  apply Rel_bind; [apply Rel_refl|]. intro t. apply Rel_catch. apply H. reflexivity.
Qed.

Lemma super_rel P (rec1 rec2 : ctx -> list node -> M unit) c :
  (forall c' ns, c_super c' = true -> Rel P (rec1 c' ns) (rec2 c' ns)) ->
  Rel P (blockdrop_super rec1 c) (blockdrop_super rec2 c).
Proof.
  intro H. unfold blockdrop_super. destruct (c_block c) as [[p|]|]; try apply Rel_refl.
  apply Rel_bind; [apply Rel_refl|]. intro it. apply H. reflexivity.
Qed.

(* ---- render vs render_async: agreement is needed only outside block.super ---- *)
Lemma rs_ra P w : Good P w false -> forall fuel c ns, c_super c = false -> Rel P (rs fuel w c ns) (ra fuel w c ns).
Proof.
  intro G. induction fuel as [|f IH]; intros c ns Hc; cbn [rs ra]; [apply Rel_refl|].
  destruct ns as [|n r]; [apply Rel_refl|].
  apply Rel_bind; [|intro; apply IH; assumption].
  assert (Hrec : forall c' ns', c_super c' = c_super c -> Rel P (rs f w c' ns') (ra f w c' ns')).
  { intros c' ns' E. apply IH. congruence. }
  assert (Gc : Good P w (c_super c)) by (rewrite Hc; exact G).
  destruct n.
  - apply Rel_refl.
  - apply access_sa; assumption.
  - apply Rel_refl.                                     (* block.super: the same call, the same synchronous renderer *)
  - apply block_rel; assumption.
  - apply extends_sa; assumption.
  - apply include_sa; assumption.
Qed.

(* ---- the synchronous renderer vs the fully asynchronous one ---- *)
Lemma rs_rafull P w : Good P w true -> forall fuel c ns, Good P w (c_super c) -> Rel P (rs fuel w c ns) (ra_full fuel w c ns).
Proof.
  intro G. induction fuel as [|f IH]; intros c ns Gc; cbn [rs ra_full]; [apply Rel_refl|].
  destruct ns as [|n r]; [apply Rel_refl|].
  apply Rel_bind; [|intro; apply IH; assumption].
  assert (Hrec : forall c' ns', c_super c' = c_super c -> Rel P (rs f w c' ns') (ra_full f w c' ns')).
  { intros c' ns' E. apply IH. rewrite E. assumption. }
  destruct n.
  - apply Rel_refl.
  - apply access_sa; assumption.
  - apply super_rel. intros c' ns' E. apply IH. rewrite E. assumption.
  - apply block_rel; assumption.
  - apply extends_sa; assumption.
  - apply include_sa; assumption.
Qed.

(* ---- render_async vs the fully asynchronous render: agreement is needed only inside block.super ---- *)
Lemma ra_rafull P w : Good P w true -> forall fuel c ns, c_super c = false -> Rel P (ra fuel w c ns) (ra_full fuel w c ns).
Proof.
  intro G. induction fuel as [|f IH]; intros c ns Hc; cbn [ra ra_full]; [apply Rel_refl|].
  destruct ns as [|n r]; [apply Rel_refl|].
  apply Rel_bind; [|intro; apply IH; assumption].
  assert (Hrec : forall c' ns', c_super c' = c_super c -> Rel P (ra f w c' ns') (ra_full f w c' ns')).
  { intros c' ns' E. apply IH. congruence. }
  destruct n.
  - apply Rel_refl.
  - apply Rel_refl.
  - apply super_rel. intros c' ns' E. apply rs_rafull; [assumption|]. rewrite E. assumption.
  - change (block_async (ra f w) c name required body) with (block_sync (ra f w) c name required body).
    apply block_rel; assumption.
  - apply extends_aa; assumption.
  - apply include_aa; assumption.
Qed.

(* ------------------------------------------------------------------------------------------ the theorems *)
(* guards over the events of a run *)
Definition agree_outside_super (w : world) (e : ev) : Prop := ev_sup e = false -> agree w e.
Definition agree_inside_super (w : world) (e : ev) : Prop := ev_sup e = true -> agree w e.

Lemma good_outside w : Good (agree_outside_super w) w false.
Proof. intros e E H. apply H. assumption. Qed.
Lemma good_inside w : Good (agree_inside_super w) w true.
Proof. intros e E H. apply H. assumption. Qed.

(* BoundTemplate.render_async against BoundTemplate.render, for every world, template and state of the block stacks:
   if the two APIs agree on every template loaded and every item read OUTSIDE block.super during the synchronous
   render, the asynchronous render ends the same way, leaves the same stacks and produces the same output and the
   same sequence of loads.  Nothing is asked of what is reached inside block.super. *)
Theorem inherit_async_eq fuel w t st :
  Forall (agree_outside_super w) (tr (render_sync fuel w t st)) ->
  erase_run (render_async fuel w t st) = erase_run (render_sync fuel w t st).
Proof.
  intro H. symmetry. revert st H.
  change (Rel (agree_outside_super w) (render_sync fuel w t) (render_async fuel w t)).
  unfold render_sync, render_async, render_with_context_sync, render_with_context_async.
  apply Rel_catch. apply rs_ra; [apply good_outside | reflexivity].
Qed.

(* in particular for data and loaders that do not tell the APIs apart (the property's inputs) *)
Corollary inherit_async_eq_plain fuel w t st :
  (forall x, w_acc w Async x = w_acc w Sync x) -> (forall n, w_ld w Async n = w_ld w Sync n) ->
  erase_run (render_async fuel w t st) = erase_run (render_sync fuel w t st).
Proof.
  intros Ha Hl. apply inherit_async_eq. apply Forall_forall. intros e _ _. destruct e; cbn; auto.
Qed.

(* the two copies of _build_block_stacks on their own, in any context and for any state of the stacks *)
Theorem build_stacks_async_eq fuel w c t st :
  Forall (agree w) (tr (build_stacks_sync fuel w c t st)) ->
  erase_run (build_stacks_async fuel w c t st) = erase_run (build_stacks_sync fuel w c t st).
Proof.
  intro H. symmetry. revert st H.
  change (Rel (agree w) (build_stacks_sync fuel w c t) (build_stacks_async fuel w c t)).
  apply build_sa. intros e _ He. exact He.
Qed.

(* block.super under render_async: the code against the fully asynchronous render.  If the APIs agree on everything
   reached INSIDE block.super during the asynchronous render -- no item that reads differently when awaited, no
   template that only the asynchronous loader has -- rendering the parent block synchronously is not observable. *)
Theorem super_sync_in_async fuel w t st :
  Forall (agree_inside_super w) (tr (render_async fuel w t st)) ->
  erase_run (render_async fuel w t st) = erase_run (render_async_full fuel w t st).
Proof.
  revert st.
  change (Rel (agree_inside_super w) (render_async fuel w t) (render_async_full fuel w t)).
  unfold render_async, render_async_full, render_with_context_async.
  apply Rel_catch. apply ra_rafull; [apply good_inside | reflexivity].
Qed.

(* the fully asynchronous render against the synchronous one: agreement everywhere *)
Theorem full_async_eq fuel w t st :
  Forall (agree w) (tr (render_sync fuel w t st)) ->
  erase_run (render_async_full fuel w t st) = erase_run (render_sync fuel w t st).
Proof.
  intro H. symmetry. revert st H.
  change (Rel (agree w) (render_sync fuel w t) (render_async_full fuel w t)).
  unfold render_sync, render_async_full, render_with_context_sync, render_with_context_async.
  apply Rel_catch. apply rs_rafull; intros e _ He; exact He.
Qed.

(* ------------------------------------------------------------------------ which API every event goes through *)
Definition AllTr {A} (Q : ev -> Prop) (m : M A) : Prop := forall st, Forall Q (tr (m st)).

Lemma AllTr_bind {A B} (Q : ev -> Prop) (m : M A) (f : A -> M B) :
  AllTr Q m -> (forall a, AllTr Q (f a)) -> AllTr Q (mbind m f).
Proof.
  intros Hm Hf st. unfold mbind. specialize (Hm st). destruct (m st) as [[o s1] t1]. cbn [tr snd] in Hm.
  destruct o as [a| |e|]; cbn [tr snd]; try assumption.
  specialize (Hf a s1). destruct (f a s1) as [[r s2] t2]. cbn [tr snd] in *. apply Forall_app. split; assumption.
Qed.
Lemma AllTr_catch (Q : ev -> Prop) (m : M unit) : AllTr Q m -> AllTr Q (catch_stop m).
Proof.
  intros Hm st. unfold catch_stop. specialize (Hm st). destruct (m st) as [[o s1] t1]. destruct o; exact Hm.
Qed.
Lemma AllTr_ret {A} (Q : ev -> Prop) (a : A) : AllTr Q (ret a).  Proof. intro st. constructor. Qed.
Lemma AllTr_fail {A} (Q : ev -> Prop) e : AllTr Q (@fail A e).  Proof. intro st. constructor. Qed.
Lemma AllTr_stop {A} (Q : ev -> Prop) : AllTr Q (@stop A).  Proof. intro st. constructor. Qed.
Lemma AllTr_fuel {A} (Q : ev -> Prop) : AllTr Q (@fuelM A).  Proof. intro st. constructor. Qed.
Lemma AllTr_get (Q : ev -> Prop) : AllTr Q getS.  Proof. intro st. constructor. Qed.
Lemma AllTr_put (Q : ev -> Prop) s : AllTr Q (putS s).  Proof. intro st. constructor. Qed.
Lemma AllTr_emit (Q : ev -> Prop) e : Q e -> AllTr Q (emit e).  Proof. intros H st. repeat constructor. exact H. Qed.

Ltac leaf :=
  first [ apply AllTr_ret | apply AllTr_fail | apply AllTr_stop | apply AllTr_fuel | apply AllTr_get | apply AllTr_put ].

Ltac alltr :=
  repeat first
    [ assumption
    | apply AllTr_ret | apply AllTr_fail | apply AllTr_stop | apply AllTr_fuel | apply AllTr_get | apply AllTr_put
    | apply AllTr_catch
    | apply AllTr_bind; [ | intro ] ].

(* the API an event of level sup must go through under render_async *)
Definition async_mode_ok (e : ev) : Prop :=
  match ev_mode e with None => True | Some m => m = (if ev_sup e then Sync else Async) end.
Definition sync_mode_ok (e : ev) : Prop := ev_mode e <> Some Async.

Section Modes.
  Variable Q : ev -> Prop.
  Variable w : world.

  Lemma load_all m c n : (forall f, Q (ELoad m (c_super c) n f)) -> AllTr Q (load w m c n).
  Proof. intro H. unfold load. destruct (w_ld w m n); alltr; apply AllTr_emit; apply H. Qed.

  Lemma stack_blocks_all t : AllTr Q (stack_blocks t).
  Proof.
    unfold stack_blocks. destruct (Nat.ltb 1 _); [alltr|]. destruct (has_dup _ _); alltr.
  Qed.
  Lemma heap_get_all a : AllTr Q (heap_get a).
  Proof. unfold heap_get. alltr. destruct (nth_error _ _); alltr. Qed.
  Lemma clear_all : AllTr Q clear_stacks.
  Proof. unfold clear_stacks. alltr. Qed.

  Lemma block_all (rec : ctx -> list node -> M unit) c name req body :
    (forall c' ns, c_super c' = c_super c -> AllTr Q (rec c' ns)) -> AllTr Q (block_sync rec c name req body).
  Proof.
    intro H. unfold block_sync. apply AllTr_bind; [apply AllTr_get|]. intro s. destruct (stack_of _ _).
    - destruct req; [apply AllTr_fail|]. apply H. reflexivity.
    - apply AllTr_bind; [apply heap_get_all|]. intro it. destruct (it_required it); [apply AllTr_fail|]. apply H. reflexivity.
  Qed.

  Lemma super_all (rec : ctx -> list node -> M unit) c :
    (forall c' ns, c_super c' = true -> AllTr Q (rec c' ns)) -> AllTr Q (blockdrop_super rec c).
  Proof.
    intro H. unfold blockdrop_super. destruct (c_block c) as [[p|]|]; [|apply AllTr_ret|apply AllTr_ret].
    apply AllTr_bind; [apply heap_get_all|]. intro it. apply H. reflexivity.
  Qed.

  Section OneMode.
    Variable m : mode.
    Variable b : bool.
    Hypothesis Qload : forall n f, Q (ELoad m b n f).

    Lemma stb_all_s c seen t : c_super c = b -> m = Sync -> AllTr Q (stack_template_blocks_sync w c seen t).
    Proof.
      intros Hc Hm. unfold stack_template_blocks_sync. apply AllTr_bind; [apply stack_blocks_all|]. intros [p|]; [|leaf].
      destruct (smem p seen); [leaf|]. apply AllTr_bind; [|intro; leaf]. apply load_all. rewrite Hc, <- Hm. apply Qload.
    Qed.
    Lemma stb_all_a c seen t : c_super c = b -> m = Async -> AllTr Q (stack_template_blocks_async w c seen t).
    Proof.
      intros Hc Hm. unfold stack_template_blocks_async. apply AllTr_bind; [apply stack_blocks_all|]. intros [p|]; [|leaf].
      destruct (smem p seen); [leaf|]. apply AllTr_bind; [|intro; leaf]. apply load_all. rewrite Hc, <- Hm. apply Qload.
    Qed.
    Lemma build_all_s c t : c_super c = b -> m = Sync -> forall fuel, AllTr Q (build_stacks_sync fuel w c t).
    Proof.
      intros Hc Hm fuel. unfold build_stacks_sync. apply AllTr_bind; [apply stb_all_s; assumption|].
      intros [[p t']|]; [|leaf]. generalize [p] as seen. generalize t' at 1 as base. revert t'.
      induction fuel as [|f IH]; intros; cbn [build_loop_sync]; [leaf|].
      apply AllTr_bind; [apply stb_all_s; assumption|]. intros [[p' t'']|]; [apply IH|leaf].
    Qed.
    Lemma build_all_a c t : c_super c = b -> m = Async -> forall fuel, AllTr Q (build_stacks_async fuel w c t).
    Proof.
      intros Hc Hm fuel. unfold build_stacks_async. apply AllTr_bind; [apply stb_all_a; assumption|].
      intros [[p t']|]; [|leaf]. generalize [p] as seen. generalize t' at 1 as base. revert t'.
      induction fuel as [|f IH]; intros; cbn [build_loop_async]; [leaf|].
      apply AllTr_bind; [apply stb_all_a; assumption|]. intros [[p' t'']|]; [apply IH|leaf].
    Qed.
  End OneMode.
End Modes.

(* the synchronous renderer: every event goes through the synchronous API, whatever the context *)
Lemma rs_modes w : forall fuel c ns, AllTr sync_mode_ok (rs fuel w c ns).
Proof.
  induction fuel as [|f IH]; intros c ns; cbn [rs]; [leaf|]. destruct ns as [|n r]; [leaf|]. apply AllTr_bind; [|intro; apply IH].
  destruct n.
  - apply AllTr_emit. discriminate.
  - apply AllTr_emit. discriminate.
  - apply super_all. intros; apply IH.
  - apply block_all. intros; apply IH.
  - unfold extends_sync, render_with_context_sync.
    apply AllTr_bind; [apply (build_all_s sync_mode_ok w Sync (c_super c)); auto; discriminate|]. intro base.
    apply AllTr_bind; [apply AllTr_catch; apply IH|]. intro. apply AllTr_bind; [apply clear_all|]. intro. leaf.
  - unfold include_sync, render_with_context_sync.
    apply AllTr_bind; [apply load_all; discriminate|]. intro t. apply AllTr_catch. apply IH.
Qed.

(* ... and inside block.super every event is marked so *)
Lemma rs_modes_super w : forall fuel c ns, c_super c = true -> AllTr async_mode_ok (rs fuel w c ns).
Proof.
  induction fuel as [|f IH]; intros c ns Hc; cbn [rs]; [leaf|]. destruct ns as [|n r]; [leaf|]. apply AllTr_bind; [|intro; apply IH; assumption].
  destruct n.
  - apply AllTr_emit. exact I.
  - apply AllTr_emit. unfold async_mode_ok. cbn. rewrite Hc. reflexivity.
  - apply super_all. intros; apply IH; assumption.
  - apply block_all. intros; apply IH; congruence.
  - unfold extends_sync, render_with_context_sync.
    apply AllTr_bind; [apply (build_all_s async_mode_ok w Sync true); auto; intros; reflexivity|]. intro base.
    apply AllTr_bind; [apply AllTr_catch; apply IH; assumption|]. intro. apply AllTr_bind; [apply clear_all|]. intro. leaf.
  - unfold include_sync, render_with_context_sync.
    apply AllTr_bind; [apply load_all; intro; unfold async_mode_ok; cbn; rewrite Hc; reflexivity|].
    intro t. apply AllTr_catch. apply IH. assumption.
Qed.

Lemma ra_modes w : forall fuel c ns, c_super c = false -> AllTr async_mode_ok (ra fuel w c ns).
Proof.
  induction fuel as [|f IH]; intros c ns Hc; cbn [ra]; [leaf|]. destruct ns as [|n r]; [leaf|]. apply AllTr_bind; [|intro; apply IH; assumption].
  destruct n.
  - apply AllTr_emit. exact I.
  - apply AllTr_emit. unfold async_mode_ok. cbn. rewrite Hc. reflexivity.
  - apply super_all. intros; apply rs_modes_super; assumption.
  - change (block_async (ra f w) c name required body) with (block_sync (ra f w) c name required body).
    apply block_all. intros; apply IH; congruence.
  - unfold extends_async, render_with_context_async.
    apply AllTr_bind; [apply (build_all_a async_mode_ok w Async false); auto; intros; reflexivity|]. intro base.
    apply AllTr_bind; [apply AllTr_catch; apply IH; assumption|]. intro. apply AllTr_bind; [apply clear_all|]. intro. leaf.
  - unfold include_async, render_with_context_async.
    apply AllTr_bind; [apply load_all; intro; unfold async_mode_ok; cbn; rewrite Hc; reflexivity|].
    intro t. apply AllTr_catch. apply IH. assumption.
Qed.

(* render: only the synchronous API.  render_async: the asynchronous API everywhere except while a parent block is
   rendered through block.super, where it is the synchronous API -- for every world, template and state. *)
Theorem sync_modes fuel w t st : Forall sync_mode_ok (tr (render_sync fuel w t st)).
Proof. unfold render_sync, render_with_context_sync. apply AllTr_catch. apply rs_modes. Qed.

Theorem async_modes fuel w t st : Forall async_mode_ok (tr (render_async fuel w t st)).
Proof. unfold render_async, render_with_context_async. apply AllTr_catch. apply ra_modes. reflexivity. Qed.

(* ------------------------------------------------------------------------------------------ witnesses *)
(* child: {% extends 'base' %}{% block c %}{{ d.x }}{{ block.super }}{% endblock %}   base: {% block c %}{{ d.x }}{% endblock %} *)
Definition kx : str := ilit "x".
Definition wit_templates : list (str * template) :=
  [(ilit "child", [NExtends (ilit "base"); NBlock (ilit "c") false [NVar kx; NSuper]]);
   (ilit "base", [NBlock (ilit "c") false [NVar kx]])].
Definition wit_child : template := [NExtends (ilit "base"); NBlock (ilit "c") false [NVar kx; NSuper]].
(* an object whose item reads 1 when awaited and 0 otherwise *)
Definition wit_world : world :=
  {| w_ld := fun _ n => alookup n wit_templates; w_acc := fun m _ => match m with Sync => 0%N | Async => 1%N end |}.

(* such an object is outside the property: render and render_async print different things already in the child ... *)
Theorem inherit_async_eq_guard_needed :
  erase_run (render_async 20 wit_world wit_child store0) <> erase_run (render_sync 20 wit_world wit_child store0).
Proof. vm_compute. discriminate. Qed.

(* ... and under render_async the SAME item reads 1 in the child and 0 in the parent block reached through block.super,
   where the fully asynchronous render reads 1 both times *)
Theorem super_sync_in_async_guard_needed :
  out_of (tr (render_async 20 wit_world wit_child store0)) = [OVal Async kx; OVal Sync kx] /\
  erase_run (render_async 20 wit_world wit_child store0) <> erase_run (render_async_full 20 wit_world wit_child store0).
Proof. split; [vm_compute; reflexivity | vm_compute; discriminate]. Qed.

(* a template only the asynchronous loader has, included from a parent block: found by render_async when the block is
   rendered directly, TemplateNotFound when it is reached through block.super *)
Definition wit2_templates : list (str * template) :=
  [(ilit "base", [NBlock (ilit "c") false [NInclude (ilit "p")]])].
Definition wit2_child : template := [NExtends (ilit "base"); NBlock (ilit "c") false [NSuper]].
Definition wit2_world : world :=
  {| w_ld := fun m n => match m with
                        | Async => if str_eqb n (ilit "p") then Some [NText 1] else alookup n wit2_templates
                        | Sync => alookup n wit2_templates
                        end;
     w_acc := fun _ _ => 0%N |}.
Theorem super_loads_synchronously :
  fst (fst (render_async 20 wit2_world wit2_child store0)) = Fail ENotFound /\
  fst (fst (render_async_full 20 wit2_world wit2_child store0)) = Val tt /\
  fst (fst (render_async 20 wit2_world [NBlock (ilit "c") false [NInclude (ilit "p")]] store0)) = Val tt.
Proof. vm_compute. repeat split. Qed.

(* the guards are satisfiable, with block.super rendered: ordinary data *)
Definition plain_world : world := {| w_ld := fun _ n => alookup n wit_templates; w_acc := fun _ _ => 7%N |}.
Example guards_hold :
  Forall (agree_outside_super plain_world) (tr (render_sync 20 plain_world wit_child store0)) /\
  Forall (agree_inside_super plain_world) (tr (render_async 20 plain_world wit_child store0)) /\
  out_of (tr (render_async 20 plain_world wit_child store0)) = [OVal Async kx; OVal Sync kx].
Proof.
  split; [|split]; [| |vm_compute; reflexivity]; apply Forall_forall; intros e _ _; destruct e; cbn; reflexivity.
Qed.
