(* Proofs for C09: the generic block parser always advances; rendering with the context-depth bookkeeping never needs more
   than a bounded recursion depth; self-recursive partials end in ContextDepthError and circular extends chains in
   TemplateInheritanceError; the frame arithmetic. *)
From Coq Require Import List Bool Arith Lia.
From LiquidVerif Require Import Prelude TagTree Terminate.
Import ListNotations.

(* ------------------------------------------------------------------------------------------------ TagTree.parse_until *)
Definition goodT {A} (n : nat) (x : res (A * list ttok)) : Prop :=
  match x with Ok (_, rest) => List.length rest <= n | Err _ => True | OutOfFuel => False end.

Lemma goodT_mono {A} n n' (x : res (A * list ttok)) : n <= n' -> goodT n x -> goodT n' x.
Proof. destruct x as [[a r]| |]; simpl; lia. Qed.

Section TagTreeProgress.
  Variable kind_of : str -> tagkind.

  Lemma psections_good rec secs F :
    (forall ts', List.length ts' < F -> goodT (List.length ts') (rec ts')) ->
    forall g ts, List.length ts < g -> List.length ts <= F -> goodT (List.length ts) (psections rec secs g ts).
  Proof.
    intros Hrec. induction g as [|g IH]; intros ts Hg HF; [lia|].
    simpl. destruct ts as [|[s|s|s|e|sn se] r']; simpl; try lia.
    destruct (mem sn secs); [|simpl; lia].
    simpl in Hg, HF. pose proof (Hrec r' ltac:(lia)) as H1.
    destruct (rec r') as [[sb rest]|e|]; simpl in *; [|exact I|contradiction].
    pose proof (IH rest ltac:(lia) ltac:(lia)) as H2.
    destruct (psections rec secs g rest) as [[more rest2]|e|]; simpl in *; [lia|exact I|contradiction].
  Qed.

  Lemma parse_until_good : forall f stops ts, List.length ts < f -> goodT (List.length ts) (parse_until kind_of f stops ts).
  Proof.
    induction f as [|f IH]; intros stops ts Hf; [lia|].
    assert (Hrec : forall stops' r, List.length r < f ->
                   goodT (S (List.length r)) (do x <- parse_until kind_of f stops' r; Ok (@nil node, snd x))).
    { intros stops' r Hr. pose proof (IH stops' r Hr) as H. destruct (parse_until kind_of f stops' r) as [[a b]|e|]; simpl in *; auto. }
    destruct ts as [|t r]; [simpl; lia|]. simpl in Hf.
    assert (Hsimple : forall (k : node), goodT (S (List.length r)) (do x <- parse_until kind_of f stops r; Ok (k :: fst x, snd x))).
    { intros k. pose proof (IH stops r ltac:(lia)) as H. destruct (parse_until kind_of f stops r) as [[a b]|e|]; simpl in *; auto. }
    destruct t as [s|s|s|e|n e]; simpl; try apply Hsimple.
    destruct (mem n stops); [simpl; lia|].
    destruct (kind_of n) as [secs| |]; [|apply Hsimple|exact I].
    pose proof (IH (endname n :: secs) r ltac:(lia)) as Hb.
    destruct (parse_until kind_of f (endname n :: secs) r) as [[b rest]|e0|]; simpl in Hb |- *; [|exact I|contradiction].
    pose proof (psections_good (parse_until kind_of f (endname n :: secs)) secs f
                  (fun ts' H => IH _ ts' H) f rest ltac:(lia) ltac:(lia)) as Hs.
    destruct (psections (parse_until kind_of f (endname n :: secs)) secs f rest) as [[ss rest2]|e0|]; simpl in Hs |- *; [|exact I|contradiction].
    destruct rest2 as [|[s|s|s|e1|en e1] r'']; try exact I.
    destruct (str_eqb en (endname n)); [|exact I].
    simpl in Hs. pose proof (IH stops r'' ltac:(lia)) as Hx.
    destruct (parse_until kind_of f stops r'') as [[a b']|e2|]; simpl in *; auto. lia.
  Qed.

  Theorem parse_until_progress f stops ts : List.length ts < f -> parse_until kind_of f stops ts <> OutOfFuel.
  Proof. intros H E. pose proof (parse_until_good f stops ts H) as G. rewrite E in G. exact G. Qed.

  Theorem parse_template_progress ts : parse_template kind_of ts <> OutOfFuel.
  Proof.
    unfold parse_template. pose proof (parse_until_good (S (List.length ts)) [] ts ltac:(lia)) as G.
    destruct (parse_until kind_of (S (List.length ts)) [] ts) as [[a b]|e|]; simpl in *; try discriminate; [|contradiction].
    destruct b; discriminate.
  Qed.
End TagTreeProgress.

(* ------------------------------------------------------------------------------------------------ rendering is bounded *)
Lemma tdepth_block b : tdepth (TBlock b) = S (ldepth b).
Proof. reflexivity. Qed.
Lemma tdepth_for k b : tdepth (TFor k b) = S (ldepth b).
Proof. reflexivity. Qed.
Lemma tdepth_call b : tdepth (TCall b) = S (ldepth b).
Proof. reflexivity. Qed.

Lemma ldepth_in x ns : In x ns -> tdepth x <= ldepth ns.
Proof. induction ns as [|y r IH]; simpl; [tauto|]. intros [->|H]; [lia|]. specialize (IH H). lia. Qed.

Lemma lddepth_nth ld k body : nth_error ld k = Some body -> ldepth body <= lddepth ld.
Proof.
  revert k. induction ld as [|t r IH]; intros [|k]; simpl; try discriminate.
  - intros H; inversion H; subst. lia.
  - intros H. specialize (IH _ H). lia.
Qed.

Lemma mu_for lim sz cd : mu lim (S sz) cd <= mu lim sz cd.
Proof. unfold mu. lia. Qed.
Lemma mu_le_sz lim sz sz' cd : sz <= sz' -> mu lim sz' cd <= mu lim sz cd.
Proof. unfold mu. lia. Qed.
Lemma mu_include lim sz cd : S sz <= lim -> mu lim (S (S sz)) cd + 2 <= mu lim sz cd.
Proof. unfold mu. lia. Qed.
Lemma mu_copy lim sz sz' cd : cd <= lim -> 4 <= sz' -> mu lim sz' (S cd) + 1 <= mu lim sz cd.
Proof.
  intros H H4. unfold mu. replace (lim + 2 - cd) with (S (lim + 2 - S cd)) by lia. rewrite Nat.mul_succ_l. lia.
Qed.

Section Bounded.
  Variables (lax : bool) (lim : nat) (c : costs) (ld : loader).
  Let D := lddepth ld.
  Definition need (sz cd : nat) (d : nat) : nat := d + 1 + (D + 2) * mu lim sz cd.

  Lemma andthen_some a k : a <> None -> (k tt <> None) -> andthen a k <> None.
  Proof.
    unfold andthen. destruct a as [x|]; [|congruence]. intros _ Hk. destruct (raised x); [discriminate|].
    destruct (k tt); [discriminate|congruence].
  Qed.

  Section Lists.
    Variable ex : nat -> nat -> nat -> tnode -> option out.
    Lemma blk_some sz cd fr ns : (forall x, In x ns -> ex sz cd fr x <> None) -> blk ex sz cd fr ns <> None.
    Proof.
      induction ns as [|x r IH]; simpl; [discriminate|]. intros H.
      apply andthen_some; [apply H; auto|apply IH; auto].
    Qed.
    Lemma top_some sz cd fr ns : (forall x, In x ns -> ex sz cd fr x <> None) -> top lax ex sz cd fr ns <> None.
    Proof.
      induction ns as [|x r IH]; simpl; [discriminate|]. intros H.
      apply andthen_some; [|apply IH; auto].
      pose proof (H x (or_introl eq_refl)). destruct (ex sz cd fr x); [discriminate|congruence].
    Qed.
    Lemma iter_some k sz cd fr ns : (forall x, In x ns -> ex sz cd fr x <> None) -> iter ex k sz cd fr ns <> None.
    Proof.
      intros H. induction k as [|k IH]; simpl; [discriminate|].
      apply andthen_some; [apply blk_some; auto|exact IH].
    Qed.
  End Lists.

  Lemma need_mono sz cd sz' cd' d d' extra :
    d' + extra <= d + (D + 2) * mu lim sz cd - (D + 2) * mu lim sz' cd' ->
    (D + 2) * mu lim sz' cd' <= (D + 2) * mu lim sz cd ->
    need sz' cd' d' + extra <= need sz cd d.
  Proof. unfold need. lia. Qed.

  (* the interpreter never needs more recursion depth than [need]: it is cut off by the depth limits *)
  Lemma exec_total : forall f sz cd fr n, need sz cd (tdepth n) <= f -> exec lax lim c ld f sz cd fr n <> None.
  Proof.
    induction f as [|f IH]; intros sz cd fr n Hf; [unfold need in Hf; lia|].
    simpl. unfold step.
    assert (Hchild : forall sz' cd' fr' body, S (ldepth body) + (D + 2) * mu lim sz' cd' <= tdepth n + (D + 2) * mu lim sz cd ->
                     forall x, In x body -> exec lax lim c ld f sz' cd' fr' x <> None).
    { intros sz' cd' fr' body Hb x Hx. apply IH. pose proof (ldepth_in _ _ Hx). unfold need in *. lia. }
    assert (Htpl : forall sz' cd' fr' body, ldepth body <= D -> (D + 2) * mu lim sz' cd' + (D + 2) <= (D + 2) * mu lim sz cd ->
                   forall x, In x body -> exec lax lim c ld f sz' cd' fr' x <> None).
    { intros sz' cd' fr' body Hb Hm x Hx. apply IH. pose proof (ldepth_in _ _ Hx). unfold need in *. lia. }
    destruct n as [|body|k body|name|name|body].
    - discriminate.
    - apply blk_some. apply Hchild. rewrite tdepth_block. lia.
    - destruct (Nat.ltb lim sz) eqn:E; [discriminate|]. apply iter_some. apply Hchild.
      rewrite tdepth_for. pose proof (mu_for lim sz cd). pose proof (Nat.mul_le_mono_l _ _ (D + 2) H). lia.
    - destruct (Nat.ltb 0 cd); [discriminate|].
      destruct (nth_error ld name) as [body|] eqn:En; [|discriminate].
      destruct (Nat.ltb lim sz) eqn:E1; [discriminate|]. unfold rwc.
      destruct (Nat.ltb lim (S sz)) eqn:E2; [discriminate|].
      apply Nat.ltb_ge in E2. apply top_some. apply Htpl; [eapply lddepth_nth; eauto|].
      pose proof (mu_include lim sz cd E2). pose proof (Nat.mul_le_mono_l _ _ (D + 2) H).
      rewrite Nat.mul_add_distr_l in H0. lia.
    - destruct (nth_error ld name) as [body|] eqn:En; [|discriminate].
      destruct (Nat.ltb lim cd) eqn:E1; [discriminate|]. apply Nat.ltb_ge in E1. unfold rwc.
      destruct (Nat.ltb lim initial_scope) eqn:E2; [discriminate|].
      apply top_some. apply Htpl; [eapply lddepth_nth; eauto|].
      pose proof (mu_copy lim sz (S initial_scope) cd E1 ltac:(unfold initial_scope; lia)).
      pose proof (Nat.mul_le_mono_l _ _ (D + 2) H). rewrite Nat.mul_add_distr_l in H0. lia.
    - destruct (Nat.ltb lim cd) eqn:E1; [discriminate|]. apply Nat.ltb_ge in E1.
      apply blk_some. apply Hchild. rewrite tdepth_call.
      pose proof (mu_copy lim sz initial_scope cd E1 ltac:(unfold initial_scope; lia)).
      pose proof (Nat.mul_le_mono_l _ _ (D + 2) H). rewrite Nat.mul_add_distr_l in H0. lia.
  Qed.

  Theorem render_bounded name : render_template lax lim c ld (fuel_bound lim ld) name <> None.
  Proof.
    unfold render_template. destruct (nth_error ld name) as [body|] eqn:En; [|discriminate].
    unfold rwc. destruct (Nat.ltb lim initial_scope); [discriminate|].
    apply top_some. intros x Hx. apply exec_total.
    pose proof (ldepth_in _ _ Hx). pose proof (lddepth_nth _ _ _ En). fold D in H0.
    pose proof (mu_le_sz lim 0 (S initial_scope) 0 ltac:(lia)). pose proof (Nat.mul_le_mono_l _ _ (D + 2) H1).
    unfold need, fuel_bound. fold D. rewrite Nat.mul_add_distr_l. lia.
  Qed.
End Bounded.

(* ------------------------------------------------------------------------------------------------ recursion is cut off *)
(* a call that can only end by running out of fuel or by raising ContextDepthError *)
Definition cut (r : option out) : Prop := match r with None => True | Some o => raised o = Some EContextDepth end.

Lemma cut_andthen1 a k : cut a -> cut (andthen a k).
Proof. unfold andthen. destruct a as [x|]; simpl; auto. intros H. rewrite H. exact H. Qed.

Lemma cut_andthen2 x k : raised x = None -> cut (k tt) -> cut (andthen (Some x) k).
Proof. unfold andthen. intros ->. destruct (k tt); simpl; auto. Qed.

Lemma handle_top_strict a : handle_top false a = a.
Proof. unfold handle_top. destruct (raised a); reflexivity. Qed.

Lemma option_map_handle_strict r : option_map (handle_top false) r = r.
Proof. destruct r; simpl; [rewrite handle_top_strict|]; reflexivity. Qed.

Section Cut.
  Variables (lim : nat) (c : costs) (k : rkind) (d copies : nat).
  Local Notation ld := (self_family k d (S copies)).
  Local Notation body := (TText :: nest d (repeat (rtag k) (S copies))).
  Local Notation ex := (exec false lim c ld).
  (* the states the family can reach: an include family never copies the context *)
  Definition reach (cd : nat) : Prop := k = KInclude -> cd = 0.

  Lemma ld_body : nth_error ld 0 = Some body.
  Proof. reflexivity. Qed.

  (* the nested blocks around the recursive tag pass the cut on *)
  Lemma blk_nest_cut : forall dd f sz cd fr,
    (forall f' fr', f' <= f -> cut (ex f' sz cd fr' (rtag k))) -> cut (blk (ex f) sz cd fr (nest dd (repeat (rtag k) (S copies)))).
  Proof.
    induction dd as [|dd IH]; intros f sz cd fr H; simpl.
    - apply cut_andthen1. apply H. lia.
    - apply cut_andthen1. destruct f as [|f]; [exact I|]. simpl. apply IH. intros f' fr' Hf. apply H. lia.
  Qed.

  Lemma top_nest_cut dd0 f sz cd fr :
    (forall f' fr', f' <= f -> cut (ex f' sz cd fr' (rtag k))) -> cut (top false (ex f) sz cd fr (nest dd0 (repeat (rtag k) (S copies)))).
  Proof.
    intros H. destruct dd0 as [|dd]; simpl; rewrite option_map_handle_strict; apply cut_andthen1.
    - apply H. lia.
    - destruct f as [|f]; [exact I|]. simpl. apply blk_nest_cut. intros f' fr' Hf. apply H. lia.
  Qed.

  Lemma top_body_cut f sz cd fr :
    (forall f' fr', f' <= f -> cut (ex f' sz cd fr' (rtag k))) -> cut (top false (ex f) sz cd fr body).
  Proof.
    intros H. cbn [top]. rewrite option_map_handle_strict.
    assert (E : ex f sz cd fr TText = None \/ exists p, ex f sz cd fr TText = Some (ok 1 p)) by (destruct f; simpl; eauto).
    destruct E as [-> | (p & ->)]; [exact I|]. apply cut_andthen2; [reflexivity|]. apply top_nest_cut. exact H.
  Qed.

  (* the recursive tag itself, at any scope size and any reachable copy depth *)
  Lemma rtag_cut : forall f sz cd fr, reach cd -> cut (ex f sz cd fr (rtag k)).
  Proof.
    induction f as [f IH] using lt_wf_ind. intros sz cd fr Hr. destruct f as [|f]; [exact I|].
    unfold reach in Hr. assert (Hk : k = KInclude \/ k = KRender) by (clear; destruct k; auto).
    destruct Hk as [Ek|Ek].
    - replace (rtag k) with (TInclude 0) by (rewrite Ek; reflexivity). cbn [exec step].
      rewrite (Hr Ek). change (Nat.ltb 0 0) with false. cbv iota. rewrite ld_body. destruct (Nat.ltb lim sz); [exact (eq_refl _)|]. unfold rwc.
      destruct (Nat.ltb lim (S sz)); [exact (eq_refl _)|]. apply top_body_cut. intros f' fr' Hf. apply IH; [lia|]. intros _. reflexivity.
    - replace (rtag k) with (TRender 0) by (rewrite Ek; reflexivity). cbn [exec step].
      rewrite ld_body. destruct (Nat.ltb lim cd); [exact (eq_refl _)|]. unfold rwc.
      destruct (Nat.ltb lim initial_scope); [exact (eq_refl _)|]. apply top_body_cut. intros f' fr' Hf. apply IH; [lia|].
      intros E. rewrite Ek in E. discriminate.
  Qed.

  (* rendering a template that includes / renders itself (once or several times, at any block depth) under strict mode
     ends in ContextDepthError, for every context depth limit *)
  Theorem self_recursion_cut :
    exists o, render_template false lim c ld (fuel_bound lim ld) 0 = Some o /\ raised o = Some EContextDepth.
  Proof.
    pose proof (render_bounded false lim c ld 0) as Hb.
    assert (Hc : cut (render_template false lim c ld (fuel_bound lim ld) 0)).
    { unfold render_template. rewrite ld_body. unfold rwc. destruct (Nat.ltb lim initial_scope); [exact (eq_refl _)|].
      apply top_body_cut. intros f' fr' _. apply rtag_cut. intros _. reflexivity. }
    destruct (render_template false lim c ld (fuel_bound lim ld) 0) as [o|]; [|congruence]. exists o. split; [reflexivity|exact Hc].
  Qed.
End Cut.

(* ------------------------------------------------------------------------------------------------ the extends chain *)
Lemma nmem_in x l : nmem x l = true <-> In x l.
Proof.
  induction l as [|y r IH]; simpl; [split; [discriminate|tauto]|].
  rewrite orb_true_iff, IH, Nat.eqb_eq. split; intros [H|H]; auto.
Qed.

Lemma bounded_nodup_length (l : list nat) n : NoDup l -> (forall x, In x l -> x < n) -> List.length l <= n.
Proof.
  intros Hn Hb. rewrite <- (seq_length n 0). apply NoDup_incl_length; auto.
  intros x Hx. apply in_seq. specialize (Hb x Hx). lia.
Qed.

Lemma extends_chain_total parent : forall f seen cur,
  NoDup seen -> (forall x, In x seen -> x < List.length parent) -> List.length parent < f + List.length seen ->
  extends_chain f parent seen cur <> OutOfFuel.
Proof.
  induction f as [|f IH]; intros seen cur Hn Hb Hf.
  - pose proof (bounded_nodup_length _ _ Hn Hb). simpl in Hf. lia.
  - simpl. destruct (nth_error parent cur) as [[p|]|]; try discriminate.
    destruct (nmem p seen) eqn:Em; [discriminate|].
    destruct (nth_error parent p) eqn:Ep; [|discriminate].
    assert (Hp : p < List.length parent) by (apply nth_error_Some; congruence).
    apply IH.
    + constructor; auto. intros Hin. apply nmem_in in Hin. congruence.
    + intros x [<-|Hx]; auto.
    + simpl. lia.
Qed.

(* the walk up the extends chain always finishes *)
Theorem base_of_total parent leaf : base_of parent leaf <> OutOfFuel.
Proof. unfold base_of. apply extends_chain_total; simpl; [constructor|tauto|lia]. Qed.

(* ... in a template without an extends tag, or in one of two errors *)
Lemma extends_chain_result parent : forall f seen cur b,
  extends_chain f parent seen cur = Ok b -> nth_error parent b = Some None.
Proof.
  induction f as [|f IH]; intros seen cur b; simpl; [discriminate|].
  destruct (nth_error parent cur) as [[p|]|] eqn:E; try discriminate.
  - destruct (nmem p seen); [discriminate|]. destruct (nth_error parent p); [|discriminate]. apply IH.
  - intros H; inversion H; subst. exact E.
Qed.

Lemma extends_chain_errors parent : forall f seen cur e,
  extends_chain f parent seen cur = Err e -> e = EInherit \/ e = ENotFound.
Proof.
  induction f as [|f IH]; intros seen cur e; simpl; [discriminate|].
  destruct (nth_error parent cur) as [[p|]|]; try discriminate.
  - destruct (nmem p seen); [intros H; inversion H; auto|]. destruct (nth_error parent p); [apply IH|intros H; inversion H; auto].
  - intros H; inversion H; auto.
Qed.

Theorem base_of_result parent leaf :
  match base_of parent leaf with
  | Ok b => nth_error parent b = Some None
  | Err e => e = EInherit \/ e = ENotFound
  | OutOfFuel => False
  end.
Proof.
  pose proof (base_of_total parent leaf). unfold base_of in *.
  destruct (extends_chain (S (length parent)) parent [] leaf) eqn:E; [eapply extends_chain_result|eapply extends_chain_errors|congruence]; eauto.
Qed.

(* when every template extends an existing template, every chain is circular and ends in TemplateInheritanceError *)
Theorem circular_extends parent leaf :
  (forall k, k < List.length parent -> exists p, nth_error parent k = Some (Some p) /\ p < List.length parent) ->
  leaf < List.length parent -> base_of parent leaf = Err EInherit.
Proof.
  intros Hall Hleaf.
  assert (H : forall f seen cur, cur < List.length parent ->
              extends_chain f parent seen cur = OutOfFuel \/ extends_chain f parent seen cur = Err EInherit).
  { induction f as [|f IH]; intros seen cur Hc; simpl; [auto|].
    destruct (Hall cur Hc) as (p & -> & Hp). destruct (nmem p seen); [auto|].
    destruct (nth_error parent p) eqn:Ep; [apply IH; auto|]. apply nth_error_None in Ep. lia. }
  destruct (H (S (List.length parent)) [] leaf Hleaf) as [E|E]; [|exact E].
  exfalso. exact (base_of_total parent leaf E).
Qed.

(* ------------------------------------------------------------------------------------------------ the Python stack *)
(* A template that includes or renders itself from inside any number of nested blocks ends in ContextDepthError in strict
   mode whatever the size of the Python stack: either the depth limit is reached first, or the overflow is converted. *)
Theorem within_stack convert_is_on stack lim cs k d :
  convert_is_on = true -> self_outcome convert_is_on stack lim cs k d = TErr EContextDepth.
Proof.
  intros ->. unfold self_outcome. destruct (Nat.ltb stack (frames_needed cs lim k d)); [reflexivity|].
  destruct (self_recursion_cut lim cs k d 0) as (o & -> & ->). reflexivity.
Qed.

Theorem within_stack_on stack lim cs k d : self_outcome true stack lim cs k d = TErr EContextDepth.
Proof. apply within_stack. reflexivity. Qed.

(* Before the repair: with the default limits (context depth 30, block nesting 30) and the frame costs measured on CPython,
   a template that includes itself from inside 15 nested if blocks -- half of what the nesting limit allows -- needs more
   frames than the recursion limit provides before the depth limit is reached, and the RecursionError escaped. *)
Theorem within_stack_old_refuted :
  exists d, d <= 30 /\ recursion_limit < frames_needed cpython_sync 30 KInclude d /\
            self_outcome_old recursion_limit 30 cpython_sync KInclude d = TErr ERecursionError.
Proof. exists 15. split; [lia|]. split; [vm_compute; lia|vm_compute; reflexivity]. Qed.

Theorem within_stack_old_refuted_render :
  exists d, d <= 30 /\ self_outcome_old recursion_limit 30 cpython_sync KRender d = TErr ERecursionError.
Proof. exists 6. split; [lia|]. vm_compute. reflexivity. Qed.

(* ------------------------------------------------------------------------------------------------ lax mode: the work doubles per level *)
Definition lax_texts (lim copies : nat) (k : rkind) : option N :=
  let ld := self_family k 0 copies in
  match render_template true lim cpython_sync ld (fuel_bound lim ld) 0 with
  | Some o => match raised o with None => Some (texts o) | Some _ => None end
  | None => None
  end.

(* a template that renders itself twice: 2^(limit + 2) - 1 characters, checked for the limits 4..12 *)
Theorem lax_work_exponential :
  forall lim, 4 <= lim <= 12 -> lax_texts lim 2 KRender = Some (2 ^ (N.of_nat lim + 2) - 1)%N.
Proof.
  intros lim H.
  assert (A : forallb (fun lim => option_eqb N.eqb (lax_texts lim 2 KRender) (Some (2 ^ (N.of_nat lim + 2) - 1)%N)) (seq 4 9) = true)
    by (vm_compute; reflexivity).
  rewrite forallb_forall in A. specialize (A lim ltac:(apply in_seq; lia)).
  destruct (lax_texts lim 2 KRender) as [x|]; simpl in A; [|discriminate]. apply N.eqb_eq in A. congruence.
Qed.

(* ------------------------------------------------------------------------------------------------ the frames are bounded by the limits *)
Definition kmax (c : costs) : nat :=
  Nat.max (fr_block c) (Nat.max (fr_for c) (Nat.max (fr_include c) (Nat.max (fr_render c) (Nat.max (fr_call c) (fr_leaf c))))).

Lemma andthen_peak a k B :
  (forall x, a = Some x -> peak x <= B) -> (forall y, k tt = Some y -> peak y <= B) -> forall o, andthen a k = Some o -> peak o <= B.
Proof.
  unfold andthen. intros Ha Hk o. destruct a as [x|]; [|discriminate]. specialize (Ha x eq_refl).
  destruct (raised x); [intros H; inversion H; subst; auto|].
  destruct (k tt) as [y|] eqn:E; [|discriminate]. specialize (Hk y eq_refl). intros H; inversion H; subst. simpl. lia.
Qed.

Lemma bound_step K fr cost dx d M' M :
  cost <= K -> dx + 1 <= d -> M' <= M -> (fr + cost) + K * (dx + 1 + M') <= fr + K * (d + 1 + M).
Proof.
  intros Hc Hd HM. assert (H : K * (dx + 1 + M' + 1) <= K * (d + 1 + M)) by (apply Nat.mul_le_mono_l; lia).
  rewrite Nat.mul_add_distr_l, Nat.mul_1_r in H. lia.
Qed.

Lemma bound_step2 K fr cost dx D d M' M :
  cost <= K -> dx <= D -> M' + (D + 2) <= M -> (fr + cost) + K * (dx + 1 + M') <= fr + K * (d + 1 + M).
Proof.
  intros Hc Hd HM. assert (H : K * (dx + 1 + M' + 1) <= K * (d + 1 + M)) by (apply Nat.mul_le_mono_l; lia).
  rewrite Nat.mul_add_distr_l, Nat.mul_1_r in H. lia.
Qed.

Section StackBound.
  Variables (lax : bool) (lim : nat) (c : costs) (ld : loader).
  Let K := kmax c.

  Section Lists.
    Variable ex : nat -> nat -> nat -> tnode -> option out.
    Variables (sz cd fr B : nat) (ns : list tnode).
    Hypothesis H : forall x o, In x ns -> ex sz cd fr x = Some o -> peak o <= B.

    Lemma blk_peak : forall o, blk ex sz cd fr ns = Some o -> peak o <= B.
    Proof.
      revert H. induction ns as [|x r IH]; intros H o; simpl.
      - intros E; inversion E; simpl; lia.
      - apply andthen_peak; [intros y Hy; eapply H; eauto; left; reflexivity|].
        intros y. apply IH. intros x' o' Hx. apply H. right; exact Hx.
    Qed.

    Lemma top_peak : forall o, top lax ex sz cd fr ns = Some o -> peak o <= B.
    Proof.
      revert H. induction ns as [|x r IH]; intros H o; simpl.
      - intros E; inversion E; simpl; lia.
      - apply andthen_peak.
        + intros y Hy. destruct (ex sz cd fr x) as [a|] eqn:E; [|discriminate]. simpl in Hy. inversion Hy; subst.
          pose proof (H x a (or_introl eq_refl) E). unfold handle_top. destruct (raised a); [destruct (lax && is_liquid e)|]; simpl; auto.
        + intros y. apply IH. intros x' o' Hx. apply H. right; exact Hx.
    Qed.

    Lemma iter_peak k : forall o, iter ex k sz cd fr ns = Some o -> peak o <= B.
    Proof.
      induction k as [|k IH]; intros o; simpl.
      - intros E; inversion E; simpl; lia.
      - apply andthen_peak; [apply blk_peak|exact IH].
    Qed.
  End Lists.

  (* every character is written with at most  fr + K * need  frames in use, where need is the recursion depth bound *)
  Lemma exec_peak : forall f sz cd fr n o,
    exec lax lim c ld f sz cd fr n = Some o -> peak o <= fr + K * need lim ld sz cd (tdepth n).
  Proof.
    assert (Kb : fr_block c <= K /\ fr_for c <= K /\ fr_include c <= K /\ fr_render c <= K /\ fr_call c <= K /\ fr_leaf c <= K)
      by (unfold K, kmax; lia).
    induction f as [|f IH]; intros sz cd fr n o; [discriminate|].
    simpl. unfold step.
    assert (Hchild : forall sz' cd' fr' body B, (forall x, In x body -> fr' + K * need lim ld sz' cd' (tdepth x) <= B) ->
                     forall x o', In x body -> exec lax lim c ld f sz' cd' fr' x = Some o' -> peak o' <= B).
    { intros sz' cd' fr' body B HB x o' Hx E. specialize (IH _ _ _ _ _ E). specialize (HB x Hx). lia. }
    destruct n as [|body|k body|name|name|body].
    - intros E; inversion E; subst; simpl. unfold need. nia.
    - apply blk_peak. apply Hchild. intros x Hx. pose proof (ldepth_in _ _ Hx). rewrite tdepth_block. unfold need.
      apply bound_step; lia.
    - destruct (Nat.ltb lim sz); [intros E; inversion E; simpl; lia|]. apply iter_peak. apply Hchild.
      intros x Hx. pose proof (ldepth_in _ _ Hx). rewrite tdepth_for. pose proof (mu_for lim sz cd). unfold need.
      apply bound_step; [lia|lia|apply Nat.mul_le_mono_l; lia].
    - destruct (Nat.ltb 0 cd); [intros E; inversion E; simpl; lia|].
      destruct (nth_error ld name) as [body|] eqn:En; [|intros E; inversion E; simpl; lia].
      destruct (Nat.ltb lim sz); [intros E; inversion E; simpl; lia|]. unfold rwc.
      destruct (Nat.ltb lim (S sz)) eqn:E2; [intros E; inversion E; simpl; lia|]. apply Nat.ltb_ge in E2.
      apply top_peak. apply Hchild. intros x Hx. pose proof (ldepth_in _ _ Hx). pose proof (lddepth_nth _ _ _ En).
      pose proof (mu_include lim sz cd E2). unfold need. simpl tdepth.
      apply bound_step2 with (D := lddepth ld); [lia|lia|].
      pose proof (Nat.mul_le_mono_l _ _ (lddepth ld + 2) H1). rewrite Nat.mul_add_distr_l in H2. lia.
    - destruct (nth_error ld name) as [body|] eqn:En; [|intros E; inversion E; simpl; lia].
      destruct (Nat.ltb lim cd) eqn:E1; [intros E; inversion E; simpl; lia|]. apply Nat.ltb_ge in E1. unfold rwc.
      destruct (Nat.ltb lim initial_scope); [intros E; inversion E; simpl; lia|].
      apply top_peak. apply Hchild. intros x Hx. pose proof (ldepth_in _ _ Hx). pose proof (lddepth_nth _ _ _ En).
      pose proof (mu_copy lim sz (S initial_scope) cd E1 ltac:(unfold initial_scope; lia)). unfold need. simpl tdepth.
      apply bound_step2 with (D := lddepth ld); [lia|lia|].
      pose proof (Nat.mul_le_mono_l _ _ (lddepth ld + 2) H1). rewrite Nat.mul_add_distr_l in H2. lia.
    - destruct (Nat.ltb lim cd) eqn:E1; [intros E; inversion E; simpl; lia|]. apply Nat.ltb_ge in E1.
      apply blk_peak. apply Hchild. intros x Hx. pose proof (ldepth_in _ _ Hx). rewrite tdepth_call.
      pose proof (mu_copy lim sz initial_scope cd E1 ltac:(unfold initial_scope; lia)). unfold need.
      apply bound_step; [lia|lia|apply Nat.mul_le_mono_l; lia].
  Qed.

  (* the whole render: frames are bounded by a product of the two limits' worth of template entries and the block depth *)
  Theorem stack_bound name o :
    render_template lax lim c ld (fuel_bound lim ld) name = Some o -> peak o <= fr_base c + K * fuel_bound lim ld.
  Proof.
    unfold render_template. destruct (nth_error ld name) as [body|] eqn:En; [|intros E; inversion E; simpl; lia].
    unfold rwc. destruct (Nat.ltb lim initial_scope); [intros E; inversion E; simpl; lia|].
    apply top_peak. intros x o' Hx E. pose proof (exec_peak _ _ _ _ _ _ E) as Hp.
    pose proof (ldepth_in _ _ Hx). pose proof (lddepth_nth _ _ _ En).
    pose proof (mu_le_sz lim 0 (S initial_scope) 0 ltac:(lia)) as Hm.
    pose proof (Nat.mul_le_mono_l _ _ (lddepth ld + 2) Hm) as Hm2.
    unfold need in Hp. unfold fuel_bound. rewrite Nat.mul_add_distr_l, Nat.mul_1_r.
    assert (Hk : kmax c * (tdepth x + 1 + (lddepth ld + 2) * mu lim (S initial_scope) 0) <=
                 kmax c * ((lddepth ld + 2) * mu lim 0 0 + (lddepth ld + 2))) by (apply Nat.mul_le_mono_l; lia).
    unfold K in *. lia.
  Qed.
End StackBound.
