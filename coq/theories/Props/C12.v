From LiquidVerif Require Import Prelude Cond.
Theorem C12_placeholder : True. Proof. exact I. Qed.
Print Assumptions C12_placeholder.
