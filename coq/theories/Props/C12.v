(* C12 — Conditions follow Liquid truthiness and operator rules.  Property theorems only. *)
From Coq Require Import String.
From LiquidVerif Require Import Prelude PyPrims Cond CondPrint Cond_Proofs Cond_Branch_Proofs.
Local Open Scope string_scope. Local Open Scope list_scope.

(* only false, nil and undefined are falsy — for every value of the universe *)
Theorem C12_truthy : forall v, truthy v = false <-> (v = VBool false \/ v = VNil \/ v = VUndef).
Proof. exact truthy_spec. Qed.
Print Assumptions C12_truthy.

(* ... so a bare variable in a condition is falsy exactly when bound to false / nil or not bound at all *)
Theorem C12_var_falsy : forall env x,
  eval_cond env (BVar x) = Ok false <->
  (alookup x env = Some (VBool false) \/ alookup x env = Some VNil \/ alookup x env = Some VUndef \/ alookup x env = None).
Proof. exact eval_var_falsy. Qed.
Print Assumptions C12_var_falsy.

(* and / or / not on truthiness, with short circuit: the right operand is not evaluated when the left decides *)
Theorem C12_and : forall env a b x,
  eval_cond env a = Ok x -> eval_cond env (BAnd a b) = if x then eval_cond env b else Ok false.
Proof. exact eval_and. Qed.
Print Assumptions C12_and.

Theorem C12_or : forall env a b x,
  eval_cond env a = Ok x -> eval_cond env (BOr a b) = if x then Ok true else eval_cond env b.
Proof. exact eval_or. Qed.
Print Assumptions C12_or.

Theorem C12_not : forall env a x, eval_cond env a = Ok x -> eval_cond env (BNot a) = Ok (negb x).
Proof. exact eval_not. Qed.
Print Assumptions C12_not.

(* grouping: for EVERY condition tree, printing it with parentheses only where the documented rules need them
   (left operand of and/or that is itself and/or/not; compound operands of a comparison) and parsing the tokens
   back gives the same tree: and/or have equal precedence and group from the right, comparisons bind tighter,
   parentheses override *)
Theorem C12_grouping : forall e, parse flags_on (print e) = Ok e.
Proof. exact parse_print_roundtrip. Qed.
Print Assumptions C12_grouping.

(* the special case the property names: a flat chain  x1 op1 x2 op2 ... xn  of any length groups from the right *)
Theorem C12_right_assoc : forall first rest,
  atom first -> Forall (fun p => atom (snd p)) rest ->
  parse flags_on (chain_toks first rest) = Ok (chain first rest).
Proof. exact and_or_right_assoc. Qed.
Print Assumptions C12_right_assoc.

(* == : symmetric on the whole universe, and the documented table *)
Theorem C12_eq_sym : forall a b, liq_eq a b = liq_eq b a.
Proof. exact liq_eq_sym. Qed.
Print Assumptions C12_eq_sym.

Theorem C12_eq_table :
  (forall b v, liq_eq (VBool b) v = match v with VBool b' => Bool.eqb b b' | _ => false end) /\
  (forall v, liq_eq VNil v = match v with VNil | VUndef => true | _ => false end) /\
  (forall v, liq_eq VEmpty v = match v with VEmpty | VStr [] | VList [] | VDict [] => true | _ => false end) /\
  (forall s, liq_eq VBlank (VStr s) = forallb is_space s) /\
  (forall z m e, liq_eq (VInt z) (VDec m e) = Z.eqb (z * pow10 e) m) /\
  (forall x y, liq_eq (VInt x) (VInt y) = Z.eqb x y) /\
  (forall s t, liq_eq (VStr s) (VStr t) = str_eqb s t) /\ (forall s z, liq_eq (VStr s) (VInt z) = false).
Proof. exact liq_eq_table. Qed.
Print Assumptions C12_eq_table.

(* every comparison operator is built from == and < as documented; != negates == and never raises *)
Theorem C12_operators : forall env op a b l r,
  eval env a = Ok l -> eval env b = Ok r ->
  eval_cond env (BCmp op a b) =
  match op with
  | OEq => Ok (liq_eq l r)
  | ONe => Ok (negb (liq_eq l r))
  | OLt => liq_lt l r
  | OGt => liq_lt r l
  | OLe => if liq_eq l r then Ok true else liq_lt l r
  | OGe => if liq_eq l r then Ok true else liq_lt r l
  | OContains => liq_contains l r
  end.
Proof. exact eval_cmp_spec. Qed.
Print Assumptions C12_operators.

(* ordering comparisons raise a Liquid type error exactly on incompatible operands, and never any other error *)
Theorem C12_lt_type_error : forall l r, liq_lt l r = Err EType <-> orderable l r = false.
Proof. exact lt_type_error_iff. Qed.
Print Assumptions C12_lt_type_error.

Theorem C12_lt_only_type_error : forall l r x, liq_lt l r = Err x -> x = EType.
Proof. exact lt_never_foreign. Qed.
Print Assumptions C12_lt_only_type_error.

Theorem C12_lt_numbers : forall x y m e,
  liq_lt (VInt x) (VInt y) = Ok (Z.ltb x y) /\
  liq_lt (VInt x) (VDec m e) = Ok (Z.ltb (x * pow10 e) m) /\
  liq_lt (VDec m e) (VInt x) = Ok (Z.ltb m (x * pow10 e)).
Proof. exact lt_numbers. Qed.
Print Assumptions C12_lt_numbers.

(* contains *)
Theorem C12_contains : forall l r,
  (truthy l = false \/ truthy r = false -> liq_contains l r = Ok false) /\
  (truthy r = true -> forall xs, l = VList xs -> liq_contains l r = Ok (existsb (fun x => member_eq x r) xs)) /\
  (forall d k, l = VDict d -> r = VStr k -> liq_contains l r = Ok (existsb (fun p => str_eqb (fst p) k) d)) /\
  (forall s p, l = VStr s -> r = VStr p -> liq_contains l r = Ok (substr p s)) /\
  (truthy r = true -> forall a b, l = VRange a b -> liq_contains l r = Ok (in_range r a b)) /\
  (truthy r = true -> match l with VInt _ | VDec _ _ | VBool true | VEmpty | VBlank => liq_contains l r = Err EType | _ => True end).
Proof. exact contains_spec. Qed.
Print Assumptions C12_contains.

(* a hash never contains an array or a hash (they cannot be keys); before the C02 repair a bare TypeError escaped here *)
Theorem C12_contains_hash_nonkey : forall d r,
  match r with VList _ | VDict _ => liq_contains (VDict d) r = Ok false | _ => True end.
Proof. exact contains_hash_nonkey. Qed.
Print Assumptions C12_contains_hash_nonkey.


(* membership uses Python's ==, not Liquid's: the recorded known finding, as a witness in the model *)
Theorem C12_contains_bool_int_refuted :
  exists xs r, liq_contains (VList xs) r = Ok true /\ Forall (fun x => liq_eq x r = false) xs.
Proof. exists [VInt 1], (VBool true). split; [reflexivity|repeat constructor]. Qed.
Print Assumptions C12_contains_bool_int_refuted.

(* if / elsif / else: the first truthy condition's block is rendered and later conditions are not evaluated;
   else exactly when all are falsy; and conversely *)
Theorem C12_if_chain_arm : forall env pre c post i has_else,
  Forall (falsy_in env) pre -> eval_cond env c = Ok true ->
  choose_if env (pre ++ c :: post) i has_else = Ok (Arm (i + length pre)).
Proof. exact choose_if_arm. Qed.
Print Assumptions C12_if_chain_arm.

Theorem C12_if_chain_else : forall env conds i has_else,
  Forall (falsy_in env) conds -> choose_if env conds i has_else = Ok (if has_else then Else else Nothing).
Proof. exact choose_if_else. Qed.
Print Assumptions C12_if_chain_else.

Theorem C12_if_chain_sound : forall env conds i has_else k,
  choose_if env conds i has_else = Ok (Arm k) ->
  exists pre c post, conds = pre ++ c :: post /\ k = i + length pre /\
                     Forall (falsy_in env) pre /\ eval_cond env c = Ok true.
Proof. exact choose_if_sound. Qed.
Print Assumptions C12_if_chain_sound.

(* unless c == if not c, including its elsif / else arms *)
Theorem C12_unless : forall env c0 elsifs has_else b,
  eval_cond env c0 = Ok b ->
  choose_unless env c0 elsifs has_else = choose_if env (BNot c0 :: elsifs) 0 has_else.
Proof. exact unless_is_if_not. Qed.
Print Assumptions C12_unless.

(* case / when: each when block is rendered once per value equal (==) to the case value; an else block is
   rendered exactly when no earlier when block matched *)
Theorem C12_case_when : forall env v bs vbs d,
  eval_blocks env bs = Ok vbs -> case_renders env v bs d = Ok (vrenders v vbs d).
Proof. exact case_renders_spec. Qed.
Print Assumptions C12_case_when.

Theorem C12_case_when_count : forall v pre ws post d,
  nth (length pre) (vrenders v (pre ++ VWhen ws :: post) d) 0 = count_eq v ws.
Proof. exact case_when_count. Qed.
Print Assumptions C12_case_when_count.

Theorem C12_case_else : forall v pre post,
  nth (length pre) (vrenders v (pre ++ VElse :: post) true) 0 =
  if forallb (fun b => match b with VWhen ws => Nat.eqb (count_eq v ws) 0 | VElse => true end) pre then 1 else 0.
Proof. exact case_else_iff. Qed.
Print Assumptions C12_case_else.

(* non-vacuity / reading aids *)
Example C12_grouping_example :
  parse flags_on [TLit (VBool true); TOr; TLit (VBool false); TAnd; TLit (VBool false)] =
    Ok (BOr (BLit (VBool true)) (BAnd (BLit (VBool false)) (BLit (VBool false)))) /\
  run_if {| cc_toks := [TLit (VBool true); TOr; TLit (VBool false); TAnd; TLit (VBool false)]; cc_env := [] |} = OBranch (tf true) /\
  run_if {| cc_toks := [TLParen; TLit (VBool true); TOr; TLit (VBool false); TRParen; TAnd; TLit (VBool false)]; cc_env := [] |} = OBranch (tf false) /\
  parse flags_on [TVar (lit "x"); TOp OEq; TLit (VInt 1); TAnd; TVar (lit "y"); TOp OLt; TLit (VInt 2)] =
    Ok (BAnd (BCmp OEq (BVar (lit "x")) (BLit (VInt 1))) (BCmp OLt (BVar (lit "y")) (BLit (VInt 2)))).
Proof. vm_compute. repeat split. Qed.

Example C12_type_error_example :
  run_if {| cc_toks := [TLit (VInt 1); TOp OLt; TLit (VStr (lit "a"))]; cc_env := [] |} = OErr EType /\
  run_if {| cc_toks := [TLit (VInt 0)]; cc_env := [] |} = OBranch (tf true) /\
  run_if {| cc_toks := [TVar (lit "nope")]; cc_env := [] |} = OBranch (tf false).
Proof. vm_compute. repeat split. Qed.

Example C12_case_example :
  run_case {| cs_val := BLit (VInt 1);
              cs_blocks := [CWhen [BLit (VInt 1); BLit (VDec 10 1)]; CElse; CWhen [BLit (VStr (lit "1"))]];
              cs_env := [] |} = OBranch (lit "00").
Proof. vm_compute. reflexivity. Qed.
