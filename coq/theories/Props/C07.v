(* C07 — Output and local-namespace limits bound what they measure.  Property theorems only.
   Statements are about Limits.run_prog v, the executable model the correspondence run compares with the engine
   at v = Limits.repaired; is_repaired v: both repairs present (.work/fixes/C08-zero-limits.patch makes a
   local_namespace_limit of 0 a limit), v_item (one render-for context or one per item) left free. *)
From LiquidVerif Require Import Prelude PyPrims Limits Limits_Proofs Limits_Sim_Proofs.
Local Open Scope Z_scope.

(* with an output stream limit L >= 0, whatever the template (output, captures, nested captures, ifchanged,
   partials, macros, tablerow markup, 1-4 byte characters) and the other limits: a completed render returns at
   most L UTF-8 bytes.  Holds for both variants of the code. *)
Theorem C07_output_bound : forall v lim,
  (forall L, l_out lim = Some L -> 0 <= L) ->
  forall main sizes s L, l_out lim = Some L ->
  run_prog v lim main sizes = LOk s -> utf8_bytes (buf_text (s_buf s)) <= L.
Proof. exact run_out_bound. Qed.
Print Assumptions C07_output_bound.

(* the invariant behind it, for EVERY buffer the render creates (main, capture, ifchanged): its size field is the
   number of UTF-8 bytes written to it, and size <= its own limit (output_stream_limit - carried size) *)
Theorem C07_buffer_invariant : forall v lim,
  (forall L, l_out lim = Some L -> 0 <= L) ->
  forall main sizes s, run_prog v lim main sizes = LOk s -> bufinv lim (s_buf s).
Proof. exact run_out_inv. Qed.
Print Assumptions C07_buffer_invariant.

(* strict mode: if the render completes with the output limit removed (other limits unchanged) and returns more
   than L bytes, then under output_stream_limit L it raises OutputStreamLimitError *)
Theorem C07_output_raises : forall v, is_repaired v -> forall lim L main sizes s,
  l_out lim = Some L -> 0 <= L ->
  run_prog v (with_out lim None) main sizes = LOk s ->
  L < utf8_bytes (buf_text (s_buf s)) ->
  run_prog v lim main sizes = LErr XOutput.
Proof. exact run_out_raises. Qed.
Print Assumptions C07_output_raises.

(* namespace: s_nslog holds, for every assignment (assign, capture) of a completed render, the pair
   (true total = measured sizes of the locals of the current context and of ALL contexts it was copied from,
    size the engine computed = own locals + local_namespace_size_carry).  For every stream of measured sizes
   (sys.getsizeof is an oracle), the two agree - the carry IS the ancestors' measured size - and with a limit M
   the true total never exceeded M. *)
Theorem C07_namespace_bound : forall v lim, is_repaired v -> forall main sizes s,
  run_prog v lim main sizes = LOk s ->
  Forall (fun p => fst p = snd p /\ forall M, l_ns lim = Some M -> fst p <= M) (s_nslog s).
Proof. exact run_ns_bound. Qed.
Print Assumptions C07_namespace_bound.

(* the unrepaired truthiness test ignores a namespace limit of 0: {% assign v0 = 'a' %} with a measured size of 42
   completes under local_namespace_limit 0 *)
Definition ns0 : limits := {| l_loop := None; l_out := None; l_ns := Some 0; l_depth := 30; l_nest := 30 |}.
Theorem C07_unrepaired_zero_refuted :
  (exists s, run_prog unrepaired ns0 [Assign 0 [97%N]] [42] = LOk s /\ s_nslog s = [(42, 42)]) /\
  run_prog repaired ns0 [Assign 0 [97%N]] [42] = LErr XNamespace.
Proof. split; [eexists; split; vm_compute; reflexivity|vm_compute; reflexivity]. Qed.
Print Assumptions C07_unrepaired_zero_refuted.

(* non-vacuity: multi-byte text through a capture inside a partial; 11 bytes fit in 11 and not in 10;
   a namespace carried into a rendered partial *)
Definition euro : N := 8364%N.
Definition prog1 : list node := [Text [97%N]; Render [Capture 0 [Text [euro; euro]]; Echo 0; Text [128512%N]]].
Definition out_lim (L : Z) : limits := {| l_loop := None; l_out := Some L; l_ns := None; l_depth := 30; l_nest := 30 |}.
Example C07_nonvacuous_output :
  (exists s, run_prog repaired (out_lim 11) prog1 [80] = LOk s /\ utf8_bytes (buf_text (s_buf s)) = 11) /\
  run_prog repaired (out_lim 10) prog1 [80] = LErr XOutput.
Proof. split; [eexists; split; vm_compute; reflexivity|vm_compute; reflexivity]. Qed.

Definition ns_lim (M : Z) : limits := {| l_loop := None; l_out := None; l_ns := Some M; l_depth := 30; l_nest := 30 |}.
Example C07_nonvacuous_namespace :
  (exists s, run_prog repaired (ns_lim 100) [Assign 0 [97%N]; Render [Assign 1 [98%N]]] [50; 50] = LOk s /\ s_nslog s = [(100, 100); (50, 50)]) /\
  run_prog repaired (ns_lim 99) [Assign 0 [97%N]; Render [Assign 1 [98%N]]] [50; 50] = LErr XNamespace.
Proof. split; [eexists; split; vm_compute; reflexivity|vm_compute; reflexivity]. Qed.
