(* C07 — Output and local-namespace limits bound what they measure.  Property theorems only.
   Statements are about Limits.run_prog v md, the executable model the correspondence run compares with the engine
   at v = Limits.repaired in all three modes (md : Strict | Warn | Lax); is_repaired v: the repairs present
   (.work/fixes/C08-zero-limits.patch: a local_namespace_limit of 0 is a limit; C07-namespace-rollback.patch: a refused
   assignment does not stay in the namespace), v_item (one render-for context or one per item) left free. *)
From LiquidVerif Require Import Prelude PyPrims Limits Limits_Proofs Limits_Sim_Proofs.
Local Open Scope Z_scope.

(* with an output stream limit L >= 0, whatever the template (output, captures, nested captures, ifchanged,
   partials, macros, tablerow markup, 1-4 byte characters), the other limits and THE MODE: a completed render -
   in WARN and LAX mode that is every render whose outermost context fits, errors being dropped per top-level
   node - returns at most L UTF-8 bytes.  Holds for every variant of the code. *)
Theorem C07_output_bound : forall v md lim main sizes s L,
  l_out lim = Some L -> 0 <= L ->
  run_prog v md lim main sizes = LOk s -> utf8_bytes (buf_text (s_buf s)) <= L.
Proof. exact run_out_bound. Qed.
Print Assumptions C07_output_bound.

(* the invariant behind it, for EVERY buffer the render creates (main, capture, ifchanged), at every moment and in
   every mode: the text holds at most `size` bytes and at most the buffer's own limit (output_stream_limit - carried
   size); a refused write grows the size but not the text, because the limit is checked BEFORE the text is written *)
Theorem C07_buffer_invariant_any_mode : forall v md lim main sizes,
  match run_prog v md lim main sizes with
  | LOk s | LErr _ s => bufinv lim (s_buf s)
  | LFuel => True
  end.
Proof. exact run_out_inv. Qed.
Print Assumptions C07_buffer_invariant_any_mode.

(* STRICT: in a completed render every buffer moreover has size = bytes written <= its own limit *)
Theorem C07_buffer_invariant : forall v lim,
  (forall L, l_out lim = Some L -> 0 <= L) ->
  forall main sizes s, run_prog v Strict lim main sizes = LOk s -> bufinv_strict lim (s_buf s).
Proof. exact run_out_inv_strict. Qed.
Print Assumptions C07_buffer_invariant.

(* STRICT: if the render completes with the output limit removed (other limits unchanged) and returns more
   than L bytes, then under output_stream_limit L it raises OutputStreamLimitError *)
Theorem C07_output_raises : forall v, is_repaired v -> forall lim L main sizes s,
  l_out lim = Some L -> 0 <= L ->
  run_prog v Strict (with_out lim None) main sizes = LOk s ->
  L < utf8_bytes (buf_text (s_buf s)) ->
  exists se, run_prog v Strict lim main sizes = LErr XOutput se.
Proof. exact run_out_raises. Qed.
Print Assumptions C07_output_raises.

(* namespace, in every mode: s_nslog holds, for every accepted assignment (assign, capture), the pair
   (true total = measured sizes of the locals of the current context and of ALL contexts it was copied from,
    size the engine computed = own locals + local_namespace_size_carry).  For every stream of measured sizes
   (sys.getsizeof is an oracle), the two agree - the carry IS the ancestors' measured size - and with a limit M
   the true total never exceeded M ... *)
Theorem C07_namespace_bound : forall v md lim, is_repaired v -> forall main sizes s,
  run_prog v md lim main sizes = LOk s ->
  Forall (fun p => fst p = snd p /\ forall M, l_ns lim = Some M -> fst p <= M) (s_nslog s).
Proof. exact run_ns_bound_ok. Qed.
Print Assumptions C07_namespace_bound.

(* ... and a refused assignment (LocalNamespaceLimitError, dropped in WARN/LAX mode) leaves the namespace exactly
   as it was: namespaces only ever hold what an accepted assignment put there *)
Theorem C07_refused_assignment_keeps_namespace : forall v lim f x val s e s',
  v_rollback v = true -> m_assign v lim f x val s = LErr e s' -> s_locals s' = s_locals s /\ s_nslog s' = s_nslog s.
Proof. exact m_assign_refused_keeps_locals. Qed.
Print Assumptions C07_refused_assignment_keeps_namespace.

(* the unrepaired truthiness test ignores a namespace limit of 0: {% assign v0 = 'a' %} with a measured size of 42
   completes under local_namespace_limit 0 *)
Definition ns0 : limits := {| l_loop := None; l_out := None; l_ns := Some 0; l_depth := 30; l_nest := 30 |}.
Theorem C07_unrepaired_zero_refuted :
  (exists s, run_prog unrepaired Strict ns0 [Assign 0 [97%N]] [42] = LOk s /\ s_nslog s = [(42, 42)]) /\
  exists se, run_prog repaired Strict ns0 [Assign 0 [97%N]] [42] = LErr XNamespace se.
Proof. split; [eexists; split; vm_compute; reflexivity|eexists; vm_compute; reflexivity]. Qed.
Print Assumptions C07_unrepaired_zero_refuted.

(* the unrepaired assign stores the value BEFORE it checks the limit: in LAX mode the error is dropped and the render
   completes holding 100 measured bytes under local_namespace_limit 50, and prints them; repaired: it does not *)
Definition ns_lim (M : Z) : limits := {| l_loop := None; l_out := None; l_ns := Some M; l_depth := 30; l_nest := 30 |}.
Theorem C07_unrepaired_rollback_refuted :
  (exists s, run_prog unrepaired Lax (ns_lim 50) [Assign 0 [97%N]; Echo 0] [100] = LOk s /\ s_nslog s = [(100, 100)]
             /\ buf_text (s_buf s) = [97%N]) /\
  (exists s, run_prog repaired Lax (ns_lim 50) [Assign 0 [97%N]; Echo 0] [100] = LOk s /\ s_nslog s = [] /\ s_locals s = []
             /\ buf_text (s_buf s) = []).
Proof. split; eexists; repeat split; vm_compute; reflexivity. Qed.
Print Assumptions C07_unrepaired_rollback_refuted.

(* non-vacuity: multi-byte text through a capture inside a partial; 11 bytes fit in 11 and not in 10;
   in LAX mode under 10 the render completes with the 1 byte written before the partial's second node was refused *)
Definition euro : N := 8364%N.
Definition prog1 : list node := [Text [97%N]; Render [Capture 0 [Text [euro; euro]]; Echo 0; Text [128512%N]]].
Definition out_lim (L : Z) : limits := {| l_loop := None; l_out := Some L; l_ns := None; l_depth := 30; l_nest := 30 |}.
Example C07_nonvacuous_output :
  (exists s, run_prog repaired Strict (out_lim 11) prog1 [80] = LOk s /\ utf8_bytes (buf_text (s_buf s)) = 11) /\
  (exists se, run_prog repaired Strict (out_lim 10) prog1 [80] = LErr XOutput se) /\
  (exists s, run_prog repaired Lax (out_lim 10) prog1 [80] = LOk s /\ buf_text (s_buf s) = [97%N; euro; euro]).
Proof.
  split; [eexists; split; vm_compute; reflexivity|]. split; [eexists; vm_compute; reflexivity|].
  eexists; split; vm_compute; reflexivity.
Qed.

Example C07_nonvacuous_namespace :
  (exists s, run_prog repaired Strict (ns_lim 100) [Assign 0 [97%N]; Render [Assign 1 [98%N]]] [50; 50] = LOk s /\ s_nslog s = [(100, 100); (50, 50)]) /\
  exists se, run_prog repaired Strict (ns_lim 99) [Assign 0 [97%N]; Render [Assign 1 [98%N]]] [50; 50] = LErr XNamespace se.
Proof. split; [eexists; split; vm_compute; reflexivity|eexists; vm_compute; reflexivity]. Qed.
