(* C07 — Output and local-namespace limits bound what they measure.  Property theorems only.
   Statements are about Limits.run_prog v md, the executable model the correspondence run compares with the engine
   at v = Limits.repaired in all three modes (md : Strict | Warn | Lax); is_repaired v: the repairs present
   (.work/fixes/C08-zero-limits.patch: a local_namespace_limit of 0 is a limit; C07-namespace-rollback.patch: a refused
   assignment does not stay in the namespace; C07-namespace-across-block-super.patch: namespaces held across block.super
   are counted), v_item (one render-for context or one per item) left free.
   run_prog v md lim chain main glob sizes: chain = [] - main is the template; chain = d0 :: loaded - the template extends a
   chain of templates, main is the body of the chain's base template with all block definitions inlined; glob = render
   arguments (globals named like the template's variables: they are read, never measured). *)
From LiquidVerif Require Import Prelude PyPrims Limits Limits_Proofs Limits_Sim_Proofs.
Local Open Scope Z_scope.

(* with an output stream limit L >= 0, whatever the template (output, captures, nested captures, ifchanged,
   partials, macros, tablerow markup, overriding blocks and block.super with buffers of their own, 1-4 byte
   characters), the other limits and THE MODE: a completed render - in WARN and LAX mode that is every render whose
   outermost context fits, errors being dropped per top-level node - returns at most L UTF-8 bytes.  Holds for every
   variant of the code. *)
Theorem C07_output_bound : forall v md lim chain main glob sizes s L,
  l_out lim = Some L -> 0 <= L ->
  run_prog v md lim chain main glob sizes = LOk s -> utf8_bytes (buf_text (s_buf s)) <= L.
Proof. exact run_out_bound. Qed.
Print Assumptions C07_output_bound.

(* the invariant behind it, for EVERY buffer the render creates (main, capture, ifchanged, block.super), at every moment
   and in every mode: the text holds at most `size` bytes and at most the buffer's own limit (output_stream_limit -
   carried size); a refused write grows the size but not the text, because the limit is checked BEFORE the text is
   written *)
Theorem C07_buffer_invariant_any_mode : forall v md lim chain main glob sizes,
  match run_prog v md lim chain main glob sizes with
  | LOk s | LErr _ s => bufinv lim (s_buf s)
  | LFuel => True
  end.
Proof. exact run_out_inv. Qed.
Print Assumptions C07_buffer_invariant_any_mode.

(* STRICT: in a completed render every buffer moreover has size = bytes written <= its own limit *)
Theorem C07_buffer_invariant : forall v lim,
  (forall L, l_out lim = Some L -> 0 <= L) ->
  forall chain main glob sizes s, run_prog v Strict lim chain main glob sizes = LOk s -> bufinv_strict lim (s_buf s).
Proof. exact run_out_inv_strict. Qed.
Print Assumptions C07_buffer_invariant.

(* STRICT: if the render completes with the output limit removed (other limits unchanged) and returns more
   than L bytes, then under output_stream_limit L it raises OutputStreamLimitError *)
Theorem C07_output_raises : forall v, is_repaired v -> forall lim L chain main glob sizes s,
  l_out lim = Some L -> 0 <= L ->
  run_prog v Strict (with_out lim None) chain main glob sizes = LOk s ->
  L < utf8_bytes (buf_text (s_buf s)) ->
  exists se, run_prog v Strict lim chain main glob sizes = LErr XOutput se.
Proof. exact run_out_raises. Qed.
Print Assumptions C07_output_raises.

(* namespace, in every mode: s_nslog holds, for every accepted assignment (assign, capture), the pair
   (true total = measured sizes of ALL local namespaces alive at that moment: the current context's, those of the
    contexts it was copied from - isolated copies for partials and macros, block-scoped copies for overriding blocks -
    and those of overriding blocks suspended in block.super;
    size the engine computed = own locals + local_namespace_size_carry).  For every stream of measured sizes
   (sys.getsizeof is an oracle), the two agree - the carry IS the measured size of everything else that is alive - and
   with a limit M the true total never exceeded M ... *)
Theorem C07_namespace_bound : forall v md lim, is_repaired v -> forall chain main glob sizes s,
  run_prog v md lim chain main glob sizes = LOk s ->
  Forall (fun p => fst p = snd p /\ forall M, l_ns lim = Some M -> fst p <= M) (s_nslog s).
Proof. exact run_ns_bound_ok. Qed.
Print Assumptions C07_namespace_bound.

(* ... the invariant behind it, for whatever the render returns: in the context it ends in and in every suspended
   context below it, the carry equals the measured size of the other live namespaces *)
Theorem C07_carry_is_live_total : forall v md lim, is_repaired v -> forall chain main glob sizes,
  match run_prog v md lim chain main glob sizes with
  | LOk s | LErr _ s => nsinv (s_cx s) /\ cx_live (s_cx s) = cx_size (s_cx s)
  | LFuel => True
  end.
Proof.
  intros v md lim Hv chain main glob sizes. pose proof (run_ns_bound v md lim Hv chain main glob sizes) as R.
  destruct (run_prog v md lim chain main glob sizes) as [s|e s|]; auto; destruct R as [_ R]; (split; [exact R|exact (nsinv_live _ R)]).
Qed.
Print Assumptions C07_carry_is_live_total.

(* ... and a refused assignment (LocalNamespaceLimitError, dropped in WARN/LAX mode) leaves the context exactly
   as it was - no value, and no copy of a global of the same name, stays behind: namespaces only ever hold what an
   accepted assignment put there *)
Theorem C07_refused_assignment_keeps_namespace : forall v lim x val s e s',
  v_rollback v = true -> m_assign v lim x val s = LErr e s' -> s_cx s' = s_cx s /\ s_nslog s' = s_nslog s.
Proof. exact m_assign_refused_keeps_locals. Qed.
Print Assumptions C07_refused_assignment_keeps_namespace.

(* the unrepaired truthiness test ignores a namespace limit of 0: {% assign v0 = 'a' %} with a measured size of 42
   completes under local_namespace_limit 0 *)
Definition ns0 : limits := {| l_loop := None; l_out := None; l_ns := Some 0; l_depth := 30; l_nest := 30 |}.
Theorem C07_unrepaired_zero_refuted :
  (exists s, run_prog unrepaired Strict ns0 [] [Assign 0 [97%N]] [] [42] = LOk s /\ s_nslog s = [(42, 42)]) /\
  exists se, run_prog repaired Strict ns0 [] [Assign 0 [97%N]] [] [42] = LErr XNamespace se.
Proof. split; [eexists; split; vm_compute; reflexivity|eexists; vm_compute; reflexivity]. Qed.
Print Assumptions C07_unrepaired_zero_refuted.

(* the unrepaired assign stores the value BEFORE it checks the limit: in LAX mode the error is dropped and the render
   completes holding 100 measured bytes under local_namespace_limit 50, and prints them; repaired: it does not *)
Definition ns_lim (M : Z) : limits := {| l_loop := None; l_out := None; l_ns := Some M; l_depth := 30; l_nest := 30 |}.
Theorem C07_unrepaired_rollback_refuted :
  (exists s, run_prog unrepaired Lax (ns_lim 50) [] [Assign 0 [97%N]; Echo 0] [] [100] = LOk s /\ s_nslog s = [(100, 100)]
             /\ buf_text (s_buf s) = [97%N]) /\
  (exists s, run_prog repaired Lax (ns_lim 50) [] [Assign 0 [97%N]; Echo 0] [] [100] = LOk s /\ s_nslog s = [] /\ s_locals s = []
             /\ buf_text (s_buf s) = []).
Proof. split; eexists; repeat split; vm_compute; reflexivity. Qed.
Print Assumptions C07_unrepaired_rollback_refuted.

(* the code before C07-namespace-across-block-super.patch: child {% block b %}{% assign v0 = .. %}{{ block.super }}{% assign v2 = .. %}{% endblock %}
   over base {% block b %}{% assign v1 = .. %}{% endblock %}, three values of 50 measured bytes, local_namespace_limit 100:
   the block-scoped copy's carry is taken once, so the render completes while 150 bytes are held (the engine computes
   100); repaired: the third assignment raises *)
Definition super_ns_nest : list node := [Block [Assign 0 [97%N]; Super [Assign 1 [98%N]]; Assign 2 [99%N]]].
Theorem C07_super_ns_unrepaired_refuted :
  (exists s, run_prog no_super_ns Strict (ns_lim 100) [1; 1] super_ns_nest [] [50; 50; 50] = LOk s
             /\ s_nslog s = [(150, 100); (100, 50); (50, 50)]) /\
  exists se, run_prog repaired Strict (ns_lim 100) [1; 1] super_ns_nest [] [50; 50; 50] = LErr XNamespace se
             /\ s_nslog se = [(100, 100); (50, 50)].
Proof. split; [eexists; split; vm_compute; reflexivity|eexists; split; vm_compute; reflexivity]. Qed.
Print Assumptions C07_super_ns_unrepaired_refuted.

(* non-vacuity: multi-byte text through a capture inside a partial; 11 bytes fit in 11 and not in 10;
   in LAX mode under 10 the render completes with the 1 byte written before the partial's second node was refused *)
Definition euro : N := 8364%N.
Definition prog1 : list node := [Text [97%N]; Render [Capture 0 [Text [euro; euro]]; Echo 0; Text [128512%N]]].
Definition out_lim (L : Z) : limits := {| l_loop := None; l_out := Some L; l_ns := None; l_depth := 30; l_nest := 30 |}.
Example C07_nonvacuous_output :
  (exists s, run_prog repaired Strict (out_lim 11) [] prog1 [] [80] = LOk s /\ utf8_bytes (buf_text (s_buf s)) = 11) /\
  (exists se, run_prog repaired Strict (out_lim 10) [] prog1 [] [80] = LErr XOutput se) /\
  (exists s, run_prog repaired Lax (out_lim 10) [] prog1 [] [80] = LOk s /\ buf_text (s_buf s) = [97%N; euro; euro]).
Proof.
  split; [eexists; split; vm_compute; reflexivity|]. split; [eexists; vm_compute; reflexivity|].
  eexists; split; vm_compute; reflexivity.
Qed.

Example C07_nonvacuous_namespace :
  (exists s, run_prog repaired Strict (ns_lim 100) [] [Assign 0 [97%N]; Render [Assign 1 [98%N]]] [] [50; 50] = LOk s /\ s_nslog s = [(100, 100); (50, 50)]) /\
  exists se, run_prog repaired Strict (ns_lim 99) [] [Assign 0 [97%N]; Render [Assign 1 [98%N]]] [] [50; 50] = LErr XNamespace se.
Proof. split; [eexists; split; vm_compute; reflexivity|eexists; vm_compute; reflexivity]. Qed.

(* a chain: the overriding block writes a, captures block.super (the parent block writes 2 euro signs into a buffer
   of its own, whose budget is what is left of 8: 7) and echoes it: 1 + 6 = 7 bytes, then 1 more; 8 fit, 7 do not *)
Definition prog2 : list node := [Block [Text [97%N]; Capture 0 [Super [Text [euro; euro]]]; Echo 0; Text [98%N]]].
Example C07_nonvacuous_chain :
  (exists s, run_prog repaired Strict (out_lim 8) [2; 1] prog2 [] [80] = LOk s /\ utf8_bytes (buf_text (s_buf s)) = 8) /\
  (exists se, run_prog repaired Strict (out_lim 7) [2; 1] prog2 [] [80] = LErr XOutput se) /\
  (exists se, run_prog repaired Strict (out_lim 6) [2; 1] prog2 [] [80] = LErr XOutput se /\ buf_text (s_buf se) = [97%N]).
Proof.
  split; [eexists; split; vm_compute; reflexivity|]. split; [eexists; vm_compute; reflexivity|].
  eexists; split; vm_compute; reflexivity.
Qed.

(* render arguments named like the template's variables: a refused assignment (LAX, limit 50, measured 100) leaves the
   global visible and nothing of it in the namespace; an accepted one shadows it *)
Example C07_nonvacuous_globals :
  (exists s, run_prog repaired Lax (ns_lim 50) [] [Assign 0 [97%N]; Echo 0] [(0%N, [71%N])] [100] = LOk s
             /\ buf_text (s_buf s) = [71%N] /\ s_locals s = [] /\ s_nslog s = []) /\
  (exists s, run_prog repaired Lax (ns_lim 50) [] [Assign 0 [97%N]; Echo 0] [(0%N, [71%N])] [50] = LOk s
             /\ buf_text (s_buf s) = [97%N] /\ s_nslog s = [(50, 50)]).
Proof. split; eexists; repeat split; vm_compute; reflexivity. Qed.
