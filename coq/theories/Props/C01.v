(* C01 — Synchronous and asynchronous APIs behave identically.  Property theorems only.
   One theorem per hand-written pair the property names; the caching-loader pair (CachingLoaderMixin.load / load_async)
   is C23_sync_async_copies_agree in Props/C23.v and is not repeated here.  Second part (after the paired tags): template
   inheritance incl. block.super (PairInherit.v), name -> bound template and the API-mix theorem over C23's model of the
   caching mixin (PairLoad.v), the two static-analysis walks (PairAnalyze.v). *)
From Coq Require Import String ZArith List.
From LiquidVerif Require Import Prelude PyPrims MacroArgs PairSync PairSync_Proofs PairTags PairTags_Proofs.
From LiquidVerif Require PairInherit PairInherit_Proofs PairLoad PairLoad_Proofs PairAnalyze PairAnalyze_Proofs CachingLoader.
Import ListNotations.
Local Open Scope list_scope.

(* RenderContext.get_async = RenderContext.get for every scope and every evaluated path, whatever the first segment is
   (a string, an int, or any other object): the repaired copy. *)
Theorem C01_context_get : forall sc segs, ctx_get_async sc segs = ctx_get sc segs.
Proof. exact ctx_get_async_eq. Qed.
Print Assumptions C01_context_get.

(* Path.evaluate_async = Path.evaluate for every path, bracketed paths nested to any depth. *)
Theorem C01_path_evaluate : forall fuel sc p, eval_path_async fuel sc p = eval_path_sync fuel sc p.
Proof. exact path_async_eq. Qed.
Print Assumptions C01_path_evaluate.

(* As found (assert isinstance(root, str)): refuted by {{ [x] }} with x = 1 -- undefined synchronously, AssertionError
   asynchronously ... *)
Theorem C01_path_evaluate_old_refuted :
  exists sc p, eval_path_async_old (path_size p) sc p <> eval_path_sync (path_size p) sc p.
Proof. exact path_async_old_refuted. Qed.
Print Assumptions C01_path_evaluate_old_refuted.

(* ... and equal exactly when the path and every nested path start with a name. *)
Theorem C01_path_evaluate_old_partial : forall fuel sc p,
  roots_named fuel p = true -> eval_path_async_old fuel sc p = eval_path_sync fuel sc p.
Proof. exact path_async_old_partial. Qed.
Print Assumptions C01_path_evaluate_old_partial.

(* IfNode: the repaired asynchronous copy renders the same blocks and performs the same number of condition evaluations
   as the synchronous copy, for conditions with arbitrary side effects (a condition is any function of the number of
   evaluations performed so far), any number of elsif branches, with or without else. *)
Theorem C01_if_elsif : forall n node, if_async n node = if_sync n node.
Proof. exact if_async_eq. Qed.
Print Assumptions C01_if_elsif.

(* As found (a taken elsif branch evaluates its condition a second time): refuted for a condition that is true the first
   time and false the second (nothing is rendered, not even the else branch) ... *)
Theorem C01_if_elsif_old_refuted : exists node, fst (if_async_old 0 node) <> fst (if_sync 0 node).
Proof. exact if_async_old_refuted. Qed.
Print Assumptions C01_if_elsif_old_refuted.

(* ... while for side-effect-free conditions the same blocks are rendered. *)
Theorem C01_if_elsif_old_partial : forall node n,
  pure_cond (i_cond node) -> Forall (fun cb => pure_cond (fst cb)) (i_alts node) ->
  fst (if_async_old n node) = fst (if_sync n node).
Proof. exact if_async_old_partial. Qed.
Print Assumptions C01_if_elsif_old_partial.

(* FilteredExpression / TernaryFilteredExpression: evaluate_async = evaluate whenever every filter that has an asynchronous
   version agrees with its synchronous version -- in particular for the built-in filters, none of which has one. *)
Theorem C01_filtered : forall left fs, filters_agree fs -> filtered_async left fs = filtered_sync left fs.
Proof. exact filtered_async_eq. Qed.
Print Assumptions C01_filtered.

Theorem C01_ternary : forall c left lfs alt fs tail,
  filters_agree lfs -> filters_agree fs -> filters_agree tail ->
  ternary_async c left lfs alt fs tail = ternary_sync c left lfs alt fs tail.
Proof. exact ternary_async_eq. Qed.
Print Assumptions C01_ternary.

(* BaseLoader.load_async names the template as load does (repaired by the C23 patch C23-load-async-template-name), hence
   an include tag without alias binds its `with` value to the same variable through both APIs. *)
Theorem C01_loader_name : forall alias name full,
  load_name_async name full = load_name_sync name full /\
  include_key alias (load_name_async name full) = include_key alias (load_name_sync name full).
Proof. intros. split; [apply load_name_async_eq | apply include_key_async_eq]. Qed.
Print Assumptions C01_loader_name.

(* As found (name=name): refuted by 'dir/q' -- template name q vs dir/q, include binds q vs dir/q ... *)
Theorem C01_loader_name_old_refuted :
  exists name full, load_name_async_old name full <> load_name_sync name full /\
                    include_key None (load_name_async_old name full) <> include_key None (load_name_sync name full).
Proof. exact load_name_async_old_refuted. Qed.
Print Assumptions C01_loader_name_old_refuted.

(* ... and equal for names without a directory part whose source name is the requested name. *)
Theorem C01_loader_name_old_partial : forall name, has_slash name = false ->
  load_name_async_old name name = load_name_sync name name.
Proof. exact load_name_async_old_partial. Qed.
Print Assumptions C01_loader_name_old_partial.

(* non-vacuity *)
Example C01_path_example :
  run_path {| pc_scope := [(plit "x"%string, VInt 1); (plit "a"%string, VDict [(plit "b"%string, VStr (plit "v"%string))])];
              pc_path := [PName (plit "a"%string); PNested [PName (plit "k"%string)]] |} = (OText [], OText []) /\
  run_path_old {| pc_scope := [(plit "x"%string, VInt 1)]; pc_path := [PNested [PName (plit "x"%string)]] |}
    = (OText [], OExn EAssertionError).
Proof. vm_compute. split; reflexivity. Qed.

Example C01_if_example :
  run_if_old {| ic_script := [false; true; false]; ic_nalts := 2; ic_else := true |} = (([1%N], 2), ([], 3)) /\
  run_if {| ic_script := [false; true; false]; ic_nalts := 2; ic_else := true |} = (([1%N], 2), ([1%N], 2)).
Proof. vm_compute. split; reflexivity. Qed.

Example C01_roots_named_example : roots_named 3 [PName (plit "a"%string); PNested [PName (plit "k"%string)]] = true.
Proof. reflexivity. Qed.

Example C01_filters_agree_example : filters_agree [{| f_sync := fun v => Ok v; f_async := None |}].
Proof. constructor; [exact I | constructor]. Qed.

(* ---------------------------------------------------------------------------------------------------------------
   The paired copies of the tags (PairTags.v): each copy is a sequence of primitive render-context operations; compared
   are the evaluation log (which variable is looked up when, answered by a local namespace / the globals / nothing), the
   trace of context operations with their arguments (extend, bind, loop-limit checks, loop_iterations, copy with its
   flags, render_with_context with its flags), the output and the outcome. *)

(* IncludeNode: name evaluation, get_template, keyword arguments, extend, bound variable (evaluated with the arguments in
   scope), array / single branch, loop-limit check, loop_iterations, render_with_context -- same operations in the same
   order through both APIs, for every environment, context, node and starting state. *)
Theorem C01_include_tag : forall e c n s, include_async e c n s = include_sync e c n s.
Proof. exact include_async_eq. Qed.
Print Assumptions C01_include_tag.

(* RenderNode: get_template, keyword arguments, copy (include disabled, iterations carried, template), bound variable
   (evaluated in the CALLER's context), forloop drop, one isolated copy per item, block scope. *)
Theorem C01_render_tag : forall e c n s, render_async e c n s = render_sync e c n s.
Proof. exact render_async_eq. Qed.
Print Assumptions C01_render_tag.

(* CallNode: macro lookup, excess positional, excess keyword, then parameters in declaration order, copy (include and
   block disabled, iterations carried), body rendered as a block. *)
Theorem C01_call_tag : forall e c n s, call_async e c n s = call_sync e c n s.
Proof. exact call_async_eq. Qed.
Print Assumptions C01_call_tag.

(* The model tells the two divergences that were once seeded apart: the bound variable of include evaluated before the
   keyword arguments are pushed (log and output differ for {% include 'p' with gx, gx: 7 %}) ... *)
Theorem C01_include_seeded_refuted :
  exists e c n,
    s_log (snd (include_async_seeded e c n st0)) <> s_log (snd (include_sync e c n st0)) /\
    s_out (snd (include_async_seeded e c n st0)) <> s_out (snd (include_sync e c n st0)).
Proof. exact include_async_seeded_refuted. Qed.
Print Assumptions C01_include_seeded_refuted.

(* ... and carry_loop_iterations dropped from the copy made by call (outcome and copy flags differ under a loop limit). *)
Theorem C01_call_seeded_refuted :
  exists e c n,
    fst (call_async_seeded e c n st0) <> fst (call_sync e c n st0) /\
    s_trace (snd (call_async_seeded e c n st0)) <> s_trace (snd (call_sync e c n st0)).
Proof. exact call_async_seeded_refuted. Qed.
Print Assumptions C01_call_seeded_refuted.

(* What both copies of include do with the bound variable, for all inputs: once the keyword arguments are pushed, a
   keyword argument of the same name answers and the globals are not consulted. *)
Theorem C01_include_bound_var_scope : forall e c m x y s c1 s1,
  extend e c m s = (Ok c1, s1) -> alookup x m = Some y ->
  resolve c1 x s1 = (Ok y, log1 s1 (x, WLocal)).
Proof. exact include_bound_var_sees_keyword. Qed.
Print Assumptions C01_include_bound_var_scope.

(* What a copy with carry_loop_iterations hands to the callee's loop-limit checks. *)
Theorem C01_copy_carries_iterations : forall e c m d b t s cx s1,
  copy e c m d true b t s = (Ok cx, s1) -> c_carry cx = prod (c_loops c) * c_carry c.
Proof. exact copy_carries_iterations. Qed.
Print Assumptions C01_copy_carries_iterations.

Example C01_include_tag_example :
  o_seen (fst (run_include ({| tc_limit := None; tc_depth := 30; tc_loops := []; tc_globals := [(lit "gx", VS 5)];
                                tc_templates := [(lit "p", [PPrint (lit "p"); PPrint (lit "gx")])]; tc_macros := [] |},
                            {| in_name := ELit (VS 0); in_tname := lit "p"; in_var := Some (EVar (lit "gx")); in_alias := None;
                               in_args := [(lit "gx", ELit (VS 7))] |}))) = [] /\
  o_out (fst (run_include ({| tc_limit := None; tc_depth := 30; tc_loops := []; tc_globals := [(lit "gx", VS 5)];
                               tc_templates := [(lit "p", [PPrint (lit "p"); PPrint (lit "gx")])]; tc_macros := [] |},
                           {| in_name := ELit (VS 0); in_tname := lit "p"; in_var := Some (EVar (lit "gx")); in_alias := None;
                              in_args := [(lit "gx", ELit (VS 7))] |}))) = [OV (VS 7); OV (VS 7)].
Proof. vm_compute. split; reflexivity. Qed.

(* ===============================================================================================================
   Template inheritance (PairInherit.v): both copies of ExtendsNode.render_to_output, BlockNode.render_to_output,
   _build_block_stacks and the node loop of render_with_context, and the ONE copy of BlockDrop.__getitem__ (block.super),
   which renders the parent block with the synchronous Node.render under either API.  The two APIs differ in two
   primitives -- obtaining a template and reading an item of a data object -- and every event records which API it went
   through and whether it happened inside block.super.  erase_run forgets those two marks and keeps the outcome, the
   block stacks left behind, the output and the sequence of loads (hits and misses). *)
Module PI := PairInherit.
Module PIP := PairInherit_Proofs.

(* render_async = render, for every world, template, fuel and initial block stacks, whenever the two APIs agree on the
   templates loaded and items read OUTSIDE block.super during the synchronous render.  Nothing is required of what is
   reached inside block.super: there both APIs run the same synchronous code. *)
Theorem C01_inherit_render : forall fuel w t st,
  Forall (PIP.agree_outside_super w) (PIP.tr (PI.render_sync fuel w t st)) ->
  PI.erase_run (PI.render_async fuel w t st) = PI.erase_run (PI.render_sync fuel w t st).
Proof. exact PIP.inherit_async_eq. Qed.
Print Assumptions C01_inherit_render.

(* the property's inputs: data objects without asynchronous item access, loaders that return the same source through
   get_source and get_source_async (C01_get_source below for the built-in ones) *)
Theorem C01_inherit_render_plain : forall fuel w t st,
  (forall x, PI.w_acc w PI.Async x = PI.w_acc w PI.Sync x) -> (forall n, PI.w_ld w PI.Async n = PI.w_ld w PI.Sync n) ->
  PI.erase_run (PI.render_async fuel w t st) = PI.erase_run (PI.render_sync fuel w t st).
Proof. exact PIP.inherit_async_eq_plain. Qed.
Print Assumptions C01_inherit_render_plain.

(* _build_block_stacks_async = _build_block_stacks in any context and for any block stacks already present: same
   chain of parents loaded in the same order, same stacks and parent links, same error (circular extends, too many
   extends, duplicate block, template not found) at the same point *)
Theorem C01_inherit_build_stacks : forall fuel w c t st,
  Forall (PIP.agree w) (PIP.tr (PI.build_stacks_sync fuel w c t st)) ->
  PI.erase_run (PI.build_stacks_async fuel w c t st) = PI.erase_run (PI.build_stacks_sync fuel w c t st).
Proof. exact PIP.build_stacks_async_eq. Qed.
Print Assumptions C01_inherit_build_stacks.

(* which API every event goes through: render uses the synchronous one only ... *)
Theorem C01_inherit_sync_modes : forall fuel w t st, Forall PIP.sync_mode_ok (PIP.tr (PI.render_sync fuel w t st)).
Proof. exact PIP.sync_modes. Qed.
Print Assumptions C01_inherit_sync_modes.

(* ... render_async the asynchronous one everywhere EXCEPT inside block.super, where templates are obtained with
   get_template and items are read with __getitem__ even though render_async is running *)
Theorem C01_inherit_async_modes : forall fuel w t st, Forall PIP.async_mode_ok (PIP.tr (PI.render_async fuel w t st)).
Proof. exact PIP.async_modes. Qed.
Print Assumptions C01_inherit_async_modes.

(* What that implies, against a render_async whose block.super awaits render_async of the parent block (ra_full: not the
   code, the yardstick): the two are indistinguishable exactly under the guard that the APIs agree on what is reached
   INSIDE block.super -- no item that reads differently when awaited, no template only the asynchronous loader has.
   _partial: the unguarded statement is refuted below; objects with __getitem_async__ are outside the property. *)
Theorem C01_super_sync_in_async_partial : forall fuel w t st,
  Forall (PIP.agree_inside_super w) (PIP.tr (PI.render_async fuel w t st)) ->
  PI.erase_run (PI.render_async fuel w t st) = PI.erase_run (PI.render_async_full fuel w t st).
Proof. exact PIP.super_sync_in_async. Qed.
Print Assumptions C01_super_sync_in_async_partial.

(* witness: under render_async the same item reads 1 (awaited) in the child block and 0 (not awaited) in the parent
   block reached through block.super *)
Theorem C01_super_sync_in_async_refuted :
  PI.out_of (PIP.tr (PI.render_async 20 PIP.wit_world PIP.wit_child PI.store0)) = [PI.OVal PI.Async PIP.kx; PI.OVal PI.Sync PIP.kx] /\
  PI.erase_run (PI.render_async 20 PIP.wit_world PIP.wit_child PI.store0) <>
  PI.erase_run (PI.render_async_full 20 PIP.wit_world PIP.wit_child PI.store0).
Proof. exact PIP.super_sync_in_async_guard_needed. Qed.
Print Assumptions C01_super_sync_in_async_refuted.

(* witness: a template only get_source_async finds, included from a parent block: found when render_async renders the
   block directly, TemplateNotFoundError when the block is reached through block.super *)
Theorem C01_super_loads_synchronously_refuted :
  fst (fst (PI.render_async 20 PIP.wit2_world PIP.wit2_child PI.store0)) = PI.Fail ENotFound /\
  fst (fst (PI.render_async_full 20 PIP.wit2_world PIP.wit2_child PI.store0)) = PI.Val tt /\
  fst (fst (PI.render_async 20 PIP.wit2_world [PI.NBlock (PI.ilit "c") false [PI.NInclude (PI.ilit "p")]] PI.store0)) = PI.Val tt.
Proof. exact PIP.super_loads_synchronously. Qed.
Print Assumptions C01_super_loads_synchronously_refuted.

(* the guard of C01_inherit_render is needed: an object whose items read differently when awaited (excluded by the
   property) makes render and render_async differ already outside block.super *)
Theorem C01_inherit_render_refuted :
  PI.erase_run (PI.render_async 20 PIP.wit_world PIP.wit_child PI.store0) <>
  PI.erase_run (PI.render_sync 20 PIP.wit_world PIP.wit_child PI.store0).
Proof. exact PIP.inherit_async_eq_guard_needed. Qed.
Print Assumptions C01_inherit_render_refuted.

(* the fully asynchronous render agrees with render when the APIs agree on everything reached *)
Theorem C01_inherit_full_async : forall fuel w t st,
  Forall (PIP.agree w) (PIP.tr (PI.render_sync fuel w t st)) ->
  PI.erase_run (PI.render_async_full fuel w t st) = PI.erase_run (PI.render_sync fuel w t st).
Proof. exact PIP.full_async_eq. Qed.
Print Assumptions C01_inherit_full_async.

Example C01_inherit_guards_example :
  Forall (PIP.agree_outside_super PIP.plain_world) (PIP.tr (PI.render_sync 20 PIP.plain_world PIP.wit_child PI.store0)) /\
  Forall (PIP.agree_inside_super PIP.plain_world) (PIP.tr (PI.render_async 20 PIP.plain_world PIP.wit_child PI.store0)) /\
  PI.out_of (PIP.tr (PI.render_async 20 PIP.plain_world PIP.wit_child PI.store0)) = [PI.OVal PI.Async PIP.kx; PI.OVal PI.Sync PIP.kx].
Proof. exact PIP.guards_hold. Qed.

(* ===============================================================================================================
   From a name to a bound template (PairLoad.v): ChoiceLoader.get_source / get_source_async (nested to any depth),
   FileSystemLoader.get_source / get_source_async, DictLoader and BaseLoader's default, BaseLoader.load / load_async,
   Environment.get_template / get_template_async, Environment.analyze_tags / analyze_tags_async. *)
Module PL := PairLoad.
Module PLP := PairLoad_Proofs.

Theorem C01_get_source : forall l name, PL.get_source_async l name = PL.get_source_sync l name.
Proof. exact PLP.get_source_async_eq. Qed.
Print Assumptions C01_get_source.

(* the same template record -- name, path, source, globals (environment globals under the globals argument), front
   matter -- or the same error (not found, syntax error of the source) *)
Theorem C01_get_template : forall e name g, PL.get_template_async e name g = PL.get_template_sync e name g.
Proof. exact PLP.get_template_async_eq. Qed.
Print Assumptions C01_get_template.

Theorem C01_analyze_tags : forall e name, PL.analyze_tags_async e name = PL.analyze_tags_sync e name.
Proof. exact PLP.analyze_tags_async_eq. Qed.
Print Assumptions C01_analyze_tags.

(* the model tells a ChoiceLoader copy apart that gives up after its first loader *)
Theorem C01_choice_first_only_refuted :
  exists ls name, PL.choice_first_only PL.get_source_async ls name <> PL.get_source_sync (PL.LChoice ls) name.
Proof. exact PLP.choice_first_only_refuted. Qed.
Print Assumptions C01_choice_first_only_refuted.

(* what both copies bind: the globals argument over the environment's globals ... *)
Theorem C01_make_globals_lookup : forall e g x,
  alookup x (PL.make_globals e g) =
  match g with
  | Some d => match alookup x (rev d) with Some v => Some v | None => alookup x (PL.e_globals e) end
  | None => alookup x (PL.e_globals e)
  end.
Proof. exact PLP.make_globals_lookup. Qed.
Print Assumptions C01_make_globals_lookup.

(* ... and the template's name is the last component of its path through the asynchronous API too *)
Theorem C01_loaded_name : forall e name g t, PL.get_template_async e name g = Ok t -> PL.t_name t = PL.basename (PL.t_path t).
Proof. exact PLP.loaded_name. Qed.
Print Assumptions C01_loaded_name.

(* One caching loader (the model of CachingLoaderMixin of C23), any history of loads, edits and deletions: which API
   each load goes through does not change any template or error returned -- cache hits, misses, reloads, evictions and
   copies bound to other globals included -- provided get_source_async hands out a plain up-to-date callable. *)
Theorem C01_caching_api_mix : forall c, CachingLoader.awaitable_uptodate c = false -> forall st rs rs',
  map PLP.sync_req rs = map PLP.sync_req rs' ->
  CachingLoader.run CachingLoader.fixed c (CachingLoader.init c st) rs =
  CachingLoader.run CachingLoader.fixed c (CachingLoader.init c st) rs'.
Proof. exact PLP.api_mix_irrelevant. Qed.
Print Assumptions C01_caching_api_mix.

(* without that (FileSystemLoader.get_source_async as found): cached through get_template_async, the next get_template
   raises LiquidError *)
Theorem C01_caching_api_mix_refuted :
  PLP.mix_run CachingLoader.Async CachingLoader.Sync <> PLP.mix_run CachingLoader.Sync CachingLoader.Sync /\
  nth_error (PLP.mix_run CachingLoader.Async CachingLoader.Sync) 1 = Some (CachingLoader.RE ELiquid).
Proof. exact PLP.api_mix_awaitable_refuted. Qed.
Print Assumptions C01_caching_api_mix_refuted.

(* ===============================================================================================================
   Static analysis (PairAnalyze.v): analyze._visit over the generators of Node.children against analyze_async._visit
   over the awaited lists of Node.children_async. *)
Module PA := PairAnalyze.
Module PAP := PairAnalyze_Proofs.

(* the two walks append the same entries to tags / variables / globals / locals in the same order, load the same
   templates in the same order, stop at the same TemplateNotFoundError and leave the same `seen` map, scopes and
   static-context bindings, for every template, include_partials flag and starting state *)
Theorem C01_analyze_walk : forall w, (forall n, PA.aw_ld w PA.AAsync n = PA.aw_ld w PA.ASync n) ->
  forall fuel ip name t st,
  PA.werase_run (PA.analyze_async fuel w ip name t st) = PA.werase_run (PA.analyze_sync fuel w ip name t st).
Proof. exact PAP.analyze_async_eq. Qed.
Print Assumptions C01_analyze_walk.

(* include_partials=False: neither walk loads anything *)
Theorem C01_analyze_no_partials : forall fuel w name t st,
  Forall PAP.not_load (PAP.wtr (PA.analyze_sync fuel w false name t st)) /\
  Forall PAP.not_load (PAP.wtr (PA.analyze_async fuel w false name t st)).
Proof. exact PAP.no_partials_no_loads. Qed.
Print Assumptions C01_analyze_no_partials.

(* each walk reaches the loader through its own API only *)
Theorem C01_analyze_walk_modes : forall fuel w ip name t st,
  Forall (PAP.loads_through PA.ASync) (PAP.wtr (PA.analyze_sync fuel w ip name t st)) /\
  Forall (PAP.loads_through PA.AAsync) (PAP.wtr (PA.analyze_async fuel w ip name t st)).
Proof. exact PAP.walk_modes. Qed.
Print Assumptions C01_analyze_walk_modes.

(* the model tells a copy apart that awaits the children of a partial before it looks the partial up in `seen` *)
Theorem C01_analyze_eager_refuted :
  PA.ao_loads (PA.aobserve (PA.analyze_async 10 PAP.wit_aw true (PA.alit "root") PAP.wit_root PA.ws0)) = [(PA.AAsync, PA.alit "p", true)] /\
  PA.ao_loads (PA.aobserve (PA.analyze_sync 10 PAP.wit_aw true (PA.alit "root") PAP.wit_root PA.ws0)) = [(PA.ASync, PA.alit "p", true)] /\
  PA.werase_run (PAP.analyze_eager 10 PAP.wit_aw true (PA.alit "root") PAP.wit_root PA.ws0) <>
  PA.werase_run (PA.analyze_sync 10 PAP.wit_aw true (PA.alit "root") PAP.wit_root PA.ws0).
Proof. exact PAP.eager_children_refuted. Qed.
Print Assumptions C01_analyze_eager_refuted.

(* The code as found identified an inline snippet by id(), the address of a node object.  Node objects die with the
   template load that parsed them and their addresses are handed out again, so the result depended on the memory
   allocator: with one legal allocation the walk recognises the snippet of a partial loaded for the third time as seen,
   with another it does not -- analyze() and analyze_async() of one template, whose allocation patterns differ, report
   different results.  Repaired (_snippet_key: source text and position); C01_analyze_walk is about the repaired code,
   where the identity is a function of the input. *)
Theorem C01_analyze_snippet_identity_refuted :
  PA.ao_globals (PA.aobserve (PA.analyze_sync 10 (PAP.old_world PAP.addr_reused) true (PA.alit "root") PAP.old_root PA.ws0)) <>
  PA.ao_globals (PA.aobserve (PA.analyze_async 10 (PAP.old_world PAP.addr_fresh) true (PA.alit "root") PAP.old_root PA.ws0)) /\
  PA.ao_globals (PA.aobserve (PA.analyze_sync 10 (PAP.old_world PAP.addr_reused) true (PA.alit "root") PAP.old_root PA.ws0)) <>
  PA.ao_globals (PA.aobserve (PA.analyze_sync 10 (PAP.old_world PAP.addr_fresh) true (PA.alit "root") PAP.old_root PA.ws0)).
Proof. exact PAP.snippet_identity_by_address_refuted. Qed.
Print Assumptions C01_analyze_snippet_identity_refuted.

Example C01_analyze_snippet_by_position_example :
  PA.ao_globals (PA.aobserve (PA.analyze_sync 10 (PAP.old_world PA.by_position) true (PA.alit "root") PAP.old_root PA.ws0)) =
    [(PA.alit "g", [(PA.alit "p", 11%N)])].
Proof. exact (proj1 PAP.snippet_identity_by_position). Qed.
