(* C01 — Synchronous and asynchronous APIs behave identically.  Property theorems only.
   One theorem per hand-written pair the property names; the caching-loader pair (CachingLoaderMixin.load / load_async)
   is C23_sync_async_copies_agree in Props/C23.v and is not repeated here. *)
From Coq Require Import String ZArith List.
From LiquidVerif Require Import Prelude PyPrims MacroArgs PairSync PairSync_Proofs PairTags PairTags_Proofs.
Import ListNotations.
Local Open Scope list_scope.

(* RenderContext.get_async = RenderContext.get for every scope and every evaluated path, whatever the first segment is
   (a string, an int, or any other object): the repaired copy. *)
Theorem C01_context_get : forall sc segs, ctx_get_async sc segs = ctx_get sc segs.
Proof. exact ctx_get_async_eq. Qed.
Print Assumptions C01_context_get.

(* Path.evaluate_async = Path.evaluate for every path, bracketed paths nested to any depth. *)
Theorem C01_path_evaluate : forall fuel sc p, eval_path_async fuel sc p = eval_path_sync fuel sc p.
Proof. exact path_async_eq. Qed.
Print Assumptions C01_path_evaluate.

(* As found (assert isinstance(root, str)): refuted by {{ [x] }} with x = 1 -- undefined synchronously, AssertionError
   asynchronously ... *)
Theorem C01_path_evaluate_old_refuted :
  exists sc p, eval_path_async_old (path_size p) sc p <> eval_path_sync (path_size p) sc p.
Proof. exact path_async_old_refuted. Qed.
Print Assumptions C01_path_evaluate_old_refuted.

(* ... and equal exactly when the path and every nested path start with a name. *)
Theorem C01_path_evaluate_old_partial : forall fuel sc p,
  roots_named fuel p = true -> eval_path_async_old fuel sc p = eval_path_sync fuel sc p.
Proof. exact path_async_old_partial. Qed.
Print Assumptions C01_path_evaluate_old_partial.

(* IfNode: the repaired asynchronous copy renders the same blocks and performs the same number of condition evaluations
   as the synchronous copy, for conditions with arbitrary side effects (a condition is any function of the number of
   evaluations performed so far), any number of elsif branches, with or without else. *)
Theorem C01_if_elsif : forall n node, if_async n node = if_sync n node.
Proof. exact if_async_eq. Qed.
Print Assumptions C01_if_elsif.

(* As found (a taken elsif branch evaluates its condition a second time): refuted for a condition that is true the first
   time and false the second (nothing is rendered, not even the else branch) ... *)
Theorem C01_if_elsif_old_refuted : exists node, fst (if_async_old 0 node) <> fst (if_sync 0 node).
Proof. exact if_async_old_refuted. Qed.
Print Assumptions C01_if_elsif_old_refuted.

(* ... while for side-effect-free conditions the same blocks are rendered. *)
Theorem C01_if_elsif_old_partial : forall node n,
  pure_cond (i_cond node) -> Forall (fun cb => pure_cond (fst cb)) (i_alts node) ->
  fst (if_async_old n node) = fst (if_sync n node).
Proof. exact if_async_old_partial. Qed.
Print Assumptions C01_if_elsif_old_partial.

(* FilteredExpression / TernaryFilteredExpression: evaluate_async = evaluate whenever every filter that has an asynchronous
   version agrees with its synchronous version -- in particular for the built-in filters, none of which has one. *)
Theorem C01_filtered : forall left fs, filters_agree fs -> filtered_async left fs = filtered_sync left fs.
Proof. exact filtered_async_eq. Qed.
Print Assumptions C01_filtered.

Theorem C01_ternary : forall c left lfs alt fs tail,
  filters_agree lfs -> filters_agree fs -> filters_agree tail ->
  ternary_async c left lfs alt fs tail = ternary_sync c left lfs alt fs tail.
Proof. exact ternary_async_eq. Qed.
Print Assumptions C01_ternary.

(* BaseLoader.load_async names the template as load does (repaired by the C23 patch C23-load-async-template-name), hence
   an include tag without alias binds its `with` value to the same variable through both APIs. *)
Theorem C01_loader_name : forall alias name full,
  load_name_async name full = load_name_sync name full /\
  include_key alias (load_name_async name full) = include_key alias (load_name_sync name full).
Proof. intros. split; [apply load_name_async_eq | apply include_key_async_eq]. Qed.
Print Assumptions C01_loader_name.

(* As found (name=name): refuted by 'dir/q' -- template name q vs dir/q, include binds q vs dir/q ... *)
Theorem C01_loader_name_old_refuted :
  exists name full, load_name_async_old name full <> load_name_sync name full /\
                    include_key None (load_name_async_old name full) <> include_key None (load_name_sync name full).
Proof. exact load_name_async_old_refuted. Qed.
Print Assumptions C01_loader_name_old_refuted.

(* ... and equal for names without a directory part whose source name is the requested name. *)
Theorem C01_loader_name_old_partial : forall name, has_slash name = false ->
  load_name_async_old name name = load_name_sync name name.
Proof. exact load_name_async_old_partial. Qed.
Print Assumptions C01_loader_name_old_partial.

(* non-vacuity *)
Example C01_path_example :
  run_path {| pc_scope := [(plit "x"%string, VInt 1); (plit "a"%string, VDict [(plit "b"%string, VStr (plit "v"%string))])];
              pc_path := [PName (plit "a"%string); PNested [PName (plit "k"%string)]] |} = (OText [], OText []) /\
  run_path_old {| pc_scope := [(plit "x"%string, VInt 1)]; pc_path := [PNested [PName (plit "x"%string)]] |}
    = (OText [], OExn EAssertionError).
Proof. vm_compute. split; reflexivity. Qed.

Example C01_if_example :
  run_if_old {| ic_script := [false; true; false]; ic_nalts := 2; ic_else := true |} = (([1%N], 2), ([], 3)) /\
  run_if {| ic_script := [false; true; false]; ic_nalts := 2; ic_else := true |} = (([1%N], 2), ([1%N], 2)).
Proof. vm_compute. split; reflexivity. Qed.

Example C01_roots_named_example : roots_named 3 [PName (plit "a"%string); PNested [PName (plit "k"%string)]] = true.
Proof. reflexivity. Qed.

Example C01_filters_agree_example : filters_agree [{| f_sync := fun v => Ok v; f_async := None |}].
Proof. constructor; [exact I | constructor]. Qed.

(* ---------------------------------------------------------------------------------------------------------------
   The paired copies of the tags (PairTags.v): each copy is a sequence of primitive render-context operations; compared
   are the evaluation log (which variable is looked up when, answered by a local namespace / the globals / nothing), the
   trace of context operations with their arguments (extend, bind, loop-limit checks, loop_iterations, copy with its
   flags, render_with_context with its flags), the output and the outcome. *)

(* IncludeNode: name evaluation, get_template, keyword arguments, extend, bound variable (evaluated with the arguments in
   scope), array / single branch, loop-limit check, loop_iterations, render_with_context -- same operations in the same
   order through both APIs, for every environment, context, node and starting state. *)
Theorem C01_include_tag : forall e c n s, include_async e c n s = include_sync e c n s.
Proof. exact include_async_eq. Qed.
Print Assumptions C01_include_tag.

(* RenderNode: get_template, keyword arguments, copy (include disabled, iterations carried, template), bound variable
   (evaluated in the CALLER's context), forloop drop, one isolated copy per item, block scope. *)
Theorem C01_render_tag : forall e c n s, render_async e c n s = render_sync e c n s.
Proof. exact render_async_eq. Qed.
Print Assumptions C01_render_tag.

(* CallNode: macro lookup, excess positional, excess keyword, then parameters in declaration order, copy (include and
   block disabled, iterations carried), body rendered as a block. *)
Theorem C01_call_tag : forall e c n s, call_async e c n s = call_sync e c n s.
Proof. exact call_async_eq. Qed.
Print Assumptions C01_call_tag.

(* The model tells the two divergences that were once seeded apart: the bound variable of include evaluated before the
   keyword arguments are pushed (log and output differ for {% include 'p' with gx, gx: 7 %}) ... *)
Theorem C01_include_seeded_refuted :
  exists e c n,
    s_log (snd (include_async_seeded e c n st0)) <> s_log (snd (include_sync e c n st0)) /\
    s_out (snd (include_async_seeded e c n st0)) <> s_out (snd (include_sync e c n st0)).
Proof. exact include_async_seeded_refuted. Qed.
Print Assumptions C01_include_seeded_refuted.

(* ... and carry_loop_iterations dropped from the copy made by call (outcome and copy flags differ under a loop limit). *)
Theorem C01_call_seeded_refuted :
  exists e c n,
    fst (call_async_seeded e c n st0) <> fst (call_sync e c n st0) /\
    s_trace (snd (call_async_seeded e c n st0)) <> s_trace (snd (call_sync e c n st0)).
Proof. exact call_async_seeded_refuted. Qed.
Print Assumptions C01_call_seeded_refuted.

(* What both copies of include do with the bound variable, for all inputs: once the keyword arguments are pushed, a
   keyword argument of the same name answers and the globals are not consulted. *)
Theorem C01_include_bound_var_scope : forall e c m x y s c1 s1,
  extend e c m s = (Ok c1, s1) -> alookup x m = Some y ->
  resolve c1 x s1 = (Ok y, log1 s1 (x, WLocal)).
Proof. exact include_bound_var_sees_keyword. Qed.
Print Assumptions C01_include_bound_var_scope.

(* What a copy with carry_loop_iterations hands to the callee's loop-limit checks. *)
Theorem C01_copy_carries_iterations : forall e c m d b t s cx s1,
  copy e c m d true b t s = (Ok cx, s1) -> c_carry cx = prod (c_loops c) * c_carry c.
Proof. exact copy_carries_iterations. Qed.
Print Assumptions C01_copy_carries_iterations.

Example C01_include_tag_example :
  o_seen (fst (run_include ({| tc_limit := None; tc_depth := 30; tc_loops := []; tc_globals := [(lit "gx", VS 5)];
                                tc_templates := [(lit "p", [PPrint (lit "p"); PPrint (lit "gx")])]; tc_macros := [] |},
                            {| in_name := ELit (VS 0); in_tname := lit "p"; in_var := Some (EVar (lit "gx")); in_alias := None;
                               in_args := [(lit "gx", ELit (VS 7))] |}))) = [] /\
  o_out (fst (run_include ({| tc_limit := None; tc_depth := 30; tc_loops := []; tc_globals := [(lit "gx", VS 5)];
                               tc_templates := [(lit "p", [PPrint (lit "p"); PPrint (lit "gx")])]; tc_macros := [] |},
                           {| in_name := ELit (VS 0); in_tname := lit "p"; in_var := Some (EVar (lit "gx")); in_alias := None;
                              in_args := [(lit "gx", ELit (VS 7))] |}))) = [OV (VS 7); OV (VS 7)].
Proof. vm_compute. split; reflexivity. Qed.
