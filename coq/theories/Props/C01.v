(* C01 — Synchronous and asynchronous APIs behave identically.  Property theorems only.
   One theorem per hand-written pair the property names; the caching-loader pair (CachingLoaderMixin.load / load_async)
   is C23_sync_async_copies_agree in Props/C23.v and is not repeated here. *)
From Coq Require Import String ZArith List.
From LiquidVerif Require Import Prelude PyPrims PairSync PairSync_Proofs.
Import ListNotations.
Local Open Scope list_scope.

(* RenderContext.get_async = RenderContext.get for every scope and every evaluated path, whatever the first segment is
   (a string, an int, or any other object): the repaired copy. *)
Theorem C01_context_get : forall sc segs, ctx_get_async sc segs = ctx_get sc segs.
Proof. exact ctx_get_async_eq. Qed.
Print Assumptions C01_context_get.

(* Path.evaluate_async = Path.evaluate for every path, bracketed paths nested to any depth. *)
Theorem C01_path_evaluate : forall fuel sc p, eval_path_async fuel sc p = eval_path_sync fuel sc p.
Proof. exact path_async_eq. Qed.
Print Assumptions C01_path_evaluate.

(* As found (assert isinstance(root, str)): refuted by {{ [x] }} with x = 1 -- undefined synchronously, AssertionError
   asynchronously ... *)
Theorem C01_path_evaluate_old_refuted :
  exists sc p, eval_path_async_old (path_size p) sc p <> eval_path_sync (path_size p) sc p.
Proof. exact path_async_old_refuted. Qed.
Print Assumptions C01_path_evaluate_old_refuted.

(* ... and equal exactly when the path and every nested path start with a name. *)
Theorem C01_path_evaluate_old_partial : forall fuel sc p,
  roots_named fuel p = true -> eval_path_async_old fuel sc p = eval_path_sync fuel sc p.
Proof. exact path_async_old_partial. Qed.
Print Assumptions C01_path_evaluate_old_partial.

(* IfNode: the repaired asynchronous copy renders the same blocks and performs the same number of condition evaluations
   as the synchronous copy, for conditions with arbitrary side effects (a condition is any function of the number of
   evaluations performed so far), any number of elsif branches, with or without else. *)
Theorem C01_if_elsif : forall n node, if_async n node = if_sync n node.
Proof. exact if_async_eq. Qed.
Print Assumptions C01_if_elsif.

(* As found (a taken elsif branch evaluates its condition a second time): refuted for a condition that is true the first
   time and false the second (nothing is rendered, not even the else branch) ... *)
Theorem C01_if_elsif_old_refuted : exists node, fst (if_async_old 0 node) <> fst (if_sync 0 node).
Proof. exact if_async_old_refuted. Qed.
Print Assumptions C01_if_elsif_old_refuted.

(* ... while for side-effect-free conditions the same blocks are rendered. *)
Theorem C01_if_elsif_old_partial : forall node n,
  pure_cond (i_cond node) -> Forall (fun cb => pure_cond (fst cb)) (i_alts node) ->
  fst (if_async_old n node) = fst (if_sync n node).
Proof. exact if_async_old_partial. Qed.
Print Assumptions C01_if_elsif_old_partial.

(* FilteredExpression / TernaryFilteredExpression: evaluate_async = evaluate whenever every filter that has an asynchronous
   version agrees with its synchronous version -- in particular for the built-in filters, none of which has one. *)
Theorem C01_filtered : forall left fs, filters_agree fs -> filtered_async left fs = filtered_sync left fs.
Proof. exact filtered_async_eq. Qed.
Print Assumptions C01_filtered.

Theorem C01_ternary : forall c left lfs alt fs tail,
  filters_agree lfs -> filters_agree fs -> filters_agree tail ->
  ternary_async c left lfs alt fs tail = ternary_sync c left lfs alt fs tail.
Proof. exact ternary_async_eq. Qed.
Print Assumptions C01_ternary.

(* BaseLoader.load_async names the template as load does (repaired by the C23 patch C23-load-async-template-name), hence
   an include tag without alias binds its `with` value to the same variable through both APIs. *)
Theorem C01_loader_name : forall alias name full,
  load_name_async name full = load_name_sync name full /\
  include_key alias (load_name_async name full) = include_key alias (load_name_sync name full).
Proof. intros. split; [apply load_name_async_eq | apply include_key_async_eq]. Qed.
Print Assumptions C01_loader_name.

(* As found (name=name): refuted by 'dir/q' -- template name q vs dir/q, include binds q vs dir/q ... *)
Theorem C01_loader_name_old_refuted :
  exists name full, load_name_async_old name full <> load_name_sync name full /\
                    include_key None (load_name_async_old name full) <> include_key None (load_name_sync name full).
Proof. exact load_name_async_old_refuted. Qed.
Print Assumptions C01_loader_name_old_refuted.

(* ... and equal for names without a directory part whose source name is the requested name. *)
Theorem C01_loader_name_old_partial : forall name, has_slash name = false ->
  load_name_async_old name name = load_name_sync name name.
Proof. exact load_name_async_old_partial. Qed.
Print Assumptions C01_loader_name_old_partial.

(* non-vacuity *)
Example C01_path_example :
  run_path {| pc_scope := [(plit "x"%string, VInt 1); (plit "a"%string, VDict [(plit "b"%string, VStr (plit "v"%string))])];
              pc_path := [PName (plit "a"%string); PNested [PName (plit "k"%string)]] |} = (OText [], OText []) /\
  run_path_old {| pc_scope := [(plit "x"%string, VInt 1)]; pc_path := [PNested [PName (plit "x"%string)]] |}
    = (OText [], OExn EAssertionError).
Proof. vm_compute. split; reflexivity. Qed.

Example C01_if_example :
  run_if_old {| ic_script := [false; true; false]; ic_nalts := 2; ic_else := true |} = (([1%N], 2), ([], 3)) /\
  run_if {| ic_script := [false; true; false]; ic_nalts := 2; ic_else := true |} = (([1%N], 2), ([1%N], 2)).
Proof. vm_compute. split; reflexivity. Qed.

Example C01_roots_named_example : roots_named 3 [PName (plit "a"%string); PNested [PName (plit "k"%string)]] = true.
Proof. reflexivity. Qed.

Example C01_filters_agree_example : filters_agree [{| f_sync := fun v => Ok v; f_async := None |}].
Proof. constructor; [exact I | constructor]. Qed.
