(* C21 — Tag analysis is total and raises no false alarms.  Property theorems only. *)
From Coq Require Import String.
From LiquidVerif Require Import Prelude TagAudit TagAudit_Proofs.
Local Open Scope string_scope. Local Open Scope list_scope.

(* analysing any token sequence returns a result (no IndexError any more) *)
Theorem C21_total : forall e toks, exists r, audit e toks = Ok r.
Proof. exact audit_total. Qed.
Print Assumptions C21_total.

(* for every tag register that passes the computable well-formedness check (evaluated on the live
   environment tables on every run), a source the tag-level grammar accepts raises no alarm at all *)
Theorem C21_no_false_alarm : forall e, wf_envb e = true ->
  forall toks, wellnested e toks = true -> audit e toks = Ok empty_report.
Proof. exact no_false_alarm. Qed.
Print Assumptions C21_no_false_alarm.

(* unknown tag names are always reported *)
Theorem C21_unknown_reported : forall e toks t r,
  In t toks -> starts_end t = false -> mem t (registered_tags e) = false -> enclosing e t = [] ->
  audit e toks = Ok r -> In t (unknown r).
Proof. exact unknown_reported. Qed.
Print Assumptions C21_unknown_reported.

(* a block tag for which no end tag occurs anywhere is reported as unclosed, once per occurrence *)
Theorem C21_unclosed_reported : forall e toks x r,
  In x (block_names e) -> starts_end x = false ->
  (forall u, In u toks -> starts_end u = true -> drop3 u <> x) ->
  audit e toks = Ok r -> count x (unclosed r) = count x toks.
Proof. exact unclosed_reported. Qed.
Print Assumptions C21_unclosed_reported.

Definition mini_env : tagenv :=
  {| blocks := [(lit "if", lit "endif"); (lit "for", lit "endfor"); (lit "macro", [])];
     inlines := [lit "assign"; lit "break"; lit "continue"];
     inner := [(lit "for", [lit "break"; lit "continue"; lit "else"]); (lit "if", [lit "else"; lit "elsif"])] |}.

(* the code before the fixes: a stray end tag raised IndexError, and the conventional end tag of a
   block tag that declares none (macro) was reported as unknown although the source is well nested *)
Theorem C21_old_refuted :
  audit_old mini_env [lit "endif"] = Err EIndexError /\
  wellnested mini_env [lit "macro"; lit "endmacro"] = true /\
  (exists r, audit_old mini_env [lit "macro"; lit "endmacro"] = Ok r /\ unknown r = [lit "endmacro"]).
Proof. vm_compute. repeat split. eexists. split; reflexivity. Qed.
Print Assumptions C21_old_refuted.

(* non-vacuity: the hypotheses of C21_no_false_alarm hold of a concrete register and nested source *)
Example C21_nonvacuous :
  wf_envb mini_env = true /\
  wellnested mini_env [lit "for"; lit "if"; lit "else"; lit "break"; lit "endif"; lit "else"; lit "assign"; lit "endfor";
                       lit "macro"; lit "endmacro"] = true.
Proof. vm_compute. split; reflexivity. Qed.
