(* C21 — Tag analysis is total and raises no false alarms.  Property theorems only. *)
From Coq Require Import String.
From LiquidVerif Require Import Prelude TagAudit TagAudit_Proofs TagWalk TagWalk_Proofs.
From LiquidVerif Require TagTree.
Local Open Scope string_scope. Local Open Scope list_scope.

(* analysing any token sequence returns a result (no IndexError any more) *)
Theorem C21_total : forall e toks, exists r, audit e toks = Ok r.
Proof. exact audit_total. Qed.
Print Assumptions C21_total.

(* for every tag register that passes the computable well-formedness check (evaluated on the live
   environment tables on every run), a source the tag-level grammar accepts raises no alarm at all *)
Theorem C21_no_false_alarm : forall e, wf_envb e = true ->
  forall toks, wellnested e toks = true -> audit e toks = Ok empty_report.
Proof. exact no_false_alarm. Qed.
Print Assumptions C21_no_false_alarm.

(* unknown tag names are always reported *)
Theorem C21_unknown_reported : forall e toks t r,
  In t toks -> starts_end t = false -> mem t (registered_tags e) = false -> enclosing e t = [] ->
  audit e toks = Ok r -> In t (unknown r).
Proof. exact unknown_reported. Qed.
Print Assumptions C21_unknown_reported.

(* a block tag for which no end tag occurs anywhere is reported as unclosed, once per occurrence *)
Theorem C21_unclosed_reported : forall e toks x r,
  In x (block_names e) -> starts_end x = false ->
  (forall u, In u toks -> starts_end u = true -> drop3 u <> x) ->
  audit e toks = Ok r -> count x (unclosed r) = count x toks.
Proof. exact unclosed_reported. Qed.
Print Assumptions C21_unclosed_reported.

(* ================= the walk over the REAL token kinds (TagWalk.v) ================= *)

(* clause 1 on real tokens: whatever the lexer yields -- tags, expressions, text, output statements, comment text, doc
   blocks, in any order -- the analysis returns a report *)
Theorem C21_walk_total : forall e toks, exists r, analyze e toks = Ok r.
Proof. exact analyze_total. Qed.
Print Assumptions C21_walk_total.

(* only TAG tokens count: tokens of every other kind can be deleted or inserted anywhere without changing the report *)
Theorem C21_walk_ignores_other_tokens : forall e toks, analyze e (filter is_tag toks) = analyze e toks.
Proof. exact analyze_ignores_other_tokens. Qed.
Print Assumptions C21_walk_ignores_other_tokens.

(* what the lexer's treatment of the source constructs leaves for the analysis: the tags written at template level,
   comment / endcomment around a comment block, # for an inline comment, liquid for a liquid tag -- nothing from inside
   raw, doc and comment blocks, nothing from the lines of a liquid tag, nothing after an unclosed comment tag *)
Theorem C21_walk_sees : forall its, names_of (lex_items its) = item_names its.
Proof. exact names_of_lex. Qed.
Print Assumptions C21_walk_sees.

Theorem C21_swallowed_content_irrelevant : forall e pre post b b' ls ls',
  analyze_items e (pre ++ IRaw b :: post) = analyze_items e (pre ++ IRaw b' :: post) /\
  analyze_items e (pre ++ IDoc b :: post) = analyze_items e (pre ++ IDoc b' :: post) /\
  analyze_items e (pre ++ IComment b :: post) = analyze_items e (pre ++ IComment b' :: post) /\
  analyze_items e (pre ++ ILiquid ls :: post) = analyze_items e (pre ++ ILiquid ls' :: post).
Proof. exact swallowed_content_irrelevant. Qed.
Print Assumptions C21_swallowed_content_irrelevant.

(* ================= clause 2 against the PARSER model of TagTree.v ================= *)

(* for every register consistent with the parser's (a computable check, true of both shipped environments and re-evaluated
   on the live tables on every run) and every token stream TagTree.parse_template accepts -- any nesting of block tags with
   their section tags, inline tags, raw and comment blocks, output, text --, the report is EXACTLY: nothing unclosed,
   nothing unknown, unexpected = the break / continue tags outside every block that lists them *)
Theorem C21_parsed_report : forall e pb pi, consistentb e pb pi = true ->
  forall ts ns, TagTree.parse_template (kind_from pb pi) ts = Ok ns ->
  audit e (tnames ts) = Ok {| unclosed := []; unexpected := stray_interrupts e (tnames ts) []; unknown := [] |}.
Proof. exact parsed_report. Qed.
Print Assumptions C21_parsed_report.

(* the same from the source constructs: raw / doc / comment blocks, inline comments and liquid tags included *)
Theorem C21_parsed_source_report : forall e pb pi its ns,
  consistentb e pb pi = true -> TagTree.parse_template (kind_from pb pi) (ttoks_of its) = Ok ns ->
  analyze_items e its = Ok {| unclosed := []; unexpected := stray_interrupts e (item_names its) []; unknown := [] |}.
Proof. exact parsed_items_report. Qed.
Print Assumptions C21_parsed_source_report.

(* hence no unclosed and no unknown report for a parsed source, and only break / continue can be called unexpected ... *)
Theorem C21_parsed_only_interrupts : forall e pb pi its ns r,
  consistentb e pb pi = true -> TagTree.parse_template (kind_from pb pi) (ttoks_of its) = Ok ns ->
  analyze_items e its = Ok r ->
  unclosed r = [] /\ unknown r = [] /\ forall t, In t (unexpected r) -> is_loop_interrupt t = true.
Proof. exact parsed_only_interrupts. Qed.
Print Assumptions C21_parsed_only_interrupts.

(* ... and no alarm at all without a break / continue written at template level *)
Theorem C21_parsed_no_alarm : forall e pb pi its ns,
  consistentb e pb pi = true -> TagTree.parse_template (kind_from pb pi) (ttoks_of its) = Ok ns ->
  (forall t, In t (item_names its) -> is_loop_interrupt t = false) ->
  analyze_items e its = Ok empty_report.
Proof. exact parsed_no_alarm. Qed.
Print Assumptions C21_parsed_no_alarm.

(* the default register and the register with liquid.extra's tags (macro, call, with, extends, block, translate / plural,
   snippet; macro and block declare no end tag) are consistent with the parser's registers *)
Theorem C21_shipped_registers_consistent :
  consistentb default_env TagTree.std_blocks TagTree.std_inlines = true /\ consistentb extra_env ext_blocks ext_inlines = true.
Proof. exact shipped_consistent. Qed.
Print Assumptions C21_shipped_registers_consistent.

(* ================= clause 3 at source level ================= *)
Theorem C21_unknown_tag_in_source_reported : forall e its t r,
  In t (item_names its) -> starts_end t = false -> mem t (registered_tags e) = false -> enclosing e t = [] ->
  analyze_items e its = Ok r -> In t (unknown r).
Proof. exact unknown_item_reported. Qed.
Print Assumptions C21_unknown_tag_in_source_reported.

Theorem C21_unclosed_block_in_source_reported : forall e its x r,
  In x (block_names e) -> starts_end x = false ->
  (forall u, In u (item_names its) -> starts_end u = true -> drop3 u <> x) ->
  analyze_items e its = Ok r -> count x (unclosed r) = count x (item_names its).
Proof. exact unclosed_item_reported. Qed.
Print Assumptions C21_unclosed_block_in_source_reported.

(* recorded findings, as witnesses.  (1) a break outside any for block: the parser accepts it, the analysis calls it
   unexpected.  (2) clause 3 does NOT hold for tags written on the lines of a liquid tag: an unknown tag and an unclosed
   block there go unreported (the lines are one unscanned expression token) *)
Theorem C21_recorded_findings_refuted :
  (exists ns, TagTree.parse_template TagTree.std_kind (ttoks_of [ITag (lit "break") false]) = Ok ns) /\
  analyze_items default_env [ITag (lit "break") false] =
    Ok {| unclosed := []; unexpected := [lit "break"]; unknown := [] |} /\
  analyze_items default_env [ILiquid [(lit "nosuchtag", false); (lit "if", true)]] = Ok empty_report.
Proof. vm_compute. repeat split. eexists. reflexivity. Qed.
Print Assumptions C21_recorded_findings_refuted.

Definition mini_env : tagenv :=
  {| blocks := [(lit "if", lit "endif"); (lit "for", lit "endfor"); (lit "macro", [])];
     inlines := [lit "assign"; lit "break"; lit "continue"];
     inner := [(lit "for", [lit "break"; lit "continue"; lit "else"]); (lit "if", [lit "else"; lit "elsif"])] |}.

(* the code before the fixes: a stray end tag raised IndexError, and the conventional end tag of a
   block tag that declares none (macro) was reported as unknown although the source is well nested *)
Theorem C21_old_refuted :
  audit_old mini_env [lit "endif"] = Err EIndexError /\
  wellnested mini_env [lit "macro"; lit "endmacro"] = true /\
  (exists r, audit_old mini_env [lit "macro"; lit "endmacro"] = Ok r /\ unknown r = [lit "endmacro"]).
Proof. vm_compute. repeat split. eexists. split; reflexivity. Qed.
Print Assumptions C21_old_refuted.

(* non-vacuity: the hypotheses of C21_no_false_alarm hold of a concrete register and nested source *)
Example C21_nonvacuous :
  wf_envb mini_env = true /\
  wellnested mini_env [lit "for"; lit "if"; lit "else"; lit "break"; lit "endif"; lit "else"; lit "assign"; lit "endfor";
                       lit "macro"; lit "endmacro"] = true.
Proof. vm_compute. split; reflexivity. Qed.

(* non-vacuity of C21_parsed_source_report: a template with every kind of construct, in the extra register *)
Example C21_parsed_nonvacuous :
  let its := [IText; ITag (lit "macro") true; IOut; ITag (lit "for") true; IRaw [ITag (lit "if") true]; ITag (lit "break") false;
              IComment [ITag (lit "nosuch") false]; ITag (lit "else") false; IHash; ITag (lit "endfor") false;
              ILiquid [(lit "if", true); (lit "endif", false)]; ITag (lit "endmacro") false;
              ITag (lit "translate") false; IText; ITag (lit "plural") false; IText; ITag (lit "endtranslate") false; IDoc []] in
  (exists ns, TagTree.parse_template ext_kind (ttoks_of its) = Ok ns) /\ analyze_items extra_env its = Ok empty_report.
Proof. vm_compute. split; [eexists|]; reflexivity. Qed.
