(* C10 — Literal text, raw blocks, comments and whitespace control.  Property theorems only.
   Model: Lex.v (scanner of liquid/lex.py after the fixes C10-raw-endraw-marker, C10-final-newline and
   C11-unclosed-markup-custom-delimiters, plus the
   parser/renderer for the literal fragment); specification: LexSpec.v (templates as texts alternating with markup,
   spec_render).  A template is a list of (text, markup) pairs and a final text; [build d tp] is its source. *)
From Coq Require Import String.
From LiquidVerif Require Import Prelude Lex LexSpec Lex_Proofs Lex_Match_Proofs Lex_C10_Proofs LexOcc Lex_Occ_Proofs MacroArgs.
Local Open Scope string_scope. Local Open Scope list_scope.

(* For all delimiters d and all templates tp, tokenizing, parsing and rendering the source gives exactly the documented
   rendering — every text verbatim except that it is left-stripped iff the closing delimiter before it carries '-' and
   right-stripped iff the opening delimiter after it carries '-'; output/echo write their string; a raw block writes its
   body; comments, doc, shorthand and inline comments write nothing — under the OCCURRENCE guard [no_collision_occ]
   (LexOcc.v), which is what "the text does not collide with the delimiters" means exactly:
     * a text may contain ANY characters, provided that at no position inside it an opening delimiter (tag start,
       statement start, comment start when shorthand comments are on) is a prefix of the remaining source; this counts an
       occurrence completed by the following markup (text "{" before "{% .. %}" forms "{{%": excluded; "{" before " x",
       "{ {", "%}", "}}", "a-" are all fine);
     * the quoted string of an output/echo and the body of an inline comment may contain anything, provided the closing
       sub-pattern  \s*-?<end delimiter>  matches at no position inside it (so "}" is fine in {{ '}' }}, and a body
       must not end in whitespace or '-' directly before the delimiter, where the regex would take it as the marker);
     * a raw / doc body may contain anything (complete markup included) except a position at which its own closing tag
       ( {%[-] endraw [-]%} / enddoc ) matches; a shorthand comment body anything except a position where  -?#}  matches;
     * the body of a block comment, which the lexer scans again, is a text in the above sense (bodies containing complete
       markup, and the inner lines of liquid tags, remain covered by the correspondence run only).
   Proof: the general search lemma nomatch_find_first (no match at any position of a prefix => find_first lands exactly
   at its end) instantiated for the content look-ahead and each closing pattern, one match_at lemma per shape, induction
   over the segments with the strip flag generalised. *)
Theorem C10_whitespace_control : forall d tp, no_collision_occ d tp = true ->
  render_src d (build d tp) = ROut (spec_render tp).
Proof. exact whitespace_control. Qed.
Print Assumptions C10_whitespace_control.

(* the guard position by position: exactly "no opening delimiter starts inside the text" *)
Theorem C10_text_guard_exact : forall d t after, clean d t after = true <->
  (forall j, j < length t -> delim_at d (skipn j (t ++ after)) = None).
Proof. exact clean_spec. Qed.
Print Assumptions C10_text_guard_exact.

(* every template admitted by the earlier alphabet guard (texts over characters that cannot begin an opening
   delimiter) is admitted by the occurrence guard, so the earlier theorem is a corollary *)
Theorem C10_occurrence_guard_subsumes_alphabet_guard : forall d tp,
  no_collision d tp = true -> no_collision_occ d tp = true.
Proof. exact no_collision_occ_of_alphabet. Qed.
Print Assumptions C10_occurrence_guard_subsumes_alphabet_guard.

Theorem C10_whitespace_control_partial : forall d tp, no_collision d tp = true ->
  render_src d (build d tp) = ROut (spec_render tp).
Proof. exact whitespace_control_alphabet. Qed.
Print Assumptions C10_whitespace_control_partial.

(* text outside markup is output verbatim: any text in which no opening delimiter occurs *)
Theorem C10_text_verbatim : forall d t, d_ok d = true -> clean d t [] = true -> render_src d t = ROut t.
Proof. exact text_verbatim_occ. Qed.
Print Assumptions C10_text_verbatim.

(* the body of a raw block is output verbatim whatever the four markers are and whatever markup it contains; only the
   texts around it are stripped, the text after it according to the marker of ENDRAW's closing delimiter *)
Theorem C10_raw_verbatim : forall d t1 l1 w1 w2 r1 body l2 w3 w4 r2 t2,
  no_collision_occ d ([(t1, MkRaw l1 w1 w2 r1 body l2 w3 w4 r2)], t2) = true ->
  render_src d (t1 ++ msrc d (MkRaw l1 w1 w2 r1 body l2 w3 w4 r2) ++ t2)
  = ROut (strip_text false l1 t1 ++ body ++ strip_text r2 false t2).
Proof. exact raw_verbatim_occ. Qed.
Print Assumptions C10_raw_verbatim.

(* comment, doc, shorthand-comment and inline-comment bodies are never output *)
Theorem C10_comments_silent : forall d t1 m t2, silent m = true -> no_collision_occ d ([(t1, m)], t2) = true ->
  render_src d (t1 ++ msrc d m ++ t2) = ROut (strip_text false (opens m) t1 ++ strip_text (closes m) false t2).
Proof. exact comments_silent_occ. Qed.
Print Assumptions C10_comments_silent.

(* reading of the specification: without any hyphen nothing is removed ... *)
Theorem C10_no_hyphen_no_strip : forall segs tail, no_markers segs = true ->
  spec_from false segs tail = plain_concat segs tail.
Proof. exact no_hyphen_no_strip. Qed.
Print Assumptions C10_no_hyphen_no_strip.

(* ... and a hyphen removes ALL the whitespace: what is removed is whitespace only and what remains starts with a
   non-space character (or is empty) *)
Theorem C10_strip_removes_all_whitespace : forall t,
  exists w, t = w ++ lstrip_s t /\ all_space w = true /\ stops (lstrip_s t).
Proof. exact lstrip_spec. Qed.
Print Assumptions C10_strip_removes_all_whitespace.

(* the same on the other side: what a hyphen on an OPENING delimiter removes from the END of the preceding text is
   whitespace only, and what remains ends with a non-space character (or is empty) *)
Theorem C10_rstrip_removes_all_whitespace : forall t,
  exists w, t = rstrip_s t ++ w /\ all_space w = true /\ stops (rev (rstrip_s t)).
Proof. exact rstrip_spec. Qed.
Print Assumptions C10_rstrip_removes_all_whitespace.

(* stripping never removes more on a second pass: a stripped text has no whitespace left on that side *)
Theorem C10_strip_idempotent : forall t, lstrip_s (lstrip_s t) = lstrip_s t /\ rstrip_s (rstrip_s t) = rstrip_s t.
Proof. intros t. split; [exact (lstrip_idem t) | exact (rstrip_idem t)]. Qed.
Print Assumptions C10_strip_idempotent.

(* ---- the two defects of the unrepaired lexer, as witnesses against the same statement for [render_src_old] ---- *)
(* {% raw %} x {% endraw -%}  y : endraw's marker ignored (the old code uses the raw tag's own marker) *)
Definition raw_witness : template :=
  ([([], MkRaw false (lit " ") (lit " ") false (lit " x ") false (lit " ") (lit " ") true)], lit "  y").
Theorem C10_old_raw_marker_refuted :
  no_collision default_delims raw_witness = true /\
  render_src_old default_delims (build default_delims raw_witness) <> ROut (spec_render raw_witness).
Proof. split; [vm_compute; reflexivity | vm_compute; discriminate]. Qed.
Print Assumptions C10_old_raw_marker_refuted.

(* {{ 'x' -}}a<newline> : the final newline, split off by `$`, is stripped by the stale lstrip flag *)
Definition newline_witness : template :=
  ([([], MkOut false (lit " ") 39%N (lit "x") (lit " ") true)], lit "a" ++ [10%N]).
Theorem C10_old_final_newline_refuted :
  no_collision default_delims newline_witness = true /\
  render_src_old default_delims (build default_delims newline_witness) <> ROut (spec_render newline_witness).
Proof. split; [vm_compute; reflexivity | vm_compute; discriminate]. Qed.
Print Assumptions C10_old_final_newline_refuted.

(* non-vacuity: the default delimiters and a template with every markup kind satisfy the hypotheses *)
Example C10_default_delims_ok : d_ok default_delims = true.
Proof. reflexivity. Qed.

Definition sample : template :=
  ([(lit " a ", MkRaw false (lit " ") (lit " ") false (lit " x ") true [] [] true);
    (lit "  ", MkOut true (lit " ") 39%N (lit "hi") [] true);
    (lit " b ", MkComment true [] [] false (lit "zz") false [] [] true);
    ([], MkShort true (lit "s") false);
    (lit " q", MkInline false [] [] (lit "a b") (lit " ") true);
    (lit " ", MkEcho true (lit " ") (lit " ") 34%N (lit "e") [] false);
    ([], MkDoc false [] [] true (lit " d ") false [] [] false)], lit "  end").
Example C10_sample_ok : no_collision default_delims sample = true.
Proof. vm_compute. reflexivity. Qed.
Example C10_sample_render :
  render_src default_delims (build default_delims sample) = ROut (lit " a  x hib qe  end").
Proof. vm_compute. reflexivity. Qed.
(* markup-like fragments in texts and markup inside raw/doc bodies now fall under the theorem (not under the alphabet guard) *)
Definition fragments : template :=
  ([(lit "{ { ", MkRaw false (lit " ") (lit " ") true (lit "{{ y }} {% if %} {#") false [] [] false);
    (lit "%} }}", MkOut false (lit " ") 39%N (lit "}") [] true);
    (lit " a- { ", MkDoc true [] [] false (lit "{% doc %} #}") false [] [] false);
    (lit "#} %", MkShort false (lit " { ") false)], lit " { ").
Example C10_fragments_ok : no_collision_occ default_delims fragments = true /\ no_collision default_delims fragments = false.
Proof. split; vm_compute; reflexivity. Qed.
Example C10_fragments_render :
  render_src default_delims (build default_delims fragments) = ROut (lit "{ { {{ y }} {% if %} {#%} }}}a- {#} % { ").
Proof. vm_compute. reflexivity. Qed.
(* the boundary case: "{" directly before a tag would read as "{{" + "%..." *)
Example C10_boundary_excluded :
  clean default_delims (lit "{") (lit "{% # c %}") = false /\ clean default_delims (lit "{") (lit " x") = true.
Proof. split; vm_compute; reflexivity. Qed.
Example C10_repaired_raw : render_src default_delims (build default_delims raw_witness) = ROut (lit " x y").
Proof. vm_compute. reflexivity. Qed.
