(* C05 -- placeholder while the harness is brought up *)
From Coq Require Import ZArith List Bool.
From LiquidVerif Require Import Prelude Escape Escape_Proofs.
Theorem C05_escape_no_raw : forall s, no_raw (escape s) = true.
Proof. exact escape_no_raw. Qed.
Print Assumptions C05_escape_no_raw.
