(* C05 -- Autoescape keeps render data from injecting HTML.  Property theorems only.
   Model (Escape.v): strings with a Markup flag, markupsafe.escape, the Markup algebra (+, join, replace, split, slicing, case,
   strip keep the flag and escape their arguments; plain-str operations drop it), html.unescape, the filters' autoescape
   branches, to_liquid_string, string literals, capture, and an interpreter for text / output / echo / assign / capture /
   if-unless-case / for / cycle / include / render / translate, and the five translation filters under both registrations.
   [exec true] is Environment(autoescape=True). *)
From Coq Require Import ZArith List Bool.
From LiquidVerif Require Import Prelude Escape Escape_Proofs.
Local Open Scope N_scope.

(* First clause, full strength: for EVERY template of the modelled language whose literal texts hold no raw < > quote, using ANY
   of the modelled filters in chains of any length (including t / gettext / ngettext / pgettext / npgettext with any message
   variables, plural and count, registered by extra=True, or registered by hand provided their message texts are template
   literals) and the translate tag, and every state whose values marked safe hold none (plain data is not
   constrained at all), the rendered text holds no raw < > double or single quote. *)
Theorem C05_no_injection : forall fuel st p out st',
  forallb (stmt_ok no_raw any_filter) p = true ->
  state_inv (fun t => no_raw t = true) st ->
  exec true fuel st p = Ok (out, st') -> no_raw out = true.
Proof. exact no_injection. Qed.
Print Assumptions C05_no_injection.

(* ... in particular for render data made of plain strings and arrays of plain strings, whatever characters they hold *)
Theorem C05_no_injection_plain_data : forall fuel data p out st',
  forallb (stmt_ok no_raw any_filter) p = true ->
  forallb (fun kv => plain_value (snd kv)) data = true ->
  exec true fuel {| st_scopes := []; st_locals := []; st_globals := data; st_cycle := 0 |} p = Ok (out, st') ->
  no_raw out = true.
Proof. exact no_injection_plain_data. Qed.
Print Assumptions C05_no_injection_plain_data.

(* Both clauses (no raw special character AND every ampersand starts an entity) for templates that use no filter that cuts or
   edits a string: escape escape_once upcase downcase append prepend join first last default size strip_html url_decode
   base64_decode.  _partial: slice split replace remove (and strip, capitalize) are excluded; for the first four the second
   clause is false, see below. *)
Theorem C05_entities_partial : forall fuel st p out st',
  forallb (stmt_ok wf_lit keeps_entities) p = true ->
  state_inv wf_text st ->
  exec true fuel st p = Ok (out, st') -> no_raw out = true /\ amp_ok out = true.
Proof. exact entities_partial. Qed.
Print Assumptions C05_entities_partial.

(* The second clause is refuted for the cutting filters, with x = <a&b>:
   x | escape | slice: 0, 2 = &l ;  x | escape | split: l | join: - = &-t;a&amp;b&gt; ;  x | escape | remove: lt = &;a&amp;b&gt;
   -- an ampersand that starts no entity, although no raw special character appears. *)
Theorem C05_entities_refuted :
  out_of [SOut (EFilt (EFilt xvar FEscape) (FSlice 0 2))] = Some [38; 108] /\
  out_of [SOut (EFilt (EFilt (EFilt xvar FEscape) (FSplit (ALit [108]))) (FJoin (Some (ALit [45]))))]
    = Some [38; 45; 116; 59; 97; 38; 97; 109; 112; 59; 98; 38; 103; 116; 59] /\
  out_of [SOut (EFilt (EFilt xvar FEscape) (FRemove (ALit [108; 116])))]
    = Some [38; 59; 97; 38; 97; 109; 112; 59; 98; 38; 103; 116; 59] /\
  amp_ok [38; 108] = false /\ amp_ok [38; 45; 116; 59] = false /\ amp_ok [38; 59; 97] = false /\
  no_raw [38; 108] = true.
Proof. exact entities_refuted. Qed.
Print Assumptions C05_entities_refuted.

(* Values marked safe are output unchanged: a Markup value, and an array of Markup values. *)
Theorem C05_safe_passthrough : forall fuel st x t,
  lookup st x = VS (markup t) ->
  exec true (S (S fuel)) st [SOut (EAtom (AVar x))] = Ok (t, st).
Proof. exact safe_passthrough. Qed.
Print Assumptions C05_safe_passthrough.

Theorem C05_safe_list_passthrough : forall fuel st x l,
  lookup st x = VL l -> forallb sf l = true ->
  exec true (S (S fuel)) st [SOut (EAtom (AVar x))] = Ok (concat (map tx l), st).
Proof. exact safe_list_passthrough. Qed.
Print Assumptions C05_safe_list_passthrough.

(* Enabling autoescape changes nothing when no special character occurs: for every template whose literals hold none of
   < > & and the quotes, every render data made of strings that hold none, the two renderings are the same text (they run in
   lock step: C05_lock_step).  split (arrays: str(list) holds quotes) and the three flag-only text functions are excluded. *)
Theorem C05_identity_without_specials : forall data p,
  forallb (stmt_ok clean plain_filters) p = true -> clean_data data = true ->
  run_escape {| e_ae := true; e_data := data; e_prog := p |} = run_escape {| e_ae := false; e_data := data; e_prog := p |}.
Proof. exact identity_without_specials. Qed.
Print Assumptions C05_identity_without_specials.

Theorem C05_lock_step : forall fuel s s' p,
  forallb (stmt_ok clean plain_filters) p = true -> Rstate s s' ->
  Rres (exec true fuel s p) (exec false fuel s' p).
Proof. exact exec_rel. Qed.
Print Assumptions C05_lock_step.

(* The model tells the two seeded behaviours of the translation filters apart from the current code: (hand registration)
   escaping the %(name)s variables only when autoescape_message lets <b> through; (extra registration) a plural taken from
   data that skips to_liquid_string because it already is a str is printed raw by ngettext, and only by ngettext. *)
Theorem C05_translation_variants_refuted :
  (let run vr := text_of (trans_apply true (look_of d_hostile) vr TT false [] [([97], AVar [120])] (VS (markup m_hello))) in
   no_raw (run TrCurrent) = true /\ no_raw (run TrVarsOnlyIfAem) = false /\ run TrPluralStrRaw = run TrCurrent) /\
  (let run vr := text_of (trans_apply true (look_of d_hostile) vr TNgettext true [AVar [121]; ALit [50]] [] (VS (markup [111; 110; 101]))) in
   no_raw (run TrCurrent) = true /\ no_raw (run TrPluralStrRaw) = false /\ run TrVarsOnlyIfAem = run TrCurrent) /\
  (let run vr := text_of (trans_apply true (look_of d_hostile) vr TNpgettext true [ALit [99]; AVar [121]; ALit [50]] [] (VS (markup [111; 110; 101]))) in
   run TrPluralStrRaw = run TrCurrent).
Proof. exact translation_variants_refuted. Qed.
Print Assumptions C05_translation_variants_refuted.

(* The hypothesis on hand-registered filters (message texts are literals) is needed: with autoescape_message = False the left
   value is trusted and printed as it is; with extra=True it is escaped. *)
Theorem C05_hand_registration_trusts_message :
  no_raw (text_of (trans_apply true (look_of d_hostile) TrCurrent TT false [] [] (VS (plain [60; 98; 62])))) = false /\
  no_raw (text_of (trans_apply true (look_of d_hostile) TrCurrent TT true [] [] (VS (plain [60; 98; 62])))) = true.
Proof. exact hand_registration_trusts_message. Qed.
Print Assumptions C05_hand_registration_trusts_message.

(* non-vacuity and reading aids *)
Example C05_example_on :   (* {% capture z %}{{ x | escape }}{% endcapture %}{{ z | append: x | upcase }} with x = <a&b> *)
  out_of [SCapture [122] [SOut (EFilt xvar FEscape)];
          SOut (EFilt (EFilt (EAtom (AVar [122])) (FAppend (AVar [120]))) FUpcase)]
  = Some [38;76;84;59;65;38;65;77;80;59;66;38;71;84;59; 38;76;84;59;65;38;65;77;80;59;66;38;71;84;59].   (* &LT;A&AMP;B&GT; twice *)
Proof. vm_compute. reflexivity. Qed.

Example C05_hypotheses_satisfiable :
  forallb (stmt_ok no_raw any_filter) [SText [97]; SOut (EFilt (EFilt xvar (FSplit (ALit [108]))) (FJoin None))] = true /\
  forallb (stmt_ok wf_lit keeps_entities) [SOut (EFilt (EFilt xvar FEscapeOnce) (FAppend (ALit [97; 59])))] = true /\
  forallb (stmt_ok clean plain_filters) [SOut (EFilt xvar (FReplace (ALit [97]) (AVar [120])))] = true /\
  clean_data [([120], VS (plain [97; 98]))] = true /\
  (* translation: by extra=True on a data message with a data plural; by hand on literal messages with data variables; the tag *)
  forallb (stmt_ok no_raw any_filter)
    [SOut (EFilt xvar (FTrans TNgettext true [AVar [121]; AVar [110]] [([97], AVar [120])]));
     SOut (EFilt (EAtom (ALit m_hello)) (FTrans TT false [] [([97], AVar [120]); ([112; 108; 117; 114; 97; 108], ALit m_hello); ([99; 111; 117; 110; 116], AVar [110])]));
     STranslate [([97], AVar [120])] [MText [72; 105; 32]; MVar [97]] (Some [MVar [97]; MVar [121]])] = true /\
  (* ... and a hand-registered filter on a data message is rejected by the hypothesis *)
  forallb (stmt_ok no_raw any_filter) [SOut (EFilt xvar (FTrans TT false [] []))] = false.
Proof. repeat split; vm_compute; reflexivity. Qed.
