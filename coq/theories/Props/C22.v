(* C22 — Template loaders never read outside their search paths.  Property theorems only.
   Model: LoaderPath.v — FileSystemLoader.resolve_path and PackageLoader._resolve_path (repaired code:
   [fs_load false], [pkg_load false]; the code as found: [... true]) over the PurePosixPath rules they use.
   The file system is a parameter: [v : fsview] says what stat and realpath answer; the theorems hold for
   EVERY such view, every list of search directories, every name (any characters, any length). *)
From LiquidVerif Require Import Prelude LoaderPath LoaderPath_Proofs.

(* Lexical containment, file-system loader.  Whatever the name, if a location q is returned then
   q = b ++ l for a configured search directory b and components l that are non-empty, contain no '/', are
   neither "." nor "..": the base is a prefix of q, and remains one after ".." is normalised away
   (norm q = norm b ++ l) -- the name cannot climb out of the directory.  And q is a regular file. *)
Theorem C22_lexical_containment : forall c v bases s q,
  cfg_ok c -> fs_load false c v bases s = Ok q -> contained bases q /\ stat v q = SFile.
Proof. exact fs_lexical_containment. Qed.
Print Assumptions C22_lexical_containment.

(* Symlink decision.  With reject_symlinks on, a returned location resolves (realpath) to a place under the
   resolved search directory it was found in: a link leading out of the directory is never followed. *)
Theorem C22_symlink_decision : forall c v bases s q,
  cfg_ok c -> f_reject c = true -> fs_load false c v bases s = Ok q ->
  exists b rq rb, In b bases /\ is_prefix b q = true /\
                  real v q = Some rq /\ real v b = Some rb /\ is_prefix rb rq = true.
Proof. exact fs_symlink_decision. Qed.
Print Assumptions C22_symlink_decision.

(* A name that cannot be resolved raises TemplateNotFoundError and nothing else -- including when stat
   fails with an errno pathlib does not swallow (ENAMETOOLONG ...), when realpath fails, for the empty name. *)
Theorem C22_only_not_found : forall c v bases s e, fs_load false c v bases s = Err e -> e = ENotFound.
Proof. exact fs_only_not_found. Qed.
Print Assumptions C22_only_not_found.

(* Exactly which names are refused before the file system is consulted: no component at all ('', '.', '/'),
   an absolute name, or a ".." component; every other name is searched for. *)
Theorem C22_refusal_exact : forall c s,
  cfg_ok c ->
  (exists p, fs_resolve_name c s = Ok p) \/
  (fs_resolve_name c s = Err ENotFound /\
   (p_parts (parse s) = [] \/ is_absolute (parse s) = true \/ In dotdot (p_parts (parse s)))).
Proof. exact fs_refusal_exact. Qed.
Print Assumptions C22_refusal_exact.

(* the same three statements for the package loader (repaired) *)
Theorem C22_pkg_lexical_containment : forall e v bases s q,
  ext_ok e \/ e = [] -> pkg_load false e v bases s = Ok q -> contained bases q /\ stat v q = SFile.
Proof. exact pkg_lexical_containment. Qed.
Print Assumptions C22_pkg_lexical_containment.

Theorem C22_pkg_only_not_found : forall e v bases s x, pkg_load false e v bases s = Err x -> x = ENotFound.
Proof. exact pkg_only_not_found. Qed.
Print Assumptions C22_pkg_only_not_found.

(* the model's functions are total: an answer is a location or an exception class, never "out of fuel" *)
Theorem C22_total : forall c e v bases s,
  fs_load false c v bases s <> OutOfFuel /\ pkg_load false e v bases s <> OutOfFuel.
Proof. exact loads_total. Qed.
Print Assumptions C22_total.

(* pathlib facts the above rests on, proved of the model's parser: every parsed component is non-empty, not
   "." and free of '/'; str() followed by parsing is the identity on such paths (so joinpath, which re-parses the
   text, appends exactly the components); appending ".."-free components commutes with normalisation *)
Theorem C22_parse_components_clean : forall s, Forall clean (p_parts (parse s)).
Proof. exact parse_parts_clean. Qed.
Print Assumptions C22_parse_components_clean.

Theorem C22_render_parse_roundtrip : forall p, Forall clean (p_parts p) -> parse (render p) = p.
Proof. exact parse_render. Qed.
Print Assumptions C22_render_parse_roundtrip.

Theorem C22_no_climbing : forall b l, ~ In dotdot l -> norm (b ++ l) = norm b ++ l.
Proof. exact norm_app_contained. Qed.
Print Assumptions C22_no_climbing.

(* ------------------------------------------------------------------ non-vacuity and witnesses *)
Definition s_root : str := [114; 111; 111; 116]%N.                            (* "root" *)
Definition s_index : str := [105; 110; 100; 101; 120]%N.                       (* "index" *)
Definition s_liquid : str := [46; 108; 105; 113; 117; 105; 100]%N.             (* ".liquid" *)
Definition s_etc : str := [101; 116; 99]%N.                                    (* "etc" *)
Definition s_passwd : str := [112; 97; 115; 115; 119; 100]%N.                  (* "passwd" *)
Definition s_sub : str := [115; 117; 98]%N.
Definition base : apath := [[115; 114; 118]%N; s_root].                        (* /srv/root *)
Definition cfgL : fscfg := {| f_ext := Some s_liquid; f_reject := true |}.

(* a view in which /srv/root/index.liquid is a file inside the root, /srv/root/sub.liquid is a file that
   resolves to /etc/passwd (a symlink out), and /etc/passwd.liquid exists *)
Definition view : fsview :=
  {| v_stat := [(base ++ [s_index ++ s_liquid], SFile); (base ++ [s_sub ++ s_liquid], SFile);
                ([s_etc; s_passwd ++ s_liquid], SFile); ([s_etc; s_passwd], SFile)];
     v_real := [(base, Some base); (base ++ [s_index ++ s_liquid], Some (base ++ [s_index ++ s_liquid]));
                (base ++ [s_sub ++ s_liquid], Some [s_etc; s_passwd])] |}.

Example C22_found_example :
  cfg_ok cfgL /\
  fs_load false cfgL view [base] ([46; 47]%N ++ s_index) = Ok (base ++ [s_index ++ s_liquid]) /\     (* "./index" *)
  fs_load false cfgL view [base] s_sub = Err ENotFound /\                                              (* link out: rejected *)
  fs_load false {| f_ext := Some s_liquid; f_reject := false |} view [base] s_sub = Ok (base ++ [s_sub ++ s_liquid]) /\
  fs_load false cfgL view [base] ([47]%N ++ s_etc ++ [47]%N ++ s_passwd) = Err ENotFound /\            (* "/etc/passwd" *)
  fs_load false cfgL view [base] ([46; 46; 47]%N ++ s_index) = Err ENotFound.                          (* "../index" *)
Proof.
  split; [split; [discriminate|cbn; intuition discriminate]|]. vm_compute. repeat split.
Qed.

(* --- the defects of the code as found --- *)
(* PackageLoader accepted absolute names: joinpath replaces the package directory *)
Example C22_pkg_absolute_refuted :
  pkg_load true s_liquid view [base] ([47]%N ++ s_etc ++ [47]%N ++ s_passwd) = Ok [s_etc; s_passwd ++ s_liquid] /\
  pkg_load true s_liquid view [base] ([47]%N ++ s_etc ++ [47]%N ++ s_passwd ++ s_liquid) = Ok [s_etc; s_passwd ++ s_liquid] /\
  is_prefix base [s_etc; s_passwd ++ s_liquid] = false /\
  pkg_load false s_liquid view [base] ([47]%N ++ s_etc ++ [47]%N ++ s_passwd) = Err ENotFound.
Proof. vm_compute. repeat split. Qed.

(* PackageLoader raised ValueError (Path.with_suffix) for the empty name, '.', '/' *)
Example C22_pkg_empty_name_refuted :
  pkg_load true s_liquid view [base] [] = Err EValueError /\ pkg_load true s_liquid view [base] [46]%N = Err EValueError /\
  pkg_load true s_liquid view [base] [47]%N = Err EValueError /\ pkg_load false s_liquid view [base] [] = Err ENotFound.
Proof. vm_compute. repeat split. Qed.

(* both loaders let the OSError of exists()/is_file() escape (a component longer than the file system allows) *)
Example C22_oserror_refuted :
  let v := {| v_stat := [(base ++ [s_index ++ s_liquid], SErr)]; v_real := [] |} in
  fs_load true cfgL v [base] s_index = Err EOSError /\ pkg_load true s_liquid v [base] s_index = Err EOSError /\
  fs_load false cfgL v [base] s_index = Err ENotFound /\ pkg_load false s_liquid v [base] s_index = Err ENotFound.
Proof. vm_compute. repeat split. Qed.
