(* C06 — Loop iteration limit bounds nested iteration.  Property theorems only.
   All statements are about Limits.run_prog v md for EVERY variant v with is_repaired v (the repairs present:
   .work/fixes/C06-loop-carry.patch, C08-zero-limits.patch, C07-namespace-rollback.patch, the block.super repairs dec4c86 and
   C07-namespace-across-block-super.patch; v_item - whether render-for copies one context or one per item - is left free)
   and, where md is quantified, for every mode (Strict | Warn | Lax).  Limits.repaired, which the correspondence run
   compares with the engine, is one such v.  The frame discipline of the model (a loop is on the loop stack exactly
   while its block runs) is that of the code after .work/fixes/C06-loop-stack-leak.patch.
   run_prog v md lim chain main glob sizes: chain = [] - main is the template; chain = d0 :: loaded - the template extends
   a chain of templates, main is the body of the chain's base template with all block definitions inlined (Block /
   Super nodes), the numbers are the block-nesting depths of the chain's sources; glob = render arguments. *)
From LiquidVerif Require Import Prelude PyPrims Limits Limits_Proofs Limits_Sim_Proofs.
Local Open Scope Z_scope.

(* for every nest (any depth, any lengths), every loop limit L >= 1, whatever the other four limits are and IN EVERY
   MODE: if the render completes, every text leaf it executed - including those of top-level nodes whose error was
   later dropped in WARN/LAX mode - was executed while the TRUE product of the lengths of all enclosing repeating
   constructs (for, tablerow, include-with-array, render-for; through include, render, macro call, capture,
   ifchanged, overriding blocks and block.super, whichever template of a chain each loop is written in) was <= L.
   s_leaf is the ghost log of that product at every leaf execution. *)
Theorem C06_bound : forall v md lim L, is_repaired v -> l_loop lim = Some L -> forall chain main glob sizes s,
  (1 <= L)%N ->
  run_prog v md lim chain main glob sizes = LOk s ->
  Forall (fun p => (p <= L)%N) (s_leaf s).
Proof. exact run_leaf_bound_ok. Qed.
Print Assumptions C06_bound.

(* the same for whatever the render returns: also the state carried by an error that escapes (STRICT: any error;
   WARN/LAX: only the outermost context-depth check) has no leaf executed above the limit.  This is what C06 means
   when errors are suppressed: suppression never lets a block run while the product exceeds L. *)
Theorem C06_bound_all_outcomes : forall v md lim L, is_repaired v -> l_loop lim = Some L -> forall chain main glob sizes,
  (1 <= L)%N ->
  match run_prog v md lim chain main glob sizes with
  | LOk s | LErr _ s => Forall (fun p => (p <= L)%N) (s_leaf s)
  | LFuel => True
  end.
Proof. exact run_leaf_bound. Qed.
Print Assumptions C06_bound_all_outcomes.

(* the invariant behind it: in every context the product the engine computes (loop stack x carry) equals the
   true product; it is re-established by every construct for the context its block runs in - loops, copies for
   partials and macros, the block-scoped copy an overriding block runs in, and the base context block.super returns
   to (under loop_iterations(enclosing): the division enclosing = iterations of the copy // iterations of the base
   is exact) *)
Theorem C06_bookkeeping_is_true_product : forall v lim L f n,
  is_repaired v -> l_loop lim = Some L -> linv L f -> (n =? 0)%N = false -> loop_exceeded v lim f n = false ->
  linv L (f_for f n) /\ linv L (f_scale v f n) /\ linv L (f_copy f) /\ linv L (f_call f) /\ linv L (f_blk f) /\
  (forall b, f_sup f = SupBase b -> linv L (f_base v b f)).
Proof.
  intros v lim L f n Hv HL HI Hn He. split; [exact (linv_for v lim L Hv HL f n HI Hn He)|].
  split; [exact (linv_scale v lim L Hv HL f n HI Hn He)|]. split; [exact (linv_copy L f HI)|].
  split; [exact (linv_call L f HI)|]. split; [exact (linv_blk L f HI)|]. intros b Es. exact (linv_base v L Hv f b HI Es).
Qed.
Print Assumptions C06_bookkeeping_is_true_product.

(* STRICT: a completed render contains no reached nest whose lengths multiply to more than L
   (maxprod_list: declarative maximum over the nest; a zero length cuts its subtree; a block.super counts where a
   block object with a parent is in scope) *)
Theorem C06_completed_within_limit : forall v lim L, is_repaired v -> l_loop lim = Some L -> forall chain main glob sizes s,
  (1 <= L)%N ->
  run_prog v Strict lim chain main glob sizes = LOk s -> (maxprod_list 1 main <= L)%N.
Proof. exact run_maxprod. Qed.
Print Assumptions C06_completed_within_limit.

(* STRICT: a nest whose lengths multiply to more than L raises LoopIterationLimitError: whenever the render completes
   with the loop limit removed (the other limits unchanged) and some reached nest multiplies to more than L *)
Theorem C06_raises : forall v, is_repaired v -> forall lim L chain main glob sizes s,
  l_loop lim = Some L -> (1 <= L)%N ->
  run_prog v Strict (with_loop lim None) chain main glob sizes = LOk s ->
  (L < maxprod_list 1 main)%N ->
  exists se, run_prog v Strict lim chain main glob sizes = LErr XLoop se.
Proof. exact run_loop_raises. Qed.
Print Assumptions C06_raises.

(* ... and ONLY then, in every mode: if no reached nest multiplies to more than L, the loop limit changes nothing -
   the render under limit L is, outcome for outcome, the render with the loop limit removed. *)
Theorem C06_no_false_alarm : forall v md lim L, is_repaired v -> l_loop lim = Some L -> forall chain main glob sizes,
  (1 <= L)%N -> (maxprod_list 1 main <= L)%N ->
  run_prog v md lim chain main glob sizes = run_prog v md (with_loop lim None) chain main glob sizes.
Proof. exact run_no_false_alarm. Qed.
Print Assumptions C06_no_false_alarm.

(* the unrepaired code (tablerow / include-with-array / render-for check the limit but contribute nothing to
   what they enclose) violates the bound: {% tablerow i in (1..10) %}{% for j in (1..10) %}x{% endfor %}{% endtablerow %}
   completes under limit 50 and executes its leaf at product 100; same for the two partial forms *)
Definition lim50 : limits := {| l_loop := Some 50%N; l_out := None; l_ns := None; l_depth := 30; l_nest := 30 |}.
Theorem C06_unrepaired_refuted :
  forall outer, In outer [Tablerow 10; IncludeArr 10; RenderFor 10] ->
  exists s, run_prog unrepaired Strict lim50 [] [outer [For 10 [Text [120%N]]]] [] [] = LOk s /\ In 100%N (s_leaf s)
            /\ exists se, run_prog repaired Strict lim50 [] [outer [For 10 [Text [120%N]]]] [] [] = LErr XLoop se.
Proof.
  intros outer [<-|[<-|[<-|[]]]]; eexists; (split; [vm_compute; reflexivity|]); (split; [vm_compute; auto|eexists; vm_compute; reflexivity]).
Qed.
Print Assumptions C06_unrepaired_refuted.

(* the code before dec4c86 (block.super renders the parent block in the base context, whose loop stack lacks the loops
   the overriding block has entered): child {% block b %}{% for i in (1..10) %}{{ block.super }}{% endfor %}{% endblock %}
   over base {% block b %}{% for j in (1..10) %}x{% endfor %}{% endblock %} completes under limit 50 with its leaf at
   product 100 *)
Definition super_nest : list node := [Block [For 10 [Super [For 10 [Text [120%N]]]]]].
Theorem C06_super_unrepaired_refuted :
  (exists s, run_prog no_super_loop Strict lim50 [1; 1] super_nest [] [] = LOk s /\ In 100%N (s_leaf s)) /\
  (exists se, run_prog repaired Strict lim50 [1; 1] super_nest [] [] = LErr XLoop se) /\
  maxprod_list 1 super_nest = 100%N.
Proof.
  split; [eexists; split; [vm_compute; reflexivity|vm_compute; auto]|]. split; [eexists; vm_compute; reflexivity|vm_compute; reflexivity].
Qed.
Print Assumptions C06_super_unrepaired_refuted.

(* non-vacuity: hypotheses of C06_bound / C06_raises are satisfiable, and products multiply through partials and macros *)
Example C06_nonvacuous_completes :
  exists s, run_prog repaired Strict lim50 [] [IncludeArr 5 [Tablerow 2 [Call [RenderFor 5 [Text [120%N]]]]]] [] [] = LOk s
            /\ length (s_leaf s) = 50%nat /\ maxprod_list 1 [IncludeArr 5 [Tablerow 2 [Call [RenderFor 5 [Text [120%N]]]]]] = 50%N.
Proof. eexists. split; [vm_compute; reflexivity|]. split; vm_compute; reflexivity. Qed.

Example C06_nonvacuous_raises :
  (exists s, run_prog repaired Strict (with_loop lim50 None) [] [For 5 [Render [Tablerow 2 [Call [RenderFor 6 [Text [120%N]]]]]]] [] [] = LOk s) /\
  maxprod_list 1 [For 5 [Render [Tablerow 2 [Call [RenderFor 6 [Text [120%N]]]]]]] = 60%N /\
  exists se, run_prog repaired Strict lim50 [] [For 5 [Render [Tablerow 2 [Call [RenderFor 6 [Text [120%N]]]]]]] [] [] = LErr XLoop se.
Proof. split; [eexists; vm_compute; reflexivity|]. split; [vm_compute; reflexivity|eexists; vm_compute; reflexivity]. Qed.

(* ... and through a chain of three templates: base {% for (1..5) %}{% block b %}..{% endblock %}{% endfor %}, overridden twice,
   each level looping around block.super: 5 x 2 x 5 x 1 = 50 leaf executions at product 50 *)
Example C06_nonvacuous_chain :
  exists s, run_prog repaired Strict lim50 [1; 2; 2] [For 5 [Block [Tablerow 2 [Super [For 5 [Super [Text [120%N]]]]]]]] [] [] = LOk s
            /\ length (s_leaf s) = 50%nat /\ Forall (fun p => p = 50%N) (s_leaf s)
            /\ exists se, run_prog repaired Strict lim50 [1; 2; 2] [For 5 [Block [Tablerow 2 [Super [For 6 [Super [Text [120%N]]]]]]]] [] [] = LErr XLoop se.
Proof. eexists. split; [vm_compute; reflexivity|]. split; [vm_compute; reflexivity|]. split; [vm_compute; repeat constructor|eexists; vm_compute; reflexivity]. Qed.

(* LAX: the over-limit loop is abandoned with its top-level node (no leaf of it runs), the next node still renders *)
Example C06_lax_example :
  exists s, run_prog repaired Lax lim50 [] [For 10 [Tablerow 10 [Text [120%N]]]; Text [121%N]] [] [] = LOk s
            /\ buf_text (s_buf s) = [121%N] /\ s_leaf s = [1%N].
Proof. eexists. split; [vm_compute; reflexivity|]. split; vm_compute; reflexivity. Qed.
