(* C14 — Variables resolve to their innermost binding.  Property theorems only. *)
From Coq Require Import String.
From LiquidVerif Require Import Prelude PyPrims Scope Scope_Proofs.
Local Open Scope string_scope. Local Open Scope list_scope.

(* a name resolves to the first namespace that binds it in the documented order: pushed block namespaces
   (innermost first), assigned/captured variables, the globals chain, the builtin objects, the counters *)
Theorem C14_order : forall c x, resolve c x = first_hit x (chain c).
Proof. exact resolve_is_first_hit. Qed.
Print Assumptions C14_order.

(* innermost binding: whatever lies behind the first namespace binding the name is hidden *)
Theorem C14_innermost : forall c x pre m post v,
  chain c = pre ++ m :: post -> (forall m', In m' pre -> alookup x m' = None) -> alookup x m = Some v ->
  resolve c x = Some v.
Proof. exact resolve_innermost. Qed.
Print Assumptions C14_innermost.

(* at the top level of a template: render arguments, then front matter, then template globals, then environment
   globals, then now/today (the merge {**env.globals, **template_globals} is the chain tglobals |> eglobals) *)
Theorem C14_global_layers : forall k x,
  NoDup (map fst (k_tglobals k)) ->
  resolve (init_ctx k) x = first_hit x [k_args k; k_matter k; k_tglobals k; k_eglobals k; builtin_ns].
Proof. exact resolve_top_level. Qed.
Print Assumptions C14_global_layers.

(* block-scoped names vanish after their block: after ANY node — whether it completes, breaks, continues or
   raises — the pushed namespaces, the globals chain and the disabled tags are exactly those before it *)
Theorem C14_block_scope_vanishes : forall fuel E n c c' o s,
  exec fuel E n c = Done c' o s -> same_frame c c'.
Proof. exact exec_frame. Qed.
Print Assumptions C14_block_scope_vanishes.

(* so that a name resolves after the node as before it, unless the node assigned, captured or counted *)
Theorem C14_names_after_block : forall fuel E n c c' o s x,
  exec fuel E n c = Done c' o s -> locals c' = locals c -> counters c' = counters c -> resolve c' x = resolve c x.
Proof. exact exec_block_names_vanish. Qed.
Print Assumptions C14_names_after_block.

(* assign writes the template's locals, whatever is pushed on the scopes ... *)
Theorem C14_assign_step : forall f E x e c v,
  eval_fexpr (e_filters E) (e_uk E) c e = Ok v ->
  exec (S f) E (NAssign x e) c = Done (assign c x v) [] Normal /\
  alookup x (locals (assign c x v)) = Some v /\ scopes (assign c x v) = scopes c.
Proof.
  intros f E x e c v H. split; [exact (exec_assign_locals f E x e c v H)|].
  destruct (assign_writes_locals c x v) as (A & B & _). split; assumption.
Qed.
Print Assumptions C14_assign_step.

(* ... and so does capture, with the text its block rendered *)
Theorem C14_capture_step : forall f E x body c c1 o,
  seq_nodes (exec f E) body c = Done c1 o Normal ->
  exec (S f) E (NCapture x body) c = Done (assign c1 x (VStr o)) [] Normal.
Proof. exact exec_capture_locals. Qed.
Print Assumptions C14_capture_step.

(* assignment from inside ANY nesting of with / for / if / capture blocks: the value is in the locals once all
   the blocks have ended (for over a non-empty range, if with a true condition, capture of another name) *)
Theorem C14_assign_toplevel : forall uk fs x lv fuel md ld ft c c' o s,
  (forall f c0, In f fs -> frame_ok_for x uk c0 f) ->
  exec fuel (Env md uk ld ft) (wrap_frames fs (NAssign x (FPlain (ELit lv) []))) c = Done c' o s ->
  (s = Normal \/ exists e, s = Raise e) /\ (s = Normal -> alookup x (locals c') = Some (val_of_scalar lv)).
Proof. exact assign_under_blocks. Qed.
Print Assumptions C14_assign_toplevel.

(* include shares the caller's scope: what the partial assigns is assigned in the caller ... *)
Theorem C14_include_shares_assign : forall f E name x lv c,
  is_disabled TInclude c = false ->
  alookup name (e_loader E) = Some [NAssign x (FPlain (ELit lv) [])] ->
  exec (S (S f)) E (NInclude name None []) c = Done (assign c x (val_of_scalar lv)) [] Normal.
Proof. exact include_shares_assign. Qed.
Print Assumptions C14_include_shares_assign.

(* ... and the partial reads every variable of the caller (block scopes, locals, globals) *)
Theorem C14_include_shares_read : forall f E name y c v t,
  is_disabled TInclude c = false ->
  alookup name (e_loader E) = Some [NOut (FPlain (EPath (Path y [])) [])] ->
  y <> s_partial ->
  resolve c y = Some v -> to_output (e_uk E) v = Ok t ->
  exec (S (S f)) E (NInclude name None []) c = Done c t Normal.
Proof. exact include_shares_read. Qed.
Print Assumptions C14_include_shares_read.

(* paths: a.b, a['b'] and a["b"] are the same path *)
Theorem C14_path_notation : forall g uk c p, eval_path uk c (restyle g p) = eval_path uk c p.
Proof. exact eval_path_restyle. Qed.
Print Assumptions C14_path_notation.

(* paths: index -k is the k-th item from the end; indexes outside -len .. len-1 are missing *)
Theorem C14_path_negative_index : forall g (l : list val) k z,
  ((1 <= k <= zlen l)%Z -> get_item g (VList l) (KI (- k)) = nth_error l (Z.to_nat (zlen l - k))) /\
  ((0 <= z < zlen l)%Z -> get_item g (VList l) (KI z) = nth_error l (Z.to_nat z)) /\
  ((z >= zlen l \/ z < - zlen l)%Z -> get_item g (VList l) (KI z) = None).
Proof.
  intros g l k z. repeat split; intro H; rewrite get_item_index_list.
  - apply py_index_negative; exact H.
  - apply py_index_nonneg; exact H.
  - apply py_index_out_of_range; exact H.
Qed.
Print Assumptions C14_path_negative_index.

(* paths: the size / first / last table (a key of that name in a dict wins), under EVERY combination of the string flags *)
Theorem C14_path_size_first_last : forall g l s d,
  get_item g (VList l) (KS s_size) = Some (VInt (zlen l)) /\
  get_item g (VStr s) (KS s_size) = Some (VInt (zlen s)) /\
  get_item g (VDict d) (KS s_size) = (match alookup s_size d with Some v => Some v | None => Some (VInt (zlen d)) end) /\
  get_item g (VList l) (KS s_first) = hd_error l /\
  get_item g (VList l) (KS s_last) = py_index l (-1) /\
  get_item g (VDict d) (KS s_first) =
    (match alookup s_first d with
     | Some v => Some v
     | None => match d with (k0, v0) :: _ => Some (VTuple [VStr k0; v0]) | [] => None end
     end) /\
  get_item default_flags (VStr s) (KS s_first) = None /\ get_item default_flags (VStr s) (KS s_last) = None.
Proof.
  intros g l s d. repeat split; auto using get_item_size_dict, get_item_first_list, get_item_first_dict.
Qed.
Print Assumptions C14_path_size_first_last.

(* paths into STRINGS under the feature flags: first / last are the first / last character exactly when
   string_first_and_last is set (missing for the empty string), an index is a character (negative from the end, missing
   out of range) exactly when string_sequences is set, size is always the length, a name never subscripts a string;
   lists and dicts ignore both flags *)
Theorem C14_path_string_flags : forall g g' s z l d k,
  get_item g (VStr s) (KS s_first) = (if fl_first_last g then option_map char_val (hd_error s) else None) /\
  get_item g (VStr s) (KS s_last) = (if fl_first_last g then option_map char_val (py_index s (-1)) else None) /\
  get_item g (VStr s) (KI z) = (if fl_sequences g then option_map char_val (py_index s z) else None) /\
  get_item g (VStr s) (KS s_size) = Some (VInt (zlen s)) /\
  get_item g (VList l) k = get_item g' (VList l) k /\ get_item g (VDict d) k = get_item g' (VDict d) k.
Proof.
  intros. repeat split; auto using get_item_list_flags, get_item_dict_flags.
Qed.
Print Assumptions C14_path_string_flags.

(* paths: with the default undefined type a path NEVER fails — anything missing is the undefined value *)
Theorem C14_missing_is_undefined : forall c p,
  (exists v, eval_path UDefault c p = Ok v) /\
  (resolve c (p_root p) = None -> eval_path UDefault c p = Ok VUndef).
Proof. intros c p. split; [apply eval_path_default_total|apply eval_path_missing_root]. Qed.
Print Assumptions C14_missing_is_undefined.

(* ---- non-vacuity and reading aids (tests) ---- *)
Definition ex_out (r : string) := NOut (FPlain (EPath (Path (slit r) [])) []).
Definition ex_assign (x v : string) := NAssign (slit x) (FPlain (ELit (LStr (slit v))) []).

(* shadowing through every layer: with > for > assign > render argument > matter > template > environment *)
Example C14_layers_example :
  run_case (Case MStrict UDefault default_flags []
              [(slit "a", VStr (slit "A"))] [(slit "a", VStr (slit "M")); (slit "m", VStr (slit "M"))]
              [(slit "m", VStr (slit "T")); (slit "t", VStr (slit "T"))] [(slit "t", VStr (slit "E")); (slit "e", VStr (slit "E"))]
              [ex_out "a"; ex_out "m"; ex_out "t"; ex_out "e"; ex_assign "e" "L"; ex_out "e";
               NWith [(slit "e", ELit (LStr (slit "W")))] [ex_out "e"; NFor (slit "e") (IRange 1 2) [ex_out "e"; ex_assign "e" "L2"; ex_out "e"] []; ex_out "e"];
               ex_out "e"])
  = Ok (slit "AMTELW1122WL2").
Proof. vm_compute. reflexivity. Qed.

(* the hypotheses of C14_assign_toplevel are satisfiable: assign under with > for > capture > if *)
Example C14_assign_toplevel_example :
  exists c' o, exec 10 (Env MStrict UDefault [] no_filters)
     (wrap_frames [FWith [(slit "x", ELit (LInt 1))]; FFor (slit "x") 1 2; FCapture (slit "y"); FIf (CAtom (CTruthy (ELit (LBool true)))) []]
                  (NAssign (slit "x") (FPlain (ELit (LStr (slit "v"))) []))) (init_ctx (Case MStrict UDefault default_flags [] [] [] [] [] []))
     = Done c' o Normal /\ alookup (slit "x") (locals c') = Some (VStr (slit "v")) /\ scopes c' = [].
Proof. eexists. eexists. vm_compute. repeat split. Qed.

(* an error inside nested blocks, swallowed in lax mode: the probes afterwards see no leftover scope *)
Example C14_error_balance_example :
  run_case (Case MLax UDefault default_flags [] [] [] [] []
              [NWith [(slit "x", ELit (LInt 1))] [NFor (slit "y") (IRange 1 2) [ex_out "y"; NRender (slit "missing") None []; NText (slit "z")] []];
               NText (slit "["); ex_out "x"; ex_out "y"; NText (slit "]")])
  = Ok (slit "1[]").
Proof. vm_compute. reflexivity. Qed.

(* include shares the caller's scope (reads the with-bound x and the local y, its assignment to z survives);
   the hypotheses of the two include theorems hold in such a run *)
Example C14_include_example :
  run_case (Case MStrict UDefault default_flags [(slit "p", [ex_out "x"; ex_out "y"; ex_assign "z" "pz"])] [] [] [] []
              [ex_assign "y" "ly"; NWith [(slit "x", ELit (LStr (slit "wx")))] [NInclude (slit "p") None []]; ex_out "z"; ex_out "x"])
  = Ok (slit "wxlypz").
Proof. vm_compute. reflexivity. Qed.

Example C14_global_layers_hypothesis :
  NoDup (map fst (k_tglobals (Case MStrict UDefault default_flags [] [] [] [(slit "m", VInt 1); (slit "t", VInt 2)] [] []))).
Proof. repeat constructor; simpl; intuition discriminate. Qed.

(* the four flag combinations on one template: s.first, s.last, s[1], s[-1], s.size and a for loop over s = "abc" *)
Definition flag_probe (fl sq : bool) : res str :=
  let sp seg := NOut (FPlain (EPath (Path (slit "s") [seg])) []) in
  run_case (Case MStrict UDefault (Flags fl sq) [] [(slit "s", VStr (slit "abc"))] [] [] []
              [sp (SKey Dot (KName (slit "first"))); NText (slit "|"); sp (SKey Dot (KName (slit "last"))); NText (slit "|");
               sp (SKey Dot (KIndex 1)); NText (slit "|"); sp (SKey Dot (KIndex (-1))); NText (slit "|");
               sp (SKey Dot (KName (slit "size"))); NText (slit "|");
               NFor (slit "ch") (IPath (Path (slit "s") [])) [ex_out "ch"; NText (slit ",")] []]).
Example C14_string_flags_example :
  flag_probe false false = Ok (slit "||||3|abc,") /\ flag_probe true false = Ok (slit "a|c|||3|abc,") /\
  flag_probe false true = Ok (slit "||b|c|3|a,b,c,") /\ flag_probe true true = Ok (slit "a|c|b|c|3|a,b,c,").
Proof. vm_compute. repeat split. Qed.
