(* C04 — Serialising a template back to source preserves its meaning.  Property theorems only. *)
From Coq Require Import String.
From LiquidVerif Require Import Prelude PyPrims Cond CondPrint Cond_Proofs CondParen CondParen_Proofs StrLit StrLit_Proofs TagTree TagTree_Proofs PathSyntax PathSyntax_Proofs.
Local Open Scope string_scope. Local Open Scope list_scope.

(* for EVERY condition tree (any depth, any mix of and / or / not, comparisons, membership tests and groups) the text that
   BooleanExpression.__str__ produces parses back to the same tree *)
Theorem C04_condition_roundtrip : forall e, parse flags_on (print2 e) = Ok e.
Proof. exact print2_roundtrip. Qed.
Print Assumptions C04_condition_roundtrip.

(* ... hence the re-parsed condition has the same value on every data, and serialising it again gives the same text *)
Theorem C04_condition_same_meaning : forall e, exists e',
  parse flags_on (print2 e) = Ok e' /\ (forall env, eval env e' = eval env e) /\ print2 e' = print2 e.
Proof. exact print2_same_meaning. Qed.
Print Assumptions C04_condition_same_meaning.

Theorem C04_condition_idempotent : forall c, run_reprint2 c = run_print2 c.
Proof. exact run_reprint2_fixpoint. Qed.
Print Assumptions C04_condition_idempotent.

(* the general fact behind it: any condition text that has parentheses wherever grouping needs them (and any number of
   redundant ones) parses to the tree it denotes *)
Theorem C04_wellgrouped_text_parses : forall q, wg q = true -> parse flags_on (toks q) = Ok (erase q).
Proof. exact parse_wellgrouped. Qed.
Print Assumptions C04_wellgrouped_text_parses.

(* string literals: every value a literal can have (it cannot contain both kinds of quote) is written as a literal that
   the expression lexer reads back as exactly that value, whatever follows it *)
Theorem C04_string_literal_roundtrip : forall s rest,
  has SQ s && has DQ s = false -> scan_string (quote_string s ++ rest) = Some (s, rest).
Proof. exact quote_scan. Qed.
Print Assumptions C04_string_literal_roundtrip.

(* paths: for every path (names of any spelling, integer indexes, nested paths to any depth) the tokens Path.__str__ writes are
   read back by Path.parse (strict mode) as the same path, whatever non-path token follows; RE_PROPERTY is a parameter *)
Theorem C04_path_roundtrip : forall is_prop p rest, p <> [] -> wfl p = true -> rest_ok rest ->
  parse_path (S (length (print_path is_prop p ++ rest))) [] (print_path is_prop p ++ rest) = Ok (p, rest).
Proof. exact path_roundtrip. Qed.
Print Assumptions C04_path_roundtrip.

Theorem C04_old_path_refuted : let p := [SNested [SName [120%N]]] in
  parse_path 5 [] (print_path_old std_is_prop p) = Ok ([SName [120%N]], []) /\ wfl p = true.
Proof. exact path_old_refuted. Qed.
Print Assumptions C04_old_path_refuted.

(* structure: for every tree of text, output statements, raw and comment blocks, inline tags and block tags with their
   sections (nested to any depth) that is well formed for a coherent tag register, parsing the serialisation gives the tree back *)
Theorem C04_structure_roundtrip : forall kind_of, reg_ok kind_of ->
  forall ns, wf_nodes kind_of ns = true -> parse_template kind_of (print_nodes ns) = Ok ns.
Proof. exact parse_print_template. Qed.
Print Assumptions C04_structure_roundtrip.

(* ... in particular for the standard tags (if/elsif/else, unless, case/when/else, for/else, tablerow, capture, ifchanged and the inline tags) *)
Theorem C04_standard_tags_roundtrip : forall ns,
  wf_nodes std_kind ns = true -> parse_template std_kind (print_nodes ns) = Ok ns.
Proof. exact std_parse_print. Qed.
Print Assumptions C04_standard_tags_roundtrip.

(* the serialiser as it was before the repairs, refuted by witness (each replayed on the implementation by the check's corpus) *)
Theorem C04_old_condition_refuted :
  let e := BOr (BAnd (BVar (lit "a")) (BVar (lit "b"))) (BVar (lit "c")) in
  let env := [(lit "a", VBool false); (lit "b", VBool false); (lit "c", VBool true)] in
  exists e', parse flags_on (print_old e) = Ok e' /\ e' <> e /\ eval_cond env e' <> eval_cond env e.
Proof. exact print_old_refuted. Qed.
Print Assumptions C04_old_condition_refuted.

Theorem C04_old_string_literal_refuted : let s := [97; 92; 98]%N in
  scan_string (repr_old s) = Some ([97; 92; 92; 98]%N, []) /\ has SQ s && has DQ s = false.
Proof. exact repr_old_refuted. Qed.
Print Assumptions C04_old_string_literal_refuted.

(* non-vacuity / reading aids *)
Example C04_print2_example :
  print2 (BOr (BAnd (BVar (lit "a")) (BNot (BVar (lit "b")))) (BCmp OEq (BVar (lit "c")) (BAnd (BVar (lit "a")) (BVar (lit "b"))))) =
  [TLParen; TVar (lit "a"); TAnd; TNot; TVar (lit "b"); TRParen; TOr; TVar (lit "c"); TOp OEq; TLParen; TVar (lit "a"); TAnd; TVar (lit "b"); TRParen].
Proof. vm_compute. reflexivity. Qed.

Example C04_structure_example :
  let t := [NText (slit "a"); NBlock (slit "if") (slit "x") [NOut (slit "y")] [(slit "else", [], [NInline (slit "echo") (slit "z"); NRaw (slit "{{")])]] in
  wf_nodes std_kind t = true /\ parse_template std_kind (print_nodes t) = Ok t.
Proof. vm_compute. split; reflexivity. Qed.
