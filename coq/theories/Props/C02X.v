(* C02 -- Only Liquid errors escape parsing and rendering.  Property theorems only.
   The model (ExnFlow.v) describes values by CLASS (what the Python primitives do with them), the conversion helpers and
   filter bodies by the exception classes they raise, and the decorators, Filter.evaluate and the per-node handler of
   render_with_context by the classes they convert.  [all_fixed] is the tree with the proposed repairs applied. *)
From Coq Require Import ZArith List Bool.
From LiquidVerif Require Import Prelude ExnFlowX ExnFlowX_Proofs.
Local Open Scope Z_scope.

(* Parsing: whatever exception the lexer or a tag parser raises, from_string lets only a LiquidError out. *)
Theorem C02_parse_contained : forall e, is_liquid (from_string_handler e) = true.
Proof. exact from_string_contained. Qed.
Print Assumptions C02_parse_contained.

(* Rendering, full strength: for EVERY modelled site (filter or tag), EVERY left value and argument list (any classes, any
   integer payloads, lists and hashes of any size and nesting), every measured primitive outcome, every tolerance mode, sync
   or async: if an exception that is not a LiquidError escapes, it is the ValueError of the int-to-text digit limit.
   No TypeError, OverflowError, IndexError, KeyError, AssertionError, decimal error or UnicodeError escapes. *)
Theorem C02_only_digit_limit_escapes : forall p t async_ s v args e,
  observe (render_site all_fixed p t async_ s v args) = OForeign e -> e = EValueError.
Proof. exact only_digit_limit_escapes. Qed.
Print Assumptions C02_only_digit_limit_escapes.

(* The property itself, under the exact guard of the recorded finding: when no int of more than 4300 digits occurs in the
   values or in the value the expression produces, nothing but a LiquidError escapes.  (_partial: the unguarded statement is
   refuted below.) *)
Theorem C02_contained_partial : forall p t async_ s v args,
  has_huge v = false -> Forall (fun a => has_huge a = false) args ->
  (forall r, eval_site all_fixed p async_ s v args = Ok r -> has_huge r = false) ->
  forall e, observe (render_site all_fixed p t async_ s v args) <> OForeign e.
Proof. exact contained_partial. Qed.
Print Assumptions C02_contained_partial.

(* The unguarded statement is false of the repaired tree: output of a 4301-digit int; the product of two 2228-digit ints
   (no huge input, LAX mode); a huge int inside an array given as a filter argument (WARN mode, async). *)
Theorem C02_contained_refuted :
  observe (render_site all_fixed p_plain Strict false SOutput (VInt huge_bound) []) = OForeign EValueError /\
  (let x := VInt (2 ^ 7400) in
   has_huge x = false /\ observe (render_site all_fixed p_plain Lax false STimes x [x]) = OForeign EValueError) /\
  observe (render_site all_fixed p_plain Warn true (SStrTotal 1 1) (txt 1 3) [VList [VInt (- huge_bound)]]) = OForeign EValueError.
Proof. exact contained_refuted. Qed.
Print Assumptions C02_contained_refuted.

(* Tolerance modes decide only what happens to Liquid errors: with any set of repairs, a foreign exception escapes in one
   mode iff it escapes in every mode ... *)
Theorem C02_modes_agree_on_foreign : forall fx p t t' async_ s v args e,
  observe (render_site fx p t async_ s v args) = OForeign e <-> observe (render_site fx p t' async_ s v args) = OForeign e.
Proof. exact modes_agree_on_foreign. Qed.
Print Assumptions C02_modes_agree_on_foreign.

(* ... and WARN / LAX let no Liquid error out. *)
Theorem C02_lax_suppresses_liquid : forall fx p t async_ s v args,
  t <> Strict -> observe (render_site fx p t async_ s v args) <> OLiquid.
Proof. exact lax_suppresses_liquid. Qed.
Print Assumptions C02_lax_suppresses_liquid.

(* The model uses no fuel: it never answers OutOfFuel. *)
Theorem C02_never_out_of_fuel : forall p t async_ s v args, observe (render_site all_fixed p t async_ s v args) <> OFuel.
Proof. exact never_out_of_fuel. Qed.
Print Assumptions C02_never_out_of_fuel.

(* Each of the twelve repairs is needed (the behaviour before it is refuted): for every repair k there is a site and values
   with no huge int such that the tree with every repair but k lets a foreign exception out in all three modes, while the
   fully repaired tree does not.  The witnesses are listed in ExnFlow_Proofs.repair_witnesses. *)
Theorem C02_unrepaired_refuted :
  forallb witness_ok repair_witnesses = true /\
  forallb (fun k => existsb (fun w => Nat.eqb (fst w) k) repair_witnesses) (seq 0 12) = true.
Proof. exact each_repair_needed. Qed.
Print Assumptions C02_unrepaired_refuted.

(* non-vacuity: the guard of C02_contained_partial holds for the text nan given to ceil, which reaches a converted
   ValueError: a Liquid error in STRICT, suppressed in LAX *)
Example C02_partial_nonvacuous :
  let v := VStr (SFloat FNan) 3 in
  has_huge v = false /\ (forall r, eval_site all_fixed p_plain false SCeil v [] = Ok r -> has_huge r = false) /\
  observe (render_site all_fixed p_plain Strict false SCeil v []) = OLiquid /\
  observe (render_site all_fixed p_plain Lax false SCeil v []) = OOk.
Proof. exact partial_nonvacuous. Qed.

(* reading aid: sum over an array of any length is one of the sites the induction covers *)
Example C02_sum_example :
  run_exn {| c_site := SSum; c_tol := Strict; c_async := false; c_prims := p_plain;
             c_v := VList [VInt 1; VStr (SFloat (FFin 1)) 3; VStr (SOther 1) 3; VFloat FPInf; VList [VFloat FNInf]]; c_args := [] |} = OLiquid.
Proof. vm_compute. reflexivity. Qed.
