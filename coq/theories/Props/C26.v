(* C26 — Null translations leave message text intact.  Property theorems only. *)
From Coq Require Import String.
From LiquidVerif Require Import Prelude PyPrims Translate Translate_Proofs.
Local Open Scope string_scope. Local Open Scope list_scope.

(* filters: a message without %(name)s placeholders is output unchanged, whatever percent signs
   (%, %%, %s, "%(", ...) it contains *)
Theorem C26_filter_text_intact : forall lk text, find_vars text = [] -> format_filter text lk = text.
Proof. exact filter_text_without_placeholders. Qed.
Print Assumptions C26_filter_text_intact.

(* filters: in a message made of text pieces (each free of placeholders, arbitrary otherwise, not ending in '%')
   and placeholders, exactly the placeholders are replaced by their variables *)
Theorem C26_filter_placeholders : forall lk ps, wf_pieces ps -> format_filter (ser ps) lk = render lk ps.
Proof. exact filter_substitutes_placeholders. Qed.
Print Assumptions C26_filter_placeholders.

(* tag: for EVERY block of text characters and variables, doubling the percent signs, collecting the variables
   with the repaired pattern and printf-formatting gives back the text with the variables substituted *)
Theorem C26_tag_message_intact : forall lk items, names_ok items ->
  format_tag_msg (serialize items) lk = Ok (render_items items lk).
Proof. exact tag_message_intact. Qed.
Print Assumptions C26_tag_message_intact.

(* tag, whole pipeline (validate, double percent signs, strip, re.sub of \s*\n\s*, gettext, collect variables, printf)
   for EVERY block of characters -- whitespace of every ASCII kind included -- and variables: the output is the
   normal form of the block's decomposition into words and whitespace gaps (lead and trail dropped, a gap with a
   newline -> one space, any other gap unchanged, words unchanged) with the variables substituted; a variable whose
   name is not [\w?-]+ is the syntax error *)
Theorem C26_tag_normalised : forall lk items,
  format_tag items lk =
  if names_valid items then Ok (render_items (norm_block (decompose items)) lk) else Err ESyntax.
Proof. exact tag_normalised. Qed.
Print Assumptions C26_tag_normalised.

(* the same, stated for a block GIVEN by any well-formed decomposition (so the rule does not depend on how
   decompose computes it), and: every block has one *)
Theorem C26_tag_normalised_block : forall lk b, wf_block b = true ->
  format_tag (flatten b) lk = if names_valid (flatten b) then Ok (render_items (norm_block b) lk) else Err ESyntax.
Proof. exact tag_normalised_block. Qed.
Print Assumptions C26_tag_normalised_block.

Theorem C26_every_block_decomposes : forall items, wf_block (decompose items) = true /\ flatten (decompose items) = items.
Proof. exact decompose_ok. Qed.
Print Assumptions C26_every_block_decomposes.

(* what the normal form is: the non-whitespace items are the block's, in order (nothing else changes); no newline is
   left outside variable values; it neither starts nor ends with whitespace *)
Theorem C26_normal_form_keeps_text : forall b, wf_block b = true ->
  filter nonspace (norm_block b) = filter nonspace (flatten b).
Proof. exact norm_keeps_nonspace. Qed.
Print Assumptions C26_normal_form_keeps_text.

Theorem C26_normal_form_no_newline : forall b, wf_block b = true ->
  forallb (fun i => negb (item_nl i)) (norm_block b) = true.
Proof. exact norm_no_newline. Qed.
Print Assumptions C26_normal_form_no_newline.

Theorem C26_normal_form_stripped : forall b, wf_block b = true ->
  ihead_ns (norm_block b) /\ ihead_ns (rev (norm_block b)).
Proof. exact norm_no_outer_space. Qed.
Print Assumptions C26_normal_form_stripped.

(* special case (the former partial theorem): a block without whitespace is left exactly as it is *)
Theorem C26_tag_text_intact : forall lk items, names_ok items ->
  forallb (fun c => negb (is_space c)) (serialize items) = true ->
  format_tag items lk = Ok (render_items items lk).
Proof. exact tag_text_intact. Qed.
Print Assumptions C26_tag_text_intact.

(* plural form by count, exactly as gettext.NullTranslations (n == 1 ? singular : plural), zero and negatives included *)
Theorem C26_plural_rule : forall z,
  t_form true (CInt z) = Ok (null_ngettext z) /\ t_form false (CInt z) = Ok Singular /\
  tag_form true (CInt z) = Ok (null_ngettext z) /\ tag_form false (CInt z) = Ok Singular /\
  ng_form (CInt z) = Ok (null_ngettext z).
Proof. exact plural_rule. Qed.
Print Assumptions C26_plural_rule.

(* counts of every kind (nil, booleans, integers, floats, infinity, NaN, any string, arrays, hashes), per entry point:
   the tag uses the count's integer value (booleans 0/1, floats truncated, integer strings) and 1 when it has none;
   ngettext/npgettext the same but the Liquid type error for nil/arrays/hashes; t treats nil and booleans as no count *)
Theorem C26_tag_count : forall hp c,
  tag_form hp c = Ok (if hp then null_ngettext (dflt 1 (count_int c)) else Singular).
Proof. exact tag_form_spec. Qed.
Print Assumptions C26_tag_count.

Theorem C26_ngettext_count : forall c,
  ng_form c = if count_no_type c then Err EType else Ok (null_ngettext (dflt 1 (count_int c))).
Proof. exact ng_form_spec. Qed.
Print Assumptions C26_ngettext_count.

Theorem C26_t_count : forall hp c,
  t_form hp c =
  match c with
  | CAbsent | CNil | CBool _ => Ok Singular
  | CArr | CHash => Err EType
  | _ => Ok (match hp, count_int c with true, Some n => null_ngettext n | _, _ => Singular end)
  end.
Proof. exact t_form_spec. Qed.
Print Assumptions C26_t_count.

Theorem C26_count_errors_are_liquid : forall hp c,
  (forall e, t_form hp c = Err e -> is_liquid e = true) /\
  (forall e, ng_form c = Err e -> is_liquid e = true) /\
  (forall e, tag_form hp c = Err e -> is_liquid e = true).
Proof. exact count_errors_are_liquid. Qed.
Print Assumptions C26_count_errors_are_liquid.

(* a count string: optional whitespace around an optional sign and decimal digits denotes that integer *)
Theorem C26_count_string : forall lead trail sg ds, forallb is_space lead = true -> forallb is_space trail = true ->
  ds <> [] -> forallb is_digit ds = true ->
  py_int (lead ++ (sign_str sg ++ ds) ++ trail) = Some (sign_val sg (dval ds)).
Proof. exact py_int_decimal. Qed.
Print Assumptions C26_count_string.

(* message context (translate tag's context: argument, the t filter's positional argument, pgettext/npgettext):
   with null translations it never changes the text -- for every entry point, count and context the form is the one
   the count alone selects; it only decides which gettext function is asked, and how *)
Theorem C26_context_leaves_text : forall c,
  run_plural c =
  match pc_entry c with
  | ETag => tag_form (pc_plural c) (pc_count c)
  | ETFilter => t_form (pc_plural c) (pc_count c)
  | EGettext | EPgettext => Ok Singular
  | ENgettext | ENpgettext => ng_form (pc_count c)
  end.
Proof. exact context_leaves_text. Qed.
Print Assumptions C26_context_leaves_text.

Theorem C26_tag_call : forall hp c x,
  tag_call hp c x =
  do n <- tag_count c;
  Ok (match tag_ctx x with
      | Some k => if hp then GNpget k n else GPget k
      | None => if hp then GNget n else GGet
      end).
Proof. exact tag_call_spec. Qed.
Print Assumptions C26_tag_call.

(* the code before the fixes, refuted by witnesses: printf over the whole message collapses %% (and garbles a lone %),
   the tag's old variable pattern misses a variable right after a percent sign (KeyError), count 0 picked the singular;
   a hyphenated variable was a KeyError and a quoted name ending in ")s" was cut short; an infinite count escaped from
   the t filter as OverflowError *)
Theorem C26_old_refuted :
  printf 0 (lit "%%") (fun _ => None) = Ok (lit "%") /\
  format_tag_msg_old (serialize [IChar 37%N; IVar (lit "n")]) (fun _ => lit "N") = Err EKeyError /\
  t_form_old true (CInt 0) = Ok Singular /\ tag_form_old true (CInt 0) = Ok Singular /\ null_ngettext 0 = Plural /\
  format_tag_names_old [IVar (lit "a-b")] (fun _ => lit "V") = Err EKeyError /\
  format_tag [IVar (lit "a-b")] (fun _ => lit "V") = Ok (lit "V") /\
  format_tag_names_old [IVar (lit "a)s")] (fun k => if str_eqb k (lit "a") then [] else lit "V") = Ok (lit ")s") /\
  t_count_inf_old CInf = Err EOverflowError /\ t_count CInf = Ok None.
Proof. vm_compute. repeat split. Qed.
Print Assumptions C26_old_refuted.

(* non-vacuity: concrete messages that meet the hypotheses *)
Example C26_pieces_nonvacuous :
  wf_pieces [PText (lit "100% sure, "); PVar (lit "you"); PText (lit " (%s)")] /\
  format_filter (lit "100% sure, %(you)s (%s)") (fun _ => lit "Sue") = lit "100% sure, Sue (%s)".
Proof. split; [|vm_compute; reflexivity]. cbn. repeat split; try discriminate; reflexivity. Qed.

Example C26_tag_nonvacuous :
  format_tag [IChar 49%N; IChar 37%N; IVar (lit "n"); IChar 37%N; IChar 40%N] (fun _ => lit "N") = Ok (lit "1%N%(").
Proof. vm_compute. reflexivity. Qed.

(* "  Hello,\n   {{ you-all }}!  \t100%  " *)
Example C26_whitespace_nonvacuous :
  let items := map IChar (lit "  Hello,") ++ [IChar 10%N] ++ map IChar (lit "   ") ++ [IVar (lit "you-all")] ++
               map IChar (lit "!  ") ++ [IChar 9%N] ++ map IChar (lit "100%  ") in
  format_tag items (fun _ => lit "Sue  and Al") = Ok (lit "Hello, Sue  and Al!  " ++ [9%N] ++ lit "100%") /\
  wf_block (decompose items) = true /\
  (exists lead w1 rest trail, decompose items = BWords lead w1 rest trail /\ length rest = 2).
Proof. vm_compute. repeat split. do 4 eexists. split; reflexivity. Qed.

Example C26_count_string_nonvacuous :
  py_int (lit " -1_0 ") = Some (-10)%Z /\ py_int (lit "1__0") = None /\ py_int (lit "1.0") = None /\ py_int (lit "+ 1") = None /\
  tag_form true (CStr (lit "1.0")) = Ok Singular /\ tag_form true (CFloat 5 1) = Ok Plural /\ tag_form true (CFloat 15 1) = Ok Singular.
Proof. vm_compute. repeat split. Qed.
