(* C26 — Null translations leave message text intact.  Property theorems only. *)
From Coq Require Import String.
From LiquidVerif Require Import Prelude PyPrims Translate Translate_Proofs.
Local Open Scope string_scope. Local Open Scope list_scope.

(* filters: a message without %(name)s placeholders is output unchanged, whatever percent signs
   (%, %%, %s, "%(", ...) it contains *)
Theorem C26_filter_text_intact : forall lk text, find_vars text = [] -> format_filter text lk = text.
Proof. exact filter_text_without_placeholders. Qed.
Print Assumptions C26_filter_text_intact.

(* filters: in a message made of text pieces (each free of placeholders, arbitrary otherwise, not ending in '%')
   and placeholders, exactly the placeholders are replaced by their variables *)
Theorem C26_filter_placeholders : forall lk ps, wf_pieces ps -> format_filter (ser ps) lk = render lk ps.
Proof. exact filter_substitutes_placeholders. Qed.
Print Assumptions C26_filter_placeholders.

(* tag: for EVERY block of text characters and variables, doubling the percent signs, collecting the variables
   with the repaired pattern and printf-formatting gives back the text with the variables substituted *)
Theorem C26_tag_message_intact : forall lk items, names_ok items ->
  format_tag_msg (serialize items) lk = Ok (render_items items lk).
Proof. exact tag_message_intact. Qed.
Print Assumptions C26_tag_message_intact.

(* tag, whole pipeline, for blocks without whitespace (the whitespace collapse is covered by the correspondence run only) *)
Theorem C26_tag_text_intact_partial : forall lk items, names_ok items ->
  forallb (fun c => negb (is_space c)) (serialize items) = true ->
  format_tag items lk = Ok (render_items items lk).
Proof. exact tag_text_intact. Qed.
Print Assumptions C26_tag_text_intact_partial.

(* plural form by count, exactly as gettext.NullTranslations (n == 1 ? singular : plural), zero and negatives included *)
Theorem C26_plural_rule : forall z,
  t_form true (CInt z) = null_ngettext z /\ t_form false (CInt z) = Singular /\
  tag_form true (CInt z) = Ok (null_ngettext z) /\ tag_form false (CInt z) = Ok Singular /\
  t_form true (CStrInt z) = null_ngettext z /\ tag_form true (CStrInt z) = Ok (null_ngettext z).
Proof. exact plural_rule. Qed.
Print Assumptions C26_plural_rule.

(* the code before the fixes, refuted by witnesses: printf over the whole message collapses %% (and garbles a lone %),
   the tag's old variable pattern misses a variable right after a percent sign (KeyError), count 0 picked the singular *)
Theorem C26_old_refuted :
  printf 0 (lit "%%") (fun _ => None) = Ok (lit "%") /\
  format_tag_msg_old (serialize [IChar 37%N; IVar (lit "n")]) (fun _ => lit "N") = Err EKeyError /\
  t_form_old true (CInt 0) = Singular /\ tag_form_old true (CInt 0) = Ok Singular /\ null_ngettext 0 = Plural.
Proof. vm_compute. repeat split. Qed.
Print Assumptions C26_old_refuted.

(* non-vacuity: concrete messages that meet the hypotheses *)
Example C26_pieces_nonvacuous :
  wf_pieces [PText (lit "100% sure, "); PVar (lit "you"); PText (lit " (%s)")] /\
  format_filter (lit "100% sure, %(you)s (%s)") (fun _ => lit "Sue") = lit "100% sure, Sue (%s)".
Proof. split; [|vm_compute; reflexivity]. cbn. repeat split; try discriminate; reflexivity. Qed.

Example C26_tag_nonvacuous :
  format_tag [IChar 49%N; IChar 37%N; IVar (lit "n"); IChar 37%N; IChar 40%N] (fun _ => lit "N") = Ok (lit "1%N%(").
Proof. vm_compute. reflexivity. Qed.
