(* C08 — Resource limits only abort a render, never alter its output; success is monotone.  Property theorems only.
   Statements are about Limits.run_prog v Strict for every variant v with is_repaired v (model of the code after
   .work/fixes/C06-loop-carry.patch, C08-zero-limits.patch, C07-namespace-rollback.patch, dec4c86 and
   C07-namespace-across-block-super.patch; v_item - one render-for context or one per item - left free; the correspondence
   run uses v = Limits.repaired), over all five limits at once (lim_le: pointwise order, None = not configured = top),
   for single templates (chain = []) and chains of templates with overridden blocks and block.super (chain = d0 :: loaded).
   Mode.STRICT: in WARN/LAX mode an error is dropped per top-level node, so a limit does alter the output there (by
   design); what carries over to those modes is C08_mode_agreement. *)
From LiquidVerif Require Import Prelude PyPrims Limits Limits_Proofs Limits_Sim_Proofs.
Local Open Scope Z_scope.

(* the simulation: with pointwise larger limits b, a render that completes under a completes under b in the
   identical final state (output, namespaces, logs); a render that fails under a fails identically under b or
   failed with the class of a limit on which a and b differ *)
Theorem C08_simulation : forall v a b, is_repaired v -> lim_le a b -> forall chain main glob sizes,
  match run_prog v Strict a chain main glob sizes with
  | LOk s => run_prog v Strict b chain main glob sizes = LOk s
  | LErr e s => run_prog v Strict b chain main glob sizes = LErr e s \/ blame a b e
  | LFuel => run_prog v Strict b chain main glob sizes = LFuel
  end.
Proof. exact sim_run. Qed.
Print Assumptions C08_simulation.

(* monotone: success under a limit carries over, with the same output, to any larger value of any of the limits *)
Theorem C08_monotone : forall v, is_repaired v -> forall a b chain main glob sizes s,
  lim_le a b -> run_prog v Strict a chain main glob sizes = LOk s -> run_prog v Strict b chain main glob sizes = LOk s.
Proof. exact run_monotone. Qed.
Print Assumptions C08_monotone.

(* abort only: any two configurations of the limits (comparable or not, including no limits at all) under which
   the render completes give the same result *)
Theorem C08_abort_only : forall v, is_repaired v -> forall a b chain main glob sizes s s',
  run_prog v Strict a chain main glob sizes = LOk s -> run_prog v Strict b chain main glob sizes = LOk s' -> s = s'.
Proof. exact run_abort_only. Qed.
Print Assumptions C08_abort_only.

(* ... and a failure under limits a of a render that completes under some limits b is a ResourceLimitError
   (LoopIterationLimitError, OutputStreamLimitError, LocalNamespaceLimitError, ContextDepthError, BlockNestingError) *)
Theorem C08_error_class : forall v, is_repaired v -> forall a b chain main glob sizes e se s,
  run_prog v Strict a chain main glob sizes = LErr e se -> run_prog v Strict b chain main glob sizes = LOk s -> is_limit e = true.
Proof. exact run_error_class. Qed.
Print Assumptions C08_error_class.

(* sharper: for comparable limits the error is that of a limit that was actually raised *)
Theorem C08_error_blame : forall v, is_repaired v -> forall a b chain main glob sizes e se s,
  lim_le a b -> run_prog v Strict a chain main glob sizes = LErr e se -> run_prog v Strict b chain main glob sizes = LOk s -> blame a b e.
Proof. exact run_error_blame. Qed.
Print Assumptions C08_error_blame.

(* the mode only matters once an error is raised: a render that completes in STRICT mode under some limits completes
   with the identical result in WARN and LAX mode under the same limits (for every variant of the code).  With
   C08_abort_only: whenever the strict render under the limits completes, the lax render under the limits returns
   the unlimited output. *)
Theorem C08_mode_agreement : forall v md lim chain main glob sizes s,
  run_prog v Strict lim chain main glob sizes = LOk s -> run_prog v md lim chain main glob sizes = LOk s.
Proof. exact run_mode_agreement. Qed.
Print Assumptions C08_mode_agreement.

(* the unrepaired truthiness tests make 0 mean "no limit": {% for i in (1..2) %}x{% endfor %} completes under
   loop_iteration_limit 0 and fails under the larger limit 1; {% assign v0 = 'a' %} completes under
   local_namespace_limit 0 and fails under 1: monotonicity is refuted for the unrepaired code *)
Definition loop_lim (L : N) : limits := {| l_loop := Some L; l_out := None; l_ns := None; l_depth := 30; l_nest := 30 |}.
Definition ns_lim (M : Z) : limits := {| l_loop := None; l_out := None; l_ns := Some M; l_depth := 30; l_nest := 30 |}.
Theorem C08_unrepaired_zero_refuted :
  lim_le (loop_lim 0) (loop_lim 1) /\
  (exists s, run_prog unrepaired Strict (loop_lim 0) [] [For 2 [Text [120%N]]] [] [] = LOk s) /\
  (exists se, run_prog unrepaired Strict (loop_lim 1) [] [For 2 [Text [120%N]]] [] [] = LErr XLoop se) /\
  lim_le (ns_lim 0) (ns_lim 1) /\
  (exists s, run_prog unrepaired Strict (ns_lim 0) [] [Assign 0 [97%N]] [] [42] = LOk s) /\
  (exists se, run_prog unrepaired Strict (ns_lim 1) [] [Assign 0 [97%N]] [] [42] = LErr XNamespace se).
Proof.
  repeat split; try (vm_compute; intro; discriminate); try (eexists; vm_compute; reflexivity).
  all: vm_compute; lia.
Qed.
Print Assumptions C08_unrepaired_zero_refuted.

(* non-vacuity: one template, five limits; each too-small limit aborts with its own class, the generous
   configuration completes; in LAX mode the too-small output limit truncates instead (why C08 is a STRICT property) *)
Definition prog : list node := [Assign 0 [97%N]; For 2 [Include [Capture 1 [Text [120%N; 121%N]]; Echo 1]]].
Definition cfg (lo : option N) (ou ns : option Z) (d n : Z) : limits := {| l_loop := lo; l_out := ou; l_ns := ns; l_depth := d; l_nest := n |}.
Example C08_nonvacuous :
  (exists s, run_prog repaired Strict (cfg (Some 2%N) (Some 4) (Some 100) 7 1) [] prog [] [50; 50; 50] = LOk s /\ buf_text (s_buf s) = [120; 121; 120; 121]%N) /\
  (exists se, run_prog repaired Strict (cfg (Some 1%N) (Some 4) (Some 100) 7 1) [] prog [] [50; 50; 50] = LErr XLoop se) /\
  (exists se, run_prog repaired Strict (cfg (Some 2%N) (Some 3) (Some 100) 7 1) [] prog [] [50; 50; 50] = LErr XOutput se) /\
  (exists se, run_prog repaired Strict (cfg (Some 2%N) (Some 4) (Some 99) 7 1) [] prog [] [50; 50; 50] = LErr XNamespace se) /\
  (exists se, run_prog repaired Strict (cfg (Some 2%N) (Some 4) (Some 100) 6 1) [] prog [] [50; 50; 50] = LErr XDepth se) /\
  (exists se, run_prog repaired Strict (cfg (Some 2%N) (Some 4) (Some 100) 7 0) [] prog [] [50; 50; 50] = LErr XNesting se) /\
  (exists s, run_prog repaired Lax (cfg (Some 2%N) (Some 3) (Some 100) 7 1) [] prog [] [50; 50; 50] = LOk s /\ buf_text (s_buf s) = [120; 121]%N).
Proof.
  split; [eexists; split; vm_compute; reflexivity|]. repeat split; try (eexists; vm_compute; reflexivity).
  eexists; split; vm_compute; reflexivity.
Qed.

(* the same over a chain of two templates (child: {% block b %}{% assign v0 %}{% for (1..2) %}{{ block.super }}{% endfor %}{% endblock %},
   base: {% block b %}{% capture v1 %}xy{% endcapture %}{{ v1 }}{% endblock %}; nesting depths 2 and 2): the scope of the base
   template's nodes is two deep, the parent block one more; each too-small limit aborts with its own class *)
Definition cprog : list node := [Block [Assign 0 [97%N]; For 2 [Super [Capture 1 [Text [120%N; 121%N]]; Echo 1]]]].
Example C08_nonvacuous_chain :
  (exists s, run_prog repaired Strict (cfg (Some 2%N) (Some 4) (Some 100) 6 2) [2; 2] cprog [] [50; 50; 50] = LOk s /\ buf_text (s_buf s) = [120; 121; 120; 121]%N) /\
  (exists se, run_prog repaired Strict (cfg (Some 1%N) (Some 4) (Some 100) 6 2) [2; 2] cprog [] [50; 50; 50] = LErr XLoop se) /\
  (exists se, run_prog repaired Strict (cfg (Some 2%N) (Some 3) (Some 100) 6 2) [2; 2] cprog [] [50; 50; 50] = LErr XOutput se) /\
  (exists se, run_prog repaired Strict (cfg (Some 2%N) (Some 4) (Some 99) 6 2) [2; 2] cprog [] [50; 50; 50] = LErr XNamespace se) /\
  (exists se, run_prog repaired Strict (cfg (Some 2%N) (Some 4) (Some 100) 5 2) [2; 2] cprog [] [50; 50; 50] = LErr XDepth se) /\
  (exists se, run_prog repaired Strict (cfg (Some 2%N) (Some 4) (Some 100) 6 1) [2; 2] cprog [] [50; 50; 50] = LErr XNesting se).
Proof.
  split; [eexists; split; vm_compute; reflexivity|]. repeat split; eexists; vm_compute; reflexivity.
Qed.
