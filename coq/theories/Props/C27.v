(* C27 — Macro calls and with blocks bind arguments as documented.  Property theorems only. *)
From Coq Require Import String.
From LiquidVerif Require Import Prelude PyPrims MacroArgs MacroArgs_Proofs.
Local Open Scope string_scope. Local Open Scope list_scope.

(* for every signature, every list of positional arguments and every list of keyword arguments
   (matching, non-matching, repeated, in any order), the binding computed by the call tag is:
   parameter i := last keyword of its name, else the i-th positional, else its default, else undefined;
   args := the positionals beyond the parameters; kwargs := the non-parameter keywords in order of
   first appearance, each with its last value *)
Theorem C27_bind_spec : forall (ps : @params Z) pos kws,
  NoDup (map fst ps) -> bind ps pos kws = spec_bind ps pos kws.
Proof. exact (@bind_is_spec Z). Qed.
Print Assumptions C27_bind_spec.

(* with: inside the block a bound name has the value of its last binding, evaluated OUTSIDE the block;
   every other name resolves as outside (shadowing only) *)
Theorem C27_with_binds : forall c args x,
  wlookup {| w_scopes := with_namespace c args [] :: w_scopes c; w_locals := w_locals c; w_globals := w_globals c |} x =
  match last_arg x args with Some e => weval c e | None => wlookup c x end.
Proof. exact with_binds_in_block. Qed.
Print Assumptions C27_with_binds.

(* ... and after any list of nodes (nested with blocks, assignments) the scope chain is exactly what it was:
   names bound by with are visible only inside their block *)
Theorem C27_with_scoped : forall fuel c ns out c',
  wexec fuel c ns = Ok (out, c') -> w_scopes c' = w_scopes c /\ w_globals c' = w_globals c.
Proof. exact wexec_balanced. Qed.
Print Assumptions C27_with_scoped.

(* non-vacuity and a reading aid: keyword overrides positional; surplus kept in order; last duplicate wins *)
Example C27_bind_example :
  bind [(lit "a", None); (lit "b", Some 70%Z)] [1; 2; 3]%Z [(lit "x", 9%Z); (lit "a", 5%Z); (lit "x", 8%Z)] =
  {| b_args := [(lit "a", Some 5%Z); (lit "b", Some 2%Z)]; b_excess := [3%Z]; b_kwexcess := [(lit "x", 8%Z)] |}.
Proof. vm_compute. reflexivity. Qed.

Example C27_with_example :
  run_with {| wc_globals := [(lit "x", 100%Z)];
              wc_body := [WWith [(lit "x", WLit 1); (lit "y", WVar (lit "x"))] [WPrint (lit "x"); WPrint (lit "y")];
                          WPrint (lit "x"); WPrint (lit "y")] |} = Some (lit "1;100;100;;").
Proof. vm_compute. reflexivity. Qed.
