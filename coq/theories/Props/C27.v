(* C27 — Macro calls and with blocks bind arguments as documented.  Property theorems only. *)
From Coq Require Import String.
From LiquidVerif Require Import Prelude PyPrims MacroArgs MacroArgs_Proofs.
From LiquidVerif Require Scope Scope_Proofs MacroCall MacroCall_Proofs.
Local Open Scope string_scope. Local Open Scope list_scope.

(* for every signature, every list of positional arguments and every list of keyword arguments
   (matching, non-matching, repeated, in any order), the binding computed by the call tag is:
   parameter i := last keyword of its name, else the i-th positional, else its default, else undefined;
   args := the positionals beyond the parameters; kwargs := the non-parameter keywords in order of
   first appearance, each with its last value *)
Theorem C27_bind_spec : forall (ps : @params Z) pos kws,
  NoDup (map fst ps) -> bind ps pos kws = spec_bind ps pos kws.
Proof. exact (@bind_is_spec Z). Qed.
Print Assumptions C27_bind_spec.

(* with: inside the block a bound name has the value of its last binding, evaluated OUTSIDE the block;
   every other name resolves as outside (shadowing only) *)
Theorem C27_with_binds : forall c args x,
  wlookup {| w_scopes := with_namespace c args [] :: w_scopes c; w_locals := w_locals c; w_globals := w_globals c |} x =
  match last_arg x args with Some e => weval c e | None => wlookup c x end.
Proof. exact with_binds_in_block. Qed.
Print Assumptions C27_with_binds.

(* ... and after any list of nodes (nested with blocks, assignments) the scope chain is exactly what it was:
   names bound by with are visible only inside their block *)
Theorem C27_with_scoped : forall fuel c ns out c',
  wexec fuel c ns = Ok (out, c') -> w_scopes c' = w_scopes c /\ w_globals c' = w_globals c.
Proof. exact wexec_balanced. Qed.
Print Assumptions C27_with_scoped.

(* ================= the binding, clause by clause (arguments of ANY kind E: the call tag binds expressions) ================= *)

(* parameter number j, named p with default d: the LAST keyword argument named p wins -- also over a positional argument
   in slot j; else the j-th positional argument; else the default; else nothing (undefined) *)
Theorem C27_keyword_beats_positional : forall (E : Type) (ps : @params E) pos (kws : list (str * E)) j p d,
  NoDup (map fst ps) -> nth_error ps j = Some (p, d) ->
  alookup p (b_args (bind ps pos kws)) =
  Some (match last_kw p kws with
        | Some v => Some v
        | None => match nth_error pos j with Some e => Some e | None => d end
        end).
Proof. exact (@MacroCall_Proofs.bind_param). Qed.
Print Assumptions C27_keyword_beats_positional.

(* ... and the positional argument that lost its slot to a keyword is dropped: args is exactly the positional arguments
   beyond the parameters, in order *)
Theorem C27_args_contents : forall (E : Type) (ps : @params E) pos (kws : list (str * E)),
  NoDup (map fst ps) -> b_excess (bind ps pos kws) = skipn (length ps) pos.
Proof. exact (@MacroCall_Proofs.bind_excess). Qed.
Print Assumptions C27_args_contents.

(* kwargs maps every keyword name that is not a parameter to the value of its LAST occurrence and holds nothing else
   (a keyword naming a parameter never lands in kwargs) *)
Theorem C27_kwargs_contents : forall (E : Type) (ps : @params E) (kws : list (str * E)) k,
  alookup k (spec_kwexcess ps kws) = if has_key k ps then None else last_kw k kws.
Proof. exact (@MacroCall_Proofs.kwexcess_lookup). Qed.
Print Assumptions C27_kwargs_contents.

(* ... its names stand in order of FIRST appearance, each once *)
Theorem C27_kwargs_order : forall (E : Type) (ps : @params E) (kws : list (str * E)),
  map fst (spec_kwexcess ps kws) = MacroCall_Proofs.dedup (map fst (filter (fun kv => negb (has_key (fst kv) ps)) kws))
  /\ NoDup (map fst (spec_kwexcess ps kws)).
Proof. intros. split; [apply MacroCall_Proofs.kwexcess_keys|apply MacroCall_Proofs.kwexcess_nodup]. Qed.
Print Assumptions C27_kwargs_order.

(* the hypothesis of the theorems above always holds: the parameter list of a macro (a dict built by Parameter.parse: a
   repeated name keeps its first position and last default) has distinct names, and a list written without a repeated name
   is kept as written *)
Theorem C27_parameter_names_distinct : forall ps,
  NoDup (map fst (MacroCall.norm_params ps)) /\ (NoDup (map fst ps) -> MacroCall.norm_params ps = ps).
Proof. intro ps. split; [apply MacroCall_Proofs.norm_params_nodup|apply MacroCall_Proofs.norm_params_id]. Qed.
Print Assumptions C27_parameter_names_distinct.

(* ================= evaluation: values of every Liquid type (Scope.val), errors, the caller's context ================= *)

(* inside the macro, parameter number j has the value of the expression the rule above chooses (MacroCall.chosen),
   evaluated in c -- the CALLER's context at the moment the call tag is rendered.  This covers the DEFAULT: it is
   evaluated late, where the call stands, not where the macro was defined and not in the macro's own scope (it cannot
   see the macro's other parameters) *)
Theorem C27_parameter_value : forall uk c ps pos kws nm j p d,
  NoDup (map fst ps) -> MacroCall.call_namespace uk c ps pos kws = Ok nm -> nth_error ps j = Some (p, d) ->
  exists v, MacroCall.eval_opt uk c (MacroCall.chosen p j d pos kws) = Ok v /\ alookup p nm = Some v.
Proof. exact MacroCall_Proofs.call_namespace_param. Qed.
Print Assumptions C27_parameter_value.

(* args: the evaluated surplus positional arguments, in order (unless a parameter is itself called args) *)
Theorem C27_args_value : forall uk c ps pos kws nm,
  NoDup (map fst ps) -> MacroCall.call_namespace uk c ps pos kws = Ok nm -> ~ In MacroCall.s_args (map fst ps) ->
  exists xs, Scope.eval_args uk c (skipn (length ps) pos) = Ok xs /\ alookup MacroCall.s_args nm = Some (Scope.VList xs).
Proof. exact MacroCall_Proofs.call_namespace_args. Qed.
Print Assumptions C27_args_value.

(* kwargs: a hash of the surplus keyword arguments -- names in order of first appearance, each with the evaluated value
   of its last occurrence; keywords naming a parameter are absent *)
Theorem C27_kwargs_value : forall uk c ps pos kws nm,
  NoDup (map fst ps) -> MacroCall.call_namespace uk c ps pos kws = Ok nm -> ~ In MacroCall.s_kwargs (map fst ps) ->
  exists kx, alookup MacroCall.s_kwargs nm = Some (Scope.VDict kx) /\
    map fst kx = MacroCall_Proofs.dedup (map fst (filter (fun kv => negb (has_key (fst kv) ps)) kws)) /\
    forall k, match (if has_key k ps then None else MacroCall.last_named k kws) with
              | Some e => exists v, Scope.eval_expr uk c e = Ok v /\ alookup k kx = Some v
              | None => alookup k kx = None
              end.
Proof. exact MacroCall_Proofs.call_namespace_kwargs. Qed.
Print Assumptions C27_kwargs_value.

(* with the default undefined type binding never fails *)
Theorem C27_binding_total : forall c ps pos kws, exists nm, MacroCall.call_namespace Scope.UDefault c ps pos kws = Ok nm.
Proof. exact MacroCall_Proofs.call_namespace_default_total. Qed.
Print Assumptions C27_binding_total.

(* ================= the macro table ================= *)

(* a macro tag evaluates and prints nothing; it (re)binds its name: afterwards the name denotes THIS definition, every
   other name what it denoted before -- a macro defined twice is the second one from then on *)
Theorem C27_macro_definition_replaces : forall E f name ps body c x,
  MacroCall.mexec (S f) E (Scope.NMacro name ps body) c =
    Scope.Done (Scope.set_macros c (Scope.dict_set name (ps, body) (Scope.macros c))) [] Scope.Normal /\
  alookup x (Scope.macros (Scope.set_macros c (Scope.dict_set name (ps, body) (Scope.macros c)))) =
    if str_eqb x name then Some (ps, body) else alookup x (Scope.macros c).
Proof. intros. split; [apply MacroCall_Proofs.macro_defines|apply MacroCall_Proofs.macro_table_after_definition]. Qed.
Print Assumptions C27_macro_definition_replaces.

(* a call of a name no macro tag has defined so far prints the undefined value: nothing with the default undefined type,
   UndefinedError with a strict one (which lax mode then swallows: C27_lax_continues_after_error); no argument is evaluated *)
Theorem C27_call_of_undefined_macro : forall E f name a c,
  alookup name (Scope.macros c) = None ->
  MacroCall.mexec (S f) E (Scope.NCall name a) c =
  if Scope.strict_kind (Scope.e_uk E) then Scope.Done c [] (Scope.Raise EUndefined) else Scope.Done c [] Scope.Normal.
Proof. exact MacroCall_Proofs.call_undefined. Qed.
Print Assumptions C27_call_of_undefined_macro.

(* a call of a defined name: the namespace of C27_parameter_value / args / kwargs, computed in the caller's context; the
   block runs in MacroCall.copy_call c nm; an error while binding is the call's error *)
Theorem C27_call_of_defined_macro : forall E f name a c ps body,
  alookup name (Scope.macros c) = Some (ps, body) ->
  MacroCall.mexec (S f) E (Scope.NCall name a) c =
  Scope.lift (MacroCall.call_namespace (Scope.e_uk E) c (MacroCall.norm_params ps) (MacroCall.call_pos a) (MacroCall.call_kws a)) c
    (fun nm => match Scope.seq_nodes (MacroCall.mexec f E) body (MacroCall.copy_call c nm) with
               | Scope.Fuel => Scope.Fuel | Scope.Done _ out s => Scope.Done c out s end).
Proof. exact MacroCall_Proofs.call_defined. Qed.
Print Assumptions C27_call_of_defined_macro.

(* NOTHING IS REMEMBERED ON THE CALL NODE.  Rendering a definition and then a call, from ANY context c -- whatever was
   defined before, however often this very call node has already run (in a loop, in an earlier render of the same
   template) and whatever it bound then --, binds against the definition just rendered (its names AND its defaults) and
   the caller's variables; the macro table has no influence on the namespace *)
Theorem C27_call_uses_current_definition : forall E f name ps body a c,
  Scope.seq_nodes (MacroCall.mexec (S f) E) [Scope.NMacro name ps body; Scope.NCall name a] c =
  let c1 := Scope.set_macros c (Scope.dict_set name (ps, body) (Scope.macros c)) in
  Scope.lift (MacroCall.call_namespace (Scope.e_uk E) c (MacroCall.norm_params ps) (MacroCall.call_pos a) (MacroCall.call_kws a)) c1
    (fun nm => match Scope.seq_nodes (MacroCall.mexec f E) body (MacroCall.copy_call c1 nm) with
               | Scope.Fuel => Scope.Fuel | Scope.Done _ out s => Scope.Done c1 out s end).
Proof. exact MacroCall_Proofs.call_uses_current_definition. Qed.
Print Assumptions C27_call_uses_current_definition.

(* whatever the block does (assign, define macros), the caller's context after the call is the one before it *)
Theorem C27_call_leaves_caller_context : forall E f name a c c' o s,
  MacroCall.mexec f E (Scope.NCall name a) c = Scope.Done c' o s -> c' = c.
Proof. exact MacroCall_Proofs.call_ctx_unchanged. Qed.
Print Assumptions C27_call_leaves_caller_context.

(* the block's context: the namespace in front of the ROOT globals, no block scope and no assigned name of the caller,
   include / block disabled -- and the macros defined so far (repair C27-call-inside-macro), so a macro can call macros *)
Theorem C27_macro_block_context : forall c nm,
  Scope.macros (MacroCall.copy_call c nm) = Scope.macros c /\
  Scope.scopes (MacroCall.copy_call c nm) = [] /\ Scope.locals (MacroCall.copy_call c nm) = [] /\
  Scope.gl (MacroCall.copy_call c nm) = nm :: Scope.base c /\
  Scope.disabled (MacroCall.copy_call c nm) = [Scope.TInclude; Scope.TBlock].
Proof. intros. split; [apply MacroCall_Proofs.macro_block_sees_macros|apply MacroCall_Proofs.macro_block_scope]. Qed.
Print Assumptions C27_macro_block_context.

(* ================= partials ================= *)

(* render: the caller's context (macro table included) is unchanged, so a macro defined in a rendered partial cannot be
   called afterwards *)
Theorem C27_render_defines_nothing : forall E f name var args c c' o s,
  MacroCall.mexec f E (Scope.NRender name var args) c = Scope.Done c' o s -> c' = c.
Proof. exact MacroCall_Proofs.render_ctx_unchanged. Qed.
Print Assumptions C27_render_defines_nothing.

(* include: a macro defined by the included partial is in the caller's table after the include tag *)
Theorem C27_include_defines_macro : forall E f name m ps b c,
  Scope.is_disabled Scope.TInclude c = false -> alookup name (Scope.e_loader E) = Some [Scope.NMacro m ps b] ->
  exists c', MacroCall.mexec (S (S f)) E (Scope.NInclude name None []) c = Scope.Done c' [] Scope.Normal /\
    alookup m (Scope.macros c') = Some (ps, b) /\ Scope.scopes c' = Scope.scopes c /\ Scope.locals c' = Scope.locals c.
Proof. exact MacroCall_Proofs.include_defines_macro. Qed.
Print Assumptions C27_include_defines_macro.

(* ... but include cannot be used inside a macro's block *)
Theorem C27_include_disabled_in_macro_block : forall E f name var args c nm,
  MacroCall.mexec (S f) E (Scope.NInclude name var args) (MacroCall.copy_call c nm) =
  Scope.Done (MacroCall.copy_call c nm) [] (Scope.Raise EDisabledTag).
Proof. exact MacroCall_Proofs.include_disabled_in_macro_block. Qed.
Print Assumptions C27_include_disabled_in_macro_block.

(* ================= with, over all values and with errors ================= *)

(* the namespace of a with tag: every argument is evaluated in c, the context OUTSIDE the block -- a later argument
   cannot see an earlier one; a repeated name has the value of its last occurrence *)
Theorem C27_with_arguments_outer_scope : forall uk c args acc nw x,
  Scope.eval_kwargs uk c args acc = Ok nw ->
  match MacroCall.last_named x args with
  | Some e => exists v, Scope.eval_expr uk c e = Ok v /\ alookup x nw = Some v
  | None => alookup x nw = alookup x acc
  end.
Proof. exact MacroCall_Proofs.eval_kwargs_lookup. Qed.
Print Assumptions C27_with_arguments_outer_scope.

(* ... from left to right: the tag fails exactly with the error of the FIRST argument that fails *)
Theorem C27_with_arguments_left_to_right : forall uk c args acc x,
  Scope.eval_kwargs uk c args acc = Err x ->
  exists pre k e post, args = pre ++ (k, e) :: post /\ Scope.eval_expr uk c e = Err x /\
    forall k' e', In (k', e') pre -> exists v, Scope.eval_expr uk c e' = Ok v.
Proof. exact MacroCall_Proofs.eval_kwargs_first_error. Qed.
Print Assumptions C27_with_arguments_left_to_right.

(* however a with block ends -- normally, by break / continue, or by an ERROR raised anywhere inside it, also inside a
   nested with block --, the pushed namespaces afterwards are those before the tag: the outer bindings are back *)
Theorem C27_with_restored_after_error : forall E f args body c c' o s x,
  MacroCall.mexec f E (Scope.NWith args body) c = Scope.Done c' o s ->
  Scope.scopes c' = Scope.scopes c /\ Scope.gl c' = Scope.gl c /\
  Scope.first_hit x (Scope.scopes c') = Scope.first_hit x (Scope.scopes c).
Proof. exact MacroCall_Proofs.with_restores_scopes. Qed.
Print Assumptions C27_with_restored_after_error.

(* ... and the same for EVERY node (call, include, for, ...) *)
Theorem C27_every_node_balanced : forall E f n c c' o s,
  MacroCall.mexec f E n c = Scope.Done c' o s -> Scope_Proofs.same_frame c c'.
Proof. intros E f n c c' o s H. exact (MacroCall_Proofs.mexec_frame E f n c c' o s H). Qed.
Print Assumptions C27_every_node_balanced.

(* lax mode: a Liquid error ends the top-level node it escapes from; the output written so far stays and the rest of the
   template is rendered from a context whose pushed namespaces are those before the node *)
Theorem C27_lax_continues_after_error : forall E p f n rest c c1 o1 e,
  MacroCall.mexec f E n c = Scope.Done c1 o1 (Scope.Raise e) -> is_liquid e = true ->
  Scope.tmpl_nodes Scope.MLax p (MacroCall.mexec f E) (n :: rest) c =
    match Scope.tmpl_nodes Scope.MLax p (MacroCall.mexec f E) rest c1 with
    | Scope.Fuel => Scope.Fuel | Scope.Done c2 o2 s2 => Scope.Done c2 (o1 ++ o2) s2 end
  /\ Scope.scopes c1 = Scope.scopes c.
Proof. exact MacroCall_Proofs.lax_continues_after_error. Qed.
Print Assumptions C27_lax_continues_after_error.

(* ================= examples: non-vacuity, reading aids, witnesses ================= *)
Example C27_bind_example :
  bind [(lit "a", None); (lit "b", Some 70%Z)] [1; 2; 3]%Z [(lit "x", 9%Z); (lit "a", 5%Z); (lit "x", 8%Z)] =
  {| b_args := [(lit "a", Some 5%Z); (lit "b", Some 2%Z)]; b_excess := [3%Z]; b_kwexcess := [(lit "x", 8%Z)] |}.
Proof. vm_compute. reflexivity. Qed.

Example C27_with_example :
  run_with {| wc_globals := [(lit "x", 100%Z)];
              wc_body := [WWith [(lit "x", WLit 1); (lit "y", WVar (lit "x"))] [WPrint (lit "x"); WPrint (lit "y")];
                          WPrint (lit "x"); WPrint (lit "y")] |} = Some (lit "1;100;100;;").
Proof. vm_compute. reflexivity. Qed.

Module Ex.
  Import Scope MacroCall.
  Definition v (x : string) : expr := EPath (Path (slit x) []).
  Definition o (x : string) : node := NOut (FPlain (v x) []).
  Definition s (x : string) : expr := ELit (LStr (slit x)).
  Definition i (z : Z) : expr := ELit (LInt z).
  Definition mk (body : list node) : case :=
    Case MStrict UDefault default_flags [] [(slit "a", VInt 100); (slit "x", VStr (slit "Gx"))] [] [] [] body.

  (* {% macro m a, b: a %}{{ b }}{% endmacro %}{% call m 1 %} with a = 100 in the data prints 100: the default of b is
     evaluated in the caller's scope, where a is 100 -- the macro's own parameter a (= 1) is not visible to it *)
  Example default_sees_caller_not_parameter :
    mrun_case (mk [NMacro (slit "m") [(slit "a", None); (slit "b", Some (v "a"))] [o "b"]; NCall (slit "m") [([], i 1)]])
    = Ok (slit "100").
  Proof. vm_compute. reflexivity. Qed.

  (* defaults are bound late: {% macro m b: x %}..{% assign x = 'L' %}{% call m %} prints L *)
  Example default_bound_late :
    mrun_case (mk [NMacro (slit "m") [(slit "b", Some (v "x"))] [o "b"]; NAssign (slit "x") (FPlain (s "L") []); NCall (slit "m") []])
    = Ok (slit "L").
  Proof. vm_compute. reflexivity. Qed.

  (* ONE call node in a loop, the macro redefined between its executions with the same parameter names and another
     default: {% for i in (1..2) %}{% if i == 1 %}{% macro m a, b: 'one' %}..{% else %}{% macro m a, b: 'two' %}..{% endif %}{% call m i %}{% endfor %} *)
  Example one_call_node_two_definitions :
    mrun_case (mk [NFor (slit "i") (IRange 1 2)
                     [NIf (CAtom (CEq (v "i") (LInt 1)))
                        [NMacro (slit "m") [(slit "a", None); (slit "b", Some (s "one"))] [o "a"; o "b"]]
                        [NMacro (slit "m") [(slit "a", None); (slit "b", Some (s "two"))] [o "a"; o "b"]];
                      NCall (slit "m") [([], v "i")]] []])
    = Ok (slit "1one2two").
  Proof. vm_compute. reflexivity. Qed.

  (* witness of the repaired defect (C27-call-inside-macro): {% macro i v %}i:{{ v }}{% endmacro %}{% macro o w %}o({% call i w %}){% endmacro %}{% call o 5 %}
     printed o() -- the call inside the block found no macro; now o(i:5) *)
  Definition nested : case :=
    mk [NMacro (slit "i") [(slit "v", None)] [NText (slit "i:"); o "v"];
        NMacro (slit "o") [(slit "w", None)] [NText (slit "o("); NCall (slit "i") [([], v "w")]; NText (slit ")")];
        NCall (slit "o") [([], i 5)]].
  Example call_inside_macro_old_refuted : mrun_case_old nested = Ok (slit "o()") /\ mrun_case nested = Ok (slit "o(i:5)").
  Proof. vm_compute. split; reflexivity. Qed.
End Ex.
