(* C24 — LRU caches behave as bounded least-recently-used maps.
   Property theorems only; each is closed by an earlier lemma. *)
From LiquidVerif Require Import Prelude Lru Lru_Proofs LruSpec LruSpec_Proofs.
From Coq Require Import Sorted.

(* at most capacity entries, never two entries for one key, after every operation sequence *)
Theorem C24_capacity : forall n ops, 1 <= n ->
  length (items (final (empty n) ops)) <= n /\ NoDup (map fst (items (final (empty n) ops))).
Proof. exact capacity_respected. Qed.
Print Assumptions C24_capacity.

(* the recency-stamped machine is the plain machine with ghost state *)
Theorem C24_ghost_erasure : forall g o,
  erase (fst (gstep g o)) = fst (step (erase g) o) /\ snd (gstep g o) = snd (step (erase g) o).
Proof. exact gstep_erase. Qed.
Print Assumptions C24_ghost_erasure.

(* overflow evicts exactly the entry whose last use is oldest; the rest is untouched *)
Theorem C24_eviction : forall n ops k v k0 v0 t0 rest,
  let g := gfinal (gempty n) ops in
  glookup k (gitems g) = None -> gcap g <= length (gitems g) -> gitems g = (k0, v0, t0) :: rest ->
  gitems (fst (gstep g (Set_ k v))) = rest ++ [(k, v, clock g)] /\ Forall (fun t => t0 < t) (times rest).
Proof. exact eviction_is_lru. Qed.
Print Assumptions C24_eviction.

Theorem C24_no_eviction_otherwise : forall g k v,
  (exists vt, glookup k (gitems g) = Some vt) \/ length (gitems g) < gcap g ->
  forall k', k' <> k -> glookup k' (gitems (fst (gstep g (Set_ k v)))) = glookup k' (gitems g).
Proof. exact no_eviction_otherwise. Qed.
Print Assumptions C24_no_eviction_otherwise.

(* a lookup returns the most recently stored value; the stamp is the last use in the history *)
Theorem C24_get_latest : forall n ops k,
  let g := gfinal (gempty n) ops in
  match glookup k (gitems g) with
  | Some (v, t) =>
      snd (gstep g (Get k)) = OVal v /\ (forall d, snd (gstep g (GetD k d)) = OVal v) /\
      last_stored (rev ops) k = Some v /\ last_use (rev ops) k = Some t
  | None => snd (gstep g (Get k)) = OKeyError /\ (forall d, snd (gstep g (GetD k d)) = OVal d)
  end.
Proof. exact get_returns_latest. Qed.
Print Assumptions C24_get_latest.

(* listings run from most to least recently used *)
Theorem C24_listing_order : forall n ops,
  let g := gfinal (gempty n) ops in
  snd (gstep g Items) = OItems (rev (erase_items (gitems g))) /\
  snd (gstep g Keys) = OKeys (map fst (rev (erase_items (gitems g)))) /\
  snd (gstep g Values) = OVals (map snd (rev (erase_items (gitems g)))) /\
  StronglySorted gt (rev (times (gitems g))).
Proof. exact listing_order. Qed.
Print Assumptions C24_listing_order.

(* thread-safe variant: method bodies are atomic, so every schedule is a sequential history *)
Theorem C24_threadsafe_linearizable : forall m acts s,
  tc (tfinal m s acts) = final (tc s) (calls acts).
Proof. exact threadsafe_linearizable. Qed.
Print Assumptions C24_threadsafe_linearizable.

(* ... and listing under concurrent mutation never fails (snapshot listings) *)
Theorem C24_listing_never_fails : forall n acts, ~ In TRuntimeError (trun Snapshot (tinit n) acts).
Proof. exact snapshot_listing_never_fails. Qed.
Print Assumptions C24_listing_never_fails.

(* the lazily evaluated views of the code before the fix do fail: kept as the witness *)
Theorem C24_lazy_listing_refuted : exists n acts, In TRuntimeError (trun Lazy (tinit n) acts).
Proof. exact lazy_listing_refuted. Qed.
Print Assumptions C24_lazy_listing_refuted.

(* ================= refinement to the abstract bounded LRU map (LruSpec.v) ================= *)

(* the states a cache can reach satisfy the invariant: one entry per key, capacity at least 1 and never exceeded,
   entries in order of last use, every last-use time in the past *)
Theorem C24_reachable_invariant : forall n ops, 1 <= n -> RInv (gfinal (gempty n) ops).
Proof. exact reachable_rinv. Qed.
Print Assumptions C24_reachable_invariant.

Theorem C24_invariant_preserved : forall g o, RInv g -> RInv (fst (gstep g o)).
Proof. exact gstep_rinv. Qed.
Print Assumptions C24_invariant_preserved.

(* EVERY public operation (c[k], c.get(k, d), c.get(k), c[k] = v, del c[k], k in c, len(c), keys, values, items, iter) of
   the OrderedDict machine is the same operation of the abstract bounded LRU map LruSpec.lru_step -- a function from keys
   to (value, time of last use), no list order --, with the same result: lookups and stores are uses, a store of a new
   key into a full map evicts exactly the key whose last use is oldest, membership / len / listings change nothing,
   listings hold every entry once, most recently used first *)
Theorem C24_refines_bounded_lru : forall g o, RInv g ->
  lru_step (gcap g) (amap_of g) (clock g) o (amap_of (fst (gstep g o))) (snd (gstep g o)) /\
  clock (fst (gstep g o)) = S (clock g) /\ gcap (fst (gstep g o)) = gcap g.
Proof. exact gstep_refines. Qed.
Print Assumptions C24_refines_bounded_lru.

Theorem C24_reachable_refines : forall n ops o, 1 <= n ->
  let g := gfinal (gempty n) ops in
  lru_step n (amap_of g) (clock g) o (amap_of (fst (gstep g o))) (snd (gstep g o)).
Proof. exact reachable_refines. Qed.
Print Assumptions C24_reachable_refines.

(* ================= the remaining public surface ================= *)

(* construction: LRUCache(capacity) raises ValueError exactly for a capacity below 1 (0, negative); otherwise the cache is
   empty with that capacity *)
Theorem C24_construction : forall n,
  (make n = None <-> (n < 1)%Z) /\
  (forall c, make n = Some c -> items c = [] /\ Z.of_nat (cap c) = n /\ wf c).
Proof. exact make_spec. Qed.
Print Assumptions C24_construction.

(* `k in c`, len(c) and the four listings are NOT uses: no entry moves and no last-use time changes *)
Theorem C24_membership_len_listings_are_not_uses : forall g c o, readonly o = true ->
  gitems (fst (gstep g o)) = gitems g /\ fst (step c o) = c.
Proof. exact readonly_no_use. Qed.
Print Assumptions C24_membership_len_listings_are_not_uses.

(* neither is a lookup or deletion of a key that is not cached *)
Theorem C24_missing_key_is_not_a_use : forall g k, glookup k (gitems g) = None ->
  gitems (fst (gstep g (Get k))) = gitems g /\ (forall d, gitems (fst (gstep g (GetD k d))) = gitems g) /\
  gitems (fst (gstep g (GetN k))) = gitems g /\ gitems (fst (gstep g (Del k))) = gitems g.
Proof. exact miss_no_use. Qed.
Print Assumptions C24_missing_key_is_not_a_use.

(* a successful lookup by any of the three spellings makes the key the first entry of the listings; the others keep
   their relative order *)
Theorem C24_lookup_moves_to_front : forall g k v t o,
  glookup k (gitems g) = Some (v, t) -> (o = Get k \/ (exists d, o = GetD k d) \/ o = GetN k) ->
  snd (gstep g o) = OVal v /\
  snd (gstep (fst (gstep g o)) Items) = OItems ((k, v) :: rev (erase_items (gremove k (gitems g)))).
Proof. exact lookup_moves_to_front. Qed.
Print Assumptions C24_lookup_moves_to_front.

(* re-inserting a cached key replaces its value, moves it to the front and evicts nothing *)
Theorem C24_store_existing_moves_to_front : forall g k v v0 t,
  glookup k (gitems g) = Some (v0, t) ->
  snd (gstep (fst (gstep g (Set_ k v))) Items) = OItems ((k, v) :: rev (erase_items (gremove k (gitems g)))) /\
  forall k', k' <> k -> glookup k' (gitems (fst (gstep g (Set_ k v)))) = glookup k' (gitems g).
Proof. exact store_existing_moves_to_front. Qed.
Print Assumptions C24_store_existing_moves_to_front.

Theorem C24_len_and_iter : forall c, snd (step c Len) = OLen (length (items c)) /\ snd (step c Iter) = snd (step c Keys).
Proof. exact len_and_iter. Qed.
Print Assumptions C24_len_and_iter.

(* c.get(k) without a default: the most recently stored value, else None; a use exactly like c[k] *)
Theorem C24_get_without_default : forall n ops k,
  let g := gfinal (gempty n) ops in
  match glookup k (gitems g) with
  | Some (v, t) => snd (gstep g (GetN k)) = OVal v /\ last_stored (rev ops) k = Some v /\
                   fst (gstep g (GetN k)) = fst (gstep g (Get k))
  | None => snd (gstep g (GetN k)) = ONone /\ fst (gstep g (GetN k)) = fst (gstep g (Get k))
  end.
Proof. exact getn_returns_latest. Qed.
Print Assumptions C24_get_without_default.

(* ================= thread-safe class ================= *)

(* every public method, whatever the operation, is one atomic section: one step of the plain cache on the current
   contents; it returns that step's result and touches no iterator *)
Theorem C24_every_method_atomic : forall m s tid o,
  tc (fst (tstep m s (Call tid o))) = fst (step (tc s) o) /\
  snd (tstep m s (Call tid o)) = TOut (snd (step (tc s) o)) /\
  titers (fst (tstep m s (Call tid o))) = titers s.
Proof. exact call_is_atomic. Qed.
Print Assumptions C24_every_method_atomic.

(* the listing methods return SNAPSHOTS: what a thread is handed after it began a listing is exactly the items as they
   were when the listing method ran, most recent first, however the schedule interleaves the other actions *)
Theorem C24_listing_is_snapshot : forall tid s acts,
  no_begin tid acts = true ->
  yields_of tid (ListBegin tid :: acts) (trun Snapshot s (ListBegin tid :: acts)) =
  firstn (nexts tid acts) (rev (items (tc s))).
Proof. exact snapshot_listing_is_snapshot. Qed.
Print Assumptions C24_listing_is_snapshot.

(* non-vacuity: a concrete full cache in which an eviction happens *)
Example C24_eviction_nonvacuous :
  let g := gfinal (gempty 2) [Set_ 1%N 10%Z; Set_ 2%N 20%Z; Get 1%N] in
  glookup 3%N (gitems g) = None /\ gcap g <= length (gitems g) /\
  gitems (fst (gstep g (Set_ 3%N 30%Z))) = [(1%N, 10%Z, 2); (3%N, 30%Z, 3)].
Proof. vm_compute. repeat split; lia. Qed.

(* non-vacuity of the refinement's eviction rule and of the snapshot theorem *)
Example C24_refinement_nonvacuous :
  let g := gfinal (gempty 2) [Set_ 1%N 10%Z; Set_ 2%N 20%Z; GetN 1%N; Contains 2%N] in
  RInv g /\ amap_of g 2%N = Some (20%Z, 1) /\ amap_of g 1%N = Some (10%Z, 2) /\
  amap_of (fst (gstep g (Set_ 3%N 30%Z))) 2%N = None /\ amap_of (fst (gstep g (Set_ 3%N 30%Z))) 3%N = Some (30%Z, 4).
Proof. split; [apply reachable_rinv; lia|vm_compute; repeat split]. Qed.

Example C24_snapshot_nonvacuous :
  let acts := [ListBegin 1; Call 2 (Set_ 3%N 30%Z); ListNext 1; Call 2 (Del 1%N); ListNext 1; ListNext 1] in
  let s := tfinal Snapshot (tinit 2) [Call 0 (Set_ 1%N 10%Z); Call 0 (Set_ 2%N 20%Z)] in
  yields_of 1 acts (trun Snapshot s acts) = [(2%N, 20%Z); (1%N, 10%Z)].
Proof. vm_compute. reflexivity. Qed.

Example C24_construction_examples : make 0 = None /\ make (-3) = None /\ make 1 = Some (empty 1).
Proof. vm_compute. repeat split. Qed.
