(* C24 — LRU caches behave as bounded least-recently-used maps.
   Property theorems only; each is closed by an earlier lemma. *)
From LiquidVerif Require Import Prelude Lru Lru_Proofs.
From Coq Require Import Sorted.

(* at most capacity entries, never two entries for one key, after every operation sequence *)
Theorem C24_capacity : forall n ops, 1 <= n ->
  length (items (final (empty n) ops)) <= n /\ NoDup (map fst (items (final (empty n) ops))).
Proof. exact capacity_respected. Qed.
Print Assumptions C24_capacity.

(* the recency-stamped machine is the plain machine with ghost state *)
Theorem C24_ghost_erasure : forall g o,
  erase (fst (gstep g o)) = fst (step (erase g) o) /\ snd (gstep g o) = snd (step (erase g) o).
Proof. exact gstep_erase. Qed.
Print Assumptions C24_ghost_erasure.

(* overflow evicts exactly the entry whose last use is oldest; the rest is untouched *)
Theorem C24_eviction : forall n ops k v k0 v0 t0 rest,
  let g := gfinal (gempty n) ops in
  glookup k (gitems g) = None -> gcap g <= length (gitems g) -> gitems g = (k0, v0, t0) :: rest ->
  gitems (fst (gstep g (Set_ k v))) = rest ++ [(k, v, clock g)] /\ Forall (fun t => t0 < t) (times rest).
Proof. exact eviction_is_lru. Qed.
Print Assumptions C24_eviction.

Theorem C24_no_eviction_otherwise : forall g k v,
  (exists vt, glookup k (gitems g) = Some vt) \/ length (gitems g) < gcap g ->
  forall k', k' <> k -> glookup k' (gitems (fst (gstep g (Set_ k v)))) = glookup k' (gitems g).
Proof. exact no_eviction_otherwise. Qed.
Print Assumptions C24_no_eviction_otherwise.

(* a lookup returns the most recently stored value; the stamp is the last use in the history *)
Theorem C24_get_latest : forall n ops k,
  let g := gfinal (gempty n) ops in
  match glookup k (gitems g) with
  | Some (v, t) =>
      snd (gstep g (Get k)) = OVal v /\ (forall d, snd (gstep g (GetD k d)) = OVal v) /\
      last_stored (rev ops) k = Some v /\ last_use (rev ops) k = Some t
  | None => snd (gstep g (Get k)) = OKeyError /\ (forall d, snd (gstep g (GetD k d)) = OVal d)
  end.
Proof. exact get_returns_latest. Qed.
Print Assumptions C24_get_latest.

(* listings run from most to least recently used *)
Theorem C24_listing_order : forall n ops,
  let g := gfinal (gempty n) ops in
  snd (gstep g Items) = OItems (rev (erase_items (gitems g))) /\
  snd (gstep g Keys) = OKeys (map fst (rev (erase_items (gitems g)))) /\
  snd (gstep g Values) = OVals (map snd (rev (erase_items (gitems g)))) /\
  StronglySorted gt (rev (times (gitems g))).
Proof. exact listing_order. Qed.
Print Assumptions C24_listing_order.

(* thread-safe variant: method bodies are atomic, so every schedule is a sequential history *)
Theorem C24_threadsafe_linearizable : forall m acts s,
  tc (tfinal m s acts) = final (tc s) (calls acts).
Proof. exact threadsafe_linearizable. Qed.
Print Assumptions C24_threadsafe_linearizable.

(* ... and listing under concurrent mutation never fails (snapshot listings) *)
Theorem C24_listing_never_fails : forall n acts, ~ In TRuntimeError (trun Snapshot (tinit n) acts).
Proof. exact snapshot_listing_never_fails. Qed.
Print Assumptions C24_listing_never_fails.

(* the lazily evaluated views of the code before the fix do fail: kept as the witness *)
Theorem C24_lazy_listing_refuted : exists n acts, In TRuntimeError (trun Lazy (tinit n) acts).
Proof. exact lazy_listing_refuted. Qed.
Print Assumptions C24_lazy_listing_refuted.

(* non-vacuity: a concrete full cache in which an eviction happens *)
Example C24_eviction_nonvacuous :
  let g := gfinal (gempty 2) [Set_ 1%N 10%Z; Set_ 2%N 20%Z; Get 1%N] in
  glookup 3%N (gitems g) = None /\ gcap g <= length (gitems g) /\
  gitems (fst (gstep g (Set_ 3%N 30%Z))) = [(1%N, 10%Z, 2); (3%N, 30%Z, 3)].
Proof. vm_compute. repeat split; lia. Qed.
