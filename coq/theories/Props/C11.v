(* C11 — Custom delimiters and environments are independent.  Property theorems only.
   Part 1 (delimiters): Lex.v is parametric in the six delimiter strings; LexSpec.v gives templates and their
   concrete syntax under any delimiters.  Part 2 (environments): Memo.v models the three process-wide memo tables
   (get_lexer, get_parser, get_implicit_environment) and histories of environment creations, tag/filter
   registrations and parses. *)
From Coq Require Import String.
From LiquidVerif Require Import Prelude Lex LexSpec Lex_Proofs Lex_Match_Proofs Lex_C10_Proofs LexOcc Lex_Occ_Proofs Memo Memo_Proofs MacroArgs.
Local Open Scope string_scope. Local Open Scope list_scope.

(* Part 1.  Rewriting a template under other delimiters and rendering it with those delimiters gives the same
   output: for all delimiter sets d1, d2 and templates tp that collide with neither, where "collide" is the occurrence
   guard of LexOcc.v (no opening delimiter of the set occurs at a position inside a text, no closing pattern inside the
   body it closes; see C10_whitespace_control).  Texts may therefore contain fragments of either delimiter set.
   Templates with control flow are covered by the oracle run only. *)
Theorem C11_delimiter_equivariance : forall d1 d2 tp,
  no_collision_occ d1 tp = true -> no_collision_occ d2 tp = true ->
  render_src d1 (build d1 tp) = render_src d2 (build d2 tp).
Proof. exact delimiter_equivariance_occ. Qed.
Print Assumptions C11_delimiter_equivariance.

(* the earlier statement under the alphabet guard, a corollary *)
Theorem C11_delimiter_equivariance_partial : forall d1 d2 tp,
  no_collision d1 tp = true -> no_collision d2 tp = true ->
  render_src d1 (build d1 tp) = render_src d2 (build d2 tp).
Proof.
  intros d1 d2 tp H1 H2. apply delimiter_equivariance_occ; apply no_collision_occ_of_alphabet; assumption.
Qed.
Print Assumptions C11_delimiter_equivariance_partial.

(* ... and both equal the documented rendering, in which no delimiter occurs *)
Theorem C11_rendering_is_delimiter_free : forall d tp, no_collision_occ d tp = true ->
  render_src d (build d tp) = ROut (spec_render tp).
Proof. exact whitespace_control. Qed.
Print Assumptions C11_rendering_is_delimiter_free.

(* Part 2, the generic lemma.  A memo table all of whose entries satisfy value = f key, consulted with a key
   equality that decides equality of ALL the inputs of f, is unobservable: a memoised call returns f k (hit or
   miss, whatever was evicted) and leaves the table sound. *)
Theorem C11_memo_transparent : forall (K V : Type) (keqb : K -> K -> bool),
  (forall a b, keqb a b = true <-> a = b) ->
  forall (f : K -> V) n c k, sound f c ->
  fst (cached keqb n f c k) = f k /\ sound f (snd (cached keqb n f c k)).
Proof. exact @memo_transparent. Qed.
Print Assumptions C11_memo_transparent.

(* the keys of the three tables determine all the inputs: six delimiter strings / the environment's identity /
   every keyword argument *)
Theorem C11_lexer_key_complete : forall a b, delims_eqb a b = true <-> a = b.
Proof. exact delims_eqb_eq. Qed.
Print Assumptions C11_lexer_key_complete.

Theorem C11_implicit_key_complete : forall a b, cfg_eqb a b = true <-> a = b.
Proof. exact cfg_eqb_eq. Qed.
Print Assumptions C11_implicit_key_complete.

(* Part 2, histories.  Along every sequence of environment creations, add_tag / add_filter calls, parses through
   any environment and Template() calls, in any interleaving: every parse through environment e returns the token
   stream of e's OWN delimiters and is carried out by a parser working for e's OWN tags and filters (op_ok mentions
   the environment objects only, no memo table); Template(src, kwargs) works for an environment whose
   configuration is exactly kwargs. *)
Theorem C11_env_independence : forall ops, results_ok ps0 ops (fst (run_ops ps0 ops)).
Proof. exact env_independence_from_start. Qed.
Print Assumptions C11_env_independence.

(* emptying the memo tables (a fresh process) changes no result *)
Theorem C11_caches_unobservable : forall s e src, inv s -> fst (do_parse s e src) = fst (do_parse (forget s) e src).
Proof. exact caches_unobservable. Qed.
Print Assumptions C11_caches_unobservable.

(* ---- the defect of the unrepaired lexer: unclosed markup was recognised by the literal "{{" / "{%" ---- *)
Definition angle : delims :=
  {| d_ts := lit "<%"; d_te := lit "%>"; d_ss := lit "<<"; d_se := lit ">>"; d_cs := lit "<#"; d_ce := lit "#>" |}.
(* under the delimiters << >> the text "{{ x" is plain text, yet the old code raises a syntax error for it ... *)
Theorem C11_old_literal_brace_refuted :
  d_ok angle = true /\ plain angle (lit "{{ x") = true /\
  render_src_old angle (lit "{{ x") <> ROut (lit "{{ x") /\ render_src angle (lit "{{ x") = ROut (lit "{{ x").
Proof. repeat split; try (vm_compute; reflexivity). vm_compute. discriminate. Qed.
Print Assumptions C11_old_literal_brace_refuted.

(* ... while the unclosed output statement "<< x" is rendered as text by the old code and rejected (as "{{ x" is
   under the default delimiters) by the repaired one *)
Theorem C11_old_unclosed_custom_refuted :
  render_src_old angle (lit "<< x") = ROut (lit "<< x") /\ render_src angle (lit "<< x") = RErr ESyntax /\
  render_src default_delims (lit "{{ x") = RErr ESyntax.
Proof. repeat split; vm_compute; reflexivity. Qed.
Print Assumptions C11_old_unclosed_custom_refuted.

(* non-vacuity *)
Definition sample : template :=
  ([(lit " a ", MkRaw false (lit " ") (lit " ") false (lit " x ") true [] [] true);
    (lit "  ", MkOut true (lit " ") 39%N (lit "hi") [] true);
    ([], MkShort true (lit "s") false)], lit "  end").
Example C11_sample_ok : no_collision default_delims sample = true /\ no_collision angle sample = true.
Proof. split; vm_compute; reflexivity. Qed.
(* a template whose texts contain fragments of BOTH delimiter sets *)
Definition mixed : template :=
  ([(lit "{ < % ", MkOut false (lit " ") 39%N (lit "> }") [] false); (lit " %} >> #", MkShort false (lit " {{ << ") false)], lit " { <").
Example C11_mixed_ok : no_collision_occ default_delims mixed = true /\ no_collision_occ angle mixed = true
                       /\ no_collision default_delims mixed = false /\ no_collision angle mixed = false.
Proof. repeat split; vm_compute; reflexivity. Qed.
Example C11_sample_sources_differ : build default_delims sample <> build angle sample.
Proof. vm_compute. discriminate. Qed.

Definition cfgA : cfg := {| cf_delims := default_delims; cf_comments := false; cf_rest := 0 |}.
Definition cfgB : cfg := {| cf_delims := angle; cf_comments := true; cf_rest := 1 |}.
(* two environments used alternately: each parse sees its own delimiters and its own filters *)
Example C11_history_example :
  map (option_map (fun r : presult => option_map ed_filters (snd r)))
      (fst (run_ops ps0 [NewEnv cfgA [] [lit "fa"]; NewEnv cfgB [] [lit "fb"]; Parse 0 (lit "<< x >>"); Parse 1 (lit "<< x >>");
                         AddFilter 0 (lit "late"); Parse 0 (lit "{{ y }}"); Implicit cfgB [] [] (lit "<% t %>")]))
  = [None; None; Some (Some [lit "fa"]); Some (Some [lit "fb"]); None; Some (Some [lit "late"; lit "fa"]); Some (Some [])].
Proof. vm_compute. reflexivity. Qed.
