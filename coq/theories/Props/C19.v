(* C19 -- Static analysis reports everything a render can touch.
   Model: StaticAnalysis.v (analyze = the repaired _visit walk; exec_prog = the tracing interpreter, over
   output/echo, assign, capture, increment/decrement, for/else and tablerow over paths and ranges with limit/
   offset (also continue)/reversed/cols, if/unless/
   elsif/else, case/when/else, cycle, liquid, with, macro/call, include, render, paths with paths nested to any depth;
   analyze_old = the walk before the three fix: commits).  Proofs: StaticAnalysis_Proofs.v. *)
From LiquidVerif Require Import Prelude StaticAnalysis StaticAnalysis_Proofs.

(* For every program (any partials, any recursion between them), every analysis fuel for which the walk
   completes, every interpreter fuel (so: every prefix of every render, also one cut short by an error)
   and every render data: each variable path a render evaluates is among the reported variables. *)
Theorem C19_variables_sound :
  forall (P : prog) (fa fe : nat) (data : list (str * value)) (A : astate) (p : path) (g e : bool),
    analyze P fa = Ok A -> In (ERead p g e) (d_trace (exec_prog P fe data)) -> In p (a_vars A).
Proof. exact variables_sound. Qed.
Print Assumptions C19_variables_sound.

(* ... each filter a render applies is among the reported filters *)
Theorem C19_filters_sound :
  forall (P : prog) (fa fe : nat) (data : list (str * value)) (A : astate) (f : str),
    analyze P fa = Ok A -> In (EFilter f) (d_trace (exec_prog P fe data)) -> In f (a_filters A).
Proof. exact filters_sound. Qed.
Print Assumptions C19_filters_sound.

(* ... each tag a render renders is among the reported tags *)
Theorem C19_tags_sound :
  forall (P : prog) (fa fe : nat) (data : list (str * value)) (A : astate) (t : str),
    analyze P fa = Ok A -> In (ETag t) (d_trace (exec_prog P fe data)) -> In t (a_tags A).
Proof. exact tags_sound. Qed.
Print Assumptions C19_tags_sound.

(* ... a path whose root a render resolves from the top-level render data (from_global = true) at a
   reference where no enclosing block binds the root and no assignment precedes it in source order
   (excused = false; partials with shared scope expanded in place) is among the reported globals *)
Theorem C19_globals_sound :
  forall (P : prog) (fa fe : nat) (data : list (str * value)) (A : astate) (p : path),
    analyze P fa = Ok A -> In (ERead p true false) (d_trace (exec_prog P fe data)) -> In p (a_globals A).
Proof. exact globals_sound. Qed.
Print Assumptions C19_globals_sound.

(* The arguments of a for / tablerow loop (limit, offset, cols) are among the expressions the walk analyses,
   each of them whichever of the others are present; with C19_variables_sound: every argument expression
   a render evaluates is reported. *)
Theorem C19_loop_arguments_analysed :
  forall (x : str) (it : iter_src) (la : loop_args) (body els : list node) (a : atom),
    la_limit la = Some a \/ la_offset la = Some (OffAtom a) \/ la_cols la = Some a ->
    In (plain a) (n_exprs (NFor x it la body els)) /\ In (plain a) (n_exprs (NTablerow x it la body)).
Proof. exact loop_arguments_analysed. Qed.
Print Assumptions C19_loop_arguments_analysed.

(* A path used as a segment of another path, and every path nested in it at any depth, is among the paths the
   walk analyses for the outer one; with C19_variables_sound and the interpreter, which evaluates the innermost
   path first: the nested path is reported and read on its own at every level. *)
Theorem C19_nested_paths_analysed :
  forall (r : str) (segs : list seg) (q : path),
    In (SSub q) segs -> incl (all_paths q) (atom_paths (AVar (Path r segs))).
Proof. exact nested_paths_analysed. Qed.
Print Assumptions C19_nested_paths_analysed.

(* The walk as it was before the fixes violates every clause (witnesses; the same programs are seeds of the harness). *)
(* a partial first met while its parent is revisited for globals only is never visited in full *)
Theorem C19_variables_old_refuted :
  exists A, analyze_old W_jg 20 = Ok A /\
    In (ERead (pv q_y) true false) (d_trace (exec_prog W_jg 20 W_jg_data)) /\ ~ In (pv q_y) (a_vars A).
Proof. exact variables_old_refuted. Qed.
Print Assumptions C19_variables_old_refuted.

Theorem C19_filters_old_refuted :
  exists A, analyze_old W_jg 20 = Ok A /\
    In (EFilter q_upcase) (d_trace (exec_prog W_jg 20 W_jg_data)) /\ ~ In q_upcase (a_filters A).
Proof. exact filters_old_refuted. Qed.
Print Assumptions C19_filters_old_refuted.

Theorem C19_tags_old_refuted :
  exists A, analyze_old W_jg 20 = Ok A /\
    In (ETag s_assign) (d_trace (exec_prog W_jg 20 W_jg_data)) /\ ~ In s_assign (a_tags A).
Proof. exact tags_old_refuted. Qed.
Print Assumptions C19_tags_old_refuted.

(* a shared-scope partial included inside a block binding x and again outside it is visited once *)
Theorem C19_globals_old_refuted_seen :
  exists A, analyze_old W_seen 20 = Ok A /\
    In (ERead (pv q_x) true false) (d_trace (exec_prog W_seen 20 W_seen_data)) /\ ~ In (pv q_x) (a_globals A).
Proof. exact globals_old_refuted_seen. Qed.
Print Assumptions C19_globals_old_refuted_seen.

(* an include under a rendered partial writes the root template's scope *)
Theorem C19_globals_old_refuted_include_under_render :
  exists A, analyze_old W_inc 20 = Ok A /\
    In (ERead (pv q_v) true false) (d_trace (exec_prog W_inc 20 W_inc_data)) /\ ~ In (pv q_v) (a_globals A).
Proof. exact globals_old_refuted_include_under_render. Qed.
Print Assumptions C19_globals_old_refuted_include_under_render.

(* non-vacuity: the repaired walk completes on the same programs and reports what was missing;
   the traces really contain the reads in question *)
Example C19_repaired_on_witnesses :
  (exists A, analyze W_jg 20 = Ok A /\ In (pv q_y) (a_vars A) /\ In q_upcase (a_filters A) /\ In s_assign (a_tags A)) /\
  (exists A, analyze W_seen 20 = Ok A /\ In (pv q_x) (a_globals A)) /\
  (exists A, analyze W_inc 20 = Ok A /\ In (pv q_v) (a_globals A)).
Proof. exact repaired_on_witnesses. Qed.

Example C19_trace_nonempty :
  length (d_trace (exec_prog W_seen 20 W_seen_data)) = 8 /\ d_status (exec_prog W_seen 20 W_seen_data) = Running.
Proof. vm_compute. split; reflexivity. Qed.

(* non-vacuity for the widened language: a program using unless/elsif, case/when, tablerow over a range, cycle,
   liquid, decrement and a nested path is analysed and rendered; the nested path is reported and read on its own *)
Example C19_wide_language_example :
  exists A, analyze W_wide 20 = Ok A /\
    In (Path q_b [SKey q_k; SSub (pv q_c0)]) (a_vars A) /\
    In (ERead (Path q_b [SKey q_k; SSub (pv q_c0)]) true false) (d_trace (exec_prog W_wide 20 W_wide_data)) /\
    length (filter (event_eqb (ERead (pv q_a) false false)) (d_trace (exec_prog W_wide 20 W_wide_data))) = 3 /\
    d_status (exec_prog W_wide 20 W_wide_data) = Running.
Proof. exact wide_language_example. Qed.

(* loop arguments: limit, offset and cols given as paths are all reported; with limit 1 and offset 1 the tablerow
   reads xs, lim, off, c and renders one item, and a following loop with offset: continue resumes at the third item;
   a limit that int() rejects fails the render *)
Example C19_loop_arguments_example :
  exists A, analyze W_loop 20 = Ok A /\
    In (pv q_lim) (a_vars A) /\ In (pv q_off) (a_vars A) /\ In (pv q_c) (a_vars A) /\
    map (fun e => match e with ERead p _ _ => p_root p | _ => [] end)
        (filter (fun e => match e with ERead _ _ _ => true | _ => false end) (rev (d_trace (exec_prog W_loop 20 (W_loop_data (VInt 1))))))
      = [q_xs; q_lim; q_off; q_c; q_x; q_xs; q_x] /\
    d_status (exec_prog W_loop 20 (W_loop_data (VStr q_x))) = Halted.
Proof. exact loop_arguments_example. Qed.

(* a[b.k[c]] inside W_wide: three levels, each reported; the reads come innermost first (the trace is newest first) *)
Example C19_nested_paths_example :
  exists A, analyze W_wide 20 = Ok A /\
    forallb (fun p => existsb (path_eqb p) (a_vars A))
            [pv q_c0; Path q_b [SKey q_k; SSub (pv q_c0)]; Path q_a [SSub (Path q_b [SKey q_k; SSub (pv q_c0)])]] = true /\
    map (fun e => match e with ERead p _ _ => p_root p | _ => [] end)
        (firstn 4 (filter (fun e => match e with ERead _ _ _ => true | _ => false end)
                          (d_trace (exec_prog W_wide 20 W_wide_data))))
      = [q_z; q_a; q_b; q_c0].
Proof. exact nested_paths_example. Qed.
