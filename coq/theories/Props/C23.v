(* C23 — Caching loaders are transparent.  Property theorems only.
   Model: CachingLoader.v (CachingLoaderMixin.load/load_async/_check_cache/_check_cache_async/cache_key,
   BaseLoader.load/load_async, BoundTemplate.is_up_to_date(_async), over the LRU cache of Lru.v).
   [run fixed c (init c st) rs]  : the responses of ONE caching loader (repaired code) to the history rs,
                                   starting with an empty cache over the sources st;
   [ref_run c st rs]             : the responses of a fresh non-caching loader to each request, over the
                                   sources as they are at that moment (edits applied).
   A response to a Get is the template returned: name, which source entry (name, namespace) and which
   version of it, globals.  Sources can be edited, DELETED and re-created between requests.  *)
From LiquidVerif Require Import Prelude Lru CachingLoader CachingLoader_Proofs.

(* For every history (any length, any interleaving of get_template / get_template_async, namespaces by
   keyword argument or render context, globals, edits), every capacity and every store: with auto_reload
   on (and a loader whose uptodate check notices edits) every response of the caching loader EQUALS the
   response of a non-caching loader: same name, same source entry, CURRENT version, the globals of this
   request; not-found stays not-found; a source deleted after it was cached gives TemplateNotFoundError (and
   nothing else) on the next request, and a source re-created later is loaded again.
   _partial: under the side condition [keys_injective] (two requests of the history with the same cache
   key read the same source entry); without it the statement is false, see C23_key_collision_refuted. *)
Theorem C23_transparent_partial : forall c st rs,
  awaitable_uptodate c = false -> missing_raises c = false -> keys_injective c rs ->
  auto_reload c = true -> detects c = true ->
  run fixed c (init c st) rs = ref_run c st rs.
Proof. exact transparent_auto_reload. Qed.
Print Assumptions C23_transparent_partial.

(* the same equality for histories in which no source is edited or deleted, whatever auto_reload and the
   uptodate check are *)
Theorem C23_transparent_no_edits_partial : forall c st rs,
  awaitable_uptodate c = false -> missing_raises c = false -> keys_injective c rs -> no_edits rs ->
  run fixed c (init c st) rs = ref_run c st rs.
Proof. exact transparent_no_edits. Qed.
Print Assumptions C23_transparent_no_edits_partial.

(* for every history and configuration (auto_reload off, edits, deletions, any capacity): a template returned
   is the one the non-caching loader builds for THIS request -- its name, its SOURCE ENTRY (name and namespace),
   its globals -- from some version of that entry (only the version may be old; without auto-reload a deleted
   source may still be served); and an error is returned only where the non-caching loader returns the same
   error.  In particular templates of different namespaces (or names) are never substituted for one another. *)
Theorem C23_no_cross_namespace_partial : forall c st rs,
  awaitable_uptodate c = false -> missing_raises c = false -> keys_injective c rs ->
  all_ok c st rs (run fixed c (init c st) rs).
Proof. exact no_substitution. Qed.
Print Assumptions C23_no_cross_namespace_partial.

(* deletion and re-creation spelled out on the shortest history: cached, deleted => TemplateNotFoundError,
   written again => the new text (a version never seen before), for every configuration with auto-reload *)
Theorem C23_deleted_then_recreated : forall c st g v,
  awaitable_uptodate c = false -> missing_raises c = false -> auto_reload c = true -> detects c = true ->
  slookup (srckey c g) st = Some v ->
  run fixed c (init c st)
      [Get g; Delete (fst (srckey c g)) (snd (srckey c g)); Get g; Edit (fst (srckey c g)) (snd (srckey c g)); Get g] =
  [RT (fresh_tmpl c g v); RDone; RE ENotFound; RDone; RT (fresh_tmpl c g (N.succ v))].
Proof. exact delete_recreate_history. Qed.
Print Assumptions C23_deleted_then_recreated.

(* Every template handed out during a history, observed AGAIN when the history is over ([run_again]: the object
   read from the final heap), is exactly what it was when it was returned -- for every history, configuration and
   store, with no side condition: later requests with other globals, reloads, evictions, edits and deletions do not
   reach a template returned earlier.  (Refuted for the code that rebinds `cached_template.globals` in place:
   C23_earlier_responses_refuted.) *)
Theorem C23_earlier_responses_unaffected : forall c st rs,
  run_again fixed c (init c st) rs = run fixed c (init c st) rs.
Proof. exact earlier_responses_unaffected. Qed.
Print Assumptions C23_earlier_responses_unaffected.

(* the model's "cache entry without an object" outcome never occurs *)
Theorem C23_never_internal : forall c st rs,
  awaitable_uptodate c = false -> missing_raises c = false -> keys_injective c rs -> ~ In RInternal (run fixed c (init c st) rs).
Proof. exact never_internal. Qed.
Print Assumptions C23_never_internal.

(* the side condition is decidable by the executable check the correspondence run evaluates on every case *)
Theorem C23_side_condition_checked : forall c rs, keys_injective_b c rs = true -> keys_injective c rs.
Proof. exact keys_injective_b_ok. Qed.
Print Assumptions C23_side_condition_checked.

(* ... and holds for every history in two situations described by the configuration alone:
   no namespace key on a loader that ignores namespaces; *)
Theorem C23_side_condition_plain : forall c rs, nk c = [] -> aware c = false -> keys_injective c rs.
Proof. exact keys_injective_plain. Qed.
Print Assumptions C23_side_condition_plain.

(* every request carries a namespace, and namespaces contain no '/' (names may) *)
Theorem C23_side_condition_namespaced : forall c rs,
  nk c <> [] ->
  (forall g, In (Get g) rs -> exists ns, eff_ns (g_kw g) (g_ctx g) = Some ns /\ no_slash ns) ->
  keys_injective c rs.
Proof. exact keys_injective_namespaced. Qed.
Print Assumptions C23_side_condition_namespaced.

(* the two hand-written copies _check_cache / _check_cache_async behave identically whenever the cached
   template's uptodate callable need not be awaited (all variants of the code) *)
Theorem C23_sync_async_copies_agree : forall v c s key gl load,
  (forall cache1 id t, do_get (st_cache s) (enc key) = (cache1, Some id) ->
                       hget id (st_heap s) = Some t -> t_awaitable t = false) ->
  check_cache v c s key gl load = check_cache_async v c s key gl load.
Proof. exact check_cache_sync_async. Qed.
Print Assumptions C23_sync_async_copies_agree.

(* the coding of string cache keys into the N keys of Lru.v loses nothing *)
Theorem C23_key_coding_injective : forall a b, enc a = enc b -> a = b.
Proof. exact enc_inj. Qed.
Print Assumptions C23_key_coding_injective.

(* ------------------------------------------------------------------ non-vacuity, witnesses *)
Definition n_a : str := [97]%N.            (* "a" *)
Definition n_db : str := [100; 47; 98]%N.  (* "d/b" *)
Definition n_x : str := [120]%N.
Definition n_y : str := [121]%N.
Definition n_xa : str := [120; 47; 97]%N.  (* "x/a" *)
Definition uid : str := [117; 105; 100]%N.

Definition cfg (aw : bool) : config :=
  {| nk := uid; auto_reload := true; capacity := 1; aware := aw; detects := true; awaitable_uptodate := false; missing_raises := false; env_g := 0 |}.
Definition G (m : mode) (n : str) (kw : option str) (g : N) : request :=
  Get {| g_mode := m; g_name := n; g_kw := kw; g_ctx := None; g_globals := g |}.
Definition st_ns : store :=
  [((n_a, Some n_x), (0%N, true)); ((n_a, Some n_y), (0%N, true)); ((n_db, Some n_x), (0%N, true))].
Definition st_plain : store := [((n_a, None), (0%N, true)); ((n_db, None), (0%N, true)); ((n_xa, None), (0%N, true))].

(* a history that satisfies every hypothesis of C23_transparent_partial and exercises hits, eviction, an edit
   and two namespaces *)
Definition h1 : list request :=
  [G Sync n_a (Some n_x) 1; G Async n_a (Some n_x) 0; G Async n_a (Some n_y) 2; Edit n_a (Some n_x); G Sync n_a (Some n_x) 0;
   G Async n_db (Some n_y) 0; Delete n_a (Some n_x); G Async n_a (Some n_x) 0; Edit n_a (Some n_x); G Sync n_a (Some n_x) 2].
Example C23_hypotheses_satisfiable :
  keys_injective_b (cfg true) h1 = true /\
  run fixed (cfg true) (init (cfg true) st_ns) h1 =
  [RT {| t_name := n_a; t_src := (n_a, Some n_x); t_ver := 0; t_awaitable := false; t_globals := (0, 1)%N |};
   RT {| t_name := n_a; t_src := (n_a, Some n_x); t_ver := 0; t_awaitable := false; t_globals := (0, 0)%N |};
   RT {| t_name := n_a; t_src := (n_a, Some n_y); t_ver := 0; t_awaitable := false; t_globals := (0, 2)%N |};
   RDone;
   RT {| t_name := n_a; t_src := (n_a, Some n_x); t_ver := 1; t_awaitable := false; t_globals := (0, 0)%N |};
   RE ENotFound; RDone; RE ENotFound; RDone;
   RT {| t_name := n_a; t_src := (n_a, Some n_x); t_ver := 2; t_awaitable := false; t_globals := (0, 2)%N |}].
Proof. vm_compute. split; reflexivity. Qed.

(* --- the defects found in the code as it was, one transcription variant each ---
   (caching loader as found vs NON-caching loader as found: ref_run_v) *)
Definition v_swap : variant := {| v_async_swap := true; v_globals_if := false; v_async_rawname := false; v_hit_mutates := true |}.
Definition v_gif : variant := {| v_async_swap := false; v_globals_if := true; v_async_rawname := false; v_hit_mutates := true |}.
Definition v_raw : variant := {| v_async_swap := false; v_globals_if := false; v_async_rawname := true; v_hit_mutates := true |}.

(* load_async used `name` as the cache key and `cache_key` as the template name: CachingDictLoader with a
   namespace key, get_template_async("a", uid="x") loads the template called "x/a" and caches it as "a";
   the same request for namespace y is then answered with it *)
Example C23_async_key_swap_refuted :
  let h := [G Async n_a (Some n_x) 0; G Async n_a (Some n_y) 0] in
  keys_injective_b (cfg false) h = true /\
  run v_swap (cfg false) (init (cfg false) st_plain) h <> ref_run_v v_swap (cfg false) st_plain h /\
  run fixed (cfg false) (init (cfg false) st_plain) h = ref_run (cfg false) st_plain h.
Proof. vm_compute. repeat split; try reflexivity. discriminate. Qed.

(* `if globals: cached_template.globals = globals`: a request without globals is answered with the globals of
   an earlier request *)
Example C23_stale_globals_refuted :
  let h := [G Sync n_a None 1; G Sync n_a None 0] in
  run v_gif (cfg false) (init (cfg false) st_plain) h <> ref_run_v v_gif (cfg false) st_plain h /\
  run fixed (cfg false) (init (cfg false) st_plain) h = ref_run (cfg false) st_plain h.
Proof. vm_compute. split; [discriminate|reflexivity]. Qed.

(* BaseLoader.load_async named the template `name`, load names it Path(full_name).name: the cache hands the
   template made by one to a request through the other *)
Example C23_sync_async_name_refuted :
  let h := [G Async n_db None 0; G Sync n_db None 0] in
  run v_raw (cfg false) (init (cfg false) st_plain) h <> ref_run_v v_raw (cfg false) st_plain h /\
  run fixed (cfg false) (init (cfg false) st_plain) h = ref_run (cfg false) st_plain h.
Proof. vm_compute. split; [discriminate|reflexivity]. Qed.

(* FileSystemLoader.get_source_async returned a coroutine function as `uptodate`: a template cached by
   get_template_async makes the next get_template raise LiquidError (is_up_to_date cannot await) *)
Example C23_awaitable_uptodate_refuted :
  let c := {| nk := []; auto_reload := true; capacity := 2; aware := false; detects := true; awaitable_uptodate := true; missing_raises := false; env_g := 0 |} in
  run fixed c (init c st_plain) [G Async n_a None 0; G Sync n_a None 0] =
  [RT {| t_name := n_a; t_src := (n_a, None); t_ver := 0; t_awaitable := true; t_globals := (0, 0)%N |}; RE ELiquid].
Proof. vm_compute. reflexivity. Qed.

(* FileSystemLoader._uptodate called stat() on a file that may be gone: with auto_reload on, a request for a
   template whose file was deleted after it was cached raised FileNotFoundError (an OSError), where the
   non-caching loader raises TemplateNotFoundError; sync and async alike *)
Example C23_deleted_source_refuted :
  let c := {| nk := []; auto_reload := true; capacity := 2; aware := false; detects := true; awaitable_uptodate := false;
              missing_raises := true; env_g := 0 |} in
  let h := [G Sync n_a None 0; Delete n_a None; G Sync n_a None 0; G Async n_a None 0] in
  run fixed c (init c st_plain) h =
    [RT {| t_name := n_a; t_src := (n_a, None); t_ver := 0; t_awaitable := false; t_globals := (0, 0)%N |};
     RDone; RE EOSError; RE EOSError] /\
  ref_run c st_plain h =
    [RT {| t_name := n_a; t_src := (n_a, None); t_ver := 0; t_awaitable := false; t_globals := (0, 0)%N |};
     RDone; RE ENotFound; RE ENotFound].
Proof. vm_compute. split; reflexivity. Qed.

(* A cache hit rebound `cached_template.globals` on the ONE object shared by every requester (also after the
   first repair, which made the rebinding unconditional): t = get_template("a", globals={g: 1}); any later request
   for "a" without globals; t now renders without g.  The response of the first request has changed after the fact. *)
Example C23_earlier_responses_refuted :
  let h := [G Sync n_a None 1; G Async n_a None 0] in
  run rebinding (cfg false) (init (cfg false) st_plain) h =
    [RT {| t_name := n_a; t_src := (n_a, None); t_ver := 0; t_awaitable := false; t_globals := (0, 1)%N |};
     RT {| t_name := n_a; t_src := (n_a, None); t_ver := 0; t_awaitable := false; t_globals := (0, 0)%N |}] /\
  run_again rebinding (cfg false) (init (cfg false) st_plain) h =
    [RT {| t_name := n_a; t_src := (n_a, None); t_ver := 0; t_awaitable := false; t_globals := (0, 0)%N |};
     RT {| t_name := n_a; t_src := (n_a, None); t_ver := 0; t_awaitable := false; t_globals := (0, 0)%N |}] /\
  run_again fixed (cfg false) (init (cfg false) st_plain) h = run fixed (cfg false) (init (cfg false) st_plain) h.
Proof. vm_compute. repeat split. Qed.

(* DictLoader gave no uptodate callable: with auto_reload on, an edited source is never picked up *)
Example C23_dict_never_reloads_refuted :
  let c := {| nk := []; auto_reload := true; capacity := 2; aware := false; detects := false; awaitable_uptodate := false; missing_raises := false; env_g := 0 |} in
  let h := [G Sync n_a None 0; Edit n_a None; G Sync n_a None 0] in
  run fixed c (init c st_plain) h <> ref_run c st_plain h.
Proof. vm_compute. discriminate. Qed.

(* --- recorded, not repaired: cache_key is not injective.  With a namespace key set on a loader that ignores
   namespaces, ("a", namespace x) and ("x/a", no namespace) share the key "x/a": the second request gets the
   first one's template.  This is exactly what the side condition excludes. *)
Example C23_key_collision_refuted :
  let h := [G Sync n_a (Some n_x) 0; G Sync n_xa None 0] in
  keys_injective_b (cfg false) h = false /\
  run fixed (cfg false) (init (cfg false) st_plain) h =
  [RT {| t_name := n_a; t_src := (n_a, None); t_ver := 0; t_awaitable := false; t_globals := (0, 0)%N |};
   RT {| t_name := n_a; t_src := (n_a, None); t_ver := 0; t_awaitable := false; t_globals := (0, 0)%N |}] /\
  ref_run (cfg false) st_plain h =
  [RT {| t_name := n_a; t_src := (n_a, None); t_ver := 0; t_awaitable := false; t_globals := (0, 0)%N |};
   RT {| t_name := n_a; t_src := (n_xa, None); t_ver := 0; t_awaitable := false; t_globals := (0, 0)%N |}].
Proof. vm_compute. repeat split; reflexivity. Qed.
