(* C18 — Template inheritance resolves blocks to the most-derived definition.  Property theorems only.

   Model (Inherit.v, part 1): `render_model fuel L ld leaf data` transcribes Environment.get_template(leaf).render with keyword arguments data
   for templates made of text, {{ x }}, {{ block.super }}, block, for and top-level extends tags, loader `ld`, and
   context_depth_limit `L`: the block stacks of _build_block_stacks/_stack_blocks/_store_blocks with their parent links,
   BlockNode.render_to_output (stack[0]), BlockDrop.super, the `seen` set, the duplicate / endblock / extends-count
   checks, StopRender at the extends tag, and the two depth guards (scope size, copy depth) of RenderContext.
   Specification (Inherit.v, part 2): `render_spec fuel chain data` — the root of the chain with every block tag
   replaced by the first definition found searching the chain from the leaf (`first_def`), block.super = the first
   definition in the templates above the current one; no stacks, no parent links, no depth counters. *)
From Coq Require Import String.
From LiquidVerif Require Import Prelude PyPrims Inherit Inherit_Proofs.
Local Open Scope string_scope. Local Open Scope list_scope.

(* MAIN.  For every loader, every leaf whose extends links form a finite chain of at least two templates (any length),
   every data, limit and fuel: unless the render is aborted by the context-depth resource limit, what the code computes
   is the documented result: the leaf's content before its extends tag, then the root with every block resolved to its
   most-derived definition, super = next definition up, nested blocks resolved again; nothing after the extends tag
   except through blocks; RequiredBlockError for a reached block whose most-derived definition is `required`;
   TemplateInheritanceError when any template of the chain repeats a block name or has a mismatched endblock. *)
Theorem C18_most_derived : forall fuel sup nb L ld leaf t chain data,
  alookup leaf ld = Some t -> chain_from ld t chain -> 2 <= length chain ->
  render_model fuel sup nb L ld leaf data <> OutOfFuel /\ render_model fuel sup nb L ld leaf data <> Err EContextDepth ->
  render_spec fuel sup nb chain data = render_model fuel sup nb L ld leaf data.
Proof. exact model_is_spec_chain. Qed.
Print Assumptions C18_most_derived.

(* OutOfFuel is excluded: fuel_bound L (a function of the depth limit only — 2178 for the default limit 30) suffices for
   every loader, template and data, because every jump to another body deepens the copy depth or the scope of the context
   block.super renders in, and both are capped by L. *)
Theorem C18_fuel_sufficient : forall sup nb L ld leaf data fuel,
  fuel_bound L <= fuel -> render_model fuel sup nb L ld leaf data <> OutOfFuel.
Proof. exact render_model_fuel. Qed.
Print Assumptions C18_fuel_sufficient.

(* ... so for the function the correspondence run evaluates: *)
Theorem C18_run_is_spec : forall c t chain,
  alookup (k_leaf c) (k_loader c) = Some t -> chain_from (k_loader c) t chain -> 2 <= length chain ->
  run_inherit c <> Err EContextDepth ->
  render_spec (fuel_bound (k_limit c)) (k_suppress c) node_blank chain (k_data c) = run_inherit c.
Proof.
  intros c t chain Hl Hc Hlen Hd. apply (model_is_spec_chain _ _ _ _ _ _ t); auto.
  split; [apply render_model_fuel; apply le_n | exact Hd].
Qed.
Print Assumptions C18_run_is_spec.

(* the documented result does not depend on the fuel once there is enough of it *)
Theorem C18_spec_fuel_independent : forall sup nb f f' chain data r,
  f <= f' -> render_spec f sup nb chain data = r -> r <> OutOfFuel -> render_spec f' sup nb chain data = r.
Proof. exact render_spec_mono. Qed.
Print Assumptions C18_spec_fuel_independent.

(* a template without extends (chain of length 1): the same, PROVIDED its block names are unique.
   Missing for the full statement: the code does not reject duplicate names in such a template (next theorem). *)
Theorem C18_standalone_partial : forall fuel sup nb L ld leaf t data,
  alookup leaf ld = Some t -> textends t = [] -> dup_bad t = false ->
  render_model fuel sup nb L ld leaf data <> OutOfFuel /\ render_model fuel sup nb L ld leaf data <> Err EContextDepth ->
  render_spec fuel sup nb [t] data = render_model fuel sup nb L ld leaf data.
Proof. exact model_is_spec_standalone. Qed.
Print Assumptions C18_standalone_partial.

Definition C18_standalone_full_statement : Prop := forall fuel sup nb L ld leaf t data,
  alookup leaf ld = Some t -> textends t = [] ->
  render_model fuel sup nb L ld leaf data <> OutOfFuel /\ render_model fuel sup nb L ld leaf data <> Err EContextDepth ->
  render_spec fuel sup nb [t] data = render_model fuel sup nb L ld leaf data.

Definition dup_witness : template :=
  [TNode (Block (lit "a") false None [Text (lit "x")]); TNode (Block (lit "a") false None [Text (lit "y")])].

(* witness: `{% block a %}x{% endblock %}{% block a %}y{% endblock %}` rendered on its own gives "xy", not an error *)
Theorem C18_standalone_duplicate_refuted : ~ C18_standalone_full_statement.
Proof.
  intro H. specialize (H 10 true node_blank 30 [(lit "leaf", dup_witness)] (lit "leaf") dup_witness [] eq_refl eq_refl).
  vm_compute in H. assert (X : Err EInherit = Ok (lit "xy")) by (apply H; split; discriminate). discriminate X.
Qed.
Print Assumptions C18_standalone_duplicate_refuted.

(* in a child template only the blocks (and further extends tags) written after the extends tag matter *)
Theorem C18_after_extends_ignored : forall fuel sup nb L ld data pre p post post',
  tblocks post = tblocks post' -> textends post = textends post' ->
  render_template fuel sup nb L ld data (map TNode pre ++ TExtends p :: post) =
  render_template fuel sup nb L ld data (map TNode pre ++ TExtends p :: post').
Proof. exact after_extends_ignored. Qed.
Print Assumptions C18_after_extends_ignored.

(* a block tag reached while the stacks hold the definitions of `chain`, whose most-derived definition is `required`,
   raises RequiredBlockError whatever the tag itself says *)
Theorem C18_required : forall sup nb L st chain jump c name req en body b above,
  (forall n, slookup n st = items_from chain n) ->
  first_def chain name = Some (b, above) -> bd_required b = true ->
  exec_node sup nb L st jump c (Block name req en body) = Err ERequiredBlock.
Proof. exact required_not_overridden. Qed.
Print Assumptions C18_required.

(* ... in particular at the start of the root of a well-formed chain *)
Theorem C18_required_top : forall fuel sup nb L ld data t chain a name req en body sfx b above,
  chain_from ld t chain -> 2 <= length chain -> 5 <= L -> chain_bad chain = false ->
  exec (S fuel) sup nb L [] {| c_env := data; c_s := 5; c_d := 0; c_block := None |} (fst (split_extends t)) = Ok a ->
  tnodes (last chain t) = Block name req en body :: sfx ->
  first_def chain name = Some (b, above) -> bd_required b = true ->
  render_template (S fuel) sup nb L ld data t = Err ERequiredBlock.
Proof. exact required_top. Qed.
Print Assumptions C18_required_top.

(* ... and a required block of a template rendered on its own *)
Theorem C18_required_standalone : forall sup nb L jump c name en body,
  exec_node sup nb L [] jump c (Block name true en body) = Err ERequiredBlock.
Proof. exact required_standalone. Qed.
Print Assumptions C18_required_standalone.

(* circular extends: when the extends links never end (every template reached has one extends tag naming an existing
   template), and the leaf's content before its extends tag renders, the render raises TemplateInheritanceError *)
Theorem C18_cycle : forall fuel sup nb L ld data t a,
  endless_chain ld t -> 4 <= L ->
  exec fuel sup nb L [] {| c_env := data; c_s := 5; c_d := 0; c_block := None |} (fst (split_extends t)) = Ok a ->
  render_template fuel sup nb L ld data t = Err EInherit.
Proof. exact cycle_rejected. Qed.
Print Assumptions C18_cycle.

(* a chain of >= 2 templates in which some template repeats a block name, or some parent has a mismatched endblock
   name, is rejected with TemplateInheritanceError *)
Theorem C18_chain_rejected : forall fuel sup nb L ld data t chain a,
  chain_from ld t chain -> 2 <= length chain -> 4 <= L -> chain_bad chain = true ->
  exec fuel sup nb L [] {| c_env := data; c_s := 5; c_d := 0; c_block := None |} (fst (split_extends t)) = Ok a ->
  render_template fuel sup nb L ld data t = Err EInherit.
Proof. exact chain_rejected. Qed.
Print Assumptions C18_chain_rejected.

(* dup_bad is exactly "the block names of the template are not pairwise distinct" *)
Theorem C18_duplicate_meaning : forall t, dup_bad t = false <-> NoDup (map bd_name (tblocks t)).
Proof. intro t. apply has_dup_spec. Qed.
Print Assumptions C18_duplicate_meaning.

(* a leaf with a mismatched endblock name does not load *)
Theorem C18_endblock_mismatch : forall fuel sup nb L ld leaf t data,
  alookup leaf ld = Some t -> parse_ok t = false -> render_model fuel sup nb L ld leaf data = Err EInherit.
Proof. exact leaf_endblock_mismatch. Qed.
Print Assumptions C18_endblock_mismatch.

(* ---- the engine-wide blank-body rule (ast.BlockNode: a body all of whose nodes are blank is rendered into a null buffer
   when suppress_blank_control_flow_blocks is set).  Model and specification carry it for every body there is in this
   fragment -- a block definition reached through a block tag or through block.super, and a loop body; `nb` is Node.blank,
   `node_blank` its value in the engine: whitespace-only text is blank, {{ ... }} never, a loop iff its body, and the block
   tag NEVER (extends_tag.BlockNode.__init__ sets blank = False).  All theorems above hold for every `sup` and `nb`. *)

(* a body in which a block tag occurs, directly or under loops, is never discarded *)
Theorem C18_block_never_blank : forall sup body,
  existsb has_block body = true -> body_blank sup node_blank body = false.
Proof. exact block_never_blank. Qed.
Print Assumptions C18_block_never_blank.

(* ... so a loop around a block tag sends every iteration of its body to the real buffer *)
Theorem C18_loop_around_block_kept : forall sup L st jump c x v items body,
  existsb has_block body = true -> (L <? c_s c)%nat = false ->
  exec_node sup node_blank L st jump c (For x (v :: items) body) =
  seq_res (fun v => seq_res (exec_node sup node_blank L st jump
                               {| c_env := (x, v) :: c_env c; c_s := S (c_s c); c_d := c_d c; c_block := c_block c |}) body)
          (v :: items).
Proof. exact loop_around_block_kept. Qed.
Print Assumptions C18_loop_around_block_kept.

(* a reached block tag renders the body of the most-derived definition; the tag's own body -- the default, possibly an empty
   or whitespace-only placeholder -- plays no part, whatever Node.blank says about it *)
Theorem C18_override_rendered : forall sup nb L st chain jump c name req en dflt b above,
  (forall n, slookup n st = items_from chain n) ->
  first_def chain name = Some (b, above) -> bd_required b = false -> (L <? c_d c)%nat = false ->
  exec_node sup nb L st jump c (Block name req en dflt) =
  jump {| c_env := c_env c; c_s := 4; c_d := S (c_d c);
          c_block := Some (HSite (c_env c) (c_s c) (c_d c) (items_from above name)) |} (bd_body b).
Proof. exact override_rendered. Qed.
Print Assumptions C18_override_rendered.

(* end to end: the root is `{% for x in items %}{% block a %}DEFAULT{% endblock %}{% endfor %}` with ANY default (empty,
   whitespace, anything that parses and repeats no name), the leaf extends it and overrides a with plain content (text and
   variables): every iteration renders the override (nothing only if the override itself is blank) *)
Theorem C18_override_rendered_through_placeholders : forall fuel sup L ld rootn a x items dflt ov data,
  alookup rootn ld = Some (ph_root a x items dflt) ->
  parse_ok (ph_root a x items dflt) = true -> dup_bad (ph_root a x items dflt) = false ->
  forallb is_plain ov = true -> 6 <= L ->
  render_template (S (S (S fuel))) sup node_blank L ld data (ph_leaf rootn a ov) =
  Ok (concat_str (map (fun v => if body_blank sup node_blank ov then [] else plain_out ((x, v) :: data) ov) items)).
Proof. exact placeholder_in_loop. Qed.
Print Assumptions C18_override_rendered_through_placeholders.

(* the seeded change (block tag blank iff its body is): the main statement fails for it -- an empty placeholder alone in a
   loop makes the loop body blank and the override's output is dropped *)
Definition C18_seeded_blank_statement : Prop := forall fuel sup L ld leaf t chain data,
  alookup leaf ld = Some t -> chain_from ld t chain -> 2 <= length chain ->
  render_model fuel sup node_blank_seeded L ld leaf data <> OutOfFuel /\
  render_model fuel sup node_blank_seeded L ld leaf data <> Err EContextDepth ->
  render_spec fuel sup node_blank chain data = render_model fuel sup node_blank_seeded L ld leaf data.

Definition seed_root : template := ph_root (lit "a") (lit "i") [1; 2]%Z [].
Definition seed_leaf : template := ph_leaf (lit "root") (lit "a") [Text (lit "X")].

Theorem C18_seeded_blank_refuted : ~ C18_seeded_blank_statement.
Proof.
  intro H.
  specialize (H 10 true 30 [(lit "leaf", seed_leaf); (lit "root", seed_root)] (lit "leaf") seed_leaf [seed_leaf; seed_root] []
                eq_refl).
  assert (Hc : chain_from [(lit "leaf", seed_leaf); (lit "root", seed_root)] seed_leaf [seed_leaf; seed_root]).
  { eapply chain_step; [reflexivity | reflexivity | apply chain_root; reflexivity]. }
  specialize (H Hc (le_n 2)). vm_compute in H.
  assert (X : Ok (lit "XX") = Ok (@nil N)) by (apply H; split; discriminate). discriminate X.
Qed.
Print Assumptions C18_seeded_blank_refuted.

(* ------------------------------------------------------------------ non-vacuity and reading aids (tests) *)
Definition B (n : string) (body : list node) : node := Block (lit n) false None body.
Definition ex_base : template :=
  [TNode (Text (lit "<")); TNode (Block (lit "content") true None []); TNode (Text (lit "|"));
   TNode (B "footer" [Text (lit "Default footer")]); TNode (Text (lit ">"))].
Definition ex_child : template :=
  [TExtends (lit "base"); TNode (Text (lit "ignored")); TNode (B "content" [Text (lit "Hello")]);
   TNode (B "footer" [Super false; Text (lit " - 2025")])].
Definition ex_ld : loader := [(lit "base", ex_base); (lit "child", ex_child)].

Example C18_chain_example : chain_from ex_ld ex_child [ex_child; ex_base].
Proof. eapply chain_step; [reflexivity | reflexivity | apply chain_root; reflexivity]. Qed.

(* the example of docs/optional_tags.md *)
Example C18_docs_example :
  run_inherit {| k_suppress := true; k_limit := 30; k_loader := ex_ld; k_leaf := lit "child"; k_data := [] |}
  = Ok (lit "<Hello|Default footer - 2025>")
  /\ render_spec 10 true node_blank [ex_child; ex_base] [] = Ok (lit "<Hello|Default footer - 2025>")
  /\ run_inherit {| k_suppress := true; k_limit := 30; k_loader := ex_ld; k_leaf := lit "base"; k_data := [] |} = Err ERequiredBlock.
Proof. vm_compute. repeat split; reflexivity. Qed.

Example C18_cycle_example :
  endless_chain [(lit "a", [TExtends (lit "b")]); (lit "b", [TExtends (lit "a")])] [TExtends (lit "b")]
  /\ run_inherit {| k_suppress := true; k_limit := 30; k_loader := [(lit "a", [TExtends (lit "b")]); (lit "b", [TExtends (lit "a")])];
                    k_leaf := lit "a"; k_data := [] |} = Err EInherit.
Proof.
  split; [|vm_compute; reflexivity].
  exists (fun u => u = [TExtends (lit "b")] \/ u = [TExtends (lit "a")]). split; [left; reflexivity|].
  intros u [-> | ->]; [exists (lit "b"), [TExtends (lit "a")] | exists (lit "a"), [TExtends (lit "b")]]; repeat split; auto.
Qed.

(* blocks that render each other without end are stopped by the depth guard, never by the fuel *)
Example C18_recursion_example :
  run_inherit {| k_suppress := true; k_limit := 30; k_leaf := lit "leaf"; k_data := [];
                 k_loader := [(lit "leaf", [TExtends (lit "root"); TNode (B "b" [B "a" [Super false]])]);
                              (lit "root", [TNode (B "a" [B "b" []])])] |} = Err EContextDepth.
Proof. vm_compute. reflexivity. Qed.

(* which variables a parent definition sees when rendered through block.super (not part of the property; recorded
   because the model has to get it right): written in the most-derived definition, block.super sees the variables of
   the block tag; written in an inherited definition, it sees the variables at the reference *)
Example C18_super_scope_example :
  let root := [TNode (B "a" [Text (lit "i="); Var (lit "i")])] in
  let loop := [TExtends (lit "root"); TNode (B "a" [For (lit "i") [1; 2]%Z [Super false]])] in
  let pass p := [TExtends (lit p); TNode (B "a" [Super false])] in
  run_inherit {| k_suppress := true; k_limit := 30; k_leaf := lit "leaf"; k_data := [];
                 k_loader := [(lit "leaf", loop); (lit "root", root)] |} = Ok (lit "i=i=")
  /\ run_inherit {| k_suppress := true; k_limit := 30; k_leaf := lit "leaf"; k_data := [];
                    k_loader := [(lit "leaf", pass "mid"); (lit "mid", loop); (lit "root", root)] |} = Ok (lit "i=1i=2").
Proof. vm_compute. split; reflexivity. Qed.

(* blank bodies: a whitespace-only default reached through block.super gives nothing; whitespace at the top level of a
   template and next to a block tag inside a loop stays; with the rule switched off everything stays *)
Example C18_blank_examples :
  let leaf := [TExtends (lit "root"); TNode (B "a" [Text (lit "X"); Super false; Text (lit "Y")])] in
  let root := [TNode (Text (lit "[ ")); TNode (B "a" [Text (lit " ")]); TNode (Text (lit " ]"));
               TNode (For (lit "i") [1; 2]%Z [Text (lit " "); B "b" [Text (lit " ")]]);
               TNode (For (lit "i") [1; 2]%Z [Text (lit " ")])] in
  let run sup := run_inherit {| k_suppress := sup; k_limit := 30; k_leaf := lit "leaf"; k_data := [];
                                k_loader := [(lit "leaf", leaf); (lit "root", root)] |} in
  run true = Ok (lit "[ XY ]  ") /\ run false = Ok (lit "[ X Y ]      ").
Proof. vm_compute. split; reflexivity. Qed.

Example C18_seed_example :
  let c := {| k_suppress := true; k_limit := 30; k_leaf := lit "leaf"; k_data := [];
              k_loader := [(lit "leaf", seed_leaf); (lit "root", seed_root)] |} in
  run_inherit c = Ok (lit "XX") /\ run_inherit_seeded c = Ok [].
Proof. vm_compute. split; reflexivity. Qed.

(* block.super is a value: the rendered text of the parent definition, which filters apply to *)
Example C18_super_filter_example :
  run_inherit {| k_suppress := true; k_limit := 30; k_leaf := lit "leaf"; k_data := [(lit "g", 7%Z)];
                 k_loader := [(lit "leaf", [TExtends (lit "root"); TNode (B "a" [Super true; Text (lit "-"); Super false])]);
                              (lit "root", [TNode (B "a" [Text (lit "r"); Var (lit "g"); Text (lit "z")])])] |}
  = Ok (lit "R7Z-r7z").
Proof. vm_compute. reflexivity. Qed.
