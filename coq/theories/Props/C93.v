(* C93 -- development copy of C03 for the enlarged tag language (placeholder) *)
From LiquidVerif Require Import Prelude Recover2.
