(* C09 -- Parsing and rendering always terminate within the stack.  Property theorems only.
   Models: Recover.v (the parser with its recovery paths), TagTree.v (the generic block parser), Terminate.v (rendering of
   recursive partials under the context-depth bookkeeping, the extends chain walk, Python frames per construct). *)
From LiquidVerif Require Import Prelude Recover Recover_Proofs TagTree Terminate Terminate_Proofs.

(* parsing: every loop of the parser consumes a token; with one unit of fuel more than there are tokens (those inside liquid tags included) the model never
   runs out, in any mode and for any block nesting limit (unterminated and unbalanced blocks included) *)
Theorem C09_parse_progress : forall m lim f ts, S (tsize ts) <= f -> parse_fuel m lim f ts <> OutOfFuel.
Proof. exact parse_progress. Qed.
Print Assumptions C09_parse_progress.

(* the same for the generic block parser, for every tag register *)
Theorem C09_block_parser_progress : forall kind_of f stops ts, List.length ts < f -> parse_until kind_of f stops ts <> OutOfFuel.
Proof. exact parse_until_progress. Qed.
Print Assumptions C09_block_parser_progress.

Theorem C09_template_parser_total : forall kind_of ts, parse_template kind_of ts <> OutOfFuel.
Proof. exact parse_template_progress. Qed.
Print Assumptions C09_template_parser_total.

(* rendering: for EVERY loader of templates built from text, blocks, for loops, include, render and macro calls, every
   context depth limit, strict or lax mode, the recursion depth of the render never exceeds fuel_bound (a product of the
   limit squared and the deepest block nesting): recursion through partials is always cut off *)
Theorem C09_render_bounded : forall lax lim c ld name, render_template lax lim c ld (fuel_bound lim ld) name <> None.
Proof. exact render_bounded. Qed.
Print Assumptions C09_render_bounded.

(* a template that includes or renders itself -- once or several times, from inside any number of nested blocks -- ends,
   in strict mode, in ContextDepthError, for every limit *)
Theorem C09_recursion_cut : forall lim c k d copies,
  exists o, render_template false lim c (self_family k d (S copies)) (fuel_bound lim (self_family k d (S copies))) 0 = Some o
            /\ raised o = Some EContextDepth.
Proof. exact self_recursion_cut. Qed.
Print Assumptions C09_recursion_cut.

(* the walk up an extends chain always finishes ... *)
Theorem C09_extends_total : forall parent leaf, base_of parent leaf <> OutOfFuel.
Proof. exact base_of_total. Qed.
Print Assumptions C09_extends_total.

(* ... in a template without an extends tag, or in TemplateInheritanceError / TemplateNotFoundError ... *)
Theorem C09_extends_result : forall parent leaf,
  match base_of parent leaf with
  | Ok b => nth_error parent b = Some None
  | Err e => e = EInherit \/ e = ENotFound
  | OutOfFuel => False
  end.
Proof. exact base_of_result. Qed.
Print Assumptions C09_extends_result.

(* ... and when every template extends an existing one (so that every chain is circular) always in TemplateInheritanceError *)
Theorem C09_circular_extends : forall parent leaf,
  (forall k, k < List.length parent -> exists p, nth_error parent k = Some (Some p) /\ p < List.length parent) ->
  leaf < List.length parent -> base_of parent leaf = Err EInherit.
Proof. exact circular_extends. Qed.
Print Assumptions C09_circular_extends.

(* the stack: the Python frames in use are bounded by the limits ... *)
Theorem C09_stack_bound : forall lax lim c ld name o,
  render_template lax lim c ld (fuel_bound lim ld) name = Some o -> peak o <= fr_base c + kmax c * fuel_bound lim ld.
Proof. exact stack_bound. Qed.
Print Assumptions C09_stack_bound.

(* ... but with the default limits that bound is far above CPython's recursion limit.  BoundTemplate.render / render_async
   and Environment.from_string therefore convert a stack overflow into ContextDepthError (fix: C09-recursion-error-to-context-
   depth-error): a template that includes or renders itself from inside ANY number of nested blocks ends in ContextDepthError
   in strict mode for every limit, every frame cost and every stack size *)
Theorem C09_within_stack : forall stack lim cs k d, self_outcome true stack lim cs k d = TErr EContextDepth.
Proof. exact within_stack_on. Qed.
Print Assumptions C09_within_stack.

(* the behaviour before the repair, refuted by witness: with limits 30 / 30 and the frame costs measured on CPython a template
   including itself from inside 15 nested if blocks (6 for render) overflowed the 1000-frame stack and RecursionError escaped
   (the check reproduces it in a child process on a tree without the repair) *)
Theorem C09_within_stack_old_refuted :
  exists d, d <= 30 /\ recursion_limit < frames_needed cpython_sync 30 KInclude d /\
            self_outcome_old recursion_limit 30 cpython_sync KInclude d = TErr ERecursionError.
Proof. exact within_stack_old_refuted. Qed.
Print Assumptions C09_within_stack_old_refuted.

Theorem C09_within_stack_old_refuted_render :
  exists d, d <= 30 /\ self_outcome_old recursion_limit 30 cpython_sync KRender d = TErr ERecursionError.
Proof. exact within_stack_old_refuted_render. Qed.
Print Assumptions C09_within_stack_old_refuted_render.

(* lax mode: every depth-limit error is dropped by the nearest render_with_context, so a template that renders itself twice
   does 2^(limit+2) - 1 units of work (limits 4..12 evaluated; with the default limit of 30 that is 2^32: known finding
   lax-mode-exponential-work-self-render-twice) *)
Theorem C09_lax_work_exponential :
  forall lim, 4 <= lim <= 12 -> lax_texts lim 2 KRender = Some (2 ^ (N.of_nat lim + 2) - 1)%N.
Proof. exact lax_work_exponential. Qed.
Print Assumptions C09_lax_work_exponential.

(* ---- reading aids (tests, not theorems) ---- *)
Example C09_frames_example : map (fun d => frames_needed cpython_sync 30 KInclude d) [0; 10; 14; 15] = [46; 696; 956; 1021].
Proof. vm_compute. reflexivity. Qed.

Example C09_circular_example : base_of [Some 1; Some 2; Some 0] 0 = Err EInherit /\ base_of [Some 1; None] 0 = Ok 1 /\ base_of [Some 0] 0 = Err EInherit.
Proof. vm_compute. repeat split; reflexivity. Qed.

Example C09_unterminated_blocks_parse_example :
  parse Lax 30 [TTag Ncase; TExpr (XOk (RVal [] 1)); TTag Nif; TTag Nfor; TTag Nwhen] = Ok (BCons NIllegal BNil, {| emitted := []; suppressed := [ESyntax] |}).
Proof. vm_compute. reflexivity. Qed.
