(* C09 -- Parsing and rendering always terminate within the stack.  Property theorems only.
   Models: Recover.v (the parser with its recovery paths), TagTree.v (the generic block parser), Terminate.v (rendering of
   recursive partials under the context-depth bookkeeping, the extends chain walk, Python frames per construct). *)
From LiquidVerif Require Import Prelude Recover Recover_Proofs TagTree Terminate Terminate_Proofs.

(* parsing: every loop of the parser consumes a token; with one unit of fuel more than there are tokens the model never
   runs out, in any mode and for any block nesting limit (unterminated and unbalanced blocks included) *)
Theorem C09_parse_progress : forall m lim f ts, S (List.length ts) <= f -> parse_fuel m lim f ts <> OutOfFuel.
Proof. exact parse_progress. Qed.
Print Assumptions C09_parse_progress.

(* the same for the generic block parser, for every tag register *)
Theorem C09_block_parser_progress : forall kind_of f stops ts, List.length ts < f -> parse_until kind_of f stops ts <> OutOfFuel.
Proof. exact parse_until_progress. Qed.
Print Assumptions C09_block_parser_progress.

Theorem C09_template_parser_total : forall kind_of ts, parse_template kind_of ts <> OutOfFuel.
Proof. exact parse_template_progress. Qed.
Print Assumptions C09_template_parser_total.

(* rendering: for EVERY loader of templates built from text, blocks, for loops, include, render and macro calls, every
   context depth limit, strict or lax mode, the recursion depth of the render never exceeds fuel_bound (a product of the
   limit squared and the deepest block nesting): recursion through partials is always cut off *)
Theorem C09_render_bounded : forall lax lim c ld name, render_template lax lim c ld (fuel_bound lim ld) name <> None.
Proof. exact render_bounded. Qed.
Print Assumptions C09_render_bounded.

(* a template that includes or renders itself -- once or several times, from inside any number of nested blocks -- ends,
   in strict mode, in ContextDepthError, for every limit *)
Theorem C09_recursion_cut : forall lim c k d copies,
  exists o, render_template false lim c (self_family k d (S copies)) (fuel_bound lim (self_family k d (S copies))) 0 = Some o
            /\ raised o = Some EContextDepth.
Proof. exact self_recursion_cut. Qed.
Print Assumptions C09_recursion_cut.

(* the walk up an extends chain always finishes ... *)
Theorem C09_extends_total : forall parent leaf, base_of parent leaf <> OutOfFuel.
Proof. exact base_of_total. Qed.
Print Assumptions C09_extends_total.

(* ... in a template without an extends tag, or in TemplateInheritanceError / TemplateNotFoundError ... *)
Theorem C09_extends_result : forall parent leaf,
  match base_of parent leaf with
  | Ok b => nth_error parent b = Some None
  | Err e => e = EInherit \/ e = ENotFound
  | OutOfFuel => False
  end.
Proof. exact base_of_result. Qed.
Print Assumptions C09_extends_result.

(* ... and when every template extends an existing one (so that every chain is circular) always in TemplateInheritanceError *)
Theorem C09_circular_extends : forall parent leaf,
  (forall k, k < List.length parent -> exists p, nth_error parent k = Some (Some p) /\ p < List.length parent) ->
  leaf < List.length parent -> base_of parent leaf = Err EInherit.
Proof. exact circular_extends. Qed.
Print Assumptions C09_circular_extends.

(* the stack: the Python frames in use are bounded by the limits ... *)
Theorem C09_stack_bound : forall lax lim c ld name o,
  render_template lax lim c ld (fuel_bound lim ld) name = Some o -> peak o <= fr_base c + kmax c * fuel_bound lim ld.
Proof. exact stack_bound. Qed.
Print Assumptions C09_stack_bound.

(* ... but with the default limits that bound is far above CPython's recursion limit, and the full statement "recursion is
   cut off by ContextDepthError before the stack is exhausted" is REFUTED: a template including itself from inside 15 nested
   if blocks (the nesting limit allows 30) reaches the depth limit only after more than 1000 frames (known finding
   recursion-error-before-context-depth-limit; the check reproduces it in a child process) *)
Theorem C09_within_stack_refuted :
  exists d, d <= 30 /\
    (exists o, render_template false 30 cpython_sync (self_family KInclude d 1) (fuel_bound 30 (self_family KInclude d 1)) 0 = Some o
               /\ raised o = Some EContextDepth) /\
    recursion_limit < frames_needed cpython_sync 30 KInclude d.
Proof. exact within_stack_refuted. Qed.
Print Assumptions C09_within_stack_refuted.

Theorem C09_within_stack_refuted_render : exists d, d <= 30 /\ recursion_limit < frames_needed cpython_sync 30 KRender d.
Proof. exact within_stack_refuted_render. Qed.
Print Assumptions C09_within_stack_refuted_render.

(* what does hold for the measured constants: up to block depth 13 (include) / 5 (render) the model's frame figure -- a lower
   bound, the engine re-parses the partial on top of it -- stays 60 below the limit (the engine was seen to reach
   ContextDepthError up to depth 12 / 5 on the synchronous path) *)
Theorem C09_within_stack_partial :
  (forall d, d <= 13 -> frames_needed cpython_sync 30 KInclude d <= recursion_limit - 60) /\
  (forall d, d <= 5 -> frames_needed cpython_sync 30 KRender d <= recursion_limit - 60).
Proof. exact within_stack_partial. Qed.
Print Assumptions C09_within_stack_partial.

(* lax mode: every depth-limit error is dropped by the nearest render_with_context, so a template that renders itself twice
   does 2^(limit+2) - 1 units of work (limits 4..12 evaluated; with the default limit of 30 that is 2^32: known finding
   lax-mode-exponential-work-self-render-twice) *)
Theorem C09_lax_work_exponential :
  forall lim, 4 <= lim <= 12 -> lax_texts lim 2 KRender = Some (2 ^ (N.of_nat lim + 2) - 1)%N.
Proof. exact lax_work_exponential. Qed.
Print Assumptions C09_lax_work_exponential.

(* ---- reading aids (tests, not theorems) ---- *)
Example C09_frames_example : map (fun d => frames_needed cpython_sync 30 KInclude d) [0; 10; 14; 15] = [46; 696; 956; 1021].
Proof. vm_compute. reflexivity. Qed.

Example C09_circular_example : base_of [Some 1; Some 2; Some 0] 0 = Err EInherit /\ base_of [Some 1; None] 0 = Ok 1 /\ base_of [Some 0] 0 = Err EInherit.
Proof. vm_compute. repeat split; reflexivity. Qed.

Example C09_unterminated_blocks_parse_example :
  parse Lax 30 [TTag Ncase; TExpr (XOk (RVal [] 1)); TTag Nif; TTag Nfor; TTag Nwhen] = Ok (BCons NIllegal BNil, {| emitted := []; suppressed := [ESyntax] |}).
Proof. vm_compute. reflexivity. Qed.
