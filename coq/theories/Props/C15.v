(* C15 — Rendered partials and macros are isolated from their caller.  Property theorems only. *)
From Coq Require Import String.
From LiquidVerif Require Import Prelude PyPrims Scope Scope_Proofs Scope_Iso_Proofs.
Local Open Scope string_scope. Local Open Scope list_scope.

(* non-interference: two caller contexts with the same root globals in which the render tag's arguments and bound
   variable evaluate alike get the same text and completion from the partial, whatever their block scopes, assigned
   and captured variables, counters, macros and loop state are *)
Theorem C15_render_isolated : forall f E name var args c1 c2,
  base c1 = base c2 -> cfg c1 = cfg c2 ->
  eval_kwargs (e_uk E) c1 args [] = eval_kwargs (e_uk E) c2 args [] ->
  (forall p lp a, var = Some (p, lp, a) -> eval_path (e_uk E) c1 p = eval_path (e_uk E) c2 p) ->
  obs (exec (S f) E (NRender name var args) c1) = obs (exec (S f) E (NRender name var args) c2).
Proof. exact render_isolated. Qed.
Print Assumptions C15_render_isolated.

(* with literal arguments the partial's output is a function of the root globals alone *)
Theorem C15_render_ignores_caller_locals : forall f E name args c1 c2,
  base c1 = base c2 -> cfg c1 = cfg c2 -> literal_args args ->
  obs (exec (S f) E (NRender name None args) c1) = obs (exec (S f) E (NRender name None args) c2).
Proof. exact render_ignores_caller_locals. Qed.
Print Assumptions C15_render_ignores_caller_locals.

(* the variables a partial assigns (captures, counts, the macros it defines) are never visible to the caller: the
   caller's context after the tag IS its context before the tag, however the partial ended *)
Theorem C15_render_leaves_caller : forall f E name var args c c' o s,
  exec f E (NRender name var args) c = Done c' o s -> c' = c.
Proof. exact render_leaves_caller. Qed.
Print Assumptions C15_render_leaves_caller.

(* "sees only its explicit arguments, its bound variable and global data": what a partial resolves when it starts *)
Theorem C15_only_explicit_args : forall c na dis x,
  resolve (copy c na dis) x = first_hit x (na :: base c ++ [builtin_ns]).
Proof. exact partial_sees_only_arguments_and_globals. Qed.
Print Assumptions C15_only_explicit_args.

(* in particular a partial rendered from inside another partial does not see the enclosing partial's arguments *)
Theorem C15_nested_partial_isolated : forall c outer1 outer2 inner x,
  resolve (nested_partial_ctx c outer1 inner) x = resolve (nested_partial_ctx c outer2 inner) x.
Proof. exact only_explicit_args. Qed.
Print Assumptions C15_nested_partial_isolated.

(* witness of the repaired defect: with the old copy (namespace in front of the CALLER's globals chain) it did *)
Theorem C15_nested_partial_isolated_old_refuted : ~ only_explicit_args_old.
Proof. exact only_explicit_args_old_refuted. Qed.
Print Assumptions C15_nested_partial_isolated_old_refuted.

(* render ... for: the items are rendered independently — what the tag prints is the concatenation of rendering the
   partial for each item in a FRESH copy of the context, so nothing assigned or counted for one item is seen by the next *)
Theorem C15_render_for_items_independent : forall render1 key na items c0,
  obs (render_loop render1 key na items c0) =
  each_item (fun itm i => render1 (set_gl_head c0 (dict_set key itm (dict_set s_forloop (forloop_drop i (zlen items)) na)))) items 0%Z.
Proof. exact render_for_items_independent. Qed.
Print Assumptions C15_render_for_items_independent.

(* witness of the repaired defect: with ONE copied context for all items the second item saw the first one's variables *)
Theorem C15_render_for_items_independent_old_refuted : ~ render_for_independent_old.
Proof. exact render_for_independent_old_refuted. Qed.
Print Assumptions C15_render_for_items_independent_old_refuted.

(* include is disabled in a rendered partial: once the nodes before it have completed, the render tag raises
   DisabledTagError (the include may sit behind any prefix; inside blocks the disabled tags are unchanged, next theorem) *)
Theorem C15_no_include_in_render : forall f E name args pname pvar pargs pre post c na c1 o1,
  e_mode E = MStrict ->
  alookup name (e_loader E) = Some (pre ++ NInclude pname pvar pargs :: post) ->
  eval_kwargs (e_uk E) c args [] = Ok na ->
  seq_nodes (exec (S f) E) pre (push (copy c na [TInclude]) [(s_partial, VBool true)]) = Done c1 o1 Normal ->
  exec (S (S f)) E (NRender name None args) c = Done c o1 (Raise EDisabledTag).
Proof. exact no_include_in_render. Qed.
Print Assumptions C15_no_include_in_render.

(* wherever an include tag is reached with include disabled it raises, and nothing executed inside a context —
   at any block depth — changes the disabled tags *)
Theorem C15_include_disabled_everywhere : forall f E,
  (forall name var args c, is_disabled TInclude c = true ->
     exec (S f) E (NInclude name var args) c = Done c [] (Raise EDisabledTag)) /\
  (forall n c c' o s, exec f E n c = Done c' o s -> is_disabled TInclude c' = is_disabled TInclude c) /\
  (forall c na, is_disabled TInclude (copy c na [TInclude]) = true /\ is_disabled TInclude (copy c na [TInclude; TBlock]) = true).
Proof.
  intros f E. split; [|split].
  - intros. apply include_disabled_raises. assumption.
  - intros n c c' o s H. exact (disabled_preserved f E n c c' o s H).
  - exact partial_context_disables_include.
Qed.
Print Assumptions C15_include_disabled_everywhere.

(* macros: a body invoked with call is isolated from the caller's locals in the same way *)
Theorem C15_macro_isolated : forall f E name kws c1 c2,
  base c1 = base c2 -> cfg c1 = cfg c2 ->
  alookup name (macros c1) = alookup name (macros c2) ->
  (forall ps body, alookup name (macros c1) = Some (ps, body) ->
     macro_namespace (e_uk E) c1 ps kws = macro_namespace (e_uk E) c2 ps kws) ->
  obs (exec (S f) E (NCall name kws) c1) = obs (exec (S f) E (NCall name kws) c2).
Proof. exact call_isolated. Qed.
Print Assumptions C15_macro_isolated.

Theorem C15_macro_ignores_caller_locals : forall f E name kws c1 c2,
  base c1 = base c2 -> cfg c1 = cfg c2 -> alookup name (macros c1) = alookup name (macros c2) ->
  literal_args kws ->
  (forall ps body, alookup name (macros c1) = Some (ps, body) -> literal_params ps) ->
  obs (exec (S f) E (NCall name kws) c1) = obs (exec (S f) E (NCall name kws) c2).
Proof. exact call_ignores_caller_locals. Qed.
Print Assumptions C15_macro_ignores_caller_locals.

Theorem C15_macro_leaves_caller : forall f E name kws c c' o s,
  exec f E (NCall name kws) c = Done c' o s -> c' = c.
Proof. exact call_leaves_caller. Qed.
Print Assumptions C15_macro_leaves_caller.

Theorem C15_no_include_in_macro : forall f E name kws ps pname pvar pargs pre post c nm c1 o1,
  alookup name (macros c) = Some (ps, pre ++ NInclude pname pvar pargs :: post) ->
  macro_namespace (e_uk E) c ps kws = Ok nm ->
  seq_nodes (exec (S f) E) pre (copy c nm [TInclude; TBlock]) = Done c1 o1 Normal ->
  exec (S (S f)) E (NCall name kws) c = Done c o1 (Raise EDisabledTag).
Proof. exact no_include_in_macro. Qed.
Print Assumptions C15_no_include_in_macro.

(* ---- through overridden inheritance blocks (liquid.extra extends / block) ---- *)
(* a partial rendered from inside an overridden block resolves its arguments, the ROOT globals and now/today only:
   nothing the template being extended assigned, captured or bound around the block *)
Theorem C15_render_in_block_only_explicit_args : forall c na dis x,
  resolve (copy (copy_block c) na dis) x = first_hit x (na :: base c ++ [builtin_ns]).
Proof. exact render_in_block_sees_only_arguments_and_globals. Qed.
Print Assumptions C15_render_in_block_only_explicit_args.

(* C15_render_isolated through blocks: from inside the block-scoped copy a render tag prints and ends exactly as in the
   context of the template being extended, whenever its arguments evaluate alike in the two (e.g. literals) *)
Theorem C15_render_isolated_through_block : forall f E name var args c,
  eval_kwargs (e_uk E) (copy_block c) args [] = eval_kwargs (e_uk E) c args [] ->
  (forall p lp a, var = Some (p, lp, a) -> eval_path (e_uk E) (copy_block c) p = eval_path (e_uk E) c p) ->
  obs (exec (S f) E (NRender name var args) (copy_block c)) = obs (exec (S f) E (NRender name var args) c).
Proof. exact render_isolated_through_block. Qed.
Print Assumptions C15_render_isolated_through_block.

(* the whole block tag: an overriding block consisting of a render tag with literal arguments prints what that tag
   prints at the top level of the base template *)
Theorem C15_block_render_isolated : forall f E bname own ovs name args c,
  is_disabled TBlock c = false -> overrides c = Some ovs ->
  alookup bname ovs = Some [NRender name None args] -> literal_args args ->
  obs (exec (S (S f)) E (NBlock bname own) c) =
  match obs (exec (S f) E (NRender name None args) c) with
  | Some (out, Normal) => Some (out ++ [], Normal)
  | r => r
  end.
Proof. exact block_render_isolated. Qed.
Print Assumptions C15_block_render_isolated.

Theorem C15_macro_isolated_through_block : forall f E name kws c,
  alookup name (macros (copy_block c)) = alookup name (macros c) ->
  (forall ps body, alookup name (macros (copy_block c)) = Some (ps, body) ->
     macro_namespace (e_uk E) (copy_block c) ps kws = macro_namespace (e_uk E) c ps kws) ->
  obs (exec (S f) E (NCall name kws) (copy_block c)) = obs (exec (S f) E (NCall name kws) c).
Proof. exact call_isolated_through_block. Qed.
Print Assumptions C15_macro_isolated_through_block.

(* what an overriding block assigns, captures or counts never reaches the template being extended *)
Theorem C15_block_leaves_base_template : forall f E bname own ovs c c' o s,
  overrides c = Some ovs -> exec f E (NBlock bname own) c = Done c' o s -> c' = c.
Proof. exact block_leaves_base_template. Qed.
Print Assumptions C15_block_leaves_base_template.

(* include stays disabled inside an inheritance block rendered within a partial or macro body (with
   C15_include_disabled_everywhere: it raises wherever it is reached there) *)
Theorem C15_block_keeps_include_disabled : forall c, is_disabled TInclude (copy_block c) = is_disabled TInclude c.
Proof. exact block_keeps_include_disabled. Qed.
Print Assumptions C15_block_keeps_include_disabled.

(* witness of the repaired defect: the block-scoped copy used to drop the disabled tags *)
Theorem C15_block_keeps_include_disabled_old_refuted :
  ~ (forall c, is_disabled TInclude (copy_block_enabled_old c) = is_disabled TInclude c).
Proof. exact block_keeps_include_disabled_old_refuted. Qed.
Print Assumptions C15_block_keeps_include_disabled_old_refuted.

(* witness for the seeded variant (root globals not propagated by the block-scoped branch of copy) *)
Theorem C15_render_in_block_isolated_old_refuted : ~ render_in_block_isolated_old.
Proof. exact render_in_block_isolated_old_refuted. Qed.
Print Assumptions C15_render_in_block_isolated_old_refuted.

(* ---- non-vacuity and reading aids (tests) ---- *)
Definition ex_out (r : string) := NOut (FPlain (EPath (Path (slit r) [])) []).
Definition ex_assign (x v : string) := NAssign (slit x) (FPlain (ELit (LStr (slit v))) []).
Definition ex_p := [ex_out "x"; ex_out "y"; ex_assign "y" "py"; ex_out "y"].

(* the caller's y is invisible to the partial and survives it; a nested partial does not see the outer argument x *)
Example C15_isolation_example :
  run_case (Case MStrict UDefault default_flags [(slit "p", ex_p); (slit "q", [NText (slit "<"); NRender (slit "p") None []; NText (slit ">")])]
              [(slit "g", VInt 1)] [] [] []
              [ex_assign "y" "cy"; NRender (slit "p") None [(slit "x", ELit (LInt 1))]; ex_out "y";
               NRender (slit "q") None [(slit "x", ELit (LInt 2)); (slit "y", ELit (LInt 3))]; ex_out "y"])
  = Ok (slit "1pycy<py>cy").
Proof. vm_compute. reflexivity. Qed.

Example C15_include_disabled_example :
  run_case (Case MStrict UDefault default_flags [(slit "p", [NText (slit "a"); NFor (slit "i") (IRange 1 2) [NInclude (slit "r") None []] []]); (slit "r", [])]
              [] [] [] [] [NRender (slit "p") None []]) = Err EDisabledTag.
Proof. vm_compute. reflexivity. Qed.

Example C15_render_for_example :
  run_case (Case MStrict UDefault default_flags [(slit "p", [NText (slit "["); ex_out "seen"; NText (slit "]"); ex_assign "seen" "s"; NIncr (slit "n")])]
              [(slit "l", VList [VInt 1; VInt 2])] [] [] [] [NRender (slit "p") (Some (Path (slit "l") [], true, None)) []])
  = Ok (slit "[]0[]0").
Proof. vm_compute. reflexivity. Qed.

(* two callers satisfying the hypotheses of C15_render_isolated that differ in scopes, locals and counters *)
Example C15_hypotheses_satisfiable :
  let c1 := Ctx [[(slit "x", VInt 9)]] [(slit "y", VInt 8)] [[(slit "g", VInt 1)]] [[(slit "g", VInt 1)]] [(slit "x", 3%Z)] [] [] None default_flags in
  let c2 := Ctx [] [] [[(slit "g", VInt 1)]] [[(slit "g", VInt 1)]] [] [] [] None default_flags in
  base c1 = base c2 /\ cfg c1 = cfg c2 /\ eval_kwargs UDefault c1 [(slit "a", EPath (Path (slit "g") []))] [] = eval_kwargs UDefault c2 [(slit "a", EPath (Path (slit "g") []))] [].
Proof. vm_compute. repeat split. Qed.

(* the base template assigns secret and binds i around the block; the partial rendered from the overriding block sees
   neither, the block itself (block scope) sees both; the block's own assignment does not reach the base template *)
Example C15_inheritance_example :
  run_case (Case MStrict UDefault default_flags
              [(slit "base", [ex_assign "secret" "LEAK"; NFor (slit "i") (IRange 7 7) [NText (slit "<"); NBlock (slit "b") [NText (slit "base")]; NText (slit ">")] []; ex_out "w"]);
               (slit "p", [NText (slit "["); ex_out "secret"; ex_out "i"; ex_out "g"; NText (slit "]")])]
              [(slit "g", VStr (slit "G"))] [] [] []
              [NExtends (slit "base") [(slit "b", [ex_out "secret"; ex_out "i"; ex_assign "w" "W"; NRender (slit "p") None []])]])
  = Ok (slit "<LEAK7[G]>").
Proof. vm_compute. reflexivity. Qed.

(* a rendered partial that extends a base template still cannot include from inside its overriding block *)
Example C15_include_in_block_of_partial_example :
  run_case (Case MStrict UDefault default_flags
              [(slit "child", [NExtends (slit "base") [(slit "b", [NInclude (slit "inc") None []])]]);
               (slit "base", [NText (slit "<"); NBlock (slit "b") []; NText (slit ">")]); (slit "inc", [NText (slit "I")])]
              [] [] [] [] [NRender (slit "child") None []]) = Err EDisabledTag.
Proof. vm_compute. reflexivity. Qed.
