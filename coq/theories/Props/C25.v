(* C25 — Built-in filters honour their documented contracts.  Property theorems only. *)
From Coq Require Import String Sorted Permutation.
From LiquidVerif Require Import Prelude PyPrims Filters Filters_Proofs.
Local Open Scope string_scope. Local Open Scope list_scope.

(* truncate: unchanged when it fits; otherwise a prefix plus the ellipsis, no longer than max(limit, ellipsis) —
   for every string, every integer limit (negative included) and every ellipsis *)
Theorem C25_truncate : forall (s : str) (n : Z) (e : str),
  ((slen s <= n)%Z -> truncate_chars s n e = s) /\
  ((n < slen s)%Z -> exists p rest, truncate_chars s n e = p ++ e /\ s = p ++ rest /\
                                   (slen (p ++ e) <= Z.max n (slen e))%Z).
Proof. exact truncate_contract. Qed.
Print Assumptions C25_truncate.

(* the code before the fix violates both halves *)
Theorem C25_truncate_old_refuted :
  truncate_chars_old (lit "abc") 3 (lit "...") = lit "..." /\
  truncate_chars_old (lit "abcdefgh") 2 (lit "...") = lit "abcdefg...".
Proof. vm_compute. split; reflexivity. Qed.
Print Assumptions C25_truncate_old_refuted.

(* truncatewords keeps at most max(n,1) words *)
Theorem C25_truncatewords : forall (s : str) (n : Z) (e : str),
  let n' := Z.max n 1 in
  (n' < MAX_TRUNC_WORDS)%Z ->
  let kept := firstn (Z.to_nat n') (words s) in
  (Z.of_nat (length kept) <= n')%Z /\
  truncatewords s n e = join_str [32%N] kept ++ (if (Z.of_nat (length (words s)) <? n')%Z then [] else e).
Proof. exact truncatewords_contract. Qed.
Print Assumptions C25_truncatewords.

(* split then join with the same separator restores the string — under exactly the guard the code needs
   (the two excluded shapes are the recorded known findings) *)
Theorem C25_split_join_partial : forall s sep : str,
  s <> [] -> sep <> [] -> sep <> [32%N] -> s <> sep ->
  exists l, f_split (VStr s) (VStr sep) = FOk (VList (map VStr l)) /\
            f_join (VList (map VStr l)) (VStr sep) = FOk (VStr s).
Proof. exact split_join_filter. Qed.
Print Assumptions C25_split_join_partial.

(* the full statement is false of the faithful model: the witnesses *)
Theorem C25_split_join_refuted :
  (exists l, f_split (VStr (lit "a  b")) (VStr (lit " ")) = FOk (VList l) /\ f_join (VList l) (VStr (lit " ")) = FOk (VStr (lit "a b"))) /\
  (f_split (VStr (lit "a")) (VStr (lit "a")) = FOk (VList []) /\ f_join (VList []) (VStr (lit "a")) = FOk (VStr [])).
Proof. split; [eexists; split; vm_compute; reflexivity | split; vm_compute; reflexivity]. Qed.
Print Assumptions C25_split_join_refuted.

(* sort: an ascending permutation, stable *)
Theorem C25_sort : forall zs : list Z, 2 <= length zs ->
  exists zs', f_sort (VList (map VInt zs)) = FOk (VList (map VInt zs')) /\ Permutation zs' zs /\ StronglySorted Z.le zs'.
Proof. exact sort_ints. Qed.
Print Assumptions C25_sort.

Theorem C25_sort_by_key : forall (A : Type) (key : A -> skey) (l : list A),
  Permutation (sort_by key l) l /\ StronglySorted (kle key) (sort_by key l) /\
  (forall k, filter (keq key k) (sort_by key l) = filter (keq key k) l).
Proof. intros. split; [apply sort_by_perm|split; [apply sort_by_sorted|intro; apply sort_by_stable]]. Qed.
Print Assumptions C25_sort_by_key.

(* uniq, compact, reverse, concat, where/reject *)
Theorem C25_uniq : forall l seen,
  (forall x, memv x (uniq_go l seen) = true -> memv x l = true) /\ length (uniq_go l seen) <= length l.
Proof. exact uniq_first_occurrences. Qed.
Print Assumptions C25_uniq.

Theorem C25_compact : forall l x, In x (filter (fun v => negb (is_nil v)) l) <-> In x l /\ x <> VNil.
Proof. exact compact_spec. Qed.
Print Assumptions C25_compact.

Theorem C25_reverse : forall l, (forall x, In x l -> match x with VList _ => False | _ => True end) ->
  exists r, f_reverse (VList l) = FOk (VList r) /\ f_reverse (VList r) = FOk (VList l) /\ r = rev l.
Proof. exact reverse_involutive. Qed.
Print Assumptions C25_reverse.

Theorem C25_concat : forall l l2, (forall x, In x l -> match x with VList _ => False | _ => True end) ->
  f_concat (VList l) (VList l2) = FOk (VList (l ++ l2)).
Proof. exact concat_contract. Qed.
Print Assumptions C25_concat.

Theorem C25_where_reject_partition : forall (p : val -> bool) l,
  Permutation (filter p l ++ filter (fun x => negb (p x)) l) l.
Proof. exact (@where_reject_partition val). Qed.
Print Assumptions C25_where_reject_partition.

(* integer arithmetic: exact; divided_by is floor division, modulo its remainder; division by zero is a Liquid error *)
Theorem C25_int_arith : forall a b,
  f_plus (VInt a) (VInt b) = FOk (VInt (a + b)) /\
  f_minus (VInt a) (VInt b) = FOk (VInt (a - b)) /\
  f_times (VInt a) (VInt b) = FOk (VInt (a * b)) /\
  f_abs (VInt a) = FOk (VInt (Z.abs a)) /\
  f_at_least (VInt a) (VInt b) = FOk (VInt (Z.max a b)) /\
  f_at_most (VInt a) (VInt b) = FOk (VInt (Z.min a b)) /\
  f_ceil (VInt a) = FOk (VInt a) /\ f_floor (VInt a) = FOk (VInt a) /\ f_round (VInt a) = FOk (VInt a).
Proof. exact int_arith. Qed.
Print Assumptions C25_int_arith.

Theorem C25_int_division : forall a b,
  (b <> 0%Z ->
   exists q r, f_divided_by (VInt a) (VInt b) = FOk (VInt q) /\ f_modulo (VInt a) (VInt b) = FOk (VInt r) /\
               a = (b * q + r)%Z /\ ((0 <= r < b)%Z \/ (b < r <= 0)%Z)) /\
  (f_divided_by (VInt a) (VInt 0) = FErr EFilterArg /\ f_modulo (VInt a) (VInt 0) = FErr EFilterArg).
Proof. exact int_division. Qed.
Print Assumptions C25_int_division.

(* default, size, slice, first, last *)
Theorem C25_default : forall d,
  (forall v, In v [VNil; VUndef; VBool false; VStr []; VList []; VDict []] -> f_default v d false = FOk d) /\
  (forall z, f_default (VInt z) d false = FOk (VInt z)) /\
  (forall m e, f_default (VDec m e) d false = FOk (VDec m e)) /\
  f_default (VBool true) d false = FOk (VBool true) /\
  f_default (VBool false) d true = FOk (VBool false) /\
  (forall c s, f_default (VStr (c :: s)) d false = FOk (VStr (c :: s))) /\
  (forall x l, f_default (VList (x :: l)) d false = FOk (VList (x :: l))).
Proof. exact default_contract. Qed.
Print Assumptions C25_default.

Theorem C25_size :
  (forall s, f_size (VStr s) = FOk (VInt (Z.of_nat (length s)))) /\
  (forall l, f_size (VList l) = FOk (VInt (Z.of_nat (length l)))) /\
  (forall d, f_size (VDict d) = FOk (VInt (Z.of_nat (length d)))) /\
  (forall v, match v with VStr _ | VList _ | VDict _ => True | _ => f_size v = FOk (VInt 0) end).
Proof. exact size_contract. Qed.
Print Assumptions C25_size.

Theorem C25_slice_from_start : forall (l : list val) (a n : Z),
  (0 <= a < 9223372036854775807)%Z -> (0 <= n < 9223372036854775807)%Z -> (a + n < 9223372036854775807)%Z ->
  f_slice (VList l) (VInt a) (VInt n) = FOk (VList (firstn (Z.to_nat n) (skipn (Z.to_nat a) l))).
Proof. exact slice_from_start. Qed.
Print Assumptions C25_slice_from_start.

Theorem C25_slice_from_end : forall (l : list val) (k n : Z),
  (1 <= k <= Z.of_nat (length l))%Z -> (k <= n < 9223372036854775807)%Z ->
  f_slice (VList l) (VInt (- k)) (VInt n) = FOk (VList (skipn (length l - Z.to_nat k) l)).
Proof. exact slice_from_end. Qed.
Print Assumptions C25_slice_from_end.

Theorem C25_first_last : forall x l,
  f_first (VList (x :: l)) = FOk x /\ f_last (VList (x :: l)) = FOk (last (x :: l) VNil) /\
  f_first (VList []) = FOk VNil /\ f_last (VList []) = FOk VNil /\
  (forall s, f_first (VStr s) = FOk VNil /\ f_last (VStr s) = FOk VNil).
Proof. exact first_last_contract. Qed.
Print Assumptions C25_first_last.

(* non-vacuity *)
Example C25_split_join_nonvacuous :
  f_split (VStr (lit "a,,b,")) (VStr (lit ",")) = FOk (VList [VStr (lit "a"); VStr []; VStr (lit "b"); VStr []]).
Proof. vm_compute. reflexivity. Qed.
