(* C25 — Built-in filters honour their documented contracts.  Property theorems only.
   First part (Filters.v): truncate, truncatewords, split/join, sort, uniq, compact, reverse, concat, where/reject, integer
   arithmetic, default, size, slice, first/last on arrays.  Second part (Filters2.v): case and whitespace filters,
   strip_newlines, sort_natural, map, default and first/last on every value, and the number filters on ints and decimals
   against exact rational arithmetic (Coq's Q). *)
From Coq Require Import String Sorted Permutation ZArith QArith Qabs.
From LiquidVerif Require Import Prelude PyPrims Filters Filters_Proofs Filters2 Filters2_Proofs Filters2_Num_Proofs.
Local Open Scope Z_scope. Local Open Scope nat_scope. Local Open Scope string_scope. Local Open Scope list_scope.

(* truncate: unchanged when it fits; otherwise a prefix plus the ellipsis, no longer than max(limit, ellipsis) —
   for every string, every integer limit (negative included) and every ellipsis *)
Theorem C25_truncate : forall (s : str) (n : Z) (e : str),
  ((slen s <= n)%Z -> truncate_chars s n e = s) /\
  ((n < slen s)%Z -> exists p rest, truncate_chars s n e = p ++ e /\ s = p ++ rest /\
                                   (slen (p ++ e) <= Z.max n (slen e))%Z).
Proof. exact truncate_contract. Qed.
Print Assumptions C25_truncate.

(* the code before the fix violates both halves *)
Theorem C25_truncate_old_refuted :
  truncate_chars_old (lit "abc") 3 (lit "...") = lit "..." /\
  truncate_chars_old (lit "abcdefgh") 2 (lit "...") = lit "abcdefg...".
Proof. vm_compute. split; reflexivity. Qed.
Print Assumptions C25_truncate_old_refuted.

(* truncatewords keeps at most max(n,1) words *)
Theorem C25_truncatewords : forall (s : str) (n : Z) (e : str),
  let n' := Z.max n 1 in
  (n' < MAX_TRUNC_WORDS)%Z ->
  let kept := firstn (Z.to_nat n') (words s) in
  (Z.of_nat (length kept) <= n')%Z /\
  truncatewords s n e = join_str [32%N] kept ++ (if (Z.of_nat (length (words s)) <? n')%Z then [] else e).
Proof. exact truncatewords_contract. Qed.
Print Assumptions C25_truncatewords.

(* split then join with the same separator restores the string — under exactly the guard the code needs
   (the two excluded shapes are the recorded known findings) *)
Theorem C25_split_join_partial : forall s sep : str,
  s <> [] -> sep <> [] -> sep <> [32%N] -> s <> sep ->
  exists l, f_split (VStr s) (VStr sep) = FOk (VList (map VStr l)) /\
            f_join (VList (map VStr l)) (VStr sep) = FOk (VStr s).
Proof. exact split_join_filter. Qed.
Print Assumptions C25_split_join_partial.

(* the full statement is false of the faithful model: the witnesses *)
Theorem C25_split_join_refuted :
  (exists l, f_split (VStr (lit "a  b")) (VStr (lit " ")) = FOk (VList l) /\ f_join (VList l) (VStr (lit " ")) = FOk (VStr (lit "a b"))) /\
  (f_split (VStr (lit "a")) (VStr (lit "a")) = FOk (VList []) /\ f_join (VList []) (VStr (lit "a")) = FOk (VStr [])).
Proof. split; [eexists; split; vm_compute; reflexivity | split; vm_compute; reflexivity]. Qed.
Print Assumptions C25_split_join_refuted.

(* sort: an ascending permutation, stable *)
Theorem C25_sort : forall zs : list Z, 2 <= length zs ->
  exists zs', f_sort (VList (map VInt zs)) = FOk (VList (map VInt zs')) /\ Permutation zs' zs /\ StronglySorted Z.le zs'.
Proof. exact sort_ints. Qed.
Print Assumptions C25_sort.

Theorem C25_sort_by_key : forall (A : Type) (key : A -> skey) (l : list A),
  Permutation (sort_by key l) l /\ StronglySorted (kle key) (sort_by key l) /\
  (forall k, filter (keq key k) (sort_by key l) = filter (keq key k) l).
Proof. intros. split; [apply sort_by_perm|split; [apply sort_by_sorted|intro; apply sort_by_stable]]. Qed.
Print Assumptions C25_sort_by_key.

(* uniq, compact, reverse, concat, where/reject *)
Theorem C25_uniq : forall l seen,
  (forall x, memv x (uniq_go l seen) = true -> memv x l = true) /\ length (uniq_go l seen) <= length l.
Proof. exact uniq_first_occurrences. Qed.
Print Assumptions C25_uniq.

Theorem C25_compact : forall l x, In x (filter (fun v => negb (is_nil v)) l) <-> In x l /\ x <> VNil.
Proof. exact compact_spec. Qed.
Print Assumptions C25_compact.

Theorem C25_reverse : forall l, (forall x, In x l -> match x with VList _ => False | _ => True end) ->
  exists r, f_reverse (VList l) = FOk (VList r) /\ f_reverse (VList r) = FOk (VList l) /\ r = rev l.
Proof. exact reverse_involutive. Qed.
Print Assumptions C25_reverse.

Theorem C25_concat : forall l l2, (forall x, In x l -> match x with VList _ => False | _ => True end) ->
  f_concat (VList l) (VList l2) = FOk (VList (l ++ l2)).
Proof. exact concat_contract. Qed.
Print Assumptions C25_concat.

Theorem C25_where_reject_partition : forall (p : val -> bool) l,
  Permutation (filter p l ++ filter (fun x => negb (p x)) l) l.
Proof. exact (@where_reject_partition val). Qed.
Print Assumptions C25_where_reject_partition.

(* integer arithmetic: exact; divided_by is floor division, modulo its remainder; division by zero is a Liquid error *)
Theorem C25_int_arith : forall a b,
  f_plus (VInt a) (VInt b) = FOk (VInt (a + b)) /\
  f_minus (VInt a) (VInt b) = FOk (VInt (a - b)) /\
  f_times (VInt a) (VInt b) = FOk (VInt (a * b)) /\
  f_abs (VInt a) = FOk (VInt (Z.abs a)) /\
  f_at_least (VInt a) (VInt b) = FOk (VInt (Z.max a b)) /\
  f_at_most (VInt a) (VInt b) = FOk (VInt (Z.min a b)) /\
  f_ceil (VInt a) = FOk (VInt a) /\ f_floor (VInt a) = FOk (VInt a) /\ f_round (VInt a) = FOk (VInt a).
Proof. exact int_arith. Qed.
Print Assumptions C25_int_arith.

Theorem C25_int_division : forall a b,
  (b <> 0%Z ->
   exists q r, f_divided_by (VInt a) (VInt b) = FOk (VInt q) /\ f_modulo (VInt a) (VInt b) = FOk (VInt r) /\
               a = (b * q + r)%Z /\ ((0 <= r < b)%Z \/ (b < r <= 0)%Z)) /\
  (f_divided_by (VInt a) (VInt 0) = FErr EFilterArg /\ f_modulo (VInt a) (VInt 0) = FErr EFilterArg).
Proof. exact int_division. Qed.
Print Assumptions C25_int_division.

(* default, size, slice, first, last *)
Theorem C25_default : forall d,
  (forall v, In v [VNil; VUndef; VBool false; VStr []; VList []; VDict []] -> f_default v d false = FOk d) /\
  (forall z, f_default (VInt z) d false = FOk (VInt z)) /\
  (forall m e, f_default (VDec m e) d false = FOk (VDec m e)) /\
  f_default (VBool true) d false = FOk (VBool true) /\
  f_default (VBool false) d true = FOk (VBool false) /\
  (forall c s, f_default (VStr (c :: s)) d false = FOk (VStr (c :: s))) /\
  (forall x l, f_default (VList (x :: l)) d false = FOk (VList (x :: l))).
Proof. exact default_contract. Qed.
Print Assumptions C25_default.

Theorem C25_size :
  (forall s, f_size (VStr s) = FOk (VInt (Z.of_nat (length s)))) /\
  (forall l, f_size (VList l) = FOk (VInt (Z.of_nat (length l)))) /\
  (forall d, f_size (VDict d) = FOk (VInt (Z.of_nat (length d)))) /\
  (forall v, match v with VStr _ | VList _ | VDict _ => True | _ => f_size v = FOk (VInt 0) end).
Proof. exact size_contract. Qed.
Print Assumptions C25_size.

Theorem C25_slice_from_start : forall (l : list val) (a n : Z),
  (0 <= a < 9223372036854775807)%Z -> (0 <= n < 9223372036854775807)%Z -> (a + n < 9223372036854775807)%Z ->
  f_slice (VList l) (VInt a) (VInt n) = FOk (VList (firstn (Z.to_nat n) (skipn (Z.to_nat a) l))).
Proof. exact slice_from_start. Qed.
Print Assumptions C25_slice_from_start.

Theorem C25_slice_from_end : forall (l : list val) (k n : Z),
  (1 <= k <= Z.of_nat (length l))%Z -> (k <= n < 9223372036854775807)%Z ->
  f_slice (VList l) (VInt (- k)) (VInt n) = FOk (VList (skipn (length l - Z.to_nat k) l)).
Proof. exact slice_from_end. Qed.
Print Assumptions C25_slice_from_end.

Theorem C25_first_last : forall x l,
  f_first (VList (x :: l)) = FOk x /\ f_last (VList (x :: l)) = FOk (last (x :: l) VNil) /\
  f_first (VList []) = FOk VNil /\ f_last (VList []) = FOk VNil /\
  (forall s, f_first (VStr s) = FOk VNil /\ f_last (VStr s) = FOk VNil).
Proof. exact first_last_contract. Qed.
Print Assumptions C25_first_last.


(* ====================================================================== *)
(* second part                                                             *)

(* upcase / downcase (ASCII): a letter of the other case moves by 32, every other character stays; the filters work
   character by character, leave no letter of the other case, are idempotent and do not disturb a case-insensitive
   comparison *)
Theorem C25_case_chars : forall c,
  ((is_lower c -> up c = (c - 32)%N /\ is_upper (up c)) /\ (~ is_lower c -> up c = c)) /\
  ((is_upper c -> low c = (c + 32)%N /\ is_lower (low c)) /\ (~ is_upper c -> low c = c)).
Proof. intro c. split; [apply up_char|apply low_char]. Qed.
Print Assumptions C25_case_chars.

Theorem C25_upcase : forall s : str,
  length (map up s) = length s /\
  (forall i, nth i (map up s) 0%N = up (nth i s 0%N)) /\
  Forall (fun c => ~ is_lower c) (map up s) /\
  map up (map up s) = map up s /\
  map low (map up s) = map low s.
Proof. exact upcase_contract. Qed.
Print Assumptions C25_upcase.

Theorem C25_downcase : forall s : str,
  length (map low s) = length s /\
  (forall i, nth i (map low s) 0%N = low (nth i s 0%N)) /\
  Forall (fun c => ~ is_upper c) (map low s) /\
  map low (map low s) = map low s /\
  map up (map low s) = map up s.
Proof. exact downcase_contract. Qed.
Print Assumptions C25_downcase.

(* capitalize: first character upper-cased, the rest lower-cased *)
Theorem C25_capitalize :
  capitalize_s [] = [] /\
  (forall c r, capitalize_s (c :: r) = up c :: map low r) /\
  (forall s, length (capitalize_s s) = length s) /\
  (forall s, capitalize_s (capitalize_s s) = capitalize_s s).
Proof. exact capitalize_contract. Qed.
Print Assumptions C25_capitalize.

(* what a string filter does with a value that is not a string *)
Theorem C25_string_filter_inputs : forall f : str -> str,
  (forall s, str_filter1 f (VStr s) = FOk (VStr (f s))) /\
  str_filter1 f VNil = FOk (VStr (f [])) /\ str_filter1 f VUndef = FOk (VStr (f [])) /\
  (forall z, str_filter1 f (VInt z) = FOk (VStr (f (Z_to_str z)))) /\
  (forall b, str_filter1 f (VBool b) = FOk (VStr (f (if b then lit "True" else lit "False")))).
Proof. exact string_filter_inputs. Qed.
Print Assumptions C25_string_filter_inputs.

(* lstrip / rstrip / strip remove exactly the leading / trailing / surrounding run of whitespace *)
Theorem C25_lstrip : forall s : str,
  exists a, s = a ++ lstrip_s s /\ all_space a /\ starts_nonspace (lstrip_s s).
Proof. exact lstrip_contract. Qed.
Print Assumptions C25_lstrip.

Theorem C25_rstrip : forall s : str,
  exists b, s = rstrip_s s ++ b /\ all_space b /\ ends_nonspace (rstrip_s s).
Proof. exact rstrip_contract. Qed.
Print Assumptions C25_rstrip.

Theorem C25_strip : forall s : str,
  exists a b, s = a ++ strip_s s ++ b /\ all_space a /\ all_space b /\
              starts_nonspace (strip_s s) /\ ends_nonspace (strip_s s).
Proof. exact strip_contract. Qed.
Print Assumptions C25_strip.

(* strip_newlines: the result is the one string allowed by the relation SN (every LF goes, with a CR directly before it;
   nothing else); it contains no LF; a string without LF is unchanged; idempotent; all other characters kept in order *)
Theorem C25_strip_newlines : forall s : str,
  (forall o, SN s o <-> o = strip_newlines_s s) /\
  ~ In 10%N (strip_newlines_s s) /\
  (~ In 10%N s -> strip_newlines_s s = s) /\
  strip_newlines_s (strip_newlines_s s) = strip_newlines_s s /\
  filter (fun c => negb (c =? 10)%N && negb (c =? 13)%N) (strip_newlines_s s) =
  filter (fun c => negb (c =? 10)%N && negb (c =? 13)%N) s.
Proof. exact strip_newlines_contract. Qed.
Print Assumptions C25_strip_newlines.

(* sort_natural: a new list with the same items in ascending order of their lower-cased text, equal keys in their
   original order *)
Theorem C25_sort_natural : forall l : list val,
  (forall x, In x l -> match x with VList _ => False | _ => True end) ->
  (forall x, In x l -> py_str x <> None) ->
  exists l', f_sort_natural (VList l) = FOk (VList l') /\
             Permutation l' l /\
             StronglySorted (fun a b => str_leb (lkey a) (lkey b) = true) l' /\
             (forall k, filter (same_key k) l' = filter (same_key k) l).
Proof. exact sort_natural_contract. Qed.
Print Assumptions C25_sort_natural.

(* the keys: case-insensitive for strings; nil sorts as none, numbers as their digits, booleans as true / false;
   same_key k means: the key equals k *)
Theorem C25_sort_natural_keys :
  ((forall s, lkey (VStr s) = map low s) /\
   (forall s, lkey (VStr (map up s)) = lkey (VStr s)) /\
   lkey VNil = lit "none" /\
   (forall z, lkey (VInt z) = map low (Z_to_str z)) /\
   lkey (VBool true) = lit "true" /\ lkey (VBool false) = lit "false") /\
  (forall k x, same_key k x = true <-> lkey x = k).
Proof. split; [exact sort_natural_keys|exact same_key_eq]. Qed.
Print Assumptions C25_sort_natural_keys.

(* map over an array of hashes: item for item the value of the property, nil where it is missing *)
Theorem C25_map_hashes : forall (ds : list (list (str * val))) (k : str),
  f_map2 (VList (map VDict ds)) (VStr k) = FOk (VList (map (prop_or_nil k) ds)).
Proof. exact map_hashes. Qed.
Print Assumptions C25_map_hashes.

(* a single hash, undefined, a nil item (whole result nil), a number among the items (FilterError) *)
Theorem C25_map_other_inputs : forall k : str,
  (forall d, f_map2 (VDict d) (VStr k) = FOk (VList [prop_or_nil k d])) /\
  f_map2 VUndef (VStr k) = FOk (VList []) /\
  (forall ds rest, f_map2 (VList (map VDict ds ++ VNil :: rest)) (VStr k) = FOk VNil) /\
  (forall ds z rest, f_map2 (VList (map VDict ds ++ VInt z :: rest)) (VStr k) = FErr ELiquid).
Proof. exact map_other_inputs. Qed.
Print Assumptions C25_map_other_inputs.

(* default, for every value: the argument exactly for nil, undefined, false (unless allow_false is the boolean true) and
   the empty string / array / hash; the input itself for everything else *)
Theorem C25_default_all : forall v d : val,
  (forall af, f_default v d af = FOk (if blank v af then d else v)) /\
  (forall afv, f_default2 v d afv = FOk (if blank v (match afv with VBool true => true | _ => false end) then d else v)).
Proof. exact default_all. Qed.
Print Assumptions C25_default_all.

(* first / last on hashes and on values that are not collections *)
Theorem C25_first_last_others :
  (forall k x d, f_first (VDict ((k, x) :: d)) = FOk (VList [VStr k; x])) /\
  f_first (VDict []) = FOk VNil /\
  (forall d, f_last (VDict d) = FOk VNil) /\
  (forall v, match v with VList _ | VDict _ | VUndef => True | _ => f_first v = FOk VNil /\ f_last v = FOk VNil end).
Proof. exact first_last_others. Qed.
Print Assumptions C25_first_last_others.

(* ---- numbers: num_Q is the exact value of an operand (int z: z; decimal m e: m / 10^e; anything that is not a number: 0),
   val_Q the exact value of a result ---- *)

(* plus, minus, times: exact for every pair of inputs; ints stay ints *)
Theorem C25_plus_minus_times_exact : forall v o : val,
  let a := math_in v in let b := math_in o in
  (exists r, f_plus v o = FOk r /\ numeric r /\ (val_Q r == num_Q a + num_Q b)%Q) /\
  (exists r, f_minus v o = FOk r /\ numeric r /\ (val_Q r == num_Q a - num_Q b)%Q) /\
  (exists r, f_times v o = FOk r /\ numeric r /\ (val_Q r == num_Q a * num_Q b)%Q) /\
  (forall x y, a = NInt x -> b = NInt y ->
     f_plus v o = FOk (VInt (x + y)) /\ f_minus v o = FOk (VInt (x - y)) /\ f_times v o = FOk (VInt (x * y))).
Proof. exact plus_minus_times_exact. Qed.
Print Assumptions C25_plus_minus_times_exact.

Theorem C25_abs_exact : forall v : val,
  exists r, f_abs v = FOk r /\ numeric r /\ (val_Q r == Qabs (num_Q (math_in v)))%Q.
Proof. exact abs_exact. Qed.
Print Assumptions C25_abs_exact.

(* at_least: one of the two operands, not below either; at_most: one of the two, not above either *)
Theorem C25_at_least_at_most_exact : forall v o : val,
  let a := num_Q (math_in v) in let b := num_Q (math_in o) in
  (exists r, f_at_least v o = FOk r /\ numeric r /\ ((val_Q r == a \/ val_Q r == b) /\ a <= val_Q r /\ b <= val_Q r)%Q) /\
  (exists r, f_at_most v o = FOk r /\ numeric r /\ ((val_Q r == a \/ val_Q r == b) /\ val_Q r <= a /\ val_Q r <= b)%Q).
Proof. exact at_least_at_most_exact. Qed.
Print Assumptions C25_at_least_at_most_exact.

(* floor: the largest integer not above the value; ceil: the smallest integer not below it *)
Theorem C25_floor_ceil_exact : forall v : val,
  let q := num_Q (math_in v) in
  (exists z, f_floor v = FOk (VInt z) /\ (inject_Z z <= q /\ q < inject_Z (z + 1))%Q) /\
  (exists z, f_ceil v = FOk (VInt z) /\ (inject_Z (z - 1) < q /\ q <= inject_Z z)%Q).
Proof. exact floor_ceil_exact. Qed.
Print Assumptions C25_floor_ceil_exact.

(* round: an integer within one half of the value, the even one at exactly one half *)
Theorem C25_round_exact : forall v : val,
  let q := num_Q (math_in v) in
  exists z, f_round v = FOk (VInt z) /\ (Qabs (q - inject_Z z) <= 1 # 2)%Q /\ ((Qabs (q - inject_Z z) == 1 # 2)%Q -> Z.even z = true).
Proof. exact round_exact. Qed.
Print Assumptions C25_round_exact.

(* round with n > 0 digits: ints and decimals of at most n places unchanged; otherwise r * 10^n is the integer nearest to
   value * 10^n.  Zero digits, nil and undefined: plain round.  Negative digits: 0 (what the code does; undocumented). *)
Theorem C25_round_digits_exact : forall (v : val) (n : Z), (0 < n)%Z ->
  let q := num_Q (math_in v) in
  (forall x, math_in v = NInt x -> f_round2 v (VInt n) = FOk (VInt x)) /\
  (forall m e, math_in v = NDec m e -> (Z.of_nat e <= n)%Z ->
     exists r, f_round2 v (VInt n) = FOk r /\ numeric r /\ (val_Q r == q)%Q) /\
  (forall m e, math_in v = NDec m e -> (n < Z.of_nat e)%Z ->
     exists r z, f_round2 v (VInt n) = FOk r /\ numeric r /\
       (val_Q r * inject_Z (pow10 (Z.to_nat n)) == inject_Z z)%Q /\
       (Qabs (q * inject_Z (pow10 (Z.to_nat n)) - inject_Z z) <= 1 # 2)%Q /\
       ((Qabs (q * inject_Z (pow10 (Z.to_nat n)) - inject_Z z) == 1 # 2)%Q -> Z.even z = true)) /\
  (forall k, (k < 0)%Z -> f_round2 v (VInt k) = FOk (VInt 0)) /\
  f_round2 v (VInt 0) = f_round v /\ f_round2 v VUndef = f_round v /\ f_round2 v VNil = f_round v.
Proof. exact round_digits_exact. Qed.
Print Assumptions C25_round_digits_exact.

(* divided_by (repaired): floor division of two ints; a zero divisor is FilterArgumentError; otherwise every result of the
   model is the exact quotient (result * divisor = dividend) *)
Theorem C25_divided_by_exact : forall v o : val,
  let a := math_in v in let b := math_in o in
  (forall x y, a = NInt x -> b = NInt y ->
     f_divided_by2 v o = if (y =? 0)%Z then FErr EFilterArg else FOk (VInt (x / y))) /\
  (mant b = 0%Z -> f_divided_by2 v o = FErr EFilterArg) /\
  (is_int a && is_int b = false -> forall r, f_divided_by2 v o = FOk r ->
     numeric r /\ (val_Q r * num_Q b == num_Q a)%Q).
Proof. exact divided_by_exact. Qed.
Print Assumptions C25_divided_by_exact.

(* modulo (repaired): a = b * k + r for an integer k, with r between 0 and the divisor, for ints and decimals alike *)
Theorem C25_modulo_exact : forall v o : val,
  let a := math_in v in let b := math_in o in
  (mant b = 0%Z -> f_modulo2 v o = FErr EFilterArg) /\
  (mant b <> 0%Z ->
   exists r k, f_modulo2 v o = FOk r /\ numeric r /\
     (num_Q a == num_Q b * inject_Z k + val_Q r)%Q /\
     ((0 <= val_Q r /\ val_Q r < num_Q b)%Q \/ (num_Q b < val_Q r /\ val_Q r <= 0)%Q) /\
     (is_int a && is_int b = true -> exists z, r = VInt z)).
Proof. exact modulo_exact. Qed.
Print Assumptions C25_modulo_exact.

(* before the repairs: -7.0 modulo 2 was -1.0 (sign of the dividend) although -7 modulo 2 is 1, and a boolean next to a
   float raised FilterArgumentError although it is 1 / 0 next to an int *)
Theorem C25_modulo_old_refuted :
  f_modulo_old (VDec (-70) 1) (VInt 2) = FOk (VDec (-10) 1) /\ f_modulo2 (VDec (-70) 1) (VInt 2) = FOk (VDec 10 1) /\
  f_modulo2 (VInt (-7)) (VInt 2) = FOk (VInt 1).
Proof. vm_compute. repeat split; reflexivity. Qed.
Print Assumptions C25_modulo_old_refuted.

Theorem C25_math_bool_old_refuted :
  f_plus_old (VBool true) (VDec 2 1) = FErr EFilterArg /\ f_plus_old (VBool true) (VInt 1) = FOk (VInt 2) /\
  f_plus (VBool true) (VDec 2 1) = FOk (VDec 12 1).
Proof. vm_compute. repeat split; reflexivity. Qed.
Print Assumptions C25_math_bool_old_refuted.

(* non-vacuity *)
Example C25_split_join_nonvacuous :
  f_split (VStr (lit "a,,b,")) (VStr (lit ",")) = FOk (VList [VStr (lit "a"); VStr []; VStr (lit "b"); VStr []]).
Proof. vm_compute. reflexivity. Qed.

(* second part: the hypotheses are satisfiable and the models compute *)
Example C25_divided_by_nonvacuous :
  f_divided_by2 (VDec 3 1) (VDec 1 1) = FOk (VDec 30 1) /\ f_divided_by2 (VInt 1) (VDec 1 1) = FOk (VDec 100 1) /\
  f_divided_by2 (VInt 20) (VDec 70 1) = FErr EOtherForeign /\ f_divided_by2 (VDec 75 1) (VDec 0 1) = FErr EFilterArg.
Proof. vm_compute. repeat split; reflexivity. Qed.
Example C25_round_digits_nonvacuous :
  f_round2 (VDec 183357 3) (VInt 2) = FOk (VDec 18336 2) /\ f_round2 (VDec 125 2) (VInt 1) = FOk (VDec 12 1) /\
  f_round2 (VInt 1234) (VInt (-1)) = FOk (VInt 0) /\ f_round2 (VDec 155 2) (VStr (lit "1")) = FOk (VDec 16 1).
Proof. vm_compute. repeat split; reflexivity. Qed.
Example C25_sort_natural_nonvacuous :
  f_sort_natural (VList [VStr (lit "b"); VNil; VStr (lit "A"); VInt 10; VStr (lit "a")]) =
  FOk (VList [VInt 10; VStr (lit "A"); VStr (lit "a"); VStr (lit "b"); VNil]).
Proof. vm_compute. reflexivity. Qed.
Example C25_strip_newlines_nonvacuous :
  strip_newlines_s [97; 10; 98; 13; 10; 99; 13; 100; 13; 13; 10]%N = [97; 98; 99; 13; 100; 13]%N /\
  strip_s [28; 32; 97; 32; 98; 31; 9]%N = [97; 32; 98]%N.
Proof. vm_compute. split; reflexivity. Qed.
