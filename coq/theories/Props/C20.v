(* C20 — Reported locations point at the reported item.  Property theorems only.
   Model: Lex.v (template lexer with start offsets, liquid-tag line scanner, line_col). *)
From Coq Require Import String.
From LiquidVerif Require Import Prelude Lex LexSpec Lex_Proofs Lex_C20_Proofs ExprLex ExprLex_Proofs MacroArgs.
Local Open Scope string_scope. Local Open Scope list_scope.

(* Offset invariant of the scanner.  For all delimiters (tag and output closing delimiters non-empty), for the
   repaired and the unrepaired variant of the code, and for ALL sources (well-formed or not): every token produced
   by the template lexer starts strictly inside the source, and for output, expression and tag tokens the token's
   value is exactly the source text at its start offset: src[start : start+len(value)] = value.  (Content, raw,
   comment and doc tokens carry the start of their match; their value is a stripped / inner part of the match.) *)
Theorem C20_token_offsets : forall d q src ts, nonempty (d_te d) = true -> nonempty (d_se d) = true ->
  tokenize_q d q src = Ok ts -> forall t, In t ts -> tok_ok src t.
Proof. exact token_offsets. Qed.
Print Assumptions C20_token_offsets.

(* The LiquidSyntaxError raised by the lexer itself ("expected '}}', found end of file") carries a position
   strictly inside the source. *)
Theorem C20_lexer_error_position : forall d q src p, nonempty (d_te d) = true -> nonempty (d_se d) = true ->
  In (LexErr p) (scan d q src) -> (p < N.of_nat (length src))%N.
Proof. exact lexer_error_position. Qed.
Print Assumptions C20_lexer_error_position.

(* Composition of offsets, as used by the expression tokenizer (parent_token.start_index + match.start()) and by
   the liquid tag: if a token's value v is the source text at offset a, then the piece of v at relative offset m
   is the source text at offset a + m. *)
Theorem C20_offset_composition : forall (src : str) a (v : str) m l,
  sub src a (length v) = v -> m + l <= length v -> sub src (a + m) l = sub v m l.
Proof. exact sub_sub. Qed.
Print Assumptions C20_offset_composition.

(* Inner tokens of a liquid tag (start = expression token's start + offset inside the expression): if the liquid tag's
   expression token points at its own text in the source, then every inner tag / expression token of the line scanner
   starts inside that expression and points at its own text in the source. *)
Theorem C20_liquid_inner_offsets : forall d (src : str) base expr ts,
  sub src (N.to_nat base) (length expr) = expr ->
  liquid_tokens d base expr = Ok ts -> forall t, In t ts ->
  (N.to_nat (t_start t) < N.to_nat base + length expr) /\
  sub src (N.to_nat (t_start t)) (length (t_value t)) = t_value t.
Proof. exact liquid_inner_offsets. Qed.
Print Assumptions C20_liquid_inner_offsets.

(* Expression tokens (liquid/builtin/expressions/_tokenize.py, modelled rule by rule in ExprLex.v).  For every
   expression text src, every parent offset base, every token the tokenizer yields and the token carried by its own
   syntax error ("unexpected 'x'", "unknown operator"): the start is base + o with o strictly inside the expression,
   and the token's value is the expression text at  o + value_offset,  where value_offset is 0 for every kind except
     string       1                         (the text after the opening quote),
     identindex   1 + leading whitespace    (the digits after "[" and whitespace),
     identstring  2 + leading whitespace    (the text after "[", whitespace and the quote);
   for error tokens the value is the text at o itself. *)
Theorem C20_expr_token_offsets : forall base src i, In i (etokenize base src) -> eitem_ok base src i.
Proof. exact expr_token_offsets. Qed.
Print Assumptions C20_expr_token_offsets.

(* a STRING match is: a quote, the value, the same quote *)
Theorem C20_expr_string_enclosed : forall s vo vl tot, ematch s = EM EString vo vl tot ->
  exists q, is_quote q = true /\ sub s 0 1 = [q] /\ sub s (1 + vl) 1 = [q] /\ tot = vl + 2.
Proof. exact ematch_string. Qed.
Print Assumptions C20_expr_string_enclosed.

(* composition with the template lexer: if the expression token (value expr, start base) points at its own text in the
   template source (C20_token_offsets, C20_liquid_inner_offsets), every token of the expression points at its own text
   in the TEMPLATE source: start_index = parent_token.start_index + match.start() is right. *)
Theorem C20_expr_tokens_in_source : forall (src : str) base expr t,
  sub src (N.to_nat base) (length expr) = expr ->
  In (ETok t) (etokenize base expr) ->
  let o := N.to_nat (e_start t) - N.to_nat base in
  N.to_nat base <= N.to_nat (e_start t) < N.to_nat base + length expr /\
  sub src (N.to_nat (e_start t) + value_offset (e_kind t) (skipn (S o) expr)) (length (e_value t)) = e_value t.
Proof. exact expr_tokens_in_source. Qed.
Print Assumptions C20_expr_tokens_in_source.

(* Line and column (Span.line_col, LiquidError._error_context): for every index inside the source the computation
   succeeds — so formatting an error whose token comes from the lexer cannot raise ValueError — and returns the
   1-based number of the line containing the index and the distance of the index from that line's start. *)
Theorem C20_line_col_total : forall src index, (index < N.of_nat (length src))%N ->
  exists k c, line_col src index = Some (N.of_nat (S k), c)
              /\ k < length (line_lens 0 src)
              /\ (nsum (firstn k (line_lens 0 src)) + c = index)%N
              /\ (c < nth k (line_lens 0 src) 0)%N.
Proof. exact line_col_total. Qed.
Print Assumptions C20_line_col_total.

(* the lines partition the source ... *)
Theorem C20_lines_cover_source : forall src, nsum (line_lens 0 src) = N.of_nat (length src).
Proof. exact line_lens_cover. Qed.
Print Assumptions C20_lines_cover_source.

(* ... and an index at or beyond the end of the source is exactly the ValueError case *)
Theorem C20_line_col_out_of_range : forall src index, (N.of_nat (length src) <= index)%N -> line_col src index = None.
Proof. exact line_col_out_of_range. Qed.
Print Assumptions C20_line_col_out_of_range.

(* non-vacuity / reading aids *)
Example C20_tokens_example :
  tokenize default_delims (lit "a {%- if x.y -%} {{ z | f }}") =
  Ok [ {| t_kind := KContent; t_value := lit "a"; t_start := 0 |};
       {| t_kind := KTag; t_value := lit "if"; t_start := 6 |};
       {| t_kind := KExpr; t_value := lit "x.y"; t_start := 9 |};
       {| t_kind := KOutput; t_value := lit "{{ z | f }}"; t_start := 17 |};
       {| t_kind := KExpr; t_value := lit "z | f"; t_start := 20 |} ].
Proof. vm_compute. reflexivity. Qed.

Example C20_expr_tokens_example :
  etokenize 10 (lit "a.b[ 'k' ] | f: (1..n), 'x y' >= 2.5 and q? =! z") =
  [ ETok {| e_kind := EWord; e_value := lit "a"; e_start := 10 |}; ETok {| e_kind := EDot; e_value := lit "."; e_start := 11 |};
    ETok {| e_kind := EWord; e_value := lit "b"; e_start := 12 |}; ETok {| e_kind := EIdentString; e_value := lit "k"; e_start := 13 |};
    ETok {| e_kind := EPipe; e_value := lit "|"; e_start := 21 |}; ETok {| e_kind := EWord; e_value := lit "f"; e_start := 23 |};
    ETok {| e_kind := EColon; e_value := lit ":"; e_start := 24 |}; ETok {| e_kind := ERangeLit; e_value := lit "("; e_start := 26 |};
    ETok {| e_kind := EInteger; e_value := lit "1"; e_start := 27 |}; ETok {| e_kind := ERange; e_value := lit ".."; e_start := 28 |};
    ETok {| e_kind := EWord; e_value := lit "n"; e_start := 30 |}; ETok {| e_kind := ERparen; e_value := lit ")"; e_start := 31 |};
    ETok {| e_kind := EComma; e_value := lit ","; e_start := 32 |}; ETok {| e_kind := EString; e_value := lit "x y"; e_start := 34 |};
    ETok {| e_kind := EGe; e_value := lit ">="; e_start := 40 |}; ETok {| e_kind := EFloat; e_value := lit "2.5"; e_start := 43 |};
    ETok {| e_kind := EKeyword; e_value := lit "and"; e_start := 47 |}; ETok {| e_kind := EWord; e_value := lit "q?"; e_start := 51 |};
    EErrOp (lit "=!") 54 ].
Proof. vm_compute. reflexivity. Qed.

Example C20_line_col_example : line_col (lit "ab" ++ [10%N] ++ lit "cd" ++ [13; 10]%N ++ lit "e") 7 = Some (3%N, 0%N).
Proof. vm_compute. reflexivity. Qed.
