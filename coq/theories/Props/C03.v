(* C03 -- placeholder while the proofs are written *)
From LiquidVerif Require Import Prelude Recover.
