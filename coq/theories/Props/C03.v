(* C03 -- Lax and warn modes suppress errors without changing correct output.  Property theorems only.
   The model (Recover.v; all standard tags and the liquid.extra tags) is the parser's and the render loop's error handling under Mode.STRICT / WARN / LAX over the token
   stream of the template lexer; a log records the warnings a run emitted and the errors Environment.error did not re-raise. *)
From Coq Require Import String.
From LiquidVerif Require Import Prelude Recover Recover_Proofs.
Local Open Scope string_scope. Local Open Scope list_scope.

(* lax mode: EVERY token stream parses, whatever the block nesting limit, and no warning is issued; the only exception that can
   leave the parser is a non-Liquid one raised by an expression parser (Tag.get_node catches LiquidError only; see C02) *)
Theorem C03_lax_parse_total : forall lim ts,
  (exists b l, parse Lax lim ts = Ok (b, l) /\ emitted l = []) \/ (exists e, parse Lax lim ts = Err e /\ is_liquid e = false).
Proof. exact lax_parse_total. Qed.
Print Assumptions C03_lax_parse_total.

(* lax mode: rendering any parse tree finishes with output and no warning; the only exception that can leave it is a
   non-Liquid one raised by an expression (those are outside this property, see C02) *)
Theorem C03_lax_render_total : forall b,
  (exists t l, render Lax b = Ok (t, l) /\ emitted l = []) \/ (exists e, render Lax b = Err e /\ is_liquid e = false).
Proof. exact lax_render_total. Qed.
Print Assumptions C03_lax_render_total.

(* the whole run in lax mode never ends in a Liquid error and never warns *)
Theorem C03_lax_never_raises_liquid : forall lim ts,
  match run_recover (mk_case Lax lim ts) with
  | OOut _ n => n = 0
  | OParseErr e | ORenderErr e => is_liquid e = false
  | OFuel => False
  end.
Proof. exact run_lax_never_raises_liquid. Qed.
Print Assumptions C03_lax_never_raises_liquid.

(* warn mode parses to the same tree as lax mode, and its warnings are exactly the errors lax mode suppressed, in order *)
Theorem C03_warn_is_lax_plus_warnings : forall lim ts,
  (exists b l, parse Lax lim ts = Ok (b, l) /\ emitted l = [] /\
               parse Warn lim ts = Ok (b, {| emitted := suppressed l; suppressed := suppressed l |})) \/
  (exists e, parse Lax lim ts = Err e /\ parse Warn lim ts = Err e /\ is_liquid e = false).
Proof. exact warn_parse_is_lax_parse. Qed.
Print Assumptions C03_warn_is_lax_plus_warnings.

(* ... and renders to the same text, again with one warning per suppressed error, in order *)
Theorem C03_warn_render_is_lax_plus_warnings : forall b,
  (exists t l, render Lax b = Ok (t, l) /\ emitted l = [] /\
               render Warn b = Ok (t, {| emitted := suppressed l; suppressed := suppressed l |})) \/
  (exists e, render Lax b = Err e /\ render Warn b = Err e /\ is_liquid e = false).
Proof. exact warn_render_is_lax_render. Qed.
Print Assumptions C03_warn_render_is_lax_plus_warnings.

(* the observable form: same text, and the number of warnings is the number of errors suppressed while parsing and rendering *)
Theorem C03_warn_run_is_lax_run : forall lim ts,
  match parse Lax lim ts with
  | Ok (b, l1) =>
      match render Lax b with
      | Ok (t, l2) => run_recover (mk_case Lax lim ts) = OOut t 0 /\
                      run_recover (mk_case Warn lim ts) = OOut t (List.length (suppressed l1) + List.length (suppressed l2))
      | Err e => run_recover (mk_case Lax lim ts) = ORenderErr e /\ run_recover (mk_case Warn lim ts) = ORenderErr e /\ is_liquid e = false
      | OutOfFuel => False
      end
  | Err e => run_recover (mk_case Lax lim ts) = OParseErr e /\ run_recover (mk_case Warn lim ts) = OParseErr e /\ is_liquid e = false
  | OutOfFuel => False
  end.
Proof. exact run_warn_is_lax. Qed.
Print Assumptions C03_warn_run_is_lax_run.

(* a source that parses in strict mode parses to the same tree in every mode, with nothing suppressed and nothing warned *)
Theorem C03_strict_parse_invariant : forall lim ts b l,
  parse Strict lim ts = Ok (b, l) -> l = log0 /\ forall m, parse m lim ts = Ok (b, log0).
Proof. exact strict_parse_invariant. Qed.
Print Assumptions C03_strict_parse_invariant.

(* a tree that renders in strict mode renders to the same text in every mode, with nothing suppressed and nothing warned *)
Theorem C03_strict_render_invariant : forall b t l,
  render Strict b = Ok (t, l) -> l = log0 /\ forall m, render m b = Ok (t, log0).
Proof. exact strict_render_invariant. Qed.
Print Assumptions C03_strict_render_invariant.

(* together: a template that parses and renders without error in strict mode gives the same output, without warnings, in every mode *)
Theorem C03_strict_success_invariant : forall lim ts t n,
  run_recover (mk_case Strict lim ts) = OOut t n -> n = 0 /\ forall m, run_recover (mk_case m lim ts) = OOut t 0.
Proof. exact run_strict_invariant. Qed.
Print Assumptions C03_strict_success_invariant.

(* the parser's loops always advance: with one unit of fuel more than there are tokens (those inside liquid tags included) no mode ever runs out (also C09) *)
Theorem C03_parse_progress : forall m lim f ts, S (tsize ts) <= f -> parse_fuel m lim f ts <> OutOfFuel.
Proof. exact parse_progress. Qed.
Print Assumptions C03_parse_progress.

(* the two defects repaired for this property, as they were (fixes C03-when-list-strict, C03-lax-parse-stack-depth; the check
   reproduces both on a tree without the repairs) *)
Theorem C03_when_list_old_refuted :
  let rs := RVal [] 0 in let rl := RVal [] 1 in
  let ts := fun m => [TTag Ncase; TExpr (XOk (RVal [] 1)); TTag Nwhen; TExpr (XOk (when_value_old m rs rl)); TContent [104%N]; TTag Nendcase] in
  run_recover (mk_case Strict 30 (ts Strict)) = OOut [] 0 /\ run_recover (mk_case Lax 30 (ts Lax)) = OOut [104%N] 0.
Proof. exact when_list_old_refuted. Qed.
Print Assumptions C03_when_list_old_refuted.

Theorem C03_deep_nesting_old_refuted :
  parse Lax 30 [TOutput; TExpr (XBad ERecursionError)] = Err ERecursionError /\
  parse Lax 30 [TOutput; TExpr (XBad EContextDepth)] = Ok (BCons NIllegal BNil, {| emitted := []; suppressed := [EContextDepth] |}).
Proof. exact deep_nesting_old_refuted. Qed.
Print Assumptions C03_deep_nesting_old_refuted.

(* ---- non-vacuity and reading aids (tests, not theorems) ---- *)
Definition s (x : String.string) : str := slit x.
Definition tv (n : nat) : tok := TExpr (XOk (RVal [] n)).

(* {% if p %}A{% elsif q %}B{% else %}C{% endif %}D with p false, q true: strict succeeds, all modes agree *)
Example C03_strict_example :
  let ts := [TTag Nif; tv 0; TContent (s "A"); TTag Nelsif; tv 1; TContent (s "B"); TTag Nelse; TContent (s "C"); TTag Nendif; TContent (s "D")] in
  run_recover (mk_case Strict 30 ts) = OOut (s "BD") 0 /\ run_recover (mk_case Warn 30 ts) = OOut (s "BD") 0.
Proof. vm_compute. split; reflexivity. Qed.

(* {% if p %}A{% elsif %}B{% else %}C{% endif %}D: the elsif recovery; strict raises, warn warns twice (elsif, stray endif), lax is silent *)
Example C03_elsif_recovery_example :
  let ts := [TTag Nif; tv 1; TContent (s "A"); TTag Nelsif; TContent (s "B"); TTag Nelse; TContent (s "C"); TTag Nendif; TContent (s "D")] in
  run_recover (mk_case Strict 30 ts) = OParseErr ESyntax /\
  run_recover (mk_case Warn 30 ts) = OOut (s "CD") 2 /\ run_recover (mk_case Lax 30 ts) = OOut (s "CD") 0.
Proof. vm_compute. repeat split; reflexivity. Qed.

(* {% assign %}hello: the failed tag has already stepped onto the text, which the loop then skips *)
Example C03_lax_swallows_token_after_bare_assign :
  run_recover (mk_case Lax 30 [TTag Nassign; TContent (s "hello")]) = OOut [] 0.
Proof. vm_compute. reflexivity. Qed.

(* a block nesting error leaves block_depth incremented: with limit 1, the second top-level if fails too *)
Example C03_nesting_error_leaks_depth :
  let i := [TTag Nif; tv 1] in let e := [TTag Nendif] in
  run_recover (mk_case Warn 1 (i ++ i ++ [TContent (s "a")] ++ e ++ [TContent (s "b")] ++ e ++ i ++ [TContent (s "c")] ++ e)) = OOut (s "b") 2.
Proof. vm_compute. reflexivity. Qed.

(* a strict-only check: accepted silently by warn and lax, rejected by strict *)
Example C03_strict_only_example :
  let ts := [TOutput; TExpr (XStrictOnly (RVal (s "S") 1))] in
  run_recover (mk_case Strict 30 ts) = OParseErr ESyntax /\ run_recover (mk_case Warn 30 ts) = OOut (s "S") 0.
Proof. vm_compute. split; reflexivity. Qed.

(* a malformed macro tag has no end tag to recover to (Tag.end is the empty string): everything after it is dropped *)
Example C03_bad_macro_swallows_the_rest :
  run_recover (mk_case Lax 30 [TContent (s "a"); TTag Nmacro; TContent (s "b"); TTag Nendmacro; TContent (s "c")]) = OOut (s "a") 0.
Proof. vm_compute. reflexivity. Qed.

(* a liquid tag: the inner unknown line is dropped, the rest of the block survives; an unclosed inner if drops what follows it *)
Example C03_liquid_example :
  let e := [TTag Necho; TExpr (XOk (RVar (s "O") 1))] in
  run_recover (mk_case Warn 30 [TTag Nliquid; TLiquid (Some (e ++ [TTag Nunknown] ++ e))]) = OOut (s "OO") 1 /\
  run_recover (mk_case Warn 30 [TTag Nliquid; TLiquid (Some (e ++ [TTag Nif; TExpr (XOk (RVar [] 1))] ++ e))]) = OOut (s "O") 1.
Proof. vm_compute. split; reflexivity. Qed.

(* translate: an inner error is suppressed, then the message validation rejects the IllegalNode it left: two warnings *)
Example C03_translate_example :
  run_recover (mk_case Warn 30 [TTag Ntranslate; TContent (s "a"); TTag Nunknown; TTag Nendtranslate; TContent (s "b")]) = OOut (s "b") 2.
Proof. vm_compute. reflexivity. Qed.
