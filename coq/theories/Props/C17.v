(* C17 — Rendering is pure and independent of history.  Property theorems only. *)
From Coq Require Import String ZArith List.
From LiquidVerif Require Import Prelude MemoPurity MemoPurity_Proofs.
Import ListNotations.
Local Open Scope list_scope.

(* A memo table (functools.lru_cache: bounded, least recently used evicted, first key kept, raising calls not stored)
   in front of a function f is invisible -- after EVERY history of earlier calls a call returns exactly f of its
   argument -- whenever two keys that the table identifies (Python hash-and-==) are keys on which f agrees. *)
Theorem C17_memo_transparent : forall (K V : Type) (keq : K -> K -> bool) (f : K -> res V) (cap : nat),
  respects keq f -> forall hist k, fst (memo_call keq f cap (memo_state keq f cap [] hist) k) = f k.
Proof. exact @memo_transparent. Qed.
Print Assumptions C17_memo_transparent.

(* ... and the converse: one pair of keys that the table identifies but f distinguishes makes the history visible
   (whatever the capacity, as long as the table stores anything). *)
Theorem C17_memo_collision_visible : forall (K V : Type) (keq : K -> K -> bool) (f : K -> res V) (cap : nat) (k k' : K) (v : V),
  keq k' k = true -> f k = Ok v -> f k' <> Ok v -> (1 <= cap)%nat ->
  fst (memo_call keq f cap (memo_state keq f cap [] [k]) k') <> f k'.
Proof. exact @memo_collision_visible. Qed.
Print Assumptions C17_memo_collision_visible.

(* The table never grows beyond its capacity, whatever the history. *)
Theorem C17_memo_bounded : forall (K V : Type) (keq : K -> K -> bool) (f : K -> res V) (cap : nat) hist,
  (length (memo_state keq f cap [] hist) <= cap)%nat.
Proof. exact @memo_bounded. Qed.
Print Assumptions C17_memo_bounded.

(* The repaired date filter (only the parsing of a date string is memoised, keyed by its text and the day): after any
   history of calls, on any days, with any arguments, it returns what it returns in a process that has rendered
   nothing -- for every table ft of fresh-process behaviours. *)
Theorem C17_date_history_independent : forall ft hist day k,
  fst (date_new_call ft (date_new_state ft [] hist) day k) = dlook ft k.
Proof. exact date_new_history_independent. Qed.
Print Assumptions C17_date_history_independent.

(* The date filter as it was (lru_cache around the whole filter, keys compared with ==): refuted.  After
   1 | date: '%Y' the call 1.0 | date: '%Y' returns the stored 1970 instead of raising. *)
Theorem C17_date_old_refuted :
  exists ft hist k, fst (date_old_call ft (memo_state dkey_py_eq (dlook ft) date_cap [] hist) k) <> dlook ft k.
Proof. exact date_old_refuted. Qed.
Print Assumptions C17_date_old_refuted.

(* lru_cache(typed=True) would not have repaired it: equal instants in different time zones have one type. *)
Theorem C17_date_typed_cache_refuted :
  exists ft hist k,
    fst (memo_call dkey_typed_eq (dlook ft) date_cap (memo_state dkey_typed_eq (dlook ft) date_cap [] hist) k) <> dlook ft k.
Proof. exact date_typed_cache_refuted. Qed.
Print Assumptions C17_date_typed_cache_refuted.

(* The process: implicit-environment table (liquid.Template, keys compared with ==), lexer table, parser table and
   date-string table in front of the fresh-process behaviour ft of render jobs.  If ft does not depend on the TYPE of
   environment arguments that compare equal (extra=1 / True / 1.0 ...: checked on the implementation for every such
   pair the run generates), a job gives after ANY history of jobs what it gives in a process that has rendered nothing. *)
Theorem C17_history_independent : forall ft,
  cfg_respected ft -> forall hist j, fst (step ft (proc_state ft proc0 hist) j) = jlook ft j.
Proof. exact proc_history_independent. Qed.
Print Assumptions C17_history_independent.

(* Partial (data immutability): Gallina values cannot be mutated, so this only says that the modelled array filters
   (default, first, last, concat, reverse, sort, compact, uniq, size, join), applied in any chain to any heap of list
   objects, leave every list object that existed with the contents it had; which filters hand back an alias and which
   a new object is compared with the implementation case by case.  The mutation check proper (deep copy of the data
   and of the template around every render) is implementation-side. *)
Theorem C17_filters_never_write_partial : forall fs h l a,
  (a < length h)%nat -> cells (fst (chain h l fs)) a = cells h a.
Proof. exact filters_never_write. Qed.
Print Assumptions C17_filters_never_write_partial.

(* non-vacuity: a collision of 1 and 1.0 under ==, none under the repaired model; a fresh table that respects
   equal-but-distinct environment arguments; a chain that aliases and allocates *)
Example C17_py_eq_example : py_eq (PInt 1) (PFloat 2) = true /\ py_eq (PInt 1) (PBool true) = true /\
  py_eq (PStr (mlit "a"%string)) (PMarkup (mlit "a"%string)) = true /\ py_eq (PDt 5 0) (PDt 5 60) = true /\
  py_eq (PInt 1) (PStr (mlit "1"%string)) = false.
Proof. vm_compute. repeat split. Qed.

Example C17_date_new_example :
  fst (date_new_call old_witness_table (date_new_state old_witness_table [] [(0%Z, (PInt 1, y_fmt, 0%N))]) 0%Z (PFloat 2, y_fmt, 0%N))
  = Err EFilterArg.
Proof. vm_compute. reflexivity. Qed.

Example C17_cfg_respected_example : cfg_respected [].
Proof. intros a b _. reflexivity. Qed.

Example C17_effect_example :
  run_effect {| ec_heap := [[CNum 1; CNum 2]]; ec_op := FConcat; ec_left := VUndef; ec_arg := VList 0 |} = AArg /\
  run_effect {| ec_heap := [[CNum 1; CNum 2]]; ec_op := FReverse; ec_left := VList 0; ec_arg := VNil |} = AFresh /\
  run_effect {| ec_heap := [[CNum 1; CNum 2]]; ec_op := FDefault; ec_left := VList 0; ec_arg := VNil |} = AInput.
Proof. vm_compute. repeat split. Qed.
