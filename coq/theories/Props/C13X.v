From LiquidVerif Require Import Prelude PyPrims LoopSliceX.
Theorem C13x_tmp : tr_col tr_init = 0%Z. Proof. reflexivity. Qed.
Print Assumptions C13x_tmp.
