(* C16 — Strict undefined types only refine the default behaviour.  Property theorems only. *)
From Coq Require Import String.
From LiquidVerif Require Import Prelude PyPrims Scope Scope_Proofs Scope_Undef_Proofs.
Local Open Scope string_scope. Local Open Scope list_scope.

(* if rendering succeeds with any undefined type (StrictUndefined, FalsyStrictUndefined, StrictDefaultUndefined),
   the default undefined type gives the same output — for every template, partials, data and global layers
   (strict tolerance mode: in lax mode errors are swallowed by design, see the last example) *)
Theorem C16_refinement : forall k u out,
  k_mode k = MStrict -> run_case (with_uk k u) = Ok out -> run_case (with_uk k UDefault) = Ok out.
Proof. exact run_case_refines. Qed.
Print Assumptions C16_refinement.

(* the simulation behind it, node by node: every run that does not end in an exception is reproduced, with the
   same context, text and completion (also break / continue), by the default undefined type *)
Theorem C16_simulation : forall fuel uk ld ft, filters_refine ft -> forall n c c' o s,
  exec fuel (Env MStrict uk ld ft) n c = Done c' o s -> no_raise s ->
  exec fuel (Env MStrict UDefault ld ft) n c = Done c' o s.
Proof. exact exec_refines. Qed.
Print Assumptions C16_simulation.

(* StrictUndefined: outputting a missing variable (with or without filters) raises UndefinedError ... *)
Theorem C16_strict_raises_on_output : forall f md ld ft c e fs,
  eval_expr UStrict c e = Ok VUndef -> (forall flt, hd_error fs = Some flt -> concrete flt) ->
  exec (S f) (Env md UStrict ld ft) (NOut (FPlain e fs)) c = Done c [] (Raise EUndefined).
Proof. exact strict_output_raises. Qed.
Print Assumptions C16_strict_raises_on_output.

(* ... filtering it does, even if the result is only assigned ... *)
Theorem C16_strict_raises_on_filter : forall f md ld ft c x e flt fs,
  eval_expr UStrict c e = Ok VUndef -> concrete flt ->
  exec (S f) (Env md UStrict ld ft) (NAssign x (FPlain e (flt :: fs))) c = Done c [] (Raise EUndefined).
Proof. exact strict_filter_raises. Qed.
Print Assumptions C16_strict_raises_on_filter.

(* ... iterating it does ... *)
Theorem C16_strict_raises_on_iterate : forall f md ld ft c x p body els,
  eval_path UStrict c p = Ok VUndef ->
  exec (S f) (Env md UStrict ld ft) (NFor x (IPath p) body els) c = Done c [] (Raise EUndefined).
Proof. exact strict_iterate_raises. Qed.
Print Assumptions C16_strict_raises_on_iterate.

(* ... and comparing or testing it does (the first operand of the condition) *)
Theorem C16_strict_raises_on_compare : forall f md ld ft c cd th el,
  eval_expr UStrict c (atom_expr (cond_head cd)) = Ok VUndef ->
  exec (S f) (Env md UStrict ld ft) (NIf cd th el) c = Done c [] (Raise EUndefined).
Proof. exact strict_compare_raises. Qed.
Print Assumptions C16_strict_raises_on_compare.

(* a variable bound nowhere IS such an undefined value, under every undefined type: resolving never raises *)
Theorem C16_missing_variable_is_undefined : forall uk c x,
  resolve c x = None -> eval_expr uk c (EPath (Path x [])) = Ok VUndef.
Proof. exact missing_name_is_undefined. Qed.
Print Assumptions C16_missing_variable_is_undefined.

(* which use of an undefined value each type permits *)
Theorem C16_use_table : forall uk g ft c,
  to_output uk VUndef = (if strict_kind uk then Err EUndefined else Ok []) /\
  items_of g uk VUndef = (if strict_kind uk then Err EUndefined else Ok []) /\
  apply_filter ft uk c FUpcase VUndef = (if strict_kind uk then Err EUndefined else Ok (VStr [])) /\
  apply_filter ft uk c FSize VUndef = (if strict_kind uk then Err EUndefined else Ok (VInt 0)) /\
  truthy uk VUndef = (if probe_raises uk then Err EUndefined else Ok false) /\
  (forall l, apply_filter ft uk c (FDefault l) VUndef = match uk with UStrict => Err EUndefined | _ => Ok (val_of_scalar l) end) /\
  (forall attr, apply_filter ft uk c (FHas attr None) VUndef = (if strict_kind uk then Err EUndefined else Ok (VBool false))) /\
  (forall l attr, has_filter uk (VList l) attr VUndef =
                  (if probe_raises uk then Err EUndefined else has_filter uk (VList l) attr VNil)).
Proof. exact undefined_use_table. Qed.
Print Assumptions C16_use_table.

(* the default undefined type never raises UndefinedError: not for a missing variable, not for a missing path, not
   anywhere in any template, in either tolerance mode *)
Theorem C16_default_never_raises : forall k, run_case (with_uk k UDefault) <> Err EUndefined.
Proof. exact run_case_default_never_undefined. Qed.
Print Assumptions C16_default_never_raises.

Theorem C16_default_never_raises_node : forall fuel md ld ft, filters_default_ok ft -> forall n c c' o s,
  exec fuel (Env md UDefault ld ft) n c = Done c' o s -> s <> Raise EUndefined.
Proof. exact exec_default_never_undefined. Qed.
Print Assumptions C16_default_never_raises_node.

(* ... and a path always evaluates *)
Theorem C16_default_path_total : forall c p, exists v, eval_path UDefault c p = Ok v.
Proof. exact eval_path_default_total. Qed.
Print Assumptions C16_default_path_total.

(* ---- filters in general ---- *)
(* the condition: C16_simulation (and with it the refinement) holds for EVERY table of abstract filters each of which
   returns under the default type whatever it returns under a strict type (filters_refine); C16_default_never_raises_node
   for every table whose filters never fail with UndefinedError under the default type.  A sufficient SHAPE: a guarded
   filter consults the undefined type only to decide whether an undefined left value / argument raises, and otherwise
   computes a fixed function of the values with undefined replaced by empty / nil *)
Theorem C16_guarded_filters_refine : forall rin rarg empty core,
  rin UDefault = false -> rarg UDefault = false ->
  (forall uk v args r, guarded rin rarg empty core uk v args = Ok r -> guarded rin rarg empty core UDefault v args = Ok r) /\
  ((forall v args, core v args <> Err EUndefined) -> forall v args, guarded rin rarg empty core UDefault v args <> Err EUndefined).
Proof.
  intros rin rarg empty core Hi Ha. split.
  - exact (guarded_refines rin rarg empty core Hi Ha).
  - intro Hc. exact (guarded_default_ok rin rarg empty core Hi Ha Hc).
Qed.
Print Assumptions C16_guarded_filters_refine.

(* the built-in `has` (with its is_undefined guard) is a guarded filter, for every input ... *)
Theorem C16_has_is_guarded : forall uk v attr w,
  has_filter uk v attr w =
  guarded strict_kind probe_raises (VList []) (fun v' ws => has_filter UDefault v' attr (hd VNil ws)) uk v [w].
Proof. exact has_is_guarded. Qed.
Print Assumptions C16_has_is_guarded.

(* ... hence refines the default type *)
Theorem C16_has_refines : forall uk v attr w r, has_filter uk v attr w = Ok r -> has_filter UDefault v attr w = Ok r.
Proof. exact has_filter_ref. Qed.
Print Assumptions C16_has_refines.

(* witness for the seeded variant without the guard: FalsyStrictUndefined renders, and not what the default type renders *)
Theorem C16_has_unguarded_refuted :
  exists v attr w r, has_filter_unguarded UFalsy v attr w = Ok r /\ has_filter_unguarded UDefault v attr w <> Ok r.
Proof. exact has_unguarded_not_refining. Qed.
Print Assumptions C16_has_unguarded_refuted.

(* ---- non-vacuity and reading aids (tests) ---- *)
Definition ex_p (r : string) := Path (slit r) [].
Definition ex_case (u : ukind) : case :=
  Case MStrict u default_flags [] [(slit "d", VDict [(slit "a", VInt 1)])] [] [] []
    [NAssign (slit "v") (FPlain (EPath (ex_p "nosuch")) []);
     NOut (FPlain (EPath (ex_p "nosuch")) [FDefault (LStr (slit "dflt"))]);
     NIf (COr (CTruthy (EPath (Path (slit "d") [SKey Dot (KName (slit "a"))]))) (CAtom (CTruthy (EPath (ex_p "nosuch"))))) [NText (slit "t")] []].

(* a render that succeeds under StrictDefaultUndefined and FalsyStrictUndefined, fails under StrictUndefined *)
Example C16_refinement_example :
  run_case (ex_case UStrictDefault) = Ok (slit "dfltt") /\ run_case (ex_case UFalsy) = Ok (slit "dfltt") /\
  run_case (ex_case UDefault) = Ok (slit "dfltt") /\ run_case (ex_case UStrict) = Err EUndefined.
Proof. vm_compute. repeat split. Qed.

(* why strict tolerance mode is a hypothesis: lax mode swallows the UndefinedError and the render "succeeds" *)
Example C16_lax_mode_swallows :
  run_case lax_witness = Ok (slit ".") /\ run_case (with_uk lax_witness UDefault) = Ok (slit "f.").
Proof. exact refinement_needs_strict_mode. Qed.

(* the two conditions are satisfiable: the table of the generated cases, and a table made of one guarded filter *)
Example C16_filter_conditions_satisfiable :
  filters_refine no_filters /\ filters_default_ok no_filters /\
  filters_refine (fun _ => guarded strict_kind probe_raises (VList []) (fun v _ => Ok v)).
Proof.
  split; [exact no_filters_refine|]. split; [exact no_filters_default_ok|].
  intros id uk v args r. apply guarded_refines; reflexivity.
Qed.

Example C16_has_example :
  let arr := VList [VDict [(slit "a", VInt 1)]; VDict [(slit "b", VBool false)]] in
  has_filter UDefault arr (slit "a") VUndef = Ok (VBool true) /\ has_filter UFalsy arr (slit "a") VUndef = Ok (VBool true) /\
  has_filter UStrict arr (slit "a") VUndef = Err EUndefined /\ has_filter UFalsy VUndef (slit "a") VNil = Err EUndefined /\
  has_filter UDefault arr (slit "b") (VBool false) = Ok (VBool true) /\ has_filter UDefault arr (slit "zz") VNil = Ok (VBool false).
Proof. vm_compute. repeat split. Qed.
