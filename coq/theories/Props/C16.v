(* C16 — Strict undefined types only refine the default behaviour.  Property theorems only. *)
From Coq Require Import String.
From LiquidVerif Require Import Prelude PyPrims Scope Scope_Proofs Scope_Undef_Proofs.
Local Open Scope string_scope. Local Open Scope list_scope.

(* if rendering succeeds with any undefined type (StrictUndefined, FalsyStrictUndefined, StrictDefaultUndefined),
   the default undefined type gives the same output — for every template, partials, data and global layers
   (strict tolerance mode: in lax mode errors are swallowed by design, see the last example) *)
Theorem C16_refinement : forall k u out,
  k_mode k = MStrict -> run_case (with_uk k u) = Ok out -> run_case (with_uk k UDefault) = Ok out.
Proof. exact run_case_refines. Qed.
Print Assumptions C16_refinement.

(* the simulation behind it, node by node: every run that does not end in an exception is reproduced, with the
   same context, text and completion (also break / continue), by the default undefined type *)
Theorem C16_simulation : forall fuel uk ld n c c' o s,
  exec fuel (Env MStrict uk ld) n c = Done c' o s -> no_raise s ->
  exec fuel (Env MStrict UDefault ld) n c = Done c' o s.
Proof. exact exec_refines. Qed.
Print Assumptions C16_simulation.

(* StrictUndefined: outputting a missing variable (with or without filters) raises UndefinedError ... *)
Theorem C16_strict_raises_on_output : forall f md ld c e fs,
  eval_expr UStrict c e = Ok VUndef ->
  exec (S f) (Env md UStrict ld) (NOut (FPlain e fs)) c = Done c [] (Raise EUndefined).
Proof. exact strict_output_raises. Qed.
Print Assumptions C16_strict_raises_on_output.

(* ... filtering it does, even if the result is only assigned ... *)
Theorem C16_strict_raises_on_filter : forall f md ld c x e flt fs,
  eval_expr UStrict c e = Ok VUndef ->
  exec (S f) (Env md UStrict ld) (NAssign x (FPlain e (flt :: fs))) c = Done c [] (Raise EUndefined).
Proof. exact strict_filter_raises. Qed.
Print Assumptions C16_strict_raises_on_filter.

(* ... iterating it does ... *)
Theorem C16_strict_raises_on_iterate : forall f md ld c x p body els,
  eval_path UStrict c p = Ok VUndef ->
  exec (S f) (Env md UStrict ld) (NFor x (IPath p) body els) c = Done c [] (Raise EUndefined).
Proof. exact strict_iterate_raises. Qed.
Print Assumptions C16_strict_raises_on_iterate.

(* ... and comparing or testing it does (the first operand of the condition) *)
Theorem C16_strict_raises_on_compare : forall f md ld c cd th el,
  eval_expr UStrict c (atom_expr (cond_head cd)) = Ok VUndef ->
  exec (S f) (Env md UStrict ld) (NIf cd th el) c = Done c [] (Raise EUndefined).
Proof. exact strict_compare_raises. Qed.
Print Assumptions C16_strict_raises_on_compare.

(* a variable bound nowhere IS such an undefined value, under every undefined type: resolving never raises *)
Theorem C16_missing_variable_is_undefined : forall uk c x,
  resolve c x = None -> eval_expr uk c (EPath (Path x [])) = Ok VUndef.
Proof. exact missing_name_is_undefined. Qed.
Print Assumptions C16_missing_variable_is_undefined.

(* which use of an undefined value each type permits *)
Theorem C16_use_table : forall uk,
  to_output uk VUndef = (if strict_kind uk then Err EUndefined else Ok []) /\
  items_of uk VUndef = (if strict_kind uk then Err EUndefined else Ok []) /\
  apply_filter uk FUpcase VUndef = (if strict_kind uk then Err EUndefined else Ok (VStr [])) /\
  apply_filter uk FSize VUndef = (if strict_kind uk then Err EUndefined else Ok (VInt 0)) /\
  truthy uk VUndef = (if probe_raises uk then Err EUndefined else Ok false) /\
  (forall l, apply_filter uk (FDefault l) VUndef = match uk with UStrict => Err EUndefined | _ => Ok (val_of_scalar l) end).
Proof. exact undefined_use_table. Qed.
Print Assumptions C16_use_table.

(* the default undefined type never raises UndefinedError: not for a missing variable, not for a missing path, not
   anywhere in any template, in either tolerance mode *)
Theorem C16_default_never_raises : forall k, run_case (with_uk k UDefault) <> Err EUndefined.
Proof. exact run_case_default_never_undefined. Qed.
Print Assumptions C16_default_never_raises.

Theorem C16_default_never_raises_node : forall fuel md ld n c c' o s,
  exec fuel (Env md UDefault ld) n c = Done c' o s -> s <> Raise EUndefined.
Proof. exact exec_default_never_undefined. Qed.
Print Assumptions C16_default_never_raises_node.

(* ... and a path always evaluates *)
Theorem C16_default_path_total : forall c p, exists v, eval_path UDefault c p = Ok v.
Proof. exact eval_path_default_total. Qed.
Print Assumptions C16_default_path_total.

(* ---- non-vacuity and reading aids (tests) ---- *)
Definition ex_p (r : string) := Path (slit r) [].
Definition ex_case (u : ukind) : case :=
  Case MStrict u [] [(slit "d", VDict [(slit "a", VInt 1)])] [] [] []
    [NAssign (slit "v") (FPlain (EPath (ex_p "nosuch")) []);
     NOut (FPlain (EPath (ex_p "nosuch")) [FDefault (LStr (slit "dflt"))]);
     NIf (COr (CTruthy (EPath (Path (slit "d") [SKey Dot (KName (slit "a"))]))) (CAtom (CTruthy (EPath (ex_p "nosuch"))))) [NText (slit "t")] []].

(* a render that succeeds under StrictDefaultUndefined and FalsyStrictUndefined, fails under StrictUndefined *)
Example C16_refinement_example :
  run_case (ex_case UStrictDefault) = Ok (slit "dfltt") /\ run_case (ex_case UFalsy) = Ok (slit "dfltt") /\
  run_case (ex_case UDefault) = Ok (slit "dfltt") /\ run_case (ex_case UStrict) = Err EUndefined.
Proof. vm_compute. repeat split. Qed.

(* why strict tolerance mode is a hypothesis: lax mode swallows the UndefinedError and the render "succeeds" *)
Example C16_lax_mode_swallows :
  run_case lax_witness = Ok (slit ".") /\ run_case (with_uk lax_witness UDefault) = Ok (slit "f.").
Proof. exact refinement_needs_strict_mode. Qed.
