(* C13 — Loops visit exactly the documented items.  Property theorems only. *)
From Coq Require Import String.
From LiquidVerif Require Import Prelude PyPrims LoopSlice LoopSlice_Proofs.
Local Open Scope string_scope. Local Open Scope list_scope.

(* the visited items are those of the reference semantics, for EVERY limit and offset
   (zero, negative, huge), offset:continue and reversed *)
Theorem C13_slice_spec : forall (items : list str) stored limit offset cont rev,
  fst (fst (visit items stored limit offset cont rev)) = spec_visit items stored limit offset cont rev.
Proof. exact (@slice_matches_reference str). Qed.
Print Assumptions C13_slice_spec.

(* the length given to forloop/tablerowloop is the number of items visited (so rindex/last are right),
   and the else block runs exactly when nothing is visited *)
Theorem C13_length_is_visited_count : forall (items : list str) stored limit offset cont rev,
  let '(seg, length_, _) := visit items stored limit offset cont rev in length_ = zlen seg.
Proof. exact (@length_is_visited_count str). Qed.
Print Assumptions C13_length_is_visited_count.

Theorem C13_else_iff_empty : forall (items : list str) stored limit offset cont rev,
  let '(seg, length_, _) := visit items stored limit offset cont rev in (length_ = 0%Z <-> seg = []).
Proof. exact (@else_iff_nothing_visited str). Qed.
Print Assumptions C13_else_iff_empty.

Theorem C13_for_else : forall fuel l body els st seg st1,
  eval_loop l st = Ok (seg, 0%Z, st1) ->
  exec (S (S fuel)) [] st [BFor l body els] =
  (do r <- exec (S fuel) [] st1 els;
   let '(out, st', sg) := r in
   match sg with SNormal => Ok (out ++ [], st', SNormal) | _ => Ok (out, st', sg) end).
Proof. exact for_else_when_nothing_visited. Qed.
Print Assumptions C13_for_else.

(* forloop helpers of the k-th of n visited items, and the loop prints each visited item once, in order *)
Theorem C13_forloop_helpers : forall k n,
  let h := forloop_at k n in
  h_index h = (k + 1)%Z /\ h_index0 h = k /\ h_rindex h = (n - k)%Z /\ h_rindex0 h = (n - k - 1)%Z /\
  (h_first h = true <-> k = 0%Z) /\ (h_last h = true <-> k = (n - 1)%Z) /\ h_length h = n.
Proof. exact forloop_helpers. Qed.
Print Assumptions C13_forloop_helpers.

Theorem C13_for_prints_visited : forall fuel l els st seg n st1,
  eval_loop l st = Ok (seg, n, st1) -> n <> 0%Z ->
  exec (S (S (S (S fuel)))) [] st [BFor l [BPrint] els] = Ok (printed seg 0 (zlen seg), st1, SNormal).
Proof. exact for_prints_visited. Qed.
Print Assumptions C13_for_prints_visited.

(* offset:continue resumes exactly where the previous loop over the key stopped *)
Theorem C13_continue_chain : forall (items : list str) stored limit1 offset1 cont1 limit2,
  let '(seg1, _, stop1) := visit items stored limit1 offset1 cont1 false in
  let '(seg2, _, stop2) := visit items stop1 limit2 None true false in
  let start1 := Z.min (Z.max (slice_start stored offset1 cont1) 0) (zlen items) in
  (start1 <= stop1)%Z -> (stop1 <= stop2)%Z -> seg1 ++ seg2 = zslice items start1 stop2.
Proof. exact (@continue_chain str). Qed.
Print Assumptions C13_continue_chain.

(* tablerow: for cols = c > 0 item k is in row k/c+1, column k mod c+1, col_first / col_last accordingly *)
Theorem C13_tablerow_structure : forall c (k : nat), (0 < c)%Z ->
  let s := tr_steps c (S k) tr_init in
  tr_index s = Z.of_nat k /\ tr_row s = (Z.of_nat k / c + 1)%Z /\ tr_col s = (Z.of_nat k mod c + 1)%Z /\
  ((tr_col s =? 1)%Z = true <-> (Z.of_nat k mod c = 0)%Z) /\
  ((tr_col s =? c)%Z = true <-> (Z.of_nat k mod c = c - 1)%Z).
Proof. exact tablerow_structure. Qed.
Print Assumptions C13_tablerow_structure.

(* the arithmetic the code used before the fix (`stop or length`, unclamped) violates the reference:
   limit 0 visits everything, a negative limit raises ValueError. Kept as the witnesses. *)
Theorem C13_old_slice_refuted :
  (exists items : list Z, visit_old items 0 (Some 0%Z) None false false = Ok (items, zlen items, zlen items)
                          /\ spec_visit items 0 (Some 0%Z) None false false = [] /\ items <> []) /\
  (exists items : list Z, visit_old items 0 (Some (-1)%Z) None false false = Err EValueError).
Proof.
  split; [exists [1; 2; 3]%Z | exists [1; 2; 3]%Z]; vm_compute; repeat split; discriminate.
Qed.
Print Assumptions C13_old_slice_refuted.

(* non-vacuity: a concrete continue chain satisfying the hypotheses of C13_continue_chain *)
Example C13_chain_nonvacuous :
  let items := [lit "a"; lit "b"; lit "c"; lit "d"; lit "e"] in
  fst (fst (visit items 0 (Some 2%Z) None false false)) = [lit "a"; lit "b"] /\
  fst (fst (visit items 2 (Some 2%Z) None true false)) = [lit "c"; lit "d"].
Proof. vm_compute. split; reflexivity. Qed.
