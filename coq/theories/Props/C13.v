(* C13 — Loops visit exactly the documented items.  Property theorems only. *)
From Coq Require Import String.
From LiquidVerif Require Import Prelude PyPrims LoopSlice LoopSlice_Proofs.
Local Open Scope string_scope. Local Open Scope list_scope.

(* the visited items are those of the reference semantics, for EVERY limit and offset
   (zero, negative, huge), offset:continue and reversed *)
Theorem C13_slice_spec : forall (items : list str) stored limit offset cont rev,
  fst (fst (visit items stored limit offset cont rev)) = spec_visit items stored limit offset cont rev.
Proof. exact (@slice_matches_reference str). Qed.
Print Assumptions C13_slice_spec.

(* the length given to forloop/tablerowloop is the number of items visited (so rindex/last are right),
   and the else block runs exactly when nothing is visited *)
Theorem C13_length_is_visited_count : forall (items : list str) stored limit offset cont rev,
  let '(seg, length_, _) := visit items stored limit offset cont rev in length_ = zlen seg.
Proof. exact (@length_is_visited_count str). Qed.
Print Assumptions C13_length_is_visited_count.

Theorem C13_else_iff_empty : forall (items : list str) stored limit offset cont rev,
  let '(seg, length_, _) := visit items stored limit offset cont rev in (length_ = 0%Z <-> seg = []).
Proof. exact (@else_iff_nothing_visited str). Qed.
Print Assumptions C13_else_iff_empty.

Theorem C13_for_else : forall sq dis fuel l body els fs st seg st1,
  eval_loop sq l st = Ok (seg, 0%Z, st1) ->
  exec sq dis (S (S fuel)) fs st [BFor l body els] =
  (do r <- exec sq dis (S fuel) fs st1 els;
   let '(out, st', sg) := r in
   match sg with SNormal => Ok (out ++ [], st', SNormal) | _ => Ok (out, st', sg) end).
Proof. exact for_else_when_nothing_visited. Qed.
Print Assumptions C13_for_else.

(* forloop helpers of the k-th of n visited items, and the loop prints each visited item once, in order *)
Theorem C13_forloop_helpers : forall k n,
  let h := forloop_at k n in
  h_index h = (k + 1)%Z /\ h_index0 h = k /\ h_rindex h = (n - k)%Z /\ h_rindex0 h = (n - k - 1)%Z /\
  (h_first h = true <-> k = 0%Z) /\ (h_last h = true <-> k = (n - 1)%Z) /\ h_length h = n.
Proof. exact forloop_helpers. Qed.
Print Assumptions C13_forloop_helpers.

Theorem C13_for_prints_visited : forall sq dis fuel l els fs st seg n st1,
  eval_loop sq l st = Ok (seg, n, st1) -> n <> 0%Z ->
  exec sq dis (S (S (S (S fuel)))) fs st [BFor l [BPrint] els] = Ok (printed seg 0 (zlen seg), st1, SNormal).
Proof. exact for_prints_visited. Qed.
Print Assumptions C13_for_prints_visited.

(* offset:continue resumes exactly where the previous loop over the key stopped *)
Theorem C13_continue_chain : forall (items : list str) stored limit1 offset1 cont1 limit2,
  let '(seg1, _, stop1) := visit items stored limit1 offset1 cont1 false in
  let '(seg2, _, stop2) := visit items stop1 limit2 None true false in
  let start1 := Z.min (Z.max (slice_start stored offset1 cont1) 0) (zlen items) in
  (start1 <= stop1)%Z -> (stop1 <= stop2)%Z -> seg1 ++ seg2 = zslice items start1 stop2.
Proof. exact (@continue_chain str). Qed.
Print Assumptions C13_continue_chain.

(* tablerow: for cols = c > 0 item k is in row k/c+1, column k mod c+1, col_first / col_last accordingly *)
Theorem C13_tablerow_structure : forall c (k : nat), (0 < c)%Z ->
  let s := tr_steps c (S k) tr_init in
  tr_index s = Z.of_nat k /\ tr_row s = (Z.of_nat k / c + 1)%Z /\ tr_col s = (Z.of_nat k mod c + 1)%Z /\
  ((tr_col s =? 1)%Z = true <-> (Z.of_nat k mod c = 0)%Z) /\
  ((tr_col s =? c)%Z = true <-> (Z.of_nat k mod c = c - 1)%Z).
Proof. exact tablerow_structure. Qed.
Print Assumptions C13_tablerow_structure.

(* tablerow for every cols value that is not positive (0, negative; nil, non-numeric strings and infinity count as 0):
   a single row, the k-th item in column k+1; and for cols beyond the number of items (huge values) as well *)
Theorem C13_tablerow_nonpositive_cols : forall c (k : nat), (c <= 0)%Z ->
  tr_steps c (S k) tr_init = {| tr_index := Z.of_nat k; tr_row := 1; tr_col := Z.of_nat k + 1 |}.
Proof. exact tablerow_nonpositive. Qed.
Print Assumptions C13_tablerow_nonpositive_cols.

Theorem C13_tablerow_wide_cols : forall c (k : nat), (Z.of_nat k < c)%Z ->
  let s := tr_steps c (S k) tr_init in tr_row s = 1%Z /\ tr_col s = (Z.of_nat k + 1)%Z.
Proof. exact tablerow_wide. Qed.
Print Assumptions C13_tablerow_wide_cols.

(* a cols value never fails: it is the integer the value denotes, 0 when it denotes none *)
Theorem C13_cols_value : forall a, int_or_zero a = Ok (match to_int_arg a with Ok z => z | _ => 0%Z end).
Proof. exact cols_value. Qed.
Print Assumptions C13_cols_value.

(* limit/offset values of every kind: integers and integer strings by value, floats by their integer part,
   booleans as 0/1; nil, other strings, infinity and NaN are the Liquid type error; and the loop depends on the
   argument only through that integer *)
Theorem C13_arg_value : forall a,
  to_int_arg a =
  match a with
  | AInt z | AStrInt z => Ok z
  | AFloat m e => Ok (Z.quot m (10 ^ Z.of_nat e))
  | ABool b => Ok (if b then 1 else 0)%Z
  | ANil | AStrBad | AInf => Err EType
  end.
Proof. exact arg_value. Qed.
Print Assumptions C13_arg_value.

Theorem C13_limit_by_value : forall sq k nm it a a' o r st, to_int_arg a = to_int_arg a' ->
  eval_loop sq {| lkey := k; lname := nm; liter := it; llimit := Some a; loffset := o; lrev := r |} st =
  eval_loop sq {| lkey := k; lname := nm; liter := it; llimit := Some a'; loffset := o; lrev := r |} st.
Proof. exact limit_by_value. Qed.
Print Assumptions C13_limit_by_value.

Theorem C13_offset_by_value : forall sq k nm it lim a a' r st, to_int_arg a = to_int_arg a' ->
  eval_loop sq {| lkey := k; lname := nm; liter := it; llimit := lim; loffset := OffArg a; lrev := r |} st =
  eval_loop sq {| lkey := k; lname := nm; liter := it; llimit := lim; loffset := OffArg a'; lrev := r |} st.
Proof. exact offset_by_value. Qed.
Print Assumptions C13_offset_by_value.

(* strings as loop sources: with string_sequences the items are the characters, in order (so the slice theorems
   above apply to them); without it a string is one item, or none when empty.  Hashes: one key-value pair per entry *)
Theorem C13_string_sequence : forall s,
  iter_items true (ItStr s) = map (fun c => [c]) s /\
  length (iter_items true (ItStr s)) = length s /\ concat_str (iter_items true (ItStr s)) = s.
Proof. exact string_items_sequence. Qed.
Print Assumptions C13_string_sequence.

Theorem C13_string_single : forall s, iter_items false (ItStr s) = match s with [] => [] | _ => [s] end.
Proof. exact string_items_single. Qed.
Print Assumptions C13_string_single.

Theorem C13_hash_pairs : forall sq l,
  iter_items sq (ItDict l) = map (fun kv => fst kv ++ [61%N] ++ Z_to_str (snd kv)) l /\
  length (iter_items sq (ItDict l)) = length l.
Proof. exact hash_items. Qed.
Print Assumptions C13_hash_pairs.

(* every loop expression (for and tablerow evaluate the same one) visits `visit` of its source with the integer
   values of its arguments, starting at the index stored under its key when the offset is continue, and stores
   where it stopped under that key: so continue chains run across for and tablerow *)
Theorem C13_loop_expression : forall sq l st seg n st1, eval_loop sq l st = Ok (seg, n, st1) ->
  exists lim off cont,
    match llimit l with None => lim = None | Some a => to_int_arg a = Ok (match lim with Some z => z | None => 0%Z end) /\ lim <> None end /\
    match loffset l with
    | OffNone => off = None /\ cont = false
    | OffContinue => off = None /\ cont = true
    | OffArg a => cont = false /\ exists z, to_int_arg a = Ok z /\ off = Some z
    end /\
    visit (iter_items sq (liter l)) (sget (lkey l) st) lim off cont (lrev l) = (seg, n, sget (lkey l) st1) /\
    st1 = sset (lkey l) (sget (lkey l) st1) st.
Proof. exact eval_loop_spec. Qed.
Print Assumptions C13_loop_expression.

(* parentloop: forloop.parentloop^up.h is the helper (index, length, name, ...) of the up-th enclosing FOR loop;
   a tablerow in between is not on the loop stack; nothing is printed when there is no such loop *)
Theorem C13_parentloop : forall sq dis fuel fs st up h,
  exec sq dis (S (S fuel)) fs st [BHelper up h] =
  Ok (match nth_error (for_frames fs) up with Some f => helper_text f h | None => [] end, st, SNormal).
Proof. exact helper_is_enclosing_for. Qed.
Print Assumptions C13_parentloop.

Theorem C13_loop_stack : forall f fs,
  (f_kind f = KFor -> for_frames (f :: fs) = f :: for_frames fs) /\
  (f_kind f = KTable -> for_frames (f :: fs) = for_frames fs).
Proof. intros f fs. split; [exact (for_frames_for f fs)|exact (for_frames_table f fs)]. Qed.
Print Assumptions C13_loop_stack.

(* include shares the loop stack (parentloop), the continue positions and break/continue with its caller;
   render starts from an empty loop stack and no continue positions whatever the caller's are, and leaves the
   caller's untouched *)
Theorem C13_include_shares_scope : forall sq fuel fs st b,
  exec sq false (S (S fuel)) fs st [BInclude b] =
  (do r <- exec sq false (S fuel) fs st b;
   let '(out, st', sg) := r in
   match sg with SNormal => Ok (out ++ [], st', SNormal) | _ => Ok (out, st', sg) end).
Proof. exact include_is_transparent. Qed.
Print Assumptions C13_include_shares_scope.

Theorem C13_render_is_isolated : forall sq dis dis' fuel fs fs' st st' b out st1 sg,
  exec sq dis (S (S fuel)) fs st [BRender b] = Ok (out, st1, sg) ->
  exec sq dis' (S (S fuel)) fs' st' [BRender b] = Ok (out, st', sg) /\ st1 = st.
Proof. exact render_ignores_caller. Qed.
Print Assumptions C13_render_is_isolated.

(* break after the j-th item of a for loop: exactly the first j visited items are written, with the helper values
   (length, rindex, last) of the whole loop; continue: every item keeps its own helper values *)
Theorem C13_for_break : forall sq dis fuel l els fs st seg n st1 j,
  eval_loop sq l st = Ok (seg, n, st1) -> n <> 0%Z -> (1 <= j)%Z ->
  exec sq dis (S (S (S (S (S fuel))))) fs st [BFor l [BPrint; BBreakAt j] els] =
  Ok (printed (firstn (Z.to_nat j) seg) 0 n, st1, SNormal).
Proof. exact for_break. Qed.
Print Assumptions C13_for_break.

Theorem C13_for_continue : forall sq dis fuel l els fs st seg n st1 j,
  eval_loop sq l st = Ok (seg, n, st1) -> n <> 0%Z ->
  exec sq dis (S (S (S (S (S fuel))))) fs st [BFor l [BContinueAt j; BPrint] els] =
  Ok (fcells (print_unless j) no_sig (lname l) seg 0 n, st1, SNormal).
Proof. exact for_continue. Qed.
Print Assumptions C13_for_continue.

(* tablerow output: one opened and closed cell per visited item, in the column the row/column theorems give, a row
   break after a last column unless the item is the last; break after item j completes and closes that cell (and
   writes its row break) and then ends the loop and the table; continue keeps every cell *)
Theorem C13_tablerow_prints : forall sq dis fuel l cols fs st seg n st1 ncols,
  eval_loop sq l st = Ok (seg, n, st1) ->
  match cols with None => Ok n | Some a => int_or_zero a end = Ok ncols ->
  exec sq dis (S (S (S (S fuel)))) fs st [BTablerow l cols [BPrint]] =
  Ok (table_head ++ tcells leaf_print no_sig seg 0 tr_init n ncols ++ table_foot, st1, SNormal).
Proof. exact tablerow_prints. Qed.
Print Assumptions C13_tablerow_prints.

Theorem C13_tablerow_break : forall sq dis fuel l cols fs st seg n st1 ncols j,
  eval_loop sq l st = Ok (seg, n, st1) ->
  match cols with None => Ok n | Some a => int_or_zero a end = Ok ncols -> (1 <= j)%Z ->
  exec sq dis (S (S (S (S (S fuel))))) fs st [BTablerow l cols [BPrint; BBreakAt j]] =
  Ok (table_head ++ tcells leaf_print no_sig (firstn (Z.to_nat j) seg) 0 tr_init n ncols ++ table_foot, st1, SNormal).
Proof. exact tablerow_break. Qed.
Print Assumptions C13_tablerow_break.

Theorem C13_tablerow_continue : forall sq dis fuel l cols fs st seg n st1 ncols j,
  eval_loop sq l st = Ok (seg, n, st1) ->
  match cols with None => Ok n | Some a => int_or_zero a end = Ok ncols ->
  exec sq dis (S (S (S (S (S fuel))))) fs st [BTablerow l cols [BContinueAt j; BPrint]] =
  Ok (table_head ++ tcells (print_unless j) no_sig seg 0 tr_init n ncols ++ table_foot, st1, SNormal).
Proof. exact tablerow_continue. Qed.
Print Assumptions C13_tablerow_continue.

(* the arithmetic the code used before the fix (`stop or length`, unclamped) violates the reference:
   limit 0 visits everything, a negative limit raises ValueError. Kept as the witnesses. *)
Theorem C13_old_slice_refuted :
  (exists items : list Z, visit_old items 0 (Some 0%Z) None false false = Ok (items, zlen items, zlen items)
                          /\ spec_visit items 0 (Some 0%Z) None false false = [] /\ items <> []) /\
  (exists items : list Z, visit_old items 0 (Some (-1)%Z) None false false = Err EValueError).
Proof.
  split; [exists [1; 2; 3]%Z | exists [1; 2; 3]%Z]; vm_compute; repeat split; discriminate.
Qed.
Print Assumptions C13_old_slice_refuted.

(* before the repairs: cols 0 put the first (and every) item in row 2 of a table that has one row; a nil cols
   raised TypeError *)
Theorem C13_old_tablerow_refuted :
  tr_row (tr_steps_old 0 1 tr_init) = 2%Z /\ tr_row (tr_steps 0 1 tr_init) = 1%Z /\
  int_or_zero_old ANil = Err ETypeError /\ int_or_zero ANil = Ok 0%Z.
Proof. vm_compute. repeat split. Qed.
Print Assumptions C13_old_tablerow_refuted.

(* non-vacuity: a concrete continue chain satisfying the hypotheses of C13_continue_chain *)
Example C13_chain_nonvacuous :
  let items := [lit "a"; lit "b"; lit "c"; lit "d"; lit "e"] in
  fst (fst (visit items 0 (Some 2%Z) None false false)) = [lit "a"; lit "b"] /\
  fst (fst (visit items 2 (Some 2%Z) None true false)) = [lit "c"; lit "d"].
Proof. vm_compute. split; reflexivity. Qed.

(* non-vacuity of the new hypotheses: a mixed chain (for, tablerow, for over one key), parentloop through include and
   render, a string looped over as a sequence *)
Example C13_mixed_chain_nonvacuous :
  let lp := fun lim off => {| lkey := 0; lname := lit "x0-a"; liter := ItList [1; 2; 3; 4]%Z; llimit := lim; loffset := off; lrev := false |} in
  run_template {| t_strseq := false; t_body :=
    [BFor (lp (Some (AInt 1)) OffNone) [BText (lit "f")] []; BTablerow (lp (Some (AFloat 19 1)) OffContinue) (Some ANil) [BText (lit "t")];
     BFor (lp None OffContinue) [BHelper 0 HIndex; BHelper 0 HName] []] |} =
  OOut (lit "f" ++ table_head ++ td_open 1 ++ lit "t" ++ td_close ++ table_foot ++ lit "1x0-a2x0-a").
Proof. vm_compute. reflexivity. Qed.

Example C13_parentloop_nonvacuous :
  let lp := fun nm => {| lkey := 0; lname := nm; liter := ItList [7; 8]%Z; llimit := None; loffset := OffNone; lrev := false |} in
  run_template {| t_strseq := false; t_body :=
    [BFor (lp (lit "x0-a")) [BInclude [BFor (lp (lit "x1-a")) [BHelper 1 HIndex] []]; BRender [BFor (lp (lit "x1-a")) [BHelper 1 HIndex; BText (lit ".")] []]] []] |} =
  OOut (lit "11..22..").
Proof. vm_compute. reflexivity. Qed.

Example C13_string_nonvacuous :
  fst (fst (visit (iter_items true (ItStr (lit "abcd"))) 0 (Some 2%Z) (Some 1%Z) false true)) = [lit "c"; lit "b"] /\
  fst (fst (visit (iter_items false (ItStr (lit "abcd"))) 0 (Some 2%Z) None false true)) = [lit "abcd"].
Proof. vm_compute. split; reflexivity. Qed.
