(* C04 — Serialising a template back to source preserves its meaning.  Property theorems only. *)
From Coq Require Import String.
From LiquidVerif Require Import Prelude PyPrims Cond CondPrint Cond_Proofs CondParen CondParen_Proofs StrLit StrLit_Proofs TagTree TagTree_Proofs PathSyntax PathSyntax_Proofs ExprSyntax ExprSyntax_Proofs ExprSyntax_Tags_Proofs TemplateFull TemplateFull_Proofs.
Local Open Scope string_scope. Local Open Scope list_scope.

(* for EVERY condition tree (any depth, any mix of and / or / not, comparisons, membership tests and groups) the text that
   BooleanExpression.__str__ produces parses back to the same tree *)
Theorem C04_condition_roundtrip : forall e, parse flags_on (print2 e) = Ok e.
Proof. exact print2_roundtrip. Qed.
Print Assumptions C04_condition_roundtrip.

(* ... hence the re-parsed condition has the same value on every data, and serialising it again gives the same text *)
Theorem C04_condition_same_meaning : forall e, exists e',
  parse flags_on (print2 e) = Ok e' /\ (forall env, eval env e' = eval env e) /\ print2 e' = print2 e.
Proof. exact print2_same_meaning. Qed.
Print Assumptions C04_condition_same_meaning.

Theorem C04_condition_idempotent : forall c, run_reprint2 c = run_print2 c.
Proof. exact run_reprint2_fixpoint. Qed.
Print Assumptions C04_condition_idempotent.

(* the general fact behind it: any condition text that has parentheses wherever grouping needs them (and any number of
   redundant ones) parses to the tree it denotes *)
Theorem C04_wellgrouped_text_parses : forall q, wg q = true -> parse flags_on (toks q) = Ok (erase q).
Proof. exact parse_wellgrouped. Qed.
Print Assumptions C04_wellgrouped_text_parses.

(* string literals: every value a literal can have (it cannot contain both kinds of quote) is written as a literal that
   the expression lexer reads back as exactly that value, whatever follows it *)
Theorem C04_string_literal_roundtrip : forall s rest,
  has SQ s && has DQ s = false -> scan_string (quote_string s ++ rest) = Some (s, rest).
Proof. exact quote_scan. Qed.
Print Assumptions C04_string_literal_roundtrip.

(* paths: for every path (names of any spelling, integer indexes, nested paths to any depth) the tokens Path.__str__ writes are
   read back by Path.parse (strict mode) as the same path, whatever non-path token follows; RE_PROPERTY is a parameter *)
Theorem C04_path_roundtrip : forall is_prop p rest, p <> [] -> wfl p = true -> rest_ok rest ->
  parse_path (S (length (print_path is_prop p ++ rest))) [] (print_path is_prop p ++ rest) = Ok (p, rest).
Proof. exact path_roundtrip. Qed.
Print Assumptions C04_path_roundtrip.

Theorem C04_old_path_refuted : let p := [SNested [SName [120%N]]] in
  parse_path 5 [] (print_path_old std_is_prop p) = Ok ([SName [120%N]], []) /\ wfl p = true.
Proof. exact path_old_refuted. Qed.
Print Assumptions C04_old_path_refuted.

(* structure: for every tree of text, output statements, raw and comment blocks, inline tags and block tags with their
   sections (nested to any depth) that is well formed for a coherent tag register, parsing the serialisation gives the tree back *)
Theorem C04_structure_roundtrip : forall kind_of, reg_ok kind_of ->
  forall ns, wf_nodes kind_of ns = true -> parse_template kind_of (print_nodes ns) = Ok ns.
Proof. exact parse_print_template. Qed.
Print Assumptions C04_structure_roundtrip.

(* ... in particular for the standard tags (if/elsif/else, unless, case/when/else, for/else, tablerow, capture, ifchanged and the inline tags) *)
Theorem C04_standard_tags_roundtrip : forall ns,
  wf_nodes std_kind ns = true -> parse_template std_kind (print_nodes ns) = Ok ns.
Proof. exact std_parse_print. Qed.
Print Assumptions C04_standard_tags_roundtrip.

(* the serialiser as it was before the repairs, refuted by witness (each replayed on the implementation by the check's corpus) *)
Theorem C04_old_condition_refuted :
  let e := BOr (BAnd (BVar (lit "a")) (BVar (lit "b"))) (BVar (lit "c")) in
  let env := [(lit "a", VBool false); (lit "b", VBool false); (lit "c", VBool true)] in
  exists e', parse flags_on (print_old e) = Ok e' /\ e' <> e /\ eval_cond env e' <> eval_cond env e.
Proof. exact print_old_refuted. Qed.
Print Assumptions C04_old_condition_refuted.

Theorem C04_old_string_literal_refuted : let s := [97; 92; 98]%N in
  scan_string (repr_old s) = Some ([97; 92; 92; 98]%N, []) /\ has SQ s && has DQ s = false.
Proof. exact repr_old_refuted. Qed.
Print Assumptions C04_old_string_literal_refuted.

(* ---------------- expressions inside tags and output statements (ExprSyntax.v; token level) ----------------
   A payload is the expression of an output statement / echo (filtered expression or ternary), of assign, for / tablerow
   (loop expression), case, when, cycle, include, render, or the identifier of capture / increment / decrement. *)

(* for EVERY well-formed payload -- any number of filters and of positional / keyword arguments, ranges and bracketed / nested paths to
   any depth, any condition tree in a ternary, any combination of limit / offset / cols / reversed, any when-list, cycle with or without
   group, include / render with bound variable, alias and arguments -- the parser reads back from the tokens str() writes exactly the
   tree that was serialised; is_property is the implementation's (RE_PROPERTY and not a keyword) *)
Theorem C04_expression_roundtrip : forall y, wf_payload y = true -> parse_payload (kind_of y) (print_payload expr_is_prop y) = Ok y.
Proof. exact std_payload_roundtrip. Qed.
Print Assumptions C04_expression_roundtrip.

(* ... the same for ANY test of what may be written in dotted form, provided it never accepts a keyword *)
Theorem C04_expression_roundtrip_any_property_test : forall is_prop, (forall s, is_prop s = true -> is_kw s = false) ->
  forall y, wf_payload y = true -> parse_payload (kind_of y) (print_payload is_prop y) = Ok y.
Proof. exact payload_roundtrip. Qed.
Print Assumptions C04_expression_roundtrip_any_property_test.

(* hence the re-parsed payload is the original tree (so it has the same value on every data) and serialises to the same tokens again *)
Theorem C04_expression_same_meaning : forall y, wf_payload y = true ->
  exists y', parse_payload (kind_of y) (print_payload expr_is_prop y) = Ok y' /\ y' = y /\ print_payload expr_is_prop y' = print_payload expr_is_prop y.
Proof. exact (payload_same_meaning expr_is_prop expr_is_prop_not_kw). Qed.
Print Assumptions C04_expression_same_meaning.

(* from SOURCE tokens: if the parser accepts them and the tree is well formed, then parsing str() again and serialising once more
   gives the same tokens as str() (that parsed trees without nil ARE well formed is evaluated on every generated source: run_xwf) *)
Theorem C04_expression_idempotent : forall c y, parse_payload (xc_kind c) (xc_toks c) = Ok y -> wf_payload y = true -> run_xreprint c = run_xprint c.
Proof. exact xreprint_fixpoint. Qed.
Print Assumptions C04_expression_idempotent.

(* the layers the payload theorem is built from: a primitive (literal, path, range) followed by any separator or keyword ... *)
Theorem C04_primitive_roundtrip : forall p rest, wf_prim p = true -> follow_ok rest -> pprim (print_prim expr_is_prop p ++ rest) = Ok (p, rest).
Proof. exact (pprim_roundtrip expr_is_prop expr_is_prop_not_kw). Qed.
Print Assumptions C04_primitive_roundtrip.

(* ... and filtered expressions and ternaries (FilteredExpression.parse / TernaryFilteredExpression.parse, the condition through Cond.pp) *)
Theorem C04_filtered_expression_roundtrip : forall e, wf_expr e = true -> parse_expr true (print_expr expr_is_prop e) = Ok e.
Proof. exact (expr_roundtrip expr_is_prop expr_is_prop_not_kw). Qed.
Print Assumptions C04_filtered_expression_roundtrip.

(* capture reads its identifier and requires the end of the expression *)
Theorem C04_capture_roundtrip : forall s, parse_payload KCapture (print_payload expr_is_prop (YIdent s)) = Ok (YIdent s).
Proof. exact (capture_roundtrip expr_is_prop expr_is_prop_not_kw). Qed.
Print Assumptions C04_capture_roundtrip.

(* the recorded finding (nil prints as nothing) is why nil is excluded by the guard: as an argument the text does not parse, in a
   when-list it silently parses to a shorter list *)
Theorem C04_nil_argument_refuted :
  let y := YExpr (XFilt {| fe_left := v1 "x"; fe_filters := [{| f_name := lit "default"; f_args := [AKw (lit "k") PNil; APos (PInt 1)] |}] |}) in
  parse_payload KExpr (print_payload expr_is_prop y) = Err ESyntax.
Proof. exact nil_argument_refuted. Qed.
Print Assumptions C04_nil_argument_refuted.

Theorem C04_nil_when_refuted :
  parse_payload KWhen (print_payload expr_is_prop (YWhen [PInt 1; PNil; PInt 2])) = Err ESyntax /\
  parse_when_old (print_payload expr_is_prop (YWhen [PInt 1; PNil; PInt 2])) = Ok [PInt 1].
Proof. exact nil_when_refuted. Qed.
Print Assumptions C04_nil_when_refuted.

(* the code before the repairs, refuted by witness (each is replayed on the implementation by the generated cases of layer F) *)
Theorem C04_old_keyword_segment_refuted :
  let y := YExpr (XFilt {| fe_left := PPath [SName (lit "x"); SName (lit "if")]; fe_filters := [] |}) in
  wf_payload y = true /\ print_payload old_is_prop y = [EWord (lit "x"); EDot; EIf] /\
  parse_payload KExpr (print_payload old_is_prop y) = Err ESyntax.
Proof. exact old_keyword_segment_refuted. Qed.
Print Assumptions C04_old_keyword_segment_refuted.

Theorem C04_old_identifier_refuted :
  print_ident_old (lit "if") = [EIf] /\ parse_payload KIdent (print_ident_old (lit "if")) = Err ESyntax /\
  parse_payload KIdent (print_payload expr_is_prop (YIdent (lit "if"))) = Ok (YIdent (lit "if")).
Proof. exact old_identifier_refuted. Qed.
Print Assumptions C04_old_identifier_refuted.

Theorem C04_old_bound_variable_refuted :
  let y := YInclude {| in_name := PStr (lit "p"); in_bind := Some ([SName (lit "1x")], None); in_args := [] |} in
  wf_payload y = true /\ parse_payload_gen false KInclude (print_payload expr_is_prop y) = Err ESyntax.
Proof. exact old_bound_variable_refuted. Qed.
Print Assumptions C04_old_bound_variable_refuted.

Theorem C04_old_filter_argument_refuted :
  let y := YExpr (XFilt {| fe_left := v1 "x"; fe_filters := [{| f_name := lit "f"; f_args := [APos (v1 "a?")] |}] |}) in
  wf_payload y = true /\ parse_payload_gen false KExpr (print_payload expr_is_prop y) = Err ESyntax.
Proof. exact old_filter_argument_refuted. Qed.
Print Assumptions C04_old_filter_argument_refuted.

(* ---------------- whole templates with structured payloads (TemplateFull.v): the two halves composed ----------------
   A tree whose output statements carry an expression and whose tags carry the payload their parse method builds (a payload of ExprSyntax,
   a condition for if / elsif / unless, nothing, or opaque text for liquid / inline comments).  The serialiser writes every payload with
   print_payload / print2 into the tag-level tokens of TagTree; the parser is Parser.parse_block (TagTree.parse_template) followed by each
   tag's own expression parser on the tokens the expression lexer yields for the tag's text.  The lexer [lex] and the spelling of a token
   list [render] are parameters; wf_full asks, for the payloads IN THE TREE, lex (render ts) = Ok ts (assumed: not discharged by ExprLex;
   checked case by case by the harness's tokenisers), besides TagTree's wf_nodes for the shape and wf_payload for every payload. *)

(* for EVERY well-formed template tree -- any nesting of block tags and sections, any payload in every tag, any condition tree -- parsing
   the serialisation gives back exactly the tree; any tag register that is coherent, any test for dotted names that never accepts a keyword *)
Theorem C04_template_roundtrip : forall is_prop, (forall s, is_prop s = true -> is_kw s = false) ->
  forall render lex tag_kind, reg_ok tag_kind -> forall tpk_of t, wf_full is_prop render lex tag_kind tpk_of t ->
  parse_template_full lex tag_kind tpk_of (print_template_full is_prop render t) = Ok t.
Proof. exact full_roundtrip. Qed.
Print Assumptions C04_template_roundtrip.

(* ... in particular for the standard tags with the parser each of them uses, and the implementation's is_property *)
Theorem C04_standard_template_roundtrip : forall render lex t, wf_full expr_is_prop render lex std_kind std_tpk t ->
  parse_template_full lex std_kind std_tpk (print_template_full expr_is_prop render t) = Ok t.
Proof. exact std_full_roundtrip. Qed.
Print Assumptions C04_standard_template_roundtrip.

(* the re-parsed template IS the original tree, hence renders identically on every data, and its serialisation is the same text *)
Theorem C04_template_same_tree : forall render lex t, wf_full expr_is_prop render lex std_kind std_tpk t ->
  exists t', parse_template_full lex std_kind std_tpk (print_template_full expr_is_prop render t) = Ok t' /\ t' = t /\
             print_template_full expr_is_prop render t' = print_template_full expr_is_prop render t.
Proof. exact (fun render lex => full_same_tree expr_is_prop expr_is_prop_not_kw render lex std_kind std_reg_ok std_tpk). Qed.
Print Assumptions C04_template_same_tree.

(* from SOURCE tokens: if the parser accepts them and the tree it builds is well formed, str() parses again and a second str() is the same *)
Theorem C04_template_idempotent : forall render lex ts t, parse_template_full lex std_kind std_tpk ts = Ok t ->
  wf_full expr_is_prop render lex std_kind std_tpk t ->
  exists t', parse_template_full lex std_kind std_tpk (print_template_full expr_is_prop render t) = Ok t' /\
             print_template_full expr_is_prop render t' = print_template_full expr_is_prop render t.
Proof. exact (fun render lex => full_idempotent expr_is_prop expr_is_prop_not_kw render lex std_kind std_reg_ok std_tpk). Qed.
Print Assumptions C04_template_idempotent.

(* non-vacuity / reading aids *)
Example C04_print2_example :
  print2 (BOr (BAnd (BVar (lit "a")) (BNot (BVar (lit "b")))) (BCmp OEq (BVar (lit "c")) (BAnd (BVar (lit "a")) (BVar (lit "b"))))) =
  [TLParen; TVar (lit "a"); TAnd; TNot; TVar (lit "b"); TRParen; TOr; TVar (lit "c"); TOp OEq; TLParen; TVar (lit "a"); TAnd; TVar (lit "b"); TRParen].
Proof. vm_compute. reflexivity. Qed.

Example C04_structure_example :
  let t := [NText (slit "a"); NBlock (slit "if") (slit "x") [NOut (slit "y")] [(slit "else", [], [NInline (slit "echo") (slit "z"); NRaw (slit "{{")])]] in
  wf_nodes std_kind t = true /\ parse_template std_kind (print_nodes t) = Ok t.
Proof. vm_compute. split; reflexivity. Qed.

(* the guards of the expression theorems are satisfiable: one payload of every kind, using every construct *)
Example C04_expression_example :
  wf_payload (YExpr big_expr) = true /\
  print_payload expr_is_prop (YWhen [PInt 1; PStr (lit "a"); v1 "y"]) = [EInt 1; EComma; EStr (lit "a"); EComma; EWord (lit "y")] /\
  parse_payload KExpr (print_payload expr_is_prop (YExpr big_expr)) = Ok (YExpr big_expr).
Proof. vm_compute. repeat split. Qed.

(* wf_full is satisfiable, lexer hypothesis included: a template using every payload kind, with a lexer given as a finite table *)
Example C04_template_example :
  wf_full expr_is_prop demo_render demo_lex std_kind std_tpk demo_tree /\
  parse_template_full demo_lex std_kind std_tpk (print_template_full expr_is_prop demo_render demo_tree) = Ok demo_tree.
Proof. split; [exact demo_wf_full|exact demo_roundtrip]. Qed.
