(* C17 -- proofs about MemoPurity.v: a memo table is invisible exactly when its key equality is respected
   by the function behind it; the repaired date filter and the process model are history independent;
   the original date filter (and a typed variant) is not; the modelled filters never write to a heap
   object that exists. *)
From Coq Require Import String ZArith List Bool Lia ZifyBool.
From LiquidVerif Require Import Prelude MemoPurity.
Import ListNotations.
Local Open Scope list_scope.

(* ------------------------------------------------------------------------------------------ *)
Section MemoProofs.
  Context {K V : Type}.
  Variable keq : K -> K -> bool.
  Variable f : K -> res V.
  Variable cap : nat.

  Notation tbl := (@tbl K V).

  (* every stored value is what the function returns for the STORED key *)
  Definition sound (t : tbl) : Prop := forall k0 v, In (k0, v) t -> f k0 = Ok v.

  Lemma take_hit_some (k : K) (t : tbl) (k0 : K) (v : V) (r : tbl) :
    take_hit keq k t = Some ((k0, v), r) ->
    keq k k0 = true /\ In (k0, v) t /\ (forall e, In e r -> In e t) /\ S (length r) = length t.
  Proof.
    revert r; induction t as [|[k1 v1] t IH]; intros r; simpl; [discriminate|].
    destruct (keq k k1) eqn:E.
    - intro H; inversion H; subst. repeat split; auto.
    - destruct (take_hit keq k t) as [[e r']|] eqn:T; [|discriminate].
      intro H; inversion H; subst.
      destruct (IH r' eq_refl) as (A & B & C & D).
      split; [exact A|]. split; [right; exact B|]. split.
      + intros e [<-|I]; [left; reflexivity | right; auto].
      + simpl. lia.
  Qed.

  Lemma firstn_In {A} n (l : list A) x : In x (firstn n l) -> In x l.
  Proof.
    revert l; induction n; intros [|y l]; simpl; try tauto. intros [->|H]; auto.
  Qed.

  Lemma memo_call_sound (t : tbl) (k : K) : sound t -> sound (snd (memo_call keq f cap t k)).
  Proof.
    intro S. unfold memo_call.
    destruct (take_hit keq k t) as [[[k0 v] r]|] eqn:T.
    - destruct (take_hit_some _ _ _ _ _ T) as (_ & I & Sub & _).
      simpl. intros k1 v1 [H|H]; [inversion H; subst; auto | apply S, Sub, H].
    - destruct (f k) as [v| |] eqn:F; simpl; auto.
      intros k1 v1 H. apply firstn_In in H. destruct H as [H|H]; [inversion H; subst; exact F | auto].
  Qed.

  Lemma memo_state_sound hist : forall t, sound t -> sound (memo_state keq f cap t hist).
  Proof.
    induction hist as [|k r IH]; simpl; auto. intros t S. apply IH, memo_call_sound, S.
  Qed.

  Lemma sound_nil : sound [].
  Proof. intros ? ? []. Qed.

  (* the key determines everything the function depends on *)
  Definition respects : Prop := forall k k0, keq k k0 = true -> f k = f k0.

  Lemma memo_call_transparent (t : tbl) (k : K) : respects -> sound t -> fst (memo_call keq f cap t k) = f k.
  Proof.
    intros R S. unfold memo_call.
    destruct (take_hit keq k t) as [[[k0 v] r]|] eqn:T.
    - destruct (take_hit_some _ _ _ _ _ T) as (E & I & _). simpl. rewrite (R _ _ E). symmetry. apply S, I.
    - destruct (f k); reflexivity.
  Qed.

  (* for EVERY history of earlier calls the memoised result is the function's result *)
  Theorem memo_transparent : respects -> forall hist k, fst (memo_call keq f cap (memo_state keq f cap [] hist) k) = f k.
  Proof.
    intros R hist k. apply memo_call_transparent; auto. apply memo_state_sound, sound_nil.
  Qed.

  Lemma memo_run_map_from (ks : list K) : respects -> forall t : tbl, sound t -> memo_run keq f cap t ks = map f ks.
  Proof.
    intros R. induction ks as [|k r IH]; intros t S; simpl; auto.
    pose proof (memo_call_transparent t k R S) as E. pose proof (memo_call_sound t k S) as S'.
    destruct (memo_call keq f cap t k) as [o t']; simpl in *. subst o. f_equal. apply IH, S'.
  Qed.

  Theorem memo_run_map : respects -> forall ks, memo_run keq f cap [] ks = map f ks.
  Proof. intros R ks. apply memo_run_map_from; auto using sound_nil. Qed.

  (* the table never holds more than maxsize entries *)
  Lemma memo_call_bounded (t : tbl) (k : K) : (length t <= cap)%nat -> (length (snd (memo_call keq f cap t k)) <= cap)%nat.
  Proof.
    intro L. unfold memo_call.
    destruct (take_hit keq k t) as [[[k0 v] r]|] eqn:T.
    - destruct (take_hit_some _ _ _ _ _ T) as (_ & _ & _ & D). simpl. lia.
    - destruct (f k); simpl; auto. rewrite firstn_length. simpl. lia.
  Qed.

  Theorem memo_bounded hist : (length (memo_state keq f cap [] hist) <= cap)%nat.
  Proof.
    assert (G : forall t : tbl, (length t <= cap)%nat -> (length (memo_state keq f cap t hist) <= cap)%nat).
    { induction hist as [|k r IH]; simpl; auto. intros t L. apply IH, memo_call_bounded, L. }
    apply G. simpl. lia.
  Qed.

  (* converse: one collision on which the function differs makes the history visible *)
  Theorem memo_collision_visible (k k' : K) (v : V) :
    keq k' k = true -> f k = Ok v -> f k' <> Ok v -> (1 <= cap)%nat ->
    fst (memo_call keq f cap (memo_state keq f cap [] [k]) k') <> f k'.
  Proof.
    intros E F D C. simpl. unfold memo_call at 2. simpl. rewrite F.
    destruct cap as [|c]; [lia|]. simpl. unfold memo_call. simpl. rewrite E. simpl. congruence.
  Qed.
End MemoProofs.

(* a key equality that identifies only identical keys is respected by every function *)
Lemma respects_of_eq {K V} (keq : K -> K -> bool) (f : K -> res V) :
  (forall a b, keq a b = true -> a = b) -> respects keq f.
Proof. intros H a b E. rewrite (H a b E). reflexivity. Qed.

(* ------------------------------------------------------------------------------------------ *)
(* Python equality on the modelled values                                                      *)
Lemma py_eq_refl a : py_eq a a = true.
Proof.
  destruct a; simpl; try reflexivity; try apply Z.eqb_refl; try apply str_eqb_refl.
Qed.

Lemma py_eq_trans x y z : py_eq x y = true -> py_eq y z = true -> py_eq x z = true.
Proof.
  unfold py_eq. intros A C.
  destruct (num_twice x) as [nx|] eqn:X, (num_twice y) as [ny|] eqn:Y, (num_twice z) as [nz|] eqn:Z; try discriminate.
  - apply Z.eqb_eq in A, C. apply Z.eqb_eq. congruence.
  - destruct x, y, z; simpl in *; try discriminate; auto;
      try (apply Z.eqb_eq in A, C; apply Z.eqb_eq; congruence);
      try (apply str_eqb_eq in A, C; apply str_eqb_eq; congruence).
Qed.

Lemma pvs_eq_refl l : pvs_eq l l = true.
Proof. unfold pvs_eq. induction l; simpl; auto. rewrite py_eq_refl, IHl. reflexivity. Qed.

Lemma pvs_eq_trans l : forall m n, pvs_eq l m = true -> pvs_eq m n = true -> pvs_eq l n = true.
Proof.
  unfold pvs_eq. induction l as [|x l IH]; intros [|y m] [|z n]; simpl; try discriminate; auto.
  rewrite !andb_true_iff. intros [A B] [C D]. split; [eapply py_eq_trans; eauto | eapply IH; eauto].
Qed.

Lemma py_same_refl a : py_same a a = true.
Proof.
  destruct a; simpl; try reflexivity; try apply Z.eqb_refl; try apply str_eqb_refl.
  - apply eqb_reflx.
  - rewrite !Z.eqb_refl. reflexivity.
Qed.

Lemma opt_same_refl o : opt_same o o = true.
Proof. destruct o as [[a b]|]; simpl; auto. rewrite !py_same_refl. reflexivity. Qed.

(* ------------------------------------------------------------------------------------------ *)
(* the repaired date filter                                                                    *)
Definition psound (t : ptbl) : Prop := forall k v, In (k, v) t -> v = fst k.

Lemma psound_is_sound t : psound t <-> sound parse_abs t.
Proof.
  unfold psound, sound, parse_abs. split; intros H k v I.
  - rewrite (H k v I). reflexivity.
  - specialize (H k v I). congruence.
Qed.

Lemma parse_respects : respects pkey_eqb parse_abs.
Proof.
  intros [s d] [s0 d0] E. unfold pkey_eqb in E. simpl in E. apply andb_true_iff in E. destruct E as [E _].
  apply str_eqb_eq in E. unfold parse_abs. simpl. congruence.
Qed.

Lemma with_text_id dat s : text_of dat = Some s -> with_text dat s = dat.
Proof. destruct dat; simpl; try discriminate; intro H; inversion H; reflexivity. Qed.

Lemma date_new_call_spec ft t day k :
  psound t -> fst (date_new_call ft t day k) = dlook ft k /\ psound (snd (date_new_call ft t day k)).
Proof.
  intro S. destruct k as [[dat fmt] env]. unfold date_new_call.
  destruct (text_of dat) as [s|] eqn:T; [|split; auto].
  destruct (is_special s); [split; auto|].
  pose proof (memo_call_transparent pkey_eqb parse_abs date_cap t (s, day) parse_respects (proj1 (psound_is_sound t) S)) as E.
  pose proof (memo_call_sound pkey_eqb parse_abs date_cap t (s, day) (proj1 (psound_is_sound t) S)) as S'.
  destruct (memo_call pkey_eqb parse_abs date_cap t (s, day)) as [p t']. simpl in E, S'. subst p.
  unfold parse_abs. simpl. rewrite (with_text_id _ _ T). split; auto. apply psound_is_sound, S'.
Qed.

Lemma date_new_state_sound ft hist : forall t, psound t -> psound (date_new_state ft t hist).
Proof.
  induction hist as [|[day k] r IH]; simpl; auto. intros t S. apply IH. apply date_new_call_spec, S.
Qed.

(* whatever was rendered before (on whatever days), the repaired date filter returns what it returns in a process
   that has rendered nothing *)
Theorem date_new_history_independent ft hist day k :
  fst (date_new_call ft (date_new_state ft [] hist) day k) = dlook ft k.
Proof. apply date_new_call_spec. apply date_new_state_sound. intros ? ? []. Qed.

(* ------------------------------------------------------------------------------------------ *)
(* the original date filter: 1 | date: '%Y' and then 1.0 | date: '%Y'                           *)
Definition y_fmt : pv := PStr (mlit "%Y"%string).
Definition old_witness_table : dtab :=
  [ ((PInt 1, y_fmt, 0%N), Ok (mlit "1970"%string));
    ((PFloat 2, y_fmt, 0%N), Err EFilterArg) ].

Theorem date_old_refuted :
  exists ft hist k, fst (date_old_call ft (memo_state dkey_py_eq (dlook ft) date_cap [] hist) k) <> dlook ft k.
Proof.
  exists old_witness_table, [(PInt 1, y_fmt, 0%N)], (PFloat 2, y_fmt, 0%N).
  vm_compute. discriminate.
Qed.

(* the same through the general converse: any function that tells 1 from 1.0 is exposed *)
Theorem date_old_collision f :
  f (PInt 1, y_fmt, 0%N) = Ok (mlit "1970"%string) -> f (PFloat 2, y_fmt, 0%N) <> Ok (mlit "1970"%string) ->
  fst (memo_call dkey_py_eq f date_cap (memo_state dkey_py_eq f date_cap [] [(PInt 1, y_fmt, 0%N)]) (PFloat 2, y_fmt, 0%N))
  <> f (PFloat 2, y_fmt, 0%N).
Proof.
  intros A B. apply memo_collision_visible with (v := mlit "1970"%string); auto. unfold date_cap. lia.
Qed.

(* lru_cache(typed=True) would not be enough: equal instants in different zones have the same type *)
Definition h_fmt : pv := PStr (mlit "%H"%string).
Definition typed_witness_table : dtab :=
  [ ((PDt 26297280 0, h_fmt, 0%N), Ok (mlit "00"%string));
    ((PDt 26297280 300, h_fmt, 0%N), Ok (mlit "05"%string)) ].

Theorem date_typed_cache_refuted :
  exists ft hist k,
    fst (memo_call dkey_typed_eq (dlook ft) date_cap (memo_state dkey_typed_eq (dlook ft) date_cap [] hist) k) <> dlook ft k.
Proof.
  exists typed_witness_table, [(PDt 26297280 0, h_fmt, 0%N)], (PDt 26297280 300, h_fmt, 0%N).
  vm_compute. discriminate.
Qed.

(* ------------------------------------------------------------------------------------------ *)
(* the process                                                                                 *)
Definition id_sound {K} (t : @tbl K K) : Prop := forall k v, In (k, v) t -> v = k.

Lemma id_sound_is_sound {K} (t : @tbl K K) : id_sound t <-> sound (fun k : K => Ok k) t.
Proof.
  unfold id_sound, sound. split; intros H k v I.
  - rewrite (H k v I). reflexivity.
  - specialize (H k v I). congruence.
Qed.

Record proc_sound (p : proc) : Prop := {
  ps_impl : id_sound (p_impl p);
  ps_lex : id_sound (p_lex p);
  ps_parser : id_sound (p_parser p);
  ps_parse : psound (p_parse p)
}.

(* the behaviour of a job does not depend on the TYPE of environment arguments that compare equal *)
Definition cfg_respected (ft : jtab) : Prop := forall a b, job_keq a b = true -> jlook ft a = jlook ft b.

(* an identity-valued table answers with a key that the key equality relates to the query *)
Lemma id_memo_call {K} (keq : K -> K -> bool) c (t : @tbl K K) (k : K) :
  id_sound t ->
  exists k', fst (memo_call keq (fun x => Ok x) c t k) = Ok k' /\ (k' = k \/ keq k k' = true) /\
             id_sound (snd (memo_call keq (fun x => Ok x) c t k)).
Proof.
  intro S. pose proof (memo_call_sound keq (fun x : K => Ok x) c t k (proj1 (id_sound_is_sound t) S)) as S'.
  apply id_sound_is_sound in S'.
  unfold memo_call in *. destruct (take_hit keq k t) as [[[k0 v] r]|] eqn:T.
  - destruct (take_hit_some _ _ _ _ _ _ T) as (E & I & _). exists v. simpl. rewrite (S _ _ I) in *. auto.
  - exists k. simpl. auto.
Qed.

Lemma step_spec ft p j :
  cfg_respected ft -> proc_sound p ->
  fst (step ft p j) = jlook ft j /\ proc_sound (snd (step ft p j)).
Proof.
  intros R [S1 S2 S3 S4]. unfold step.
  (* 1. environment *)
  assert (E1 : exists c ti,
    (if j_implicit j
     then let '(r, ti) := memo_call cfg_py_eq (fun c => Ok c) impl_cap (p_impl p) (j_delims j, j_flags j) in
          (ok_or r (j_delims j, j_flags j), ti)
     else ((j_delims j, j_flags j), p_impl p)) = (c, ti) /\
    id_sound ti /\ pvs_eq (j_delims j) (fst c) = true /\ pvs_eq (j_flags j) (snd c) = true).
  { destruct (j_implicit j).
    - destruct (id_memo_call cfg_py_eq impl_cap (p_impl p) (j_delims j, j_flags j) S1) as (c & A & B & C).
      destruct (memo_call cfg_py_eq (fun c => Ok c) impl_cap (p_impl p) (j_delims j, j_flags j)) as [r ti].
      simpl in A, C. subst r. exists c, ti. simpl. repeat split; auto.
      + destruct B as [->|B]; [apply pvs_eq_refl|]. unfold cfg_py_eq in B. simpl in B. apply andb_true_iff in B. tauto.
      + destruct B as [->|B]; [apply pvs_eq_refl|]. unfold cfg_py_eq in B. simpl in B. apply andb_true_iff in B. tauto.
    - exists (j_delims j, j_flags j), (p_impl p). simpl. repeat split; auto using pvs_eq_refl. }
  destruct E1 as (c & ti & -> & Si & Cd & Cf).
  (* 2. lexer and parser *)
  destruct (id_memo_call pvs_eq lex_cap (p_lex p) (fst c) S2) as (d & A2 & B2 & C2).
  destruct (memo_call pvs_eq (fun d => Ok d) lex_cap (p_lex p) (fst c)) as [rl tl]. simpl in A2, C2. subst rl. simpl ok_or.
  destruct (id_memo_call N.eqb lex_cap (p_parser p) (j_env j) S3) as (e & A3 & B3 & C3).
  destruct (memo_call N.eqb (fun e => Ok e) lex_cap (p_parser p) (j_env j)) as [rp tp]. simpl in A3, C3. subst rp. simpl ok_or.
  assert (e = j_env j) as -> by (destruct B3 as [->|B3]; [reflexivity | symmetry; apply N.eqb_eq, B3]).
  (* 3. date *)
  assert (E3 : exists tq,
    match j_date j with
    | Some (dat, fmt) =>
        match text_of dat with
        | Some s =>
            if is_special s then (Some (dat, fmt), p_parse p)
            else let '(r, tq) := memo_call pkey_eqb parse_abs date_cap (p_parse p) (s, j_day j) in
                 (Some (with_text dat (ok_or r s), fmt), tq)
        | None => (Some (dat, fmt), p_parse p)
        end
    | None => (None, p_parse p)
    end = (j_date j, tq) /\ psound tq).
  { destruct (j_date j) as [[dat fmt]|]; [|eexists; split; eauto].
    destruct (text_of dat) as [s|] eqn:T; [|eexists; split; eauto].
    destruct (is_special s); [eexists; split; eauto|].
    pose proof (memo_call_transparent pkey_eqb parse_abs date_cap (p_parse p) (s, j_day j) parse_respects
                  (proj1 (psound_is_sound _) S4)) as E.
    pose proof (memo_call_sound pkey_eqb parse_abs date_cap (p_parse p) (s, j_day j) (proj1 (psound_is_sound _) S4)) as S'.
    destruct (memo_call pkey_eqb parse_abs date_cap (p_parse p) (s, j_day j)) as [r tq]. simpl in E, S'. subst r.
    unfold parse_abs. simpl. rewrite (with_text_id _ _ T). eexists; split; eauto. apply psound_is_sound, S'. }
  destruct E3 as (tq & -> & Sq).
  simpl. split.
  - symmetry. apply R. unfold job_keq. simpl.
    rewrite eqb_reflx, N.eqb_refl, opt_same_refl, Z.eqb_refl, N.eqb_refl, Cf. simpl.
    assert (pvs_eq (j_delims j) d = true) as ->; [|reflexivity].
    destruct B2 as [->|B2]; [exact Cd | eapply pvs_eq_trans; eauto].
  - constructor; auto.
Qed.

Lemma proc_state_sound ft hist : cfg_respected ft -> forall p, proc_sound p -> proc_sound (proc_state ft p hist).
Proof.
  intro R. induction hist as [|j r IH]; simpl; auto. intros p S. apply IH. apply step_spec; auto.
Qed.

Lemma proc0_sound : proc_sound proc0.
Proof. constructor; intros ? ? []. Qed.

(* a render job gives, after ANY history of jobs in the same process, what it gives in a process that has rendered
   nothing *)
Theorem proc_history_independent ft :
  cfg_respected ft -> forall hist j, fst (step ft (proc_state ft proc0 hist) j) = jlook ft j.
Proof.
  intros R hist j. apply step_spec; auto. apply proc_state_sound; auto using proc0_sound.
Qed.

Theorem proc_run_is_fresh ft : cfg_respected ft -> forall js, proc_run ft proc0 js = map (jlook ft) js.
Proof.
  intro R.
  assert (G : forall js p, proc_sound p -> proc_run ft p js = map (jlook ft) js).
  { induction js as [|j r IH]; intros p S; simpl; auto.
    destruct (step_spec ft p j R S) as [A B]. destruct (step ft p j) as [o p']. simpl in *. subst o. f_equal. auto. }
  intro js. apply G, proc0_sound.
Qed.

(* ------------------------------------------------------------------------------------------ *)
(* effects: no modelled filter writes to an object that exists                                  *)
Lemma alloc_extends h l : exists ext, fst (alloc h l) = h ++ ext.
Proof. exists [l]. reflexivity. Qed.

Lemma apply_filter_extends h op l a : exists ext, fst (apply_filter h op l a) = h ++ ext.
Proof.
  assert (N : exists ext, h = h ++ ext) by (exists []; rewrite app_nil_r; reflexivity).
  destruct op; simpl; try apply alloc_extends; auto.
  - destruct l; auto. destruct (cells h a0); auto.
  - destruct l; auto. destruct (cells h a0); auto.
  - destruct l; auto. destruct (rev (cells h a0)); auto.
  - destruct a; auto. destruct l; try apply alloc_extends; auto.
Qed.

Theorem chain_extends fs : forall h l, exists ext, fst (chain h l fs) = h ++ ext.
Proof.
  unfold chain. induction fs as [|[op a] r IH]; intros h l; simpl.
  - exists []. rewrite app_nil_r. reflexivity.
  - destruct (apply_filter_extends h op l a) as [e1 E1].
    destruct (apply_filter h op l a) as [h1 v1] eqn:A. simpl in E1. subst h1.
    destruct (IH (h ++ e1) v1) as [e2 E2]. exists (e1 ++ e2). simpl. rewrite E2, app_assoc. reflexivity.
Qed.

(* every list object that existed before a chain of filters has the same contents afterwards *)
Theorem filters_never_write fs h l a : (a < length h)%nat -> cells (fst (chain h l fs)) a = cells h a.
Proof.
  intro L. destruct (chain_extends fs h l) as [ext E]. rewrite E. unfold cells. apply app_nth1, L.
Qed.
