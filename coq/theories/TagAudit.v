(* Model of liquid/analyze_tags.py : TagAnalysis._audit_tags, at the level of tag names.
   Executable definitions only. *)
From Coq Require Import String Ascii.
From LiquidVerif Require Import Prelude.

Definition lit (x : string) : str := map N_of_ascii (list_ascii_of_string x).

Definition s_end : str := [101; 110; 100]%N.             (* "end" *)

Definition starts_end (s : str) : bool :=
  match s with
  | a :: b :: c :: _ => (N.eqb a 101 && N.eqb b 110 && N.eqb c 100)%bool
  | _ => false
  end.

Definition drop3 (s : str) : str := skipn 3 s.

Fixpoint mem (x : str) (l : list str) : bool :=
  match l with [] => false | y :: r => str_eqb x y || mem x r end.

(* what the audit reads from the environment's tag register *)
Record tagenv := {
  blocks : list (str * str);       (* registered block tags: (name, end); end may be empty (macro, block) *)
  inlines : list str;              (* registered inline tags, including break and continue *)
  inner : list (str * list str)    (* inner-tag map: block name -> its inner tags *)
}.

Definition block_names (e : tagenv) : list str := map fst (blocks e).
Definition registered (e : tagenv) : list str := block_names e ++ inlines e.

Definition s_break := lit "break".
Definition s_continue := lit "continue".

(* registered_tags: every registered name except break and continue *)
Definition registered_tags (e : tagenv) : list str :=
  filter (fun n => negb (str_eqb n s_break || str_eqb n s_continue)) (registered e).

(* registered_end_blocks: tag.end, or by the end-tag convention "end"+name when a block tag declares none *)
Definition registered_ends (e : tagenv) : list str :=
  map (fun ne => match snd ne with [] => s_end ++ fst ne | en => en end) (blocks e).

(* reverse inner map: the blocks that may enclose an inner tag *)
Definition enclosing (e : tagenv) (t : str) : list str :=
  map fst (filter (fun bi => mem t (snd bi)) (inner e)).

Record report := { unclosed : list str; unexpected : list str; unknown : list str }.

Definition end_tags_of (toks : list str) : list str := filter starts_end toks.

(* a tag that is not an end tag: silent if registered or a properly enclosed inner tag *)
Definition classify (e : tagenv) (t : str) (stack : list str) (r : report) : report :=
  if mem t (registered_tags e) then r
  else match enclosing e t with
       | [] => {| unclosed := unclosed r; unexpected := unexpected r; unknown := unknown r ++ [t] |}
       | encl => if existsb (fun b => mem b stack) encl then r
                 else {| unclosed := unclosed r; unexpected := unexpected r ++ [t]; unknown := unknown r |}
       end.

Definition pop_report (top t : str) (r : report) : report :=
  if str_eqb top (drop3 t) then r
  else {| unclosed := unclosed r ++ [top]; unexpected := unexpected r; unknown := unknown r |}.

Definition stray_end (t : str) (r : report) : report :=
  {| unclosed := unclosed r; unexpected := unexpected r ++ [t]; unknown := unknown r |}.

(* the main loop; [old] = the code before the fix, where popping an empty stack raises IndexError *)
Fixpoint audit_loop (old : bool) (e : tagenv) (block_tags end_tags : list str) (toks : list str)
  (stack : list str) (r : report) : res (list str * report) :=
  match toks with
  | [] => Ok (stack, r)
  | t :: rest =>
      if mem t block_tags then
        audit_loop old e block_tags end_tags rest (t :: stack) (classify e t (t :: stack) r)
      else if mem t end_tags then
        match stack with
        | [] => if old then Err EIndexError
                else audit_loop old e block_tags end_tags rest [] (stray_end t r)
        | top :: stack' => audit_loop old e block_tags end_tags rest stack' (pop_report top t r)
        end
      else audit_loop old e block_tags end_tags rest stack (classify e t stack r)
  end.

Fixpoint dedup (l : list str) : list str :=
  match l with [] => [] | x :: r => if mem x r then dedup r else x :: dedup r end.

Fixpoint count (x : str) (l : list str) : nat :=
  match l with [] => O | y :: r => (if str_eqb x y then 1 else 0) + count x r end.

Fixpoint repeat_str (x : str) (n : nat) : list str :=
  match n with O => [] | S n' => x :: repeat_str x n' end.

Definition bad_end (e : tagenv) (ends : list str) (unk : list str) (t : str) : bool :=
  let start := drop3 t in
  ((mem start (inlines e) && negb (mem start unk)) || (negb (mem t ends) && negb (mem start unk)))%bool.

Definition empty_report : report := {| unclosed := []; unexpected := []; unknown := [] |}.

Definition audit_gen (old : bool) (ends : tagenv -> list str) (e : tagenv) (toks : list str) : res report :=
  let end_tags := dedup (end_tags_of toks) in
  let block_tags := map drop3 end_tags ++ block_names e in
  do sr <- audit_loop old e block_tags end_tags toks [] empty_report;
  (* leftover blocks are unclosed (bottom of the stack first); then the bad end tags:
     every occurrence of an end tag whose start is an inline tag, or that no block registers *)
  let extra := flat_map (fun t => if bad_end e (ends e) (unknown (snd sr)) t then repeat_str t (count t toks) else []) end_tags in
  Ok {| unclosed := unclosed (snd sr) ++ rev (fst sr); unexpected := unexpected (snd sr); unknown := unknown (snd sr) ++ extra |}.

Definition audit := audit_gen false registered_ends.
(* before the fixes: IndexError on a stray end tag; only declared end names count as registered *)
Definition declared_ends (e : tagenv) : list str := filter (fun s => negb (str_eqb s [])) (map snd (blocks e)).
Definition audit_old := audit_gen true declared_ends.

(* ---- tag-level grammar: a superset of what the real parser accepts in strict mode ---- *)
Definition is_loop_interrupt (t : str) : bool := str_eqb t s_break || str_eqb t s_continue.

Fixpoint end_of (e : list (str * str)) (name : str) : option str :=
  match e with
  | [] => None
  | (n, en) :: r => if str_eqb n name then Some (match en with [] => s_end ++ n | _ => en end) else end_of r name
  end.

Fixpoint wellnested_from (e : tagenv) (toks : list str) (stack : list str) : bool :=
  match toks with
  | [] => match stack with [] => true | _ => false end
  | t :: rest =>
      if mem t (block_names e) then wellnested_from e rest (t :: stack)
      else if mem t (registered_ends e) then
        match stack with
        | top :: stack' =>
            match end_of (blocks e) top with
            | Some en => if str_eqb en t then wellnested_from e rest stack' else false
            | None => false
            end
        | [] => false
        end
      else if is_loop_interrupt t then
        (* accepted by the parser anywhere; the analysis only stays silent inside a block listing it *)
        if existsb (fun b => mem b stack) (enclosing e t) then wellnested_from e rest stack else false
      else if mem t (inlines e) then wellnested_from e rest stack
      else match stack with
           | top :: _ => if mem top (enclosing e t) then wellnested_from e rest stack else false
           | [] => false
           end
  end.

Definition wellnested (e : tagenv) (toks : list str) : bool := wellnested_from e toks [].

(* ---- correspondence ---- *)
Inductive obs := ORep (unclosed unexpected unknown : list (str * nat)) | OErr (e : exn).

Definition counts_match (l : list str) (c : list (str * nat)) : bool :=
  Nat.eqb (length l) (fold_right (fun p a => (snd p + a)%nat) O c)
  && forallb (fun p => Nat.eqb (count (fst p) l) (snd p)) c.

Definition obs_match (m : res report) (o : obs) : bool :=
  match m, o with
  | Ok r, ORep a b c => counts_match (unclosed r) a && counts_match (unexpected r) b && counts_match (unknown r) c
  | Err x, OErr y => exn_eqb x y
  | _, _ => false
  end.

Record case := { c_env : tagenv; c_toks : list str }.
Definition run_case (c : case) : res report := audit (c_env c) (c_toks c).
Definition run_wellnested (c : case) : bool := wellnested (c_env c) (c_toks c).

(* ---- well-formedness of a tag register, as a computable check (evaluated on the live tables) ---- *)
Definition all_inner (e : tagenv) : list str := flat_map snd (inner e).

Fixpoint nodupb (l : list str) : bool :=
  match l with [] => true | x :: r => negb (mem x r) && nodupb r end.

Definition wf_envb (e : tagenv) : bool :=
  forallb (fun ne => match snd ne with [] => true | en => str_eqb en (s_end ++ fst ne) end) (blocks e)
  && forallb (fun n => negb (starts_end n)) (registered e)
  && forallb (fun n => negb (starts_end n)) (all_inner e)
  && forallb (fun n => negb (mem n (inlines e))) (block_names e)
  && forallb (fun n => negb (is_loop_interrupt n)) (block_names e)
  && forallb (fun n => negb (mem n (block_names e))) (all_inner e)
  && nodupb (block_names e).
