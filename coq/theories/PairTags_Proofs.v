(* C01 -- proofs about PairTags.v: the two copies of include, render and call perform the same context
   operations in the same order (same evaluation log, same trace, same output, same outcome) on every input;
   the two divergences once seeded are refuted by witnesses in which only the log or only a copy flag differs. *)
From Coq Require Import String ZArith List Bool Lia.
From LiquidVerif Require Import Prelude PyPrims MacroArgs PairTags.
Import ListNotations.
Local Open Scope list_scope.

(* The asynchronous copies as they stand: every environment, context, node and starting state. *)
Theorem include_async_eq e c n s : include_async e c n s = include_sync e c n s.
Proof. reflexivity. Qed.

Theorem render_async_eq e c n s : render_async e c n s = render_sync e c n s.
Proof. reflexivity. Qed.

Theorem call_async_eq e c n s : call_async e c n s = call_sync e c n s.
Proof. reflexivity. Qed.

(* ---- seeded divergence 1: bound variable evaluated before the keyword arguments are in scope ---- *)
Definition k_gx : str := lit "gx".
Definition seed1_env : env :=
  {| e_loop_limit := None; e_depth_limit := 30; e_templates := [(lit "p", [PPrint (lit "p")])]; e_macros := [] |}.
Definition seed1_ctx : ctx :=
  {| c_scope := [[]]; c_globals := [(k_gx, VS 5)]; c_carry := 1; c_loops := []; c_no_include := false; c_counter := 0;
     c_copy_depth := 0 |}.
(* {% include 'p' with gx, gx: 7 %} *)
Definition seed1_node : include_node :=
  {| in_name := ELit (VS 0); in_tname := lit "p"; in_var := Some (EVar k_gx); in_alias := None;
     in_args := [(k_gx, ELit (VS 7))] |}.

Theorem include_async_seeded_refuted :
  exists e c n,
    s_log (snd (include_async_seeded e c n st0)) <> s_log (snd (include_sync e c n st0)) /\
    s_out (snd (include_async_seeded e c n st0)) <> s_out (snd (include_sync e c n st0)).
Proof. exists seed1_env, seed1_ctx, seed1_node. split; vm_compute; discriminate. Qed.

(* ---- seeded divergence 2: carry_loop_iterations dropped from the copy made by the asynchronous call ---- *)
Definition seed2_env : env :=
  {| e_loop_limit := Some 11; e_depth_limit := 30; e_templates := [];
     e_macros := [(lit "m", ([], [PFor 2]))] |}.
Definition seed2_ctx : ctx :=
  {| c_scope := [[]]; c_globals := []; c_carry := 1; c_loops := [2; 3]; c_no_include := false; c_counter := 0;
     c_copy_depth := 0 |}.
Definition seed2_node : call_node := {| cn_name := lit "m"; cn_pos := []; cn_kws := [] |}.

Theorem call_async_seeded_refuted :
  exists e c n,
    fst (call_async_seeded e c n st0) <> fst (call_sync e c n st0) /\
    s_trace (snd (call_async_seeded e c n st0)) <> s_trace (snd (call_sync e c n st0)).
Proof. exists seed2_env, seed2_ctx, seed2_node. split; vm_compute; discriminate. Qed.

(* ---- what both copies of include do, for all inputs: the bound variable is resolved with the keyword arguments in
        scope -- a keyword argument of the same name wins, and the globals are not consulted ---- *)
Theorem include_bound_var_sees_keyword e c m x y s c1 s1 :
  extend e c m s = (Ok c1, s1) -> alookup x m = Some y ->
  resolve c1 x s1 = (Ok y, log1 s1 (x, WLocal)).
Proof.
  unfold extend. destruct (Nat.ltb (e_depth_limit e) (4 + length (c_scope c))); [discriminate|].
  unfold mbind, trM, ret. intros H A. inversion H; subst; clear H.
  unfold resolve. simpl. rewrite A. reflexivity.
Qed.

(* ---- and both copies of render: the bound variable is resolved in the caller's context, which a copy never changes ---- *)
Theorem render_copy_keeps_caller e c m d k b t s cx s1 :
  copy e c m d k b t s = (Ok cx, s1) -> s_log s1 = s_log s /\ c_globals cx = c_globals c /\ c_counter cx = 0 /\ c_loops cx = [].
Proof.
  unfold copy. destruct (Nat.ltb (e_depth_limit e) (c_copy_depth c)); [discriminate|].
  unfold mbind, trM, ret. intro H. inversion H; subst. simpl. auto.
Qed.

(* carried iterations: what a copy with carry_loop_iterations multiplies into the limit check of the callee *)
Theorem copy_carries_iterations e c m d b t s cx s1 :
  copy e c m d true b t s = (Ok cx, s1) -> c_carry cx = prod (c_loops c) * c_carry c.
Proof.
  unfold copy. destruct (Nat.ltb (e_depth_limit e) (c_copy_depth c)); [discriminate|].
  unfold mbind, trM, ret. intro H. inversion H; subst. reflexivity.
Qed.
