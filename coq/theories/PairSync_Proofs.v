(* C01 -- proofs about PairSync.v: each repaired asynchronous copy equals its synchronous copy on every
   input; each copy as found is refuted by a witness and proved equal under the exact guard that excludes it. *)
From Coq Require Import String ZArith List Bool Lia.
From LiquidVerif Require Import Prelude PyPrims PairSync.
Import ListNotations.
Local Open Scope list_scope.

(* ------------------------------------------------------------------------------------------ *)
(* 1. context lookup and path evaluation                                                       *)
Lemma walk_async_eq rest : forall obj, walk_async obj rest = walk obj rest.
Proof. induction rest as [|s r IH]; intro obj; simpl; auto; destruct (get_item obj s); auto. Qed.

Theorem ctx_get_async_eq sc segs : ctx_get_async sc segs = ctx_get sc segs.
Proof.
  destruct segs as [|[root| |] rest]; simpl; auto; rewrite walk_async_eq; reflexivity.
Qed.

(* a getter only enters path evaluation through its results: equal getters give equal evaluations *)
Lemma eval_path_ext g1 g2 : (forall sc ss, g1 sc ss = g2 sc ss) ->
  forall fuel sc p, eval_path g1 fuel sc p = eval_path g2 fuel sc p.
Proof.
  intro H. induction fuel as [|f IH]; intros sc p; simpl; auto.
  assert (E : forall l,
    (fix segs (l : list pseg) : res (list seg) :=
       match l with
       | [] => Ok []
       | PName s :: r => do rs <- segs r; Ok (SStr s :: rs)
       | PIndex z :: r => do rs <- segs r; Ok (SInt z :: rs)
       | PNested q :: r =>
           match eval_path g1 f sc q with
           | Ok v => do rs <- segs r; Ok (to_seg v :: rs)
           | Err e => Err e
           | OutOfFuel => OutOfFuel
           end
       end) l =
    (fix segs (l : list pseg) : res (list seg) :=
       match l with
       | [] => Ok []
       | PName s :: r => do rs <- segs r; Ok (SStr s :: rs)
       | PIndex z :: r => do rs <- segs r; Ok (SInt z :: rs)
       | PNested q :: r =>
           match eval_path g2 f sc q with
           | Ok v => do rs <- segs r; Ok (to_seg v :: rs)
           | Err e => Err e
           | OutOfFuel => OutOfFuel
           end
       end) l).
  { induction l as [|[s|z|q] r IHl]; auto.
    - rewrite IHl. reflexivity.
    - rewrite IHl. reflexivity.
    - rewrite IH, IHl. reflexivity. }
  rewrite E. destruct (_ p) as [ss| |]; simpl; auto.
Qed.

(* Path.evaluate_async = Path.evaluate, for every path (any nesting), scope and fuel *)
Theorem path_async_eq fuel sc p : eval_path_async fuel sc p = eval_path_sync fuel sc p.
Proof. apply eval_path_ext. intros. apply ctx_get_async_eq. Qed.

(* as found: {{ [x] }} with x = 1 *)
Definition x_name : str := plit "x"%string.
Theorem path_async_old_refuted :
  exists sc p, eval_path_async_old (path_size p) sc p <> eval_path_sync (path_size p) sc p.
Proof.
  exists [(x_name, VInt 1)], [PNested [PName x_name]]. vm_compute. discriminate.
Qed.

(* ... and equal whenever the root of the path and of every nested path is a name (what every test samples) *)
Lemma ctx_get_old_named sc s rest : ctx_get_async_old sc (SStr s :: rest) = ctx_get sc (SStr s :: rest).
Proof. simpl. try rewrite walk_async_eq. reflexivity. Qed.

Theorem path_async_old_partial : forall fuel sc p,
  roots_named fuel p = true -> eval_path_async_old fuel sc p = eval_path_sync fuel sc p.
Proof.
  unfold eval_path_async_old, eval_path_sync.
  induction fuel as [|f IH]; intros sc p G; [discriminate|].
  destruct p as [|[s| |] r]; simpl in G; try discriminate.
  simpl.
  assert (E : forall l, forallb (fun s => match s with PNested q => roots_named f q | _ => true end) l = true ->
    (fix segs (l : list pseg) : res (list seg) :=
       match l with
       | [] => Ok []
       | PName s :: r => do rs <- segs r; Ok (SStr s :: rs)
       | PIndex z :: r => do rs <- segs r; Ok (SInt z :: rs)
       | PNested q :: r =>
           match eval_path ctx_get_async_old f sc q with
           | Ok v => do rs <- segs r; Ok (to_seg v :: rs)
           | Err e => Err e
           | OutOfFuel => OutOfFuel
           end
       end) l =
    (fix segs (l : list pseg) : res (list seg) :=
       match l with
       | [] => Ok []
       | PName s :: r => do rs <- segs r; Ok (SStr s :: rs)
       | PIndex z :: r => do rs <- segs r; Ok (SInt z :: rs)
       | PNested q :: r =>
           match eval_path ctx_get f sc q with
           | Ok v => do rs <- segs r; Ok (to_seg v :: rs)
           | Err e => Err e
           | OutOfFuel => OutOfFuel
           end
       end) l).
  { induction l as [|[s'|z|q] r' IHl]; simpl; auto; intro A.
    - rewrite IHl; auto.
    - rewrite IHl; auto.
    - apply andb_true_iff in A. destruct A as [A B]. rewrite (IH sc q A), IHl; auto. }
  rewrite (E r G). destruct (_ r) as [ss| |]; simpl; auto; try rewrite walk_async_eq; reflexivity.
Qed.

(* ------------------------------------------------------------------------------------------ *)
(* 2. if / elsif                                                                               *)
Lemma alts_async_eq alts : forall n dflt, alts_async n alts dflt = alts_sync n alts dflt.
Proof. induction alts as [|[c b] r IH]; intros n dflt; simpl; auto; destruct (c n); auto. Qed.

(* repaired: same rendered blocks AND same number of condition evaluations, for conditions with any side effects *)
Theorem if_async_eq n node : if_async n node = if_sync n node.
Proof. unfold if_async, if_sync. destruct (i_cond node n); auto; apply alts_async_eq. Qed.

(* as found: a condition that is true when first evaluated and false the second time *)
Theorem if_async_old_refuted : exists node, fst (if_async_old 0 node) <> fst (if_sync 0 node).
Proof.
  exists {| i_cond := fun _ => false; i_then := 0%N; i_alts := [((fun n => Nat.eqb n 1), 1%N)]; i_else := Some 9%N |}.
  vm_compute. discriminate.
Qed.

(* as found, side-effect-free conditions: the same blocks are rendered (the evaluation count still differs) *)
Lemma alts_async_old_pure alts : Forall (fun cb => pure_cond (fst cb)) alts ->
  forall n m dflt, fst (alts_async_old n alts dflt) = fst (alts_sync m alts dflt).
Proof.
  induction 1 as [|[c b] r P _ IH]; intros n m dflt; simpl; auto.
  simpl in P. rewrite (P n m). destruct (c m) eqn:E; [|apply IH].
  rewrite (P (S n) m), E. reflexivity.
Qed.

Theorem if_async_old_partial node n :
  pure_cond (i_cond node) -> Forall (fun cb => pure_cond (fst cb)) (i_alts node) ->
  fst (if_async_old n node) = fst (if_sync n node).
Proof.
  intros P A. unfold if_async_old, if_sync. destruct (i_cond node n); auto. apply alts_async_old_pure, A.
Qed.

(* ... and the evaluation count does differ even then *)
Theorem if_async_old_counts_refuted : exists node,
  pure_cond (i_cond node) /\ Forall (fun cb => pure_cond (fst cb)) (i_alts node) /\
  snd (if_async_old 0 node) <> snd (if_sync 0 node).
Proof.
  exists {| i_cond := fun _ => false; i_then := 0%N; i_alts := [((fun _ => true), 1%N)]; i_else := None |}.
  split; [intros ? ?; reflexivity|]. split; [constructor; [intros ? ?; reflexivity | constructor]|].
  vm_compute. discriminate.
Qed.

(* ------------------------------------------------------------------------------------------ *)
(* 3. filtered and ternary expressions                                                         *)
Definition filters_agree (fs : list filt) : Prop :=
  Forall (fun f => match f_async f with Some g => forall v, g v = f_sync f v | None => True end) fs.

Lemma apply_async_eq fs : filters_agree fs -> forall v, apply_async fs v = apply_sync fs v.
Proof.
  induction 1 as [|f r A _ IH]; intro v; simpl; auto.
  destruct (f_async f) as [g|]; [rewrite A|]; destruct (f_sync f v); simpl; auto.
Qed.

Theorem filtered_async_eq left fs : filters_agree fs -> filtered_async left fs = filtered_sync left fs.
Proof. intro A. unfold filtered_async, filtered_sync. destruct left; simpl; auto. apply apply_async_eq, A. Qed.

Lemma filters_agree_builtin fs : Forall (fun f => f_async f = None) fs -> filters_agree fs.
Proof. induction 1 as [|f r A _ IH]; constructor; auto. rewrite A. exact I. Qed.

Theorem ternary_async_eq c left lfs alt fs tail :
  filters_agree lfs -> filters_agree fs -> filters_agree tail ->
  ternary_async c left lfs alt fs tail = ternary_sync c left lfs alt fs tail.
Proof.
  intros A B C. unfold ternary_async, ternary_sync. destruct c as [b| |]; simpl; auto.
  rewrite (filtered_async_eq left lfs A).
  destruct b.
  - destruct (filtered_sync left lfs); simpl; auto. apply apply_async_eq, C.
  - destruct alt as [[v| |]|]; simpl; auto.
    + rewrite (apply_async_eq fs B). destruct (apply_sync fs v); simpl; auto. apply apply_async_eq, C.
    + apply apply_async_eq, C.
Qed.

(* a filter whose asynchronous version differs is visible: the hypothesis is needed *)
Theorem filtered_async_needs_agreement :
  exists f v, filtered_async (Ok v) [f] <> filtered_sync (Ok v) [f].
Proof.
  exists {| f_sync := fun v => Ok v; f_async := Some (fun _ => Ok VNil) |}, (VInt 1). vm_compute. discriminate.
Qed.

(* ------------------------------------------------------------------------------------------ *)
(* 4. loader: template name, include binding                                                    *)
Theorem load_name_async_eq name full : load_name_async name full = load_name_sync name full.
Proof. reflexivity. Qed.

Theorem include_key_async_eq alias name full :
  include_key alias (load_name_async name full) = include_key alias (load_name_sync name full).
Proof. reflexivity. Qed.

Definition dirq : str := plit "dir/q"%string.
Theorem load_name_async_old_refuted :
  exists name full, load_name_async_old name full <> load_name_sync name full /\
                    include_key None (load_name_async_old name full) <> include_key None (load_name_sync name full).
Proof. exists dirq, dirq. split; vm_compute; discriminate. Qed.

Lemma basename_acc_noslash s : forall acc, has_slash s = false -> basename_acc s acc = rev acc ++ s.
Proof.
  induction s as [|c r IH]; intros acc H; simpl in *.
  - rewrite app_nil_r. reflexivity.
  - apply orb_false_iff in H. destruct H as [A B]. rewrite A. rewrite IH by exact B. simpl. rewrite <- app_assoc. reflexivity.
Qed.

(* as found: equal exactly for the names every test uses -- no directory part, source name = requested name *)
Theorem load_name_async_old_partial name : has_slash name = false ->
  load_name_async_old name name = load_name_sync name name.
Proof. intro H. unfold load_name_async_old, load_name_sync, basename. rewrite basename_acc_noslash by exact H. reflexivity. Qed.
