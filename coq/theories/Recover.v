(* Error recovery of the template parser and of the render loop under the three tolerance modes
   (Mode.STRICT / WARN / LAX).  The model works on the token stream the template lexer hands to the parser
   (liquid/lex.py: CONTENT, OUTPUT always followed by EXPRESSION, TAG followed by EXPRESSION only when the
   expression text is not empty) and transcribes, with the exact stream position at every raise:
     Environment.error / RenderContext.error               -> handle
     Parser._parse / Parser.parse_block (per-node catch)   -> ploop / pblock_of
     Tag.get_node (IllegalNode + eat_block to the end tag) -> get_node
     eat_block                                             -> eat_to
     the parse methods of content, output, unknown tags (builtin/illegal.py), assign, echo, break, continue,
     if / unless (elsif recovery, tag-local lax treatment of else expressions and of extra else / elsif blocks),
     for / else, case / when / else (junk between case and the first when), capture
     BoundTemplate.render_with_context (per top-level node: interrupt -> syntax error, LiquidError -> env.error)
     BlockNode.render and the render methods of the nodes above (no handler below the top level).
   Expressions are opaque: a token says whether its text parses (always / only outside strict mode / never) and what
   it evaluates to on the data at hand (text, a count used as truth value - iterations - number of when matches,
   or a render-time error).  Executable definitions only. *)
From LiquidVerif Require Import Prelude.

Inductive mode := Strict | Warn | Lax.

(* ---------------------------------------------------------------- Environment.error *)
(* emitted: the warnings the run has issued; suppressed: every error that reached Environment.error and was not
   re-raised (what a user of lax mode never sees) *)
Record log := { emitted : list exn; suppressed : list exn }.
Definition log0 : log := {| emitted := []; suppressed := [] |}.

Definition handle (m : mode) (e : exn) (l : log) : res log :=
  match m with
  | Strict => Err e
  | Warn => Ok {| emitted := emitted l ++ [e]; suppressed := suppressed l ++ [e] |}
  | Lax => Ok {| emitted := emitted l; suppressed := suppressed l ++ [e] |}
  end.

(* ---------------------------------------------------------------- tokens *)
Inductive rexpr :=
| RVal (txt : str) (n : nat)      (* renders as txt; n is its truth (n > 0), iteration count, number of when matches *)
| RCap                            (* the variable the capture tag writes *)
| RErr (e : exn).                 (* evaluation raises e *)

Inductive xq :=
| XOk (r : rexpr)                 (* the expression text parses in every mode *)
| XStrictOnly (r : rexpr)         (* rejected by a check made only when env.mode is STRICT (path.py, arguments.py, filtered.py, loop.py) *)
| XBad.                           (* LiquidSyntaxError in every mode *)

Inductive tname :=
| Nif | Nunless | Nelsif | Nelse | Nendif | Nendunless
| Nfor | Nendfor | Nbreak | Ncontinue
| Ncase | Nwhen | Nendcase
| Ncapture | Nendcapture
| Nassign | Necho
| Nunknown.                       (* any name without a registered tag *)

Inductive tok :=
| TContent (s : str)
| TOutput
| TExpr (q : xq)
| TTag (n : tname).

Definition tname_eqb (a b : tname) : bool :=
  match a, b with
  | Nif, Nif | Nunless, Nunless | Nelsif, Nelsif | Nelse, Nelse | Nendif, Nendif | Nendunless, Nendunless
  | Nfor, Nfor | Nendfor, Nendfor | Nbreak, Nbreak | Ncontinue, Ncontinue
  | Ncase, Ncase | Nwhen, Nwhen | Nendcase, Nendcase | Ncapture, Ncapture | Nendcapture, Nendcapture
  | Nassign, Nassign | Necho, Necho | Nunknown, Nunknown => true
  | _, _ => false
  end.

Fixpoint tmem (n : tname) (l : list tname) : bool :=
  match l with [] => false | x :: l' => tname_eqb n x || tmem n l' end.

(* ---------------------------------------------------------------- parse tree *)
Inductive node :=
| NContent (s : str)
| NIllegal
| NOutput (r : rexpr)                                             (* output statement and echo *)
| NAssign (r : rexpr)
| NIf (neg : bool) (c : rexpr) (cns : block) (alt : alts) (dflt : block)   (* neg: unless *)
| NFor (c : rexpr) (body : block) (dflt : block)
| NCase (bs : cblocks)
| NCapture (body : block)
| NBreak | NContinue
with block := BNil | BCons (n : node) (b : block)
with alts := ANil | ACons (r : rexpr) (b : block) (a : alts)
with cblocks := CNil | CWhen (r : rexpr) (b : block) (c : cblocks) | CElse (b : block) (c : cblocks).

(* ---------------------------------------------------------------- token stream *)
Record stream := { toks : list tok; depth : nat }.          (* TokenStream: remaining tokens, block_depth *)

Definition adv (st : stream) : stream := {| toks := tl (toks st); depth := depth st |}.     (* next(stream) *)

Definition cur_is_tag (n : tname) (st : stream) : bool :=
  match toks st with TTag n' :: _ => tname_eqb n n' | _ => false end.

Definition cur_is_expr (st : stream) : bool :=
  match toks st with TExpr _ :: _ => true | _ => false end.

Fixpoint eat_to (stops : list tname) (ts : list tok) : list tok :=
  match ts with
  | [] => []
  | TTag n :: r => if tmem n stops then ts else eat_to stops r
  | _ :: r => eat_to stops r
  end.
Definition eat_block (stops : list tname) (st : stream) : stream :=
  {| toks := eat_to stops (toks st); depth := depth st |}.

(* outcome of a parse method: a value, or a raise, each with the stream position and the log at that moment *)
Inductive pres (A : Type) :=
| POk (a : A) (st : stream) (l : log)
| PErr (e : exn) (st : stream) (l : log)
| PFuel.
Arguments POk {A} a st l. Arguments PErr {A} e st l. Arguments PFuel {A}.

Definition pbind {A B} (r : pres A) (k : A -> stream -> log -> pres B) : pres B :=
  match r with POk a st l => k a st l | PErr e st l => PErr e st l | PFuel => PFuel end.

(* Environment.error at a point where execution continues with k when the error is not re-raised *)
Definition handled {B} (m : mode) (e : exn) (st : stream) (l : log) (k : log -> pres B) : pres B :=
  match handle m e l with Ok l' => k l' | Err e' => PErr e' st l | OutOfFuel => PFuel end.

(* the words that stop the junk skipping between case and its first when (it compares token VALUES) *)
From Coq Require Import String Ascii.
Definition slit (x : string) : str := map N_of_ascii (list_ascii_of_string x).
Definition junk_words : list str :=
  [slit "endcase"; slit "when"; slit "else"; slit "end of expression"].
Fixpoint smem (s : str) (l : list str) : bool := match l with [] => false | x :: l' => str_eqb s x || smem s l' end.

Fixpoint skip_junk (ts : list tok) : list tok :=
  match ts with
  | TContent s :: r => if smem s junk_words then ts else skip_junk r
  | TOutput :: r => skip_junk r
  | TExpr _ :: r => skip_junk r
  | _ => ts
  end.

Section Parser.
  Variable m : mode.
  Variable limit : nat.                                     (* env.block_nesting_limit *)

  Definition pexpr (q : xq) : option rexpr :=
    match q with
    | XOk r => Some r
    | XStrictOnly r => match m with Strict => None | _ => Some r end
    | XBad => None
    end.

  (* stream.into_inner(tag=..., eat=...) followed by the tag's expression parser: the value and the stream, or the
     stream position at the raise (with eat, the expression token is consumed before its text is parsed) *)
  Definition inner (eat : bool) (st : stream) : (rexpr * stream) + stream :=
    match toks st with
    | TExpr q :: _ =>
        let st' := if eat then adv st else st in
        match pexpr q with Some r => inl (r, st') | None => inr st' end
    | _ => inr st
    end.

  (* ---- tags without a block ---- *)
  Definition p_content (st : stream) (l : log) : pres node :=
    match toks st with TContent s :: _ => POk (NContent s) st l | _ => PErr ESyntax st l end.

  Definition p_output (st : stream) (l : log) : pres node :=
    let st1 := adv st in
    match inner false st1 with inl (r, st2) => POk (NOutput r) st2 l | inr st2 => PErr ESyntax st2 l end.

  Definition p_illegal (st : stream) (l : log) : pres node :=
    PErr ESyntax (if cur_is_expr (adv st) then adv st else st) l.

  Definition p_assign (st : stream) (l : log) : pres node :=
    match inner false (adv st) with inl (r, st2) => POk (NAssign r) st2 l | inr st2 => PErr ESyntax st2 l end.

  Definition p_echo (st : stream) (l : log) : pres node :=
    let st1 := adv st in
    match toks st1 with
    | [] => POk (NOutput (RVal [] 0)) st1 l
    | _ => match inner false st1 with inl (r, st2) => POk (NOutput r) st2 l | inr st2 => PErr ESyntax st2 l end
    end.

  Definition p_leaf (n : node) (st : stream) (l : log) : pres node := POk n st l.     (* break, continue *)

  (* ---- block tags; pb is Parser.parse_block ---- *)
  Variable pb : list tname -> stream -> log -> pres block.

  (* the while loop over elsif tags of IfTag.parse / UnlessTag.parse.  None: an elsif expression did not parse, the
     error went to Environment.error, the stream was moved to the next elsif / else / end tag and the whole tag
     becomes an IllegalNode *)
  Fixpoint p_elsifs (g : nat) (endt : tname) (st : stream) (l : log) : pres (option alts) :=
    match g with
    | O => PFuel
    | S g' =>
        if cur_is_tag Nelsif st then
          match inner true (adv st) with
          | inr st' => handled m ESyntax st' l (fun l' => POk None (eat_block [endt; Nelsif; Nelse] st') l')
          | inl (r, st') =>
              pbind (pb [endt; Nelsif; Nelse] st' l) (fun b st2 l2 =>
              pbind (p_elsifs g' endt st2 l2) (fun oa st3 l3 =>
              POk (match oa with Some a => Some (ACons r b a) | None => None end) st3 l3))
          end
        else POk (Some ANil) st l
    end.

  Definition p_if (g : nat) (neg : bool) (st : stream) (l : log) : pres node :=
    let endt := if neg then Nendunless else Nendif in
    match inner true (adv st) with
    | inr st2 => PErr ESyntax st2 l
    | inl (c, st2) =>
        pbind (pb [endt; Nelsif; Nelse] st2 l) (fun cns st3 l3 =>
        pbind (p_elsifs g endt st3 l3) (fun oa st4 l4 =>
        match oa with
        | None => POk NIllegal st4 l4
        | Some a =>
            pbind (if cur_is_tag Nelse st4
                   then let s1 := adv st4 in
                        pb [endt; Nelse; Nelsif] (if cur_is_expr s1 then adv s1 else s1) l4
                   else POk BNil st4 l4) (fun d st5 l5 =>
            let st6 := eat_block [endt] st5 in
            if cur_is_tag endt st6 then POk (NIf neg c cns a d) st6 l5 else PErr ESyntax st6 l5)
        end))
    end.

  Definition p_for (st : stream) (l : log) : pres node :=
    match inner true (adv st) with
    | inr st2 => PErr ESyntax st2 l
    | inl (c, st2) =>
        pbind (pb [Nendfor; Nelse] st2 l) (fun body st3 l3 =>
        pbind (if cur_is_tag Nelse st3 then pb [Nendfor] (adv st3) l3 else POk BNil st3 l3) (fun d st4 l4 =>
        if cur_is_tag Nendfor st4 then POk (NFor c body d) st4 l4 else PErr ESyntax st4 l4))
    end.

  Definition p_capture (st : stream) (l : log) : pres node :=
    match inner true (adv st) with
    | inr st2 => PErr ESyntax st2 l
    | inl (_, st2) =>
        pbind (pb [Nendcapture] st2 l) (fun body st3 l3 =>
        if cur_is_tag Nendcapture st3 then POk (NCapture body) st3 l3 else PErr ESyntax st3 l3)
    end.

  Definition endwhen : list tname := [Nendcase; Nwhen; Nelse].

  Fixpoint p_cases (g : nat) (st : stream) (l : log) : pres cblocks :=
    match g with
    | O => PFuel
    | S g' =>
        if cur_is_tag Nendcase st then POk CNil st l
        else if cur_is_tag Nelse st then
          pbind (pb endwhen (adv st) l) (fun b st2 l2 =>
          pbind (p_cases g' st2 l2) (fun c st3 l3 => POk (CElse b c) st3 l3))
        else if cur_is_tag Nwhen st then
          match inner true (adv st) with
          | inr st' => PErr ESyntax st' l
          | inl (r, st') =>
              pbind (pb endwhen st' l) (fun b st2 l2 =>
              pbind (p_cases g' st2 l2) (fun c st3 l3 => POk (CWhen r b c) st3 l3))
          end
        else PErr ESyntax st l
    end.

  Definition p_case (g : nat) (st : stream) (l : log) : pres node :=
    match inner true (adv st) with
    | inr st2 => PErr ESyntax st2 l
    | inl (_, st2) =>
        let st3 := {| toks := skip_junk (toks st2); depth := depth st2 |} in
        pbind (p_cases g st3 l) (fun bs st4 l4 => POk (NCase bs) st4 l4)
    end.

  (* the register: parse method and, for block tags, the end tag that Tag.get_node eats to *)
  Definition parse_of (g : nat) (n : tname) : stream -> log -> pres node :=
    match n with
    | Nif => p_if g false | Nunless => p_if g true
    | Nfor => p_for | Ncase => p_case g | Ncapture => p_capture
    | Nassign => p_assign | Necho => p_echo
    | Nbreak => p_leaf NBreak | Ncontinue => p_leaf NContinue
    | _ => p_illegal
    end.

  Definition end_of (n : tname) : option tname :=
    match n with
    | Nif => Some Nendif | Nunless => Some Nendunless | Nfor => Some Nendfor
    | Ncase => Some Nendcase | Ncapture => Some Nendcapture
    | _ => None
    end.

  (* Tag.get_node *)
  Definition get_node (parse : stream -> log -> pres node) (endt : option tname) (st : stream) (l : log) : pres node :=
    match parse st l with
    | PErr e st' l' =>
        handled m e st' l' (fun l2 => POk NIllegal (match endt with Some e' => eat_block [e'] st' | None => st' end) l2)
    | r => r
    end.

  (* the dispatch at the top of the loop body of _parse / parse_block *)
  Definition pnode (g : nat) (st : stream) (l : log) : pres node :=
    match toks st with
    | TOutput :: _ => get_node p_output None st l
    | TTag n :: _ => get_node (parse_of g n) (end_of n) st l
    | _ => get_node p_content None st l
    end.
End Parser.

Definition is_stop (stops : list tname) (t : tok) : bool :=
  match t with TTag n => tmem n stops | _ => false end.

(* Parser.parse_block around its loop: block_depth bookkeeping (the raise leaves the depth incremented) *)
Definition pblock_of (limit : nat) (loop : list tname -> stream -> log -> pres block)
  (stops : list tname) (st : stream) (l : log) : pres block :=
  let st1 := {| toks := toks st; depth := S (depth st) |} in
  if Nat.ltb limit (depth st1) then PErr ELiquid st1 l        (* BlockNestingError *)
  else pbind (loop stops st1 l) (fun b st2 l2 => POk b {| toks := toks st2; depth := pred (depth st2) |} l2).

(* the loop shared by Parser._parse (stops = []) and Parser.parse_block *)
Fixpoint ploop (m : mode) (limit : nat) (f : nat) (stops : list tname) (st : stream) (l : log) {struct f} : pres block :=
  match f with
  | O => PFuel
  | S f' =>
      match toks st with
      | [] => POk BNil st l
      | t :: _ =>
          if is_stop stops t then POk BNil st l
          else
            match pnode m (pblock_of limit (ploop m limit f')) f' st l with
            | POk n st' l' => pbind (ploop m limit f' stops (adv st') l') (fun b st2 l2 => POk (BCons n b) st2 l2)
            | PErr e st' l' => handled m e st' l' (fun l2 => ploop m limit f' stops (adv st') l2)
            | PFuel => PFuel
            end
      end
  end.

Definition parse_fuel (m : mode) (limit : nat) (f : nat) (ts : list tok) : res (block * log) :=
  match ploop m limit f [] {| toks := ts; depth := 0 |} log0 with
  | POk b _ l => Ok (b, l)
  | PErr e _ _ => Err e
  | PFuel => OutOfFuel
  end.

Definition parse (m : mode) (limit : nat) (ts : list tok) : res (block * log) :=
  parse_fuel m limit (S (List.length ts)) ts.

(* ---------------------------------------------------------------- rendering *)
Inductive intr := IBreak | IContinue.
Inductive outcome := Done | Raised (e : exn) | Intr (i : intr).

(* (text written to the buffer, value of the captured variable afterwards, how the call ended) *)
Definition rr := (str * str * outcome)%type.

Definition eval (r : rexpr) (cap : str) : (str * nat) + exn :=
  match r with
  | RVal t n => inl (t, n)
  | RCap => inl (cap, List.length cap)
  | RErr e => inr e
  end.

Definition seq (a : rr) (k : str -> rr) : rr :=
  let '(t, c, o) := a in
  match o with Done => let '(t2, c2, o2) := k c in (t ++ t2, c2, o2) | _ => (t, c, o) end.

Fixpoint rnode (n : node) (cap : str) {struct n} : rr :=
  match n with
  | NContent s => (s, cap, Done)
  | NIllegal => ([], cap, Done)
  | NOutput r => match eval r cap with inl (t, _) => (t, cap, Done) | inr e => ([], cap, Raised e) end
  | NAssign r => match eval r cap with inr e => ([], cap, Raised e) | inl _ => ([], cap, Done) end
  | NIf neg c cns alt d =>
      match eval c cap with
      | inr e => ([], cap, Raised e)
      | inl (_, k) => if xorb neg (negb (Nat.eqb k 0)) then rblock cns cap else match ralts alt cap with Some r => r | None => rblock d cap end
      end
  | NFor c body d =>
      match eval c cap with
      | inr e => ([], cap, Raised e)
      | inl (_, O) => rblock d cap
      | inl (_, k) =>
          (fix iter (k : nat) (cap : str) : rr :=
             match k with
             | O => ([], cap, Done)
             | S k' =>
                 let '(t, c, o) := rblock body cap in
                 match o with
                 | Done | Intr IContinue => let '(t2, c2, o2) := iter k' c in (t ++ t2, c2, o2)
                 | Intr IBreak => (t, c, Done)
                 | Raised e => (t, c, Raised e)
                 end
             end) k cap
      end
  | NCase bs => rcases bs true cap
  | NCapture body =>
      let '(t, c, o) := rblock body cap in
      match o with Done => ([], t, Done) | _ => ([], c, o) end
  | NBreak => ([], cap, Intr IBreak)
  | NContinue => ([], cap, Intr IContinue)
  end
with rblock (b : block) (cap : str) {struct b} : rr :=
  match b with
  | BNil => ([], cap, Done)
  | BCons n b' => seq (rnode n cap) (rblock b')
  end
with ralts (a : alts) (cap : str) {struct a} : option rr :=       (* None: no elsif condition holds *)
  match a with
  | ANil => None
  | ACons r b a' =>
      match eval r cap with
      | inr e => Some ([], cap, Raised e)
      | inl (_, k) => if Nat.eqb k 0 then ralts a' cap else Some (rblock b cap)
      end
  end
with rcases (c : cblocks) (dflt : bool) (cap : str) {struct c} : rr :=
  match c with
  | CNil => ([], cap, Done)
  | CWhen r b c' =>
      match eval r cap with
      | inr e => ([], cap, Raised e)
      | inl (_, O) => rcases c' dflt cap
      | inl (_, k) =>
          seq ((fix rep (k : nat) (cap : str) : rr :=
                  match k with O => ([], cap, Done) | S k' => seq (rblock b cap) (rep k') end) k cap)
              (rcases c' false)
      end
  | CElse b c' => if dflt then seq (rblock b cap) (rcases c' dflt) else rcases c' dflt cap
  end.

(* BoundTemplate.render_with_context for a top-level template: out is the buffer *)
Fixpoint render_top (m : mode) (b : block) (cap : str) (out : str) (l : log) : res (str * log) :=
  match b with
  | BNil => Ok (out, l)
  | BCons n b' =>
      let '(t, c, o) := rnode n cap in
      match o with
      | Done => render_top m b' c (out ++ t) l
      | Intr _ => do l' <- handle m ESyntax l; render_top m b' c (out ++ t) l'
      | Raised e =>
          if is_liquid e then do l' <- handle m e l; render_top m b' c (out ++ t) l'
          else Err e
      end
  end.

Definition render (m : mode) (b : block) : res (str * log) := render_top m b [] [] log0.

(* ---------------------------------------------------------------- what the check observes *)
Inductive obs :=
| OParseErr (e : exn)                    (* from_string raised *)
| ORenderErr (e : exn)                   (* render raised *)
| OOut (text : str) (nwarn : nat)        (* rendered text and the number of warnings issued by from_string + render *)
| OFuel.

Record rcase := { rc_mode : mode; rc_limit : nat; rc_toks : list tok }.

Definition run_recover (c : rcase) : obs :=
  match parse (rc_mode c) (rc_limit c) (rc_toks c) with
  | Err e => OParseErr e
  | OutOfFuel => OFuel
  | Ok (b, l1) =>
      match render (rc_mode c) b with
      | Err e => ORenderErr e
      | OutOfFuel => OFuel
      | Ok (t, l2) => OOut t (List.length (emitted l1) + List.length (emitted l2))
      end
  end.

Definition obs_eqb (a b : obs) : bool :=
  match a, b with
  | OParseErr x, OParseErr y | ORenderErr x, ORenderErr y => exn_eqb x y
  | OOut t n, OOut t' n' => str_eqb t t' && Nat.eqb n n'
  | _, _ => false
  end.
