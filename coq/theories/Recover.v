(* Error recovery of the template parser and of the render loop under the three tolerance modes
   (Mode.STRICT / WARN / LAX) -- the enlarged language.  The model works on the token stream the template lexer hands to
   the parser (liquid/lex.py: CONTENT, OUTPUT always followed by EXPRESSION, TAG followed by EXPRESSION only when the
   expression text is not empty, COMMENT between comment / endcomment, DOC) and transcribes, with the exact stream position
   at every raise:
     Environment.error                                       -> handle
     Parser._parse / Parser.parse_block (per-node catch)     -> ploop / pblock_of
     Tag.get_node (IllegalNode + eat_block to the end tag; macro and block have NO end attribute and so eat to a tag
       without a name, in practice to the end of the source)                                   -> get_node / end_of
     eat_block                                               -> eat_to
     the parse methods of content, output, unknown tags (builtin/illegal.py), assign, echo, break, continue,
     cycle, increment, decrement, include, render, call, extends (one shape: eat the tag, parse its expression in place),
     if / unless (elsif recovery, tag-local lax rules), for / else, case / when / else, capture, tablerow, with, macro
     (one shape: tag, expression, block, end tag), block (+ the endblock name check), ifchanged, translate / plural (message
     validation after the block is parsed), comment, doc, the inline comment tag, liquid (its own token stream, parsed with
     the block depth carried over)
     BoundTemplate.render_with_context (per top-level node: interrupt -> syntax error, LiquidError -> env.error,
       StopRender -> stop) and the render methods of the nodes above (no handler below the top level).
   Expressions are opaque: a token says whether its text parses (always / only outside strict mode / never, with the error
   class) and what it evaluates to on the data at hand.  Executable definitions only. *)
From LiquidVerif Require Import Prelude.

Inductive mode := Strict | Warn | Lax.

(* ---------------------------------------------------------------- Environment.error *)
Record log := { emitted : list exn; suppressed : list exn }.
Definition log0 : log := {| emitted := []; suppressed := [] |}.

Definition handle (m : mode) (e : exn) (l : log) : res log :=
  match m with
  | Strict => Err e
  | Warn => Ok {| emitted := emitted l ++ [e]; suppressed := suppressed l ++ [e] |}
  | Lax => Ok {| emitted := emitted l; suppressed := suppressed l ++ [e] |}
  end.

(* ---------------------------------------------------------------- tokens *)
Inductive rexpr :=
| RVal (txt : str) (n : nat)      (* renders as txt; n is its truth (n > 0), iteration count, number of when matches *)
| RVar (txt : str) (n : nat)      (* the same, and the expression is a bare variable (a translate block accepts only these) *)
| RCap                            (* the variable the capture tag writes (a bare variable too) *)
| RMacro                          (* the name of the macro the macro tag defines *)
| RErr (e : exn).                 (* evaluation raises e *)

Inductive xq :=
| XOk (r : rexpr)                 (* the expression text parses in every mode *)
| XStrictOnly (r : rexpr)         (* rejected by a check made only when env.mode is STRICT *)
| XBad (e : exn)                  (* raises e in every mode: LiquidSyntaxError; TemplateInheritanceError for a wrong endblock name;
                                     ContextDepthError for an expression nested so deeply that parsing it overflows the stack
                                     (before the repair: RecursionError, which Tag.get_node does not catch) *)
| XTailBad (r : rexpr).           (* a when list: the first alternatives evaluate to r, a later one is a syntax error.  The error goes
                                     to Environment.error and the list is cut there (before the repair it was dropped silently) *)

Inductive tname :=
| Nif | Nunless | Nelsif | Nelse | Nendif | Nendunless
| Nfor | Nendfor | Nbreak | Ncontinue
| Ncase | Nwhen | Nendcase
| Ncapture | Nendcapture
| Nassign | Necho
| Ntablerow | Nendtablerow | Ncycle | Nincrement | Ndecrement | Ninclude | Nrender
| Nliquid | Ncomment | Nendcomment | Ndoc | Nenddoc | Nhash
| Nifchanged | Nendifchanged
| Nwith | Nendwith | Nmacro | Nendmacro | Ncall | Nextends | Nblock | Nendblock
| Ntranslate | Nplural | Nendtranslate
| Nnoname                         (* a tag without a name *)
| Nunknown.                       (* any other name without a registered tag *)

Inductive tok :=
| TContent (s : str)
| TOutput
| TExpr (q : xq)
| TTag (n : tname)
| TComment                        (* the text between comment and endcomment (reaching the parser's loop it is not content: an error) *)
| TDoc                            (* a well-formed doc block *)
| TLiquid (inner : option (list tok)).   (* the expression of a liquid tag: its own token stream (None: a line is not a tag) *)

Definition tname_eqb (a b : tname) : bool :=
  match a, b with
  | Nif, Nif | Nunless, Nunless | Nelsif, Nelsif | Nelse, Nelse | Nendif, Nendif | Nendunless, Nendunless
  | Nfor, Nfor | Nendfor, Nendfor | Nbreak, Nbreak | Ncontinue, Ncontinue
  | Ncase, Ncase | Nwhen, Nwhen | Nendcase, Nendcase | Ncapture, Ncapture | Nendcapture, Nendcapture
  | Nassign, Nassign | Necho, Necho
  | Ntablerow, Ntablerow | Nendtablerow, Nendtablerow | Ncycle, Ncycle | Nincrement, Nincrement | Ndecrement, Ndecrement
  | Ninclude, Ninclude | Nrender, Nrender | Nliquid, Nliquid | Ncomment, Ncomment | Nendcomment, Nendcomment
  | Ndoc, Ndoc | Nenddoc, Nenddoc | Nhash, Nhash | Nifchanged, Nifchanged | Nendifchanged, Nendifchanged
  | Nwith, Nwith | Nendwith, Nendwith | Nmacro, Nmacro | Nendmacro, Nendmacro | Ncall, Ncall | Nextends, Nextends
  | Nblock, Nblock | Nendblock, Nendblock | Ntranslate, Ntranslate | Nplural, Nplural | Nendtranslate, Nendtranslate
  | Nnoname, Nnoname | Nunknown, Nunknown => true
  | _, _ => false
  end.

Fixpoint tmem (n : tname) (l : list tname) : bool :=
  match l with [] => false | x :: l' => tname_eqb n x || tmem n l' end.

(* number of tokens, those inside liquid tags included: the measure of the parser's progress *)
Fixpoint tok_size (t : tok) : nat :=
  match t with
  | TLiquid (Some l) => S ((fix sz (l : list tok) : nat := match l with [] => 0 | x :: r => tok_size x + sz r end) l)
  | _ => 1
  end.
Fixpoint tsize (l : list tok) : nat := match l with [] => 0 | x :: r => tok_size x + tsize r end.

(* ---------------------------------------------------------------- parse tree *)
Inductive node :=
| NContent (s : str)
| NIllegal                                                        (* also comment, doc and inline comment nodes: nothing is rendered *)
| NOutput (r : rexpr)                                             (* output statement; echo (EchoNode is an OutputNode: a translate block accepts it) *)
| NEmit (r : rexpr)                                               (* cycle, render, echo at the end of the stream: writes the value of r *)
| NInclude (r : rexpr)
| NAssign (r : rexpr)
| NIncr (dec : bool)                                              (* increment / decrement *)
| NIf (neg : bool) (c : rexpr) (cns : block) (alt : alts) (dflt : block)
| NFor (c : rexpr) (body : block) (dflt : block)
| NTablerow (c : rexpr) (body : block)
| NCase (bs : cblocks)
| NCapture (body : block)
| NIfchanged (body : block)
| NGroup (body : block)                                           (* with, liquid *)
| NMacro (body : block)
| NCall (r : rexpr)
| NExtends (r : rexpr)
| NBlockTag (r : rexpr) (body : block)
| NTranslate (sing : block) (plur : block)
| NBreak | NContinue
with block := BNil | BCons (n : node) (b : block)
with alts := ANil | ACons (r : rexpr) (b : block) (a : alts)
with cblocks := CNil | CWhen (r : rexpr) (b : block) (c : cblocks) | CElse (b : block) (c : cblocks).

(* ---------------------------------------------------------------- token stream *)
Record stream := { toks : list tok; depth : nat }.          (* TokenStream: remaining tokens, block_depth *)

Definition adv (st : stream) : stream := {| toks := tl (toks st); depth := depth st |}.     (* next(stream) *)

Definition cur_is_tag (n : tname) (st : stream) : bool :=
  match toks st with TTag n' :: _ => tname_eqb n n' | _ => false end.

(* the current token has kind EXPRESSION *)
Definition cur_is_expr (st : stream) : bool :=
  match toks st with TExpr _ :: _ | TLiquid _ :: _ => true | _ => false end.

Fixpoint eat_to (stops : list tname) (ts : list tok) : list tok :=
  match ts with
  | [] => []
  | TTag n :: r => if tmem n stops then ts else eat_to stops r
  | _ :: r => eat_to stops r
  end.
Definition eat_block (stops : list tname) (st : stream) : stream :=
  {| toks := eat_to stops (toks st); depth := depth st |}.

Inductive pres (A : Type) :=
| POk (a : A) (st : stream) (l : log)
| PErr (e : exn) (st : stream) (l : log)
| PFuel.
Arguments POk {A} a st l. Arguments PErr {A} e st l. Arguments PFuel {A}.

Definition pbind {A B} (r : pres A) (k : A -> stream -> log -> pres B) : pres B :=
  match r with POk a st l => k a st l | PErr e st l => PErr e st l | PFuel => PFuel end.

Definition handled {B} (m : mode) (e : exn) (st : stream) (l : log) (k : log -> pres B) : pres B :=
  match handle m e l with Ok l' => k l' | Err e' => PErr e' st l | OutOfFuel => PFuel end.

From Coq Require Import String Ascii.
Definition slit (x : string) : str := map N_of_ascii (list_ascii_of_string x).
Definition junk_words : list str :=
  [slit "endcase"; slit "when"; slit "else"; slit "end of expression"].
Fixpoint smem (s : str) (l : list str) : bool := match l with [] => false | x :: l' => str_eqb s x || smem s l' end.

Fixpoint skip_junk (ts : list tok) : list tok :=
  match ts with
  | TContent s :: r => if smem s junk_words then ts else skip_junk r
  | TOutput :: r | TExpr _ :: r | TComment :: r | TDoc :: r | TLiquid _ :: r => skip_junk r
  | _ => ts
  end.

(* DocTag.parse on a malformed doc tag: scan to enddoc; a nested doc tag or the end of the stream is an error *)
Fixpoint doc_scan (ts : list tok) : bool * list tok :=
  match ts with
  | [] => (false, [])
  | TTag Ndoc :: _ => (false, ts)
  | TTag Nenddoc :: _ => (true, ts)
  | _ :: r => doc_scan r
  end.

(* the message block of a translate tag may hold text and bare variables only *)
Definition simple (r : rexpr) : bool := match r with RVar _ _ | RCap => true | _ => false end.
Fixpoint valid_msg (b : block) : bool :=
  match b with
  | BNil => true
  | BCons (NContent _) b' => valid_msg b'
  | BCons (NOutput r) b' => simple r && valid_msg b'
  | BCons _ _ => false
  end.

Section Parser.
  Variable m : mode.
  Variable limit : nat.                                     (* env.block_nesting_limit *)

  Definition pexpr (q : xq) : exn + rexpr :=
    match q with
    | XOk r => inr r
    | XStrictOnly r => match m with Strict => inl ESyntax | _ => inr r end
    | XBad e => inl e
    | XTailBad _ => inl ESyntax
    end.

  (* stream.into_inner(tag=..., eat=...) followed by the tag's expression parser *)
  Definition inner (eat : bool) (st : stream) : (rexpr * stream) + (exn * stream) :=
    match toks st with
    | TExpr q :: _ =>
        let st' := if eat then adv st else st in
        match pexpr q with inr r => inl (r, st') | inl e => inr (e, st') end
    | TLiquid _ :: _ => inr (ESyntax, if eat then adv st else st)
    | _ => inr (ESyntax, st)
    end.

  (* ---- tags without a block ---- *)
  Definition p_content (st : stream) (l : log) : pres node :=
    match toks st with TContent s :: _ => POk (NContent s) st l | _ => PErr ESyntax st l end.

  Definition p_output (st : stream) (l : log) : pres node :=
    match inner false (adv st) with inl (r, st2) => POk (NOutput r) st2 l | inr (e, st2) => PErr e st2 l end.

  Definition p_illegal (st : stream) (l : log) : pres node :=
    PErr ESyntax (if cur_is_expr (adv st) then adv st else st) l.

  (* assign, cycle, increment, decrement, include, render, call, extends: eat the tag, parse the expression where it is *)
  Definition p_inline (mk : rexpr -> node) (st : stream) (l : log) : pres node :=
    match inner false (adv st) with inl (r, st2) => POk (mk r) st2 l | inr (e, st2) => PErr e st2 l end.

  Definition p_echo (st : stream) (l : log) : pres node :=
    let st1 := adv st in
    match toks st1 with
    | [] => POk (NEmit (RVal [] 0)) st1 l
    | _ => match inner false st1 with inl (r, st2) => POk (NOutput r) st2 l | inr (e, st2) => PErr e st2 l end
    end.

  Definition p_leaf (n : node) (st : stream) (l : log) : pres node := POk n st l.     (* break, continue; COMMENT and DOC tokens *)

  (* the inline comment tag *)
  Definition p_hash (st : stream) (l : log) : pres node :=
    match toks (adv st) with
    | TExpr q :: _ => match pexpr q with inr _ => POk NIllegal (adv st) l | inl e => PErr e (adv st) l end
    | TLiquid _ :: _ => POk NIllegal (adv st) l
    | _ => POk NIllegal st l
    end.

  (* comment: skip to endcomment *)
  Definition p_comment (st : stream) (l : log) : pres node :=
    let st2 := eat_block [Nendcomment] (adv st) in
    if cur_is_tag Nendcomment st2 then POk NIllegal st2 l else PErr ESyntax st2 l.

  Definition p_doc (st : stream) (l : log) : pres node :=
    let st1 := adv st in
    if cur_is_expr st1 then PErr ESyntax st1 l
    else let '(ok, ts) := doc_scan (toks st1) in
         let st2 := {| toks := ts; depth := depth st1 |} in
         if ok then POk NIllegal st2 l else PErr ESyntax st2 l.

  (* ---- block tags; pb is Parser.parse_block ---- *)
  Variable pb : list tname -> stream -> log -> pres block.

  Fixpoint p_elsifs (g : nat) (endt : tname) (st : stream) (l : log) : pres (option alts) :=
    match g with
    | O => PFuel
    | S g' =>
        if cur_is_tag Nelsif st then
          match inner true (adv st) with
          | inr (e, st') =>
              (* the handler around the elsif expression catches LiquidSyntaxError only *)
              if exn_eqb e ESyntax then handled m e st' l (fun l' => POk None (eat_block [endt; Nelsif; Nelse] st') l')
              else PErr e st' l
          | inl (r, st') =>
              pbind (pb [endt; Nelsif; Nelse] st' l) (fun b st2 l2 =>
              pbind (p_elsifs g' endt st2 l2) (fun oa st3 l3 =>
              POk (match oa with Some a => Some (ACons r b a) | None => None end) st3 l3))
          end
        else POk (Some ANil) st l
    end.

  Definition p_if (g : nat) (neg : bool) (st : stream) (l : log) : pres node :=
    let endt := if neg then Nendunless else Nendif in
    match inner true (adv st) with
    | inr (e, st2) => PErr e st2 l
    | inl (c, st2) =>
        pbind (pb [endt; Nelsif; Nelse] st2 l) (fun cns st3 l3 =>
        pbind (p_elsifs g endt st3 l3) (fun oa st4 l4 =>
        match oa with
        | None => POk NIllegal st4 l4
        | Some a =>
            pbind (if cur_is_tag Nelse st4
                   then let s1 := adv st4 in
                        pb [endt; Nelse; Nelsif] (if cur_is_expr s1 then adv s1 else s1) l4
                   else POk BNil st4 l4) (fun d st5 l5 =>
            let st6 := eat_block [endt] st5 in
            if cur_is_tag endt st6 then POk (NIf neg c cns a d) st6 l5 else PErr ESyntax st6 l5)
        end))
    end.

  Definition p_for (st : stream) (l : log) : pres node :=
    match inner true (adv st) with
    | inr (e, st2) => PErr e st2 l
    | inl (c, st2) =>
        pbind (pb [Nendfor; Nelse] st2 l) (fun body st3 l3 =>
        pbind (if cur_is_tag Nelse st3 then pb [Nendfor] (adv st3) l3 else POk BNil st3 l3) (fun d st4 l4 =>
        if cur_is_tag Nendfor st4 then POk (NFor c body d) st4 l4 else PErr ESyntax st4 l4))
    end.

  (* capture, tablerow, with, macro: tag, expression, block, end tag *)
  Definition p_block1 (mk : rexpr -> block -> node) (endt : tname) (st : stream) (l : log) : pres node :=
    match inner true (adv st) with
    | inr (e, st2) => PErr e st2 l
    | inl (c, st2) =>
        pbind (pb [endt] st2 l) (fun body st3 l3 =>
        if cur_is_tag endt st3 then POk (mk c body) st3 l3 else PErr ESyntax st3 l3)
    end.

  (* block: the same, then the name in the endblock tag, if any, must be the block's *)
  Definition p_blocktag (st : stream) (l : log) : pres node :=
    match inner true (adv st) with
    | inr (e, st2) => PErr e st2 l
    | inl (c, st2) =>
        pbind (pb [Nendblock] st2 l) (fun body st3 l3 =>
        if cur_is_tag Nendblock st3 then
          if cur_is_expr (adv st3) then
            match inner false (adv st3) with
            | inl (_, st4) => POk (NBlockTag c body) st4 l3
            | inr (e, st4) => PErr e st4 l3
            end
          else POk (NBlockTag c body) st3 l3
        else PErr ESyntax st3 l3)
    end.

  Definition p_ifchanged (st : stream) (l : log) : pres node :=
    pbind (pb [Nendifchanged] (adv st) l) (fun body st3 l3 =>
    if cur_is_tag Nendifchanged st3 then POk (NIfchanged body) st3 l3 else PErr ESyntax st3 l3).

  Definition p_translate (st : stream) (l : log) : pres node :=
    let st1 := adv st in
    match (if cur_is_expr st1 then inner true st1 else inl (RVal [] 0, st1)) with
    | inr (e, st2) => PErr e st2 l
    | inl (_, st2) =>
        pbind (pb [Nendtranslate; Nplural] st2 l) (fun sing st3 l3 =>
        if valid_msg sing then
          pbind (if cur_is_tag Nplural st3 then pb [Nendtranslate] (adv st3) l3 else POk BNil st3 l3) (fun plur st4 l4 =>
          if valid_msg plur then
            if cur_is_tag Nendtranslate st4 then POk (NTranslate sing plur) st4 l4 else PErr ESyntax st4 l4
          else PErr ESyntax st4 l4)
        else PErr ESyntax st3 l3)
    end.

  (* liquid: an empty tag is an empty block; otherwise the expression is tokenised and parsed as a block of its own, with the
     block depth carried over; the outer stream stays on the expression *)
  Definition p_liquid (st : stream) (l : log) : pres node :=
    match toks (adv st) with
    | TLiquid oi :: _ =>
        let st1 := adv st in
        match oi with
        | None => PErr ESyntax st1 l
        | Some inner_toks =>
            match pb [] {| toks := inner_toks; depth := depth st |} l with
            | POk b _ l2 => POk (NGroup b) st1 l2
            | PErr e _ l2 => PErr e st1 l2
            | PFuel => PFuel
            end
        end
    | TExpr _ :: _ => PErr ESyntax (adv st) l
    | _ => POk (NGroup BNil) st l
    end.

  Definition endwhen : list tname := [Nendcase; Nwhen; Nelse].

  Fixpoint p_cases (g : nat) (st : stream) (l : log) : pres cblocks :=
    match g with
    | O => PFuel
    | S g' =>
        if cur_is_tag Nendcase st then POk CNil st l
        else if cur_is_tag Nelse st then
          pbind (pb endwhen (adv st) l) (fun b st2 l2 =>
          pbind (p_cases g' st2 l2) (fun c st3 l3 => POk (CElse b c) st3 l3))
        else if cur_is_tag Nwhen st then
          match toks (adv st) with
          | TExpr (XTailBad r) :: _ =>
              let st' := adv (adv st) in
              handled m ESyntax st' l (fun l' =>
              pbind (pb endwhen st' l') (fun b st2 l2 =>
              pbind (p_cases g' st2 l2) (fun c st3 l3 => POk (CWhen r b c) st3 l3)))
          | _ =>
              match inner true (adv st) with
              | inr (e, st') => PErr e st' l
              | inl (r, st') =>
                  pbind (pb endwhen st' l) (fun b st2 l2 =>
                  pbind (p_cases g' st2 l2) (fun c st3 l3 => POk (CWhen r b c) st3 l3))
              end
          end
        else PErr ESyntax st l
    end.

  Definition p_case (g : nat) (st : stream) (l : log) : pres node :=
    match inner true (adv st) with
    | inr (e, st2) => PErr e st2 l
    | inl (_, st2) =>
        let st3 := {| toks := skip_junk (toks st2); depth := depth st2 |} in
        pbind (p_cases g st3 l) (fun bs st4 l4 => POk (NCase bs) st4 l4)
    end.

  (* the register *)
  Definition parse_of (g : nat) (n : tname) : stream -> log -> pres node :=
    match n with
    | Nif => p_if g false | Nunless => p_if g true
    | Nfor => p_for | Ncase => p_case g
    | Ncapture => p_block1 (fun _ b => NCapture b) Nendcapture
    | Ntablerow => p_block1 NTablerow Nendtablerow
    | Nwith => p_block1 (fun _ b => NGroup b) Nendwith
    | Nmacro => p_block1 (fun _ b => NMacro b) Nendmacro
    | Nblock => p_blocktag
    | Nifchanged => p_ifchanged
    | Ntranslate => p_translate
    | Nassign => p_inline NAssign
    | Ncycle | Nrender => p_inline NEmit
    | Ninclude => p_inline NInclude
    | Nincrement => p_inline (fun _ => NIncr false) | Ndecrement => p_inline (fun _ => NIncr true)
    | Ncall => p_inline NCall | Nextends => p_inline NExtends
    | Necho => p_echo
    | Nbreak => p_leaf NBreak | Ncontinue => p_leaf NContinue
    | Nhash => p_hash | Ncomment => p_comment | Ndoc => p_doc | Nliquid => p_liquid
    | _ => p_illegal
    end.

  (* the tag Tag.get_node eats to when a block tag fails; macro and block inherit end = "" from Tag *)
  Definition end_of (n : tname) : option tname :=
    match n with
    | Nif => Some Nendif | Nunless => Some Nendunless | Nfor => Some Nendfor
    | Ncase => Some Nendcase | Ncapture => Some Nendcapture
    | Ntablerow => Some Nendtablerow | Nifchanged => Some Nendifchanged | Nwith => Some Nendwith
    | Ntranslate => Some Nendtranslate | Ncomment => Some Nendcomment | Ndoc => Some Nenddoc
    | Nmacro | Nblock => Some Nnoname
    | _ => None
    end.

  Definition get_node (parse : stream -> log -> pres node) (endt : option tname) (st : stream) (l : log) : pres node :=
    match parse st l with
    | PErr e st' l' =>
        (* except LiquidError *)
        if is_liquid e then
          handled m e st' l' (fun l2 => POk NIllegal (match endt with Some e' => eat_block [e'] st' | None => st' end) l2)
        else PErr e st' l'
    | r => r
    end.

  Definition pnode (g : nat) (st : stream) (l : log) : pres node :=
    match toks st with
    | TOutput :: _ => get_node p_output None st l
    | TTag n :: _ => get_node (parse_of g n) (end_of n) st l
    | TDoc :: _ => get_node (p_leaf NIllegal) (Some Nenddoc) st l
    | _ => get_node p_content None st l
    end.
End Parser.

Definition is_stop (stops : list tname) (t : tok) : bool :=
  match t with TTag n => tmem n stops | _ => false end.

Definition pblock_of (limit : nat) (loop : list tname -> stream -> log -> pres block)
  (stops : list tname) (st : stream) (l : log) : pres block :=
  let st1 := {| toks := toks st; depth := S (depth st) |} in
  if Nat.ltb limit (depth st1) then PErr ELiquid st1 l        (* BlockNestingError *)
  else pbind (loop stops st1 l) (fun b st2 l2 => POk b {| toks := toks st2; depth := pred (depth st2) |} l2).

Fixpoint ploop (m : mode) (limit : nat) (f : nat) (stops : list tname) (st : stream) (l : log) {struct f} : pres block :=
  match f with
  | O => PFuel
  | S f' =>
      match toks st with
      | [] => POk BNil st l
      | t :: _ =>
          if is_stop stops t then POk BNil st l
          else
            match pnode m (pblock_of limit (ploop m limit f')) f' st l with
            | POk n st' l' => pbind (ploop m limit f' stops (adv st') l') (fun b st2 l2 => POk (BCons n b) st2 l2)
            | PErr e st' l' =>
                if is_liquid e then handled m e st' l' (fun l2 => ploop m limit f' stops (adv st') l2) else PErr e st' l'
            | PFuel => PFuel
            end
      end
  end.

Definition parse_fuel (m : mode) (limit : nat) (f : nat) (ts : list tok) : res (block * log) :=
  match ploop m limit f [] {| toks := ts; depth := 0 |} log0 with
  | POk b _ l => Ok (b, l)
  | PErr e _ _ => Err e
  | PFuel => OutOfFuel
  end.

Definition parse (m : mode) (limit : nat) (ts : list tok) : res (block * log) :=
  parse_fuel m limit (S (tsize ts)) ts.

(* CaseTag._parse_when_expression before the repair: a syntax error in a later alternative was dropped in EVERY mode, and an
   alternative rejected only by a strict-mode check therefore made strict mode keep a SHORTER list than lax and warn mode.
   rs: the value of the alternatives before the rejected one, rl: the value of the whole list. *)
Definition when_value_old (m : mode) (rs rl : rexpr) : rexpr := match m with Strict => rs | _ => rl end.
(* after the repair the rejected alternative raises in strict mode (the list is the token class XStrictOnly rl) *)
Definition when_value (m : mode) (rs rl : rexpr) : option rexpr := match m with Strict => None | _ => Some rl end.

(* ---------------------------------------------------------------- rendering *)
Inductive intr := IBreak | IContinue.
Inductive outcome := Done | Raised (e : exn) | Intr (i : intr) | Stop.      (* Stop: StopRender after a successful extends *)

(* what a render context remembers *)
Record rst := {
  cap : str;            (* the variable the capture tag writes *)
  ctr : nat;            (* the counter of the increment tag *)
  dctr : nat;           (* the counter of the decrement tag (another name) *)
  last : str;           (* ifchanged *)
  mac : option block    (* the macro the macro tag has defined *)
}.
Definition rst0 : rst := {| cap := []; ctr := 0; dctr := 0; last := []; mac := None |}.

Definition rr := (str * rst * outcome)%type.

Definition digit (n : nat) : str := [N.of_nat (48 + Nat.modulo n 10)].
Definition dec_str (n : nat) : str := if Nat.ltb n 10 then digit n else digit (Nat.div n 10) ++ digit n.   (* n < 100 *)

Definition eval (r : rexpr) (s : rst) : (str * nat) + exn :=
  match r with
  | RVal t n | RVar t n => inl (t, n)
  | RCap => inl (cap s, List.length (cap s))
  | RMacro => inl ([], 0)
  | RErr e => inr e
  end.

Definition seq (a : rr) (k : rst -> rr) : rr :=
  let '(t, c, o) := a in
  match o with Done => let '(t2, c2, o2) := k c in (t ++ t2, c2, o2) | _ => (t, c, o) end.

Definition tr_open : str := slit "<tr class=""row1"">" ++ [10%N].
Definition td_open (i : nat) : str := slit "<td class=""col" ++ dec_str i ++ slit """>".
Definition td_close : str := slit "</td>".
Definition tr_close : str := slit "</tr>" ++ [10%N].

Section Render.
  Variable callm : block -> str * outcome.     (* a macro body rendered in a copy of the context (one level down) *)
  Variable inh_bad : bool.                     (* the template has more than one extends tag or two blocks of one name *)

  (* dis: the context disables the include and block tags (inside a macro call) *)
  Fixpoint rnode (dis : bool) (n : node) (s : rst) {struct n} : rr :=
    match n with
    | NContent t => (t, s, Done)
    | NIllegal => ([], s, Done)
    | NOutput r | NEmit r => match eval r s with inl (t, _) => (t, s, Done) | inr e => ([], s, Raised e) end
    | NInclude r =>
        if dis then ([], s, Raised EDisabledTag)
        else match eval r s with inl (t, _) => (t, s, Done) | inr e => ([], s, Raised e) end
    | NAssign r => match eval r s with inr e => ([], s, Raised e) | inl _ => ([], s, Done) end
    | NIncr false => (dec_str (ctr s), {| cap := cap s; ctr := S (ctr s); dctr := dctr s; last := last s; mac := mac s |}, Done)
    | NIncr true => (45%N :: dec_str (S (dctr s)), {| cap := cap s; ctr := ctr s; dctr := S (dctr s); last := last s; mac := mac s |}, Done)
    | NIf neg c cns alt d =>
        match eval c s with
        | inr e => ([], s, Raised e)
        | inl (_, k) => if xorb neg (negb (Nat.eqb k 0)) then rblock dis cns s
                        else match ralts dis alt s with Some r => r | None => rblock dis d s end
        end
    | NFor c body d =>
        match eval c s with
        | inr e => ([], s, Raised e)
        | inl (_, O) => rblock dis d s
        | inl (_, k) =>
            (fix iter (k : nat) (s : rst) : rr :=
               match k with
               | O => ([], s, Done)
               | S k' =>
                   let '(t, c, o) := rblock dis body s in
                   match o with
                   | Done | Intr IContinue => let '(t2, c2, o2) := iter k' c in (t ++ t2, c2, o2)
                   | Intr IBreak => (t, c, Done)
                   | _ => (t, c, o)
                   end
               end) k s
        end
    | NTablerow c body =>
        match eval c s with
        | inr e => ([], s, Raised e)
        | inl (_, k) =>
            let '(t, s', o) :=
              (fix iter (k i : nat) (s : rst) : rr :=
                 match k with
                 | O => ([], s, Done)
                 | S k' =>
                     let '(t, c, o) := rblock dis body s in
                     match o with
                     | Done | Intr IContinue => let '(t2, c2, o2) := iter k' (S i) c in (td_open i ++ t ++ td_close ++ t2, c2, o2)
                     | Intr IBreak => (td_open i ++ t ++ td_close, c, Done)
                     | _ => (td_open i ++ t, c, o)
                     end
                 end) k 1 s in
            match o with Done => (tr_open ++ t ++ tr_close, s', Done) | _ => (tr_open ++ t, s', o) end
        end
    | NCase bs => rcases dis bs true s
    | NCapture body =>
        let '(t, c, o) := rblock dis body s in
        match o with
        | Done => ([], {| cap := t; ctr := ctr c; dctr := dctr c; last := last c; mac := mac c |}, Done)
        | _ => ([], c, o)
        end
    | NIfchanged body =>
        let '(t, c, o) := rblock dis body s in
        match o with
        | Done => if str_eqb t (last c) then ([], c, Done)
                  else (t, {| cap := cap c; ctr := ctr c; dctr := dctr c; last := t; mac := mac c |}, Done)
        | _ => ([], c, o)
        end
    | NGroup body => rblock dis body s
    | NMacro body => ([], {| cap := cap s; ctr := ctr s; dctr := dctr s; last := last s; mac := Some body |}, Done)
    | NCall r =>
        match r with
        | RMacro => match mac s with Some b => let '(t, o) := callm b in (t, s, o) | None => ([], s, Done) end
        | _ => match eval r s with inl (t, _) => (t, s, Done) | inr e => ([], s, Raised e) end
        end
    | NExtends r =>
        if inh_bad then ([], s, Raised EInherit)
        else match eval r s with inl (t, _) => (t, s, Stop) | inr e => ([], s, Raised e) end
    | NBlockTag r body =>
        if dis then ([], s, Raised EDisabledTag)
        else match eval r s with inr e => ([], s, Raised e) | inl _ => rblock dis body s end
    | NTranslate sing _ => rblock dis sing s
    | NBreak => ([], s, Intr IBreak)
    | NContinue => ([], s, Intr IContinue)
    end
  with rblock (dis : bool) (b : block) (s : rst) {struct b} : rr :=
    match b with
    | BNil => ([], s, Done)
    | BCons n b' => seq (rnode dis n s) (rblock dis b')
    end
  with ralts (dis : bool) (a : alts) (s : rst) {struct a} : option rr :=
    match a with
    | ANil => None
    | ACons r b a' =>
        match eval r s with
        | inr e => Some ([], s, Raised e)
        | inl (_, k) => if Nat.eqb k 0 then ralts dis a' s else Some (rblock dis b s)
        end
    end
  with rcases (dis : bool) (c : cblocks) (dflt : bool) (s : rst) {struct c} : rr :=
    match c with
    | CNil => ([], s, Done)
    | CWhen r b c' =>
        match eval r s with
        | inr e => ([], s, Raised e)
        | inl (_, O) => rcases dis c' dflt s
        | inl (_, k) =>
            seq ((fix rep (k : nat) (s : rst) : rr :=
                    match k with O => ([], s, Done) | S k' => seq (rblock dis b s) (rep k') end) k s)
                (rcases dis c' false)
        end
    | CElse b c' => if dflt then seq (rblock dis b s) (rcases dis c' dflt) else rcases dis c' dflt s
    end.
End Render.

(* a macro body runs in a copy of the context: fresh variables and counters, include and block disabled; its macro table is a
   copy of the caller's (fix bfab21e; before: empty), which holds the macro being called, so a macro can call itself.  The copy is
   refused with ContextDepthError once the caller is deeper than context_depth_limit (30): bodies run at depths 1..31. *)
Definition rst_call (b : block) : rst := {| cap := []; ctr := 0; dctr := 0; last := []; mac := Some b |}.
Fixpoint call_at (inh_bad : bool) (lv : nat) (b : block) : str * outcome :=
  match lv with
  | O => ([], Raised EContextDepth)
  | S lv' => let '(t, _, o) := rblock (call_at inh_bad lv') inh_bad true b (rst_call b) in (t, o)
  end.

(* extends and block nodes anywhere in the tree (the inheritance machinery walks all children) *)
Fixpoint cnt_node (n : node) : nat * nat :=
  let add := fun (a b : nat * nat) => (fst a + fst b, snd a + snd b) in
  match n with
  | NExtends _ => (1, 0)
  | NBlockTag _ body => add (0, 1) (cnt_block body)
  | NIf _ _ cns alt d => add (cnt_block cns) (add (cnt_alts alt) (cnt_block d))
  | NFor _ body d => add (cnt_block body) (cnt_block d)
  | NTablerow _ body | NCapture body | NIfchanged body | NGroup body | NMacro body => cnt_block body
  | NCase bs => cnt_cases bs
  | NTranslate a b => add (cnt_block a) (cnt_block b)
  | _ => (0, 0)
  end
with cnt_block (b : block) : nat * nat :=
  match b with BNil => (0, 0) | BCons n b' => (fst (cnt_node n) + fst (cnt_block b'), snd (cnt_node n) + snd (cnt_block b')) end
with cnt_alts (a : alts) : nat * nat :=
  match a with ANil => (0, 0) | ACons _ b a' => (fst (cnt_block b) + fst (cnt_alts a'), snd (cnt_block b) + snd (cnt_alts a')) end
with cnt_cases (c : cblocks) : nat * nat :=
  match c with
  | CNil => (0, 0)
  | CWhen _ b c' | CElse b c' => (fst (cnt_block b) + fst (cnt_cases c'), snd (cnt_block b) + snd (cnt_cases c'))
  end.

Definition inheritance_bad (b : block) : bool := Nat.ltb 1 (fst (cnt_block b)) || Nat.ltb 1 (snd (cnt_block b)).
Definition call_depth : nat := 31.

(* BoundTemplate.render_with_context for a top-level template: out is the buffer *)
Section Top.
  Variable inh_bad : bool.
  Fixpoint render_top (m : mode) (b : block) (s : rst) (out : str) (l : log) : res (str * log) :=
    match b with
    | BNil => Ok (out, l)
    | BCons n b' =>
        let '(t, c, o) := rnode (call_at inh_bad call_depth) inh_bad false n s in
        match o with
        | Done => render_top m b' c (out ++ t) l
        | Stop => Ok (out ++ t, l)
        | Intr _ => do l' <- handle m ESyntax l; render_top m b' c (out ++ t) l'
        | Raised e =>
            if is_liquid e then do l' <- handle m e l; render_top m b' c (out ++ t) l'
            else Err e
        end
    end.
End Top.

Definition render (m : mode) (b : block) : res (str * log) := render_top (inheritance_bad b) m b rst0 [] log0.

(* ---------------------------------------------------------------- what the check observes *)
Inductive obs :=
| OParseErr (e : exn)
| ORenderErr (e : exn)
| OOut (text : str) (nwarn : nat)
| OFuel.

Record rcase := { rc_mode : mode; rc_limit : nat; rc_toks : list tok }.

Definition run_recover (c : rcase) : obs :=
  match parse (rc_mode c) (rc_limit c) (rc_toks c) with
  | Err e => OParseErr e
  | OutOfFuel => OFuel
  | Ok (b, l1) =>
      match render (rc_mode c) b with
      | Err e => ORenderErr e
      | OutOfFuel => OFuel
      | Ok (t, l2) => OOut t (List.length (emitted l1) + List.length (emitted l2))
      end
  end.

Definition obs_eqb (a b : obs) : bool :=
  match a, b with
  | OParseErr x, OParseErr y | ORenderErr x, ORenderErr y => exn_eqb x y
  | OOut t n, OOut t' n' => str_eqb t t' && Nat.eqb n n'
  | _, _ => false
  end.
