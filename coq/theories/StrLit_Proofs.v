From LiquidVerif Require Import Prelude StrLit.

Lemma until_app q s rest : has q s = false -> until q (s ++ q :: rest) = Some (s, rest).
Proof.
  induction s as [|c s IH]; cbn [app until has existsb]; intro H.
  - rewrite N.eqb_refl. reflexivity.
  - apply orb_false_iff in H. destruct H as [Hc Hs]. rewrite N.eqb_sym in Hc. rewrite Hc, (IH Hs). reflexivity.
Qed.

(* C04: a string value that does not contain both kinds of quote (no literal can) is serialised to a literal that the
   lexer reads back as exactly that value -- backslashes, newlines and the other quote included *)
Theorem quote_scan s rest : has SQ s && has DQ s = false -> scan_string (quote_string s ++ rest) = Some (s, rest).
Proof.
  intro H. unfold quote_string. destruct (has SQ s) eqn:Hs.
  - cbn [andb] in H. cbn [app scan_string]. rewrite <- app_assoc. cbn [app]. replace (N.eqb DQ SQ || N.eqb DQ DQ) with true by reflexivity.
    apply until_app, H.
  - cbn [app scan_string]. rewrite <- app_assoc. cbn [app]. replace (N.eqb SQ SQ || N.eqb SQ DQ) with true by reflexivity.
    apply until_app, Hs.
Qed.

Corollary requote_fixpoint c : has SQ (sl_value c) && has DQ (sl_value c) = false -> run_requote c = Some (run_quote c).
Proof. intro H. unfold run_requote, run_quote. rewrite <- (app_nil_r (quote_string _)) at 1. rewrite (quote_scan _ [] H). reflexivity. Qed.

(* repr(): the value a\b is written with the backslash doubled, which reads back with TWO backslashes *)
Theorem repr_old_refuted : let s := [97; 92; 98]%N in
  scan_string (repr_old s) = Some ([97; 92; 92; 98]%N, []) /\ has SQ s && has DQ s = false.
Proof. vm_compute. split; reflexivity. Qed.
