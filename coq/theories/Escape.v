(* C05 -- autoescape: safe / unsafe strings, the Markup algebra, the filters' autoescape branches and the tags
   that move text to the output.  Executable definitions only; proofs are in Escape_Proofs.v.
   Characters are code points (Prelude.str = list N); the five HTML-special ones are 60 62 38 34 39. *)
From Coq Require Import ZArith List Bool.
From LiquidVerif Require Import Prelude.
Local Open Scope N_scope.

Definition cLt := 60. Definition cGt := 62. Definition cAmp := 38. Definition cQuot := 34. Definition cApos := 39.
Definition cSemi := 59. Definition cHash := 35. Definition cSpace := 32. Definition cPlus := 43. Definition cPct := 37.

(* the characters of the property's first clause, and all five *)
Definition is_raw (c : N) : bool := (c =? 60) || (c =? 62) || (c =? 34) || (c =? 39).
Definition is_special (c : N) : bool := is_raw c || (c =? 38).

(* ---------------------------------------------------------------- escaping *)
(* markupsafe.escape: & < > ' and the double quote become &amp; &lt; &gt; &#39; &#34; *)
Definition escape_char (c : N) : str :=
  if c =? 38 then [38; 97; 109; 112; 59]
  else if c =? 60 then [38; 108; 116; 59]
  else if c =? 62 then [38; 103; 116; 59]
  else if c =? 39 then [38; 35; 51; 57; 59]
  else if c =? 34 then [38; 35; 51; 52; 59]
  else [c].
Definition escape (s : str) : str := flat_map escape_char s.

(* html.escape(s, quote=True), used when autoescape is off: the quotes become &quot; and &#x27; *)
Definition html_escape_char (c : N) : str :=
  if c =? 38 then [38; 97; 109; 112; 59]
  else if c =? 60 then [38; 108; 116; 59]
  else if c =? 62 then [38; 103; 116; 59]
  else if c =? 34 then [38; 113; 117; 111; 116; 59]
  else if c =? 39 then [38; 35; 120; 50; 55; 59]
  else [c].
Definition html_escape (s : str) : str := flat_map html_escape_char s.

(* ---------------------------------------------------------------- html.unescape
   the regex &(#[0-9]+;?|#[xX][0-9a-fA-F]+;?|[^\t\n\f <&#;]{1,32};?) with the replacement function of html/__init__.py.
   Named references: the html5 table restricted to the 68 names over the letters a b g l m o p q t u (either case), which is the alphabet
   of the correspondence run (the letters of the data plus those the two escape functions produce). *)
Definition ent (name : list N) (val : list N) := (name, val).
Definition entity_table : list (str * str) := [
  ent [65;77;80] [38]; ent [65;77;80;59] [38]; ent [65;117;109;108] [196]; ent [65;117;109;108;59] [196];
  ent [71;84] [62]; ent [71;84;59] [62]; ent [71;97;109;109;97;59] [915]; ent [71;103;59] [8921];
  ent [71;116;59] [8811]; ent [76;84] [60]; ent [76;84;59] [60]; ent [76;108;59] [8920];
  ent [76;116;59] [8810]; ent [77;97;112;59] [10501]; ent [77;117;59] [924]; ent [79;117;109;108] [214];
  ent [79;117;109;108;59] [214]; ent [81;85;79;84] [34]; ent [81;85;79;84;59] [34]; ent [84;97;98;59] [9];
  ent [84;97;117;59] [932]; ent [85;117;109;108] [220]; ent [85;117;109;108;59] [220]; ent [97;109;97;108;103;59] [10815];
  ent [97;109;112] [38]; ent [97;109;112;59] [38]; ent [97;112;59] [8776]; ent [97;117;109;108] [228];
  ent [97;117;109;108;59] [228]; ent [98;111;116;59] [8869]; ent [98;111;116;116;111;109;59] [8869]; ent [98;117;108;108;59] [8226];
  ent [98;117;109;112;59] [8782]; ent [103;97;109;109;97;59] [947]; ent [103;97;112;59] [10886]; ent [103;103;59] [8811];
  ent [103;103;103;59] [8921]; ent [103;108;59] [8823]; ent [103;108;97;59] [10917]; ent [103;116] [62];
  ent [103;116;59] [62]; ent [108;97;112;59] [10885]; ent [108;97;113;117;111] [171]; ent [108;97;113;117;111;59] [171];
  ent [108;97;116;59] [10923]; ent [108;103;59] [8822]; ent [108;108;59] [8810]; ent [108;116] [60];
  ent [108;116;59] [60]; ent [109;97;108;116;59] [10016]; ent [109;97;112;59] [8614]; ent [109;112;59] [8723];
  ent [109;117;59] [956]; ent [109;117;109;97;112;59] [8888]; ent [111;103;116;59] [10689]; ent [111;108;116;59] [10688];
  ent [111;117;109;108] [246]; ent [111;117;109;108;59] [246]; ent [112;109;59] [177]; ent [113;117;111;116] [34];
  ent [113;117;111;116;59] [34]; ent [116;97;117;59] [964]; ent [116;111;112;59] [8868]; ent [116;111;112;98;111;116;59] [9014];
  ent [117;109;108] [168]; ent [117;109;108;59] [168]; ent [117;117;109;108] [252]; ent [117;117;109;108;59] [252] ].

Fixpoint lookup_entity (name : str) (tbl : list (str * str)) : option str :=
  match tbl with
  | [] => None
  | (k, v) :: r => if str_eqb name k then Some v else lookup_entity name r
  end.

(* for x in range(len(s)-1, 1, -1): if s[:x] in html5 *)
Fixpoint prefix_search (k : nat) (s : str) : option (str * str) :=
  match k with
  | O | S O => None
  | S k' => match lookup_entity (firstn k s) entity_table with
            | Some v => Some (v, skipn k s)
            | None => prefix_search k' s
            end
  end.

Definition named_ref (s : str) : str :=
  match lookup_entity s entity_table with
  | Some v => v
  | None => match prefix_search (length s - 1) s with
            | Some (v, rest) => v ++ rest
            | None => 38 :: s
            end
  end.

Definition is_digit (c : N) : bool := (48 <=? c) && (c <=? 57).
Definition is_name_char (c : N) : bool :=
  negb ((c =? 9) || (c =? 10) || (c =? 12) || (c =? 32) || (c =? 60) || (c =? 38) || (c =? 35) || (c =? 59)).

Fixpoint span_upto (f : N -> bool) (n : nat) (s : str) : str * str :=
  match n, s with
  | S n', c :: r => if f c then let '(a, b) := span_upto f n' r in (c :: a, b) else ([], s)
  | _, _ => ([], s)
  end.

Fixpoint digits_value (ds : str) (acc : N) : N :=
  match ds with [] => acc | d :: r => digits_value r (acc * 10 + (d - 48)) end.

Definition is_hex (c : N) : bool := is_digit c || ((65 <=? c) && (c <=? 70)) || ((97 <=? c) && (c <=? 102)).
Definition hex_digit (c : N) : N := if is_digit c then c - 48 else if c <=? 70 then c - 55 else c - 87.
Fixpoint hex_value (ds : str) (acc : N) : N :=
  match ds with [] => acc | d :: r => hex_value r (acc * 16 + hex_digit d) end.

(* numeric reference: 0 and anything beyond U+10FFFF give U+FFFD; control characters give nothing *)
Definition numeric_ref (n : N) : str :=
  if n =? 0 then [65533]
  else if 1114111 <? n then [65533]
  else if (n <=? 8) || (n =? 11) || ((14 <=? n) && (n <=? 31)) then []
  else [n].

Definition drop_semi (s : str) : str := match s with c :: r => if c =? 59 then r else s | [] => [] end.
Definition starts_semi (s : str) : bool := match s with c :: _ => c =? 59 | [] => false end.

Fixpoint unescape_go (fuel : nat) (s : str) : str :=
  match fuel with
  | O => s
  | S f =>
      match s with
      | [] => []
      | c :: r =>
          if c =? 38 then
            match r with
            | [] => [c]
            | h :: r' =>
                if h =? 35 then
                  let '(ds, rest) := span_upto is_digit (length r') r' in
                  match ds with
                  | [] =>
                      match r' with
                      | x :: r'' =>
                          if (x =? 120) || (x =? 88) then
                            let '(hs, rest) := span_upto is_hex (length r'') r'' in
                            match hs with
                            | [] => c :: unescape_go f r
                            | _ => numeric_ref (hex_value hs 0) ++ unescape_go f (drop_semi rest)
                            end
                          else c :: unescape_go f r
                      | [] => c :: unescape_go f r
                      end
                  | _ => numeric_ref (digits_value ds 0) ++ unescape_go f (drop_semi rest)
                  end
                else
                  let '(nm, rest) := span_upto is_name_char 32 r in
                  match nm with
                  | [] => c :: unescape_go f r
                  | _ => named_ref (if starts_semi rest then nm ++ [59] else nm) ++ unescape_go f (drop_semi rest)
                  end
            end
          else c :: unescape_go f r
      end
  end.
Definition unescape (s : str) : str := unescape_go (S (length s)) s.

(* ---------------------------------------------------------------- Python string functions on code points *)
Definition up (c : N) : N := if (97 <=? c) && (c <=? 122) then c - 32 else c.
Definition low (c : N) : N := if (65 <=? c) && (c <=? 90) then c + 32 else c.
Definition is_space (c : N) : bool := (c =? 32) || ((9 <=? c) && (c <=? 13)).
Fixpoint lstrip_s (s : str) : str := match s with c :: r => if is_space c then lstrip_s r else s | [] => [] end.
Definition rstrip_s (s : str) : str := rev (lstrip_s (rev s)).
Definition strip_s (s : str) : str := rstrip_s (lstrip_s s).

Fixpoint is_prefix (p s : str) : bool :=
  match p, s with
  | [], _ => true
  | a :: p', b :: s' => (a =? b) && is_prefix p' s'
  | _, [] => false
  end.

(* s.split(sep) for a non-empty sep *)
Fixpoint split_go (skip : nat) (sep s cur : str) : list str :=
  match s with
  | [] => [rev cur]
  | c :: r =>
      match skip with
      | S k => split_go k sep r cur
      | O => if is_prefix sep s then rev cur :: split_go (length sep - 1) sep r []
             else split_go 0 sep r (c :: cur)
      end
  end.
Definition py_split (s sep : str) : list str := split_go 0 sep s [].

Fixpoint join_str (sep : str) (l : list str) : str :=
  match l with
  | [] => []
  | [x] => x
  | x :: r => x ++ sep ++ join_str sep r
  end.

(* s.replace(old, new): new.join(s.split(old)), and for an empty old: new between all characters and at both ends *)
Definition py_replace (s old new : str) : str :=
  match old with
  | [] => new ++ flat_map (fun c => c :: new) s
  | _ => join_str new (py_split s old)
  end.

Definition norm_idx (len i : Z) : Z := if (i <? 0)%Z then Z.max 0 (len + i) else Z.min i len.
Definition py_slice {A} (l : list A) (a : Z) (b : option Z) : list A :=
  let len := Z.of_nat (length l) in
  let a' := norm_idx len a in
  let b' := match b with None => len | Some b => norm_idx len b end in
  firstn (Z.to_nat (b' - a')) (skipn (Z.to_nat a') l).

(* the slice filter: start, length -> seq[start:end], end = None when start < 0 <= start + length *)
Definition liquid_slice {A} (l : list A) (start len : Z) : list A :=
  let e := (start + len)%Z in
  py_slice l start (if ((start <? 0) && (0 <=? e))%Z then None else Some e).

Fixpoint N_digits (fuel : nat) (n : N) (acc : str) : str :=
  match fuel with
  | O => acc
  | S f => let d := 48 + n mod 10 in let q := n / 10 in if q =? 0 then d :: acc else N_digits f q (d :: acc)
  end.
Definition nat_to_str (n : nat) : str := let m := N.of_nat n in N_digits (S (N.size_nat m)) m [].

(* ---------------------------------------------------------------- safe strings and the Markup algebra *)
Record sstr := { tx : str; sf : bool }.      (* sf: the value is a Markup *)
Definition plain (s : str) : sstr := {| tx := s; sf := false |}.
Definition markup (s : str) : sstr := {| tx := s; sf := true |}.

(* Markup.escape(x): a Markup passes, a plain str is escaped *)
Definition esc_arg (a : sstr) : str := if sf a then tx a else escape (tx a).

(* a + b: Markup.__add__ / Markup.__radd__ escape the other operand *)
Definition madd (a b : sstr) : sstr :=
  if sf a then markup (tx a ++ esc_arg b)
  else if sf b then markup (escape (tx a) ++ tx b)
  else plain (tx a ++ tx b).

(* sep.join(items): Markup.join escapes every plain item; str.join gives a plain str *)
Definition mjoin (sep : sstr) (items : list sstr) : sstr :=
  if sf sep then markup (join_str (tx sep) (map esc_arg items))
  else plain (join_str (tx sep) (map tx items)).

(* s.replace(old, new): Markup.replace escapes new only; str.replace gives a plain str *)
Definition mreplace (s old new : sstr) : sstr :=
  if sf s then markup (py_replace (tx s) (tx old) (esc_arg new))
  else plain (py_replace (tx s) (tx old) (tx new)).

Definition mmap (f : str -> str) (s : sstr) : sstr := {| tx := f (tx s); sf := sf s |}.

(* ---------------------------------------------------------------- values, expressions, filters *)
(* VNil: an undefined variable; VNone: Python None (first / last of a string or of an empty array); VInt: the result of size *)
Inductive value := VS (s : sstr) | VL (l : list sstr) | VNil | VNone | VInt (n : nat).

(* str(list): only its flag matters here (plain); the text stands for the repr and is not tied to the implementation *)
Definition repr_list (l : list sstr) : str := 91 :: join_str [44; 32] (map (fun i => 39 :: tx i ++ [39]) l) ++ [93].

(* what a string filter receives: None / undefined -> the empty text, other non-strings -> str(val) *)
Definition as_string (v : value) : sstr :=
  match v with VS s => s | VNil | VNone => plain [] | VL l => plain (repr_list l) | VInt n => plain (nat_to_str n) end.

(* str(val) for the filters that are not string filters (slice, join): None prints as its name *)
Definition s_None : str := [78; 111; 110; 101].
Definition py_str_of (v : value) : sstr := match v with VNone => plain s_None | _ => as_string v end.

Inductive atom := ALit (s : str) | AVar (x : str).

Inductive opaque_kind := OStripHtml | OUrlDecode | OBase64Decode.

Inductive trans_kind := TT | TGettext | TNgettext | TPgettext | TNpgettext.

(* the current code and the two seeded variants the model must tell apart *)
Inductive trans_variant :=
| TrCurrent
| TrVarsOnlyIfAem      (* message variables escaped only when autoescape_message *)
| TrPluralStrRaw.      (* ngettext: a plural that already is a str skips to_liquid_string *)

Inductive filter :=
| FEscape | FEscapeOnce | FUpcase | FDowncase | FCapitalize | FStrip | FLstrip | FRstrip
| FAppend (a : atom) | FPrepend (a : atom) | FReplace (old new : atom) | FRemove (a : atom)
| FSlice (start len : Z) | FSplit (sep : atom) | FJoin (sep : option atom) | FFirst | FLast | FDefault (d : atom) | FSize
| FTrans (k : trans_kind) (aem : bool) (args : list atom) (kw : list (str * atom))
    (* t / gettext / ngettext / pgettext / npgettext with their positional and keyword arguments; aem = the filter object's
       autoescape_message (extra=True registers it as env.autoescape, a filter registered by hand has False) *)
| FOpaque (k : opaque_kind) (result : str).    (* strip_html / url_decode / base64_decode: result = the text function applied
                                                  to the input text, measured by the harness; only the FLAG behaviour is modelled *)

Inductive expr := EAtom (a : atom) | EFilt (e : expr) (f : filter).

Definition contains_char (c : N) (s : str) : bool := existsb (N.eqb c) s.

(* the split filter: list(val) gives plain one-character strings; val.split(sep) gives pieces of the same kind as val *)
Definition split_chars (s : sstr) : value := VL (map (fun c => plain [c]) (tx s)).
Definition split_on (s sp : sstr) : value :=
  match tx sp with
  | [] => split_chars s
  | _ => if (match tx s with [] => true | _ => false end) || str_eqb (tx s) (tx sp) then VL []
         else VL (map (fun t => {| tx := t; sf := sf s |}) (py_split (tx s) (tx sp)))
  end.

(* to_liquid_string(val, autoescape) *)
Definition out_str (ae : bool) (s : sstr) : str := if ae then esc_arg s else tx s.
Definition to_liquid_string (ae : bool) (v : value) : str :=
  match v with
  | VS s => out_str ae s
  | VL l => concat (map (out_str ae) l)         (* Markup(empty).join(soft_str(item)) / plain join *)
  | VNil | VNone => []
  | VInt n => nat_to_str n
  end.

(* ---------------------------------------------------------------- translation filters (liquid/extra/filters/translate.py)
   BaseTranslateFilter.format_message: re_vars = (?<!%)%\((\w+)\)s ; every match is replaced by the stringified variable.
   [fmt_go prev resolve fuel s]: prev = the previous character is a percent sign. *)
Definition is_word (c : N) : bool :=
  is_digit c || ((65 <=? c) && (c <=? 90)) || ((97 <=? c) && (c <=? 122)) || (c =? 95).

(* after the opening parenthesis: a non-empty run of word characters followed by )s *)
Definition placeholder (s : str) : option (str * str) :=
  let '(nm, rest) := span_upto is_word (length s) s in
  match nm, rest with
  | _ :: _, c1 :: c2 :: rest' => if (c1 =? 41) && (c2 =? 115) then Some (nm, rest') else None
  | _, _ => None
  end.

Fixpoint fmt_go (resolve : str -> str) (fuel : nat) (prev : bool) (s : str) : str :=
  match fuel with
  | O => s
  | S f =>
      match s with
      | [] => []
      | c :: r =>
          if (c =? 37) && negb prev then
            match r with
            | c1 :: r1 =>
                if c1 =? 40 then
                  match placeholder r1 with
                  | Some (nm, rest) => resolve nm ++ fmt_go resolve f false rest
                  | None => c :: fmt_go resolve f true r
                  end
                else c :: fmt_go resolve f true r
            | [] => [c]
            end
          else c :: fmt_go resolve f (c =? 37) r
      end
  end.
Definition format_message (resolve : str -> str) (s : str) : str := fmt_go resolve (S (length s)) false s.

(* text -> count, as int() reads a data string; anything but ASCII digits is a ValueError *)
Fixpoint digits_nat (s : str) (acc : nat) : option nat :=
  match s with
  | [] => Some acc
  | c :: r => if is_digit c then digits_nat r (acc * 10 + N.to_nat (c - 48)) else None
  end.
Definition parse_count (s : str) : option nat := match s with [] => None | _ => digits_nat s 0 end.

(* int_arg(count, default=1) of ngettext / npgettext; None: the filter raises (TypeError) *)
Definition count_arg (v : value) : option nat :=
  match v with
  | VInt n => Some n
  | VNil => Some O                       (* int(Undefined) = 0 *)
  | VS s => Some (match parse_count (tx s) with Some n => n | None => 1%nat end)
  | _ => None
  end.

(* _count(kwargs.get(count)) of the t filter; None: no count *)
Definition t_count (v : option value) : option nat :=
  match v with
  | Some (VInt n) => Some n
  | Some VNil => Some O
  | Some (VS s) => parse_count (tx s)
  | _ => None
  end.

Section Eval.
  Variable ae : bool.                          (* Environment(autoescape=...) *)
  Variable look : str -> value.                (* variable lookup; an unbound name is VNil *)

  (* StringLiteral.evaluate: Markup when autoescape *)
  Definition eval_atom (a : atom) : value :=
    match a with ALit s => VS {| tx := s; sf := ae |} | AVar x => look x end.

  (* the five translation filters with NullTranslations: gettext gives the message, ngettext the singular iff n = 1; the
     message context only selects a catalogue entry.  left/plural are stringified with (autoescape and autoescape_message),
     the %(name)s variables with autoescape alone (keyword arguments first, then the render context); the formatted text is a
     Markup when autoescape. *)
  Definition s_plural : str := [112; 108; 117; 114; 97; 108].
  Definition s_count_kw : str := [99; 111; 117; 110; 116].

  Definition tr_kwv (kw : list (str * atom)) : list (str * value) := map (fun b => (fst b, eval_atom (snd b))) kw.

  (* a %(name)s variable: keyword arguments first, then the render context; stringified with env.autoescape *)
  Definition tr_resolve (vr : trans_variant) (aem : bool) (kw : list (str * atom)) (name : str) : str :=
    let x := match alookup name (tr_kwv kw) with Some x => x | None => look name end in
    to_liquid_string (match vr with TrVarsOnlyIfAem => ae && aem | _ => ae end) x.

  (* the left value and the plural: stringified with (autoescape and autoescape_message) *)
  Definition tr_left (aem : bool) (v : value) : str := to_liquid_string (ae && aem) v.
  Definition tr_plural (vr : trans_variant) (k : trans_kind) (aem : bool) (a : atom) : str :=
    match vr, k, eval_atom a with
    | TrPluralStrRaw, TNgettext, VS s => tx s
    | _, _, pv => to_liquid_string (ae && aem) pv
    end.

  Definition tr_pick (vr : trans_variant) (k : trans_kind) (aem : bool) (v : value) (plural : atom) (n : nat) : str :=
    if Nat.eqb n 1 then tr_left aem v else tr_plural vr k aem plural.

  (* t: plural: and count: are keyword arguments; count stays available to the message *)
  Definition tr_t_text (vr : trans_variant) (aem : bool) (kw : list (str * atom)) (v : value) : str :=
    match alookup s_plural kw, t_count (alookup s_count_kw (tr_kwv kw)) with
    | Some pl, Some n => match eval_atom pl with VNone => tr_left aem v | _ => tr_pick vr TT aem v pl n end
    | _, _ => tr_left aem v
    end.

  Definition tr_text (vr : trans_variant) (k : trans_kind) (aem : bool) (args : list atom) (kw : list (str * atom)) (v : value) : option str :=
    match k, args with
    | TGettext, [] => Some (tr_left aem v)
    | TPgettext, [_] => Some (tr_left aem v)
    | TNgettext, [pl; cnt] => match count_arg (eval_atom cnt) with Some n => Some (tr_pick vr k aem v pl n) | None => None end
    | TNpgettext, [_; pl; cnt] => match count_arg (eval_atom cnt) with Some n => Some (tr_pick vr k aem v pl n) | None => None end
    | TT, [] => Some (tr_t_text vr aem kw v)
    | TT, [_] => Some (tr_t_text vr aem kw v)
    | _, _ => None
    end.

  Definition trans_apply (vr : trans_variant) (k : trans_kind) (aem : bool) (args : list atom) (kw : list (str * atom)) (v : value) : value :=
    match tr_text vr k aem args kw v with
    | Some t => VS {| tx := format_message (tr_resolve vr aem kw) t; sf := ae |}
    | None => VNil                      (* wrong arguments: the filter raises; not part of the correspondence *)
    end.

  Definition capitalize_s (s : str) : str := match s with [] => [] | c :: r => up c :: map low r end.

  Definition apply_filter (f : filter) (v : value) : value :=
    match f with
    | FEscape =>
        let s := as_string v in
        if ae then VS (markup (escape (tx s))) else VS (plain (html_escape (tx s)))
    | FEscapeOnce =>
        let s := as_string v in
        if ae then VS (plain (unescape (tx s))) else VS (plain (html_escape (unescape (tx s))))
    | FUpcase => VS (mmap (map up) (as_string v))
    | FDowncase => VS (mmap (map low) (as_string v))
    | FCapitalize => VS (mmap capitalize_s (as_string v))
    | FStrip => VS (mmap strip_s (as_string v))
    | FLstrip => VS (mmap lstrip_s (as_string v))
    | FRstrip => VS (mmap rstrip_s (as_string v))
    | FAppend a => VS (madd (as_string v) (as_string (eval_atom a)))
    | FPrepend a => VS (madd (as_string (eval_atom a)) (as_string v))
    | FReplace o n => VS (mreplace (as_string v) (as_string (eval_atom o)) (as_string (eval_atom n)))
    | FRemove a => VS (mreplace (as_string v) (as_string (eval_atom a)) {| tx := []; sf := sf (as_string v) |})
    | FSlice st ln =>
        match v with
        | VL l => VL (liquid_slice l st ln)
        | _ => VS (mmap (fun t => liquid_slice t st ln) (py_str_of v))
        end
    | FSplit sepa =>
        let s := as_string v in
        match eval_atom sepa with
        | VNil => split_chars s
        | sep => split_on s (as_string sep)
        end
    | FJoin sepo =>
        let items := match v with VL l => l | VNil => [] | _ => [py_str_of v] end in
        let sep := match sepo with None => {| tx := [32]; sf := ae |} | Some a => as_string (eval_atom a) end in
        let sep := if ae && str_eqb (tx sep) [32] then markup [32] else sep in
        VS (mjoin sep items)
    | FFirst => match v with VL (x :: _) => VS x | VNil => VNil | _ => VNone end
    | FLast => match v with VL l => match rev l with x :: _ => VS x | [] => VNone end | VNil => VNil | _ => VNone end
    | FDefault d =>
        match v with
        | VNil | VNone | VL [] => eval_atom d
        | VS s => match tx s with [] => eval_atom d | _ => v end
        | _ => v
        end
    | FSize => VInt (match v with VS s => length (tx s) | VL l => length l | _ => O end)
    | FTrans k aem args kw => trans_apply TrCurrent k aem args kw v
    | FOpaque k result =>
        let s := as_string v in
        if ae && sf s then
          match k with
          | OStripHtml => VS s                                   (* a Markup holds no tag: strip_tags returns it as it is *)
          | OUrlDecode => if contains_char 37 (tx s) then VS (plain result)
                          else VS (markup (map (fun c => if c =? 43 then 32 else c) (tx s)))
          | OBase64Decode => VS (plain result)
          end
        else VS (plain result)
    end.

  Fixpoint eval_expr (e : expr) : value :=
    match e with
    | EAtom a => eval_atom a
    | EFilt e' f => apply_filter f (eval_expr e')
    end.

End Eval.

(* ---------------------------------------------------------------- statements *)
Inductive cond := CTruthy (a : atom) | CEq (a b : atom).

(* a translate block's message: literal text and {{ name }} placeholders *)
Inductive mseg := MText (s : str) | MVar (x : str).

Inductive stmt :=
| STranslate (binds : list (str * atom)) (singular : list mseg) (plural : option (list mseg))
    (* translate tag: keyword arguments (count selects the plural block), the message, the plural message *)
| SText (s : str)
| SOut (e : expr)                                      (* output statement, echo *)
| SAssign (x : str) (e : expr)
| SCapture (x : str) (body : list stmt)
| SIf (c : cond) (body els : list stmt)                (* if / unless / case-when *)
| SFor (x : str) (e : expr) (body : list stmt)
| SCycle (args : list atom)
| SInclude (binds : list (str * atom)) (body : list stmt)   (* include: the partial runs in the caller's scope *)
| SRender (binds : list (str * atom)) (body : list stmt).   (* render: a fresh scope holding only the arguments (and globals) *)

Record state := {
  st_scopes : list (list (str * value));    (* loop variables, include / render arguments; innermost first *)
  st_locals : list (str * value);           (* assign, capture *)
  st_globals : list (str * value);          (* render data *)
  st_cycle : nat }.

Fixpoint first_hit (x : str) (scopes : list (list (str * value))) : option value :=
  match scopes with
  | [] => None
  | s :: r => match alookup x s with Some v => Some v | None => first_hit x r end
  end.

Definition lookup (st : state) (x : str) : value :=
  match first_hit x (st_scopes st ++ [st_locals st; st_globals st]) with Some v => v | None => VNil end.

Definition set_local (st : state) (x : str) (v : value) : state :=
  {| st_scopes := st_scopes st; st_locals := (x, v) :: st_locals st; st_globals := st_globals st; st_cycle := st_cycle st |}.
Definition push_scope (st : state) (sc : list (str * value)) : state :=
  {| st_scopes := sc :: st_scopes st; st_locals := st_locals st; st_globals := st_globals st; st_cycle := st_cycle st |}.
Definition pop_scope (st : state) : state :=
  {| st_scopes := tl (st_scopes st); st_locals := st_locals st; st_globals := st_globals st; st_cycle := st_cycle st |}.

Definition truthy (v : value) : bool := match v with VNil | VNone => false | _ => true end.
Definition value_text_eqb (a b : value) : bool :=
  match a, b with
  | VS x, VS y => str_eqb (tx x) (tx y)       (* Markup == str compares the text *)
  | VNil, VNil | VNone, VNone | VNil, VNone | VNone, VNil => true
  | VInt a, VInt b => Nat.eqb a b
  | _, _ => false
  end.

(* what a for loop iterates: an array; a non-empty string is one item; nothing otherwise *)
Definition loop_items (v : value) : list value :=
  match v with
  | VL l => map VS l
  | VS s => match tx s with [] => [] | _ => [VS s] end
  | _ => []
  end.

(* the iterations of a for loop: the loop variable lives in a scope of its own, pushed and popped around each round *)
Fixpoint for_loop (run : state -> res (str * state)) (x : str) (items : list value) (st0 : state) : res (str * state) :=
  match items with
  | [] => Ok ([], st0)
  | it :: more =>
      do r <- run (push_scope st0 [(x, it)]);
      let '(o1, st1) := r in
      do r2 <- for_loop run x more (pop_scope st1);
      let '(o2, st2) := r2 in Ok (o1 ++ o2, st2)
  end.

(* resolve_count of the translate tag: to_int, ValueError and TypeError give 1 *)
Definition tag_count (v : value) : nat :=
  match v with
  | VInt n => n
  | VNil => O
  | VS s => match parse_count (tx s) with Some n => n | None => 1%nat end
  | _ => 1%nat
  end.
Definition s_count : str := [99; 111; 117; 110; 116].

Section Exec.
  Variable ae : bool.

  Definition eval (st : state) (e : expr) : value := eval_expr ae (lookup st) e.
  Definition evala (st : state) (a : atom) : value := eval_atom ae (lookup st) a.
  Definition bind_args (st : state) (binds : list (str * atom)) : list (str * value) :=
    map (fun b => (fst b, evala st (snd b))) binds.

  Fixpoint exec (fuel : nat) (st : state) (p : list stmt) : res (str * state) :=
    match fuel with
    | O => OutOfFuel
    | S f =>
        match p with
        | [] => Ok ([], st)
        | s :: rest =>
            do r <- (match s with
                     | SText t => Ok (t, st)
                     | STranslate binds sing plur =>
                         (* Markup(message) % vars: the literal text as it is, each variable through to_liquid_string; the
                            arguments are visible to the message, and count picks the block (NullTranslations: singular iff 1) *)
                         let ns := bind_args st binds in
                         let n := match alookup s_count ns with Some v => tag_count v | None => 1%nat end in
                         let msg := match plur with Some p => if Nat.eqb n 1 then sing else p | None => sing end in
                         let st1 := push_scope st ns in
                         Ok (concat (map (fun g => match g with MText t => t | MVar x => to_liquid_string ae (lookup st1 x) end) msg), st)
                     | SOut e => Ok (to_liquid_string ae (eval st e), st)
                     | SAssign x e => Ok ([], set_local st x (eval st e))
                     | SCapture x body =>
                         do r <- exec f st body;
                         let '(out, st1) := r in
                         (* Markup of the rendered block when autoescape *)
                         Ok ([], set_local st1 x (VS {| tx := out; sf := ae |}))
                     | SIf c body els =>
                         let b := match c with
                                  | CTruthy a => truthy (evala st a)
                                  | CEq a b => value_text_eqb (evala st a) (evala st b)
                                  end in
                         exec f st (if b then body else els)
                     | SFor x e body => for_loop (fun s0 => exec f s0 body) x (loop_items (eval st e)) st
                     | SCycle args =>
                         let v := match nth_error args (Nat.modulo (st_cycle st) (length args)) with
                                  | Some a => evala st a | None => VNil end in
                         Ok (to_liquid_string ae v,
                             {| st_scopes := st_scopes st; st_locals := st_locals st; st_globals := st_globals st;
                                st_cycle := S (st_cycle st) |})
                     | SInclude binds body =>
                         do r <- exec f (push_scope st (bind_args st binds)) body;
                         let '(out, st1) := r in Ok (out, pop_scope st1)
                     | SRender binds body =>
                         do r <- exec f {| st_scopes := [bind_args st binds]; st_locals := []; st_globals := st_globals st;
                                           st_cycle := 0 |} body;
                         let '(out, _) := r in Ok (out, st)
                     end);
            let '(o1, st1) := r in
            do r2 <- exec f st1 rest;
            let '(o2, st2) := r2 in Ok (o1 ++ o2, st2)
        end
    end.
End Exec.

(* ---------------------------------------------------------------- conditions on the template text *)
(* pt: what every literal text must satisfy; pf: which filters may be used *)
Definition atom_ok (pt : str -> bool) (a : atom) : bool := match a with ALit s => pt s | AVar _ => true end.
Definition is_lit (a : atom) : bool := match a with ALit _ => true | AVar _ => false end.

(* the positional arguments that are message texts: the plural of ngettext and npgettext *)
Definition msg_args_lit (k : trans_kind) (args : list atom) : bool :=
  match k, args with
  | TNgettext, pl :: _ => is_lit pl
  | TNpgettext, _ :: pl :: _ => is_lit pl
  | _, _ => true
  end.

Definition filter_ok (pt : str -> bool) (pf : filter -> bool) (f : filter) : bool :=
  pf f &&
  match f with
  | FAppend a | FPrepend a | FRemove a | FSplit a | FDefault a | FJoin (Some a) => atom_ok pt a
  | FReplace o n => atom_ok pt o && atom_ok pt n
  | FTrans k aem args kw =>
      forallb (atom_ok pt) args && forallb (fun b => atom_ok pt (snd b)) kw
      (* registered by hand (autoescape_message = False) the message texts are trusted: they must be template literals;
         the first positional argument of ngettext, the second of npgettext and the plural keyword of t are message texts *)
      && (aem || msg_args_lit k args && forallb (fun b => is_lit (snd b) || negb (str_eqb (fst b) [112; 108; 117; 114; 97; 108])) kw)
  | _ => true
  end.

(* ... and so must the value the filter is applied to *)
Definition input_ok (e : expr) (f : filter) : bool :=
  match f with
  | FTrans _ false _ _ => match e with EAtom (ALit _) => true | _ => false end
  | _ => true
  end.

Fixpoint expr_ok (pt : str -> bool) (pf : filter -> bool) (e : expr) : bool :=
  match e with EAtom a => atom_ok pt a | EFilt e' f => expr_ok pt pf e' && filter_ok pt pf f && input_ok e' f end.

Definition cond_ok (pt : str -> bool) (c : cond) : bool :=
  match c with CTruthy a => atom_ok pt a | CEq a b => atom_ok pt a && atom_ok pt b end.

Fixpoint stmt_ok (pt : str -> bool) (pf : filter -> bool) (s : stmt) : bool :=
  match s with
  | SText t => pt t
  | STranslate binds sing plur =>
      let seg_ok g := match g with MText t => pt t | MVar _ => true end in
      forallb (fun b => atom_ok pt (snd b)) binds && forallb seg_ok sing && match plur with Some p => forallb seg_ok p | None => true end
  | SOut e => expr_ok pt pf e
  | SAssign _ e => expr_ok pt pf e
  | SCapture _ body => forallb (stmt_ok pt pf) body
  | SIf c body els => cond_ok pt c && forallb (stmt_ok pt pf) body && forallb (stmt_ok pt pf) els
  | SFor _ e body => expr_ok pt pf e && forallb (stmt_ok pt pf) body
  | SCycle args => forallb (atom_ok pt) args
  | SInclude binds body => forallb (fun b => atom_ok pt (snd b)) binds && forallb (stmt_ok pt pf) body
  | SRender binds body => forallb (fun b => atom_ok pt (snd b)) binds && forallb (stmt_ok pt pf) body
  end.

(* ---------------------------------------------------------------- the case record of the correspondence run *)
Record ecase5 := { e_ae : bool; e_data : list (str * value); e_prog : list stmt }.

Definition run_escape (c : ecase5) : option str :=
  match exec (e_ae c) 200 {| st_scopes := []; st_locals := []; st_globals := e_data c; st_cycle := 0 |} (e_prog c) with
  | Ok (out, _) => Some out
  | _ => None
  end.

(* ---------------------------------------------------------------- the oracle's two clauses, as checkers *)
Definition no_raw (s : str) : bool := forallb (fun c => negb (is_raw c)) s.

(* every & is followed by a non-empty run of letters, digits or # and then a semicolon *)
Definition is_ref_char (c : N) : bool :=
  is_digit c || ((65 <=? c) && (c <=? 90)) || ((97 <=? c) && (c <=? 122)) || (c =? 35).
Fixpoint amp_scan (in_ref : bool) (seen : bool) (s : str) : bool :=
  (* in_ref: an & is open; seen: at least one reference character since *)
  match s with
  | [] => negb in_ref
  | c :: r =>
      if in_ref then
        if c =? 59 then seen && amp_scan false false r
        else if is_ref_char c then amp_scan true true r
        else false
      else if c =? 38 then amp_scan true false r
      else amp_scan false false r
  end.
Definition amp_ok (s : str) : bool := amp_scan false false s.
