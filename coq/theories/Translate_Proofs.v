From LiquidVerif Require Import Prelude PyPrims Translate.
From Coq Require Import ZifyBool.

(* ------------------------------------------------------------------ *)
(* placeholders                                                        *)

Definition name_ok (n : str) : Prop := n <> [] /\ forallb is_word n = true.

Lemma is_word_not_special c : is_word c = true -> c <> c_pct /\ c <> c_rpar /\ c <> c_lpar.
Proof. unfold is_word, c_pct, c_rpar, c_lpar. intro H. lia. Qed.

Lemma take_word_name n x : forallb is_word n = true -> (match x with [] => True | c :: _ => is_word c = false end) ->
  take_word (n ++ x) = (n, x).
Proof.
  intros Hn Hx. induction n as [|c n IH]; cbn [app].
  - destruct x as [|c x]; cbn [take_word]; [reflexivity|]. rewrite Hx. reflexivity.
  - cbn [forallb] in Hn. apply andb_true_iff in Hn. destruct Hn as [Hc Hn].
    cbn [take_word]. rewrite Hc, (IH Hn). reflexivity.
Qed.

Lemma parse_ph_placeholder n rest : name_ok n ->
  parse_ph (c_lpar :: n ++ c_rpar :: c_s :: rest) = Some (n, rest).
Proof.
  intros [Hne Hw]. unfold parse_ph. rewrite N.eqb_refl.
  rewrite (take_word_name n (c_rpar :: c_s :: rest) Hw) by reflexivity.
  destruct n as [|c n]; [contradiction|]. rewrite !N.eqb_refl. reflexivity.
Qed.

Lemma ph_split n (x : str) : c_lpar :: n ++ c_rpar :: c_s :: x = (c_lpar :: n ++ [c_rpar; c_s]) ++ x.
Proof. cbn [app]. rewrite <- app_assoc. reflexivity. Qed.

Lemma ph_len (n : str) : length (c_lpar :: n ++ [c_rpar; c_s]) = length n + 3.
Proof. cbn [length]. rewrite app_length. cbn. lia. Qed.

(* ------------------------------------------------------------------ *)
(* the filters                                                         *)

Section Filters.
  Variable lk : lookup_fn.

  Lemma fmt_skip : forall u p rest, u <> [] -> fmt_filter (length u) p (u ++ rest) lk = fmt_filter 0 false rest lk.
  Proof.
    induction u as [|c u IH]; intros p rest Hne; [contradiction|].
    cbn [length app fmt_filter]. destruct u as [|d u]; [reflexivity|].
    apply IH. discriminate.
  Qed.

  (* a message without placeholders is output unchanged, whatever percent signs it contains *)
  Lemma fmt_no_placeholder : forall s p, find_vars_f 0 p s = [] -> fmt_filter 0 p s lk = s.
  Proof.
    induction s as [|c r IH]; intros p H; [reflexivity|].
    cbn [fmt_filter find_vars_f] in *.
    destruct ((c =? c_pct)%N && negb p)%bool.
    - destruct (parse_ph r) as [[n rest]|]; [discriminate|]. f_equal. apply IH, H.
    - f_equal. apply IH, H.
  Qed.

  Theorem filter_text_without_placeholders text :
    find_vars text = [] -> format_filter text lk = text.
  Proof. apply fmt_no_placeholder. Qed.

  (* a failed placeholder attempt stays failed when the text is followed by nothing or by a '%' *)
  Definition pct_or_end (rest : str) : Prop := rest = [] \/ exists x, rest = c_pct :: x.

  Lemma take_word_app u rest : pct_or_end rest ->
    take_word (u ++ rest) = (fst (take_word u), snd (take_word u) ++ rest).
  Proof.
    intro Hr. induction u as [|c u IH]; cbn [app].
    - destruct Hr as [->|[x ->]]; reflexivity.
    - cbn [take_word]. destruct (is_word c); [|reflexivity].
      rewrite IH. destruct (take_word u) as [w r2]. reflexivity.
  Qed.

  Lemma parse_ph_app_none u rest : pct_or_end rest -> parse_ph u = None -> parse_ph (u ++ rest) = None.
  Proof.
    intros Hr H. unfold parse_ph in *. destruct u as [|c u1]; cbn [app].
    - destruct Hr as [->|[x ->]]; reflexivity.
    - destruct (c =? c_lpar)%N; [|reflexivity].
      rewrite (take_word_app u1 rest Hr). destruct (take_word u1) as [w r2]. cbn [fst snd].
      destruct w as [|w0 w]; [destruct (r2 ++ rest) as [|? [|? ?]]; reflexivity|].
      destruct r2 as [|c1 [|c2 r3]]; cbn [app].
      + destruct Hr as [->|[x ->]]; [reflexivity|]. destruct x; reflexivity.
      + destruct Hr as [->|[x ->]]; [reflexivity|].
        replace (c_pct =? c_s)%N with false by reflexivity. rewrite andb_false_r. reflexivity.
      + destruct ((c1 =? c_rpar)%N && (c2 =? c_s)%N)%bool; [discriminate|reflexivity].
  Qed.

  Definition endpct (p : bool) (t : str) : bool :=
    match t with [] => p | _ => (last t 0 =? c_pct)%N end.

  Lemma scan_text : forall t p rest, find_vars_f 0 p t = [] -> pct_or_end rest ->
    fmt_filter 0 p (t ++ rest) lk = t ++ fmt_filter 0 (endpct p t) rest lk.
  Proof.
    induction t as [|c t IH]; intros p rest H Hr; [reflexivity|].
    cbn [app fmt_filter find_vars_f] in *.
    assert (Hend : forall q, endpct q t = endpct p (c :: t) \/ t = []).
    { intro q. destruct t; [right; reflexivity|left; reflexivity]. }
    destruct ((c =? c_pct)%N && negb p)%bool eqn:E.
    - destruct (parse_ph t) as [[n r']|] eqn:Ep; [discriminate|].
      rewrite (parse_ph_app_none t rest Hr Ep). f_equal. rewrite (IH true rest H Hr). f_equal.
      destruct t as [|d t]; [|reflexivity].
      cbn. apply andb_true_iff in E. destruct E as [E _]. rewrite E. reflexivity.
    - f_equal. rewrite (IH _ rest H Hr). f_equal.
      destruct t as [|d t]; [|reflexivity]. reflexivity.
  Qed.

  (* messages given as pieces: literal text and placeholders *)
  Inductive piece := PText (t : str) | PVar (n : str).

  Fixpoint ser (ps : list piece) : str :=
    match ps with
    | [] => []
    | PText t :: r => t ++ ser r
    | PVar n :: r => c_pct :: c_lpar :: n ++ c_rpar :: c_s :: ser r
    end.

  Fixpoint render (ps : list piece) : str :=
    match ps with
    | [] => []
    | PText t :: r => t ++ render r
    | PVar n :: r => lk n ++ render r
    end.

  (* a text piece: non-empty, no placeholder of its own, not ending in '%', and followed by a placeholder or the end *)
  Fixpoint wf_pieces (ps : list piece) : Prop :=
    match ps with
    | [] => True
    | PVar n :: r => name_ok n /\ wf_pieces r
    | PText t :: r =>
        t <> [] /\ find_vars t = [] /\ (last t 0 =? c_pct)%N = false /\
        match r with [] | PVar _ :: _ => True | PText _ :: _ => False end /\ wf_pieces r
    end.

  Lemma ser_pct_or_end r : match r with [] | PVar _ :: _ => True | PText _ :: _ => False end -> pct_or_end (ser r).
  Proof.
    destruct r as [|[t|n] r]; intro H; [left; reflexivity|contradiction|right; eexists; reflexivity].
  Qed.

  Theorem filter_substitutes_placeholders : forall ps, wf_pieces ps ->
    format_filter (ser ps) lk = render ps.
  Proof.
    unfold format_filter. induction ps as [|[t|n] r IH]; intro Hwf; [reflexivity| |].
    - destruct Hwf as (Hne & Hclean & Hlast & Hnext & Hwf). cbn [ser render].
      rewrite (scan_text t false (ser r) Hclean (ser_pct_or_end r Hnext)).
      f_equal. destruct t as [|c t]; [contradiction|]. unfold endpct. rewrite Hlast. apply IH, Hwf.
    - destruct Hwf as (Hn & Hwf). cbn [ser render].
      assert (Hstep : forall r0, fmt_filter 0 false (c_pct :: r0) lk =
                match parse_ph r0 with
                | Some (n0, _) => lk n0 ++ fmt_filter (length n0 + 3) false r0 lk
                | None => c_pct :: fmt_filter 0 true r0 lk
                end) by reflexivity.
      rewrite Hstep, (parse_ph_placeholder n (ser r) Hn). f_equal.
      rewrite ph_split, <- ph_len. rewrite fmt_skip by discriminate. apply IH, Hwf.
  Qed.
End Filters.

(* ------------------------------------------------------------------ *)
(* the tag: doubling '%' and printf-formatting restores the text       *)

Section Tag.
  Variable lk : lookup_fn.

  Lemma printf_skip get : forall u rest, printf (length u) (u ++ rest) get = printf 0 rest get.
  Proof.
    induction u as [|c u IH]; intro rest; [reflexivity|]. cbn [length app printf]. apply IH.
  Qed.

  Lemma take_until_rpar_name n x : forallb is_word n = true ->
    take_until_rpar (n ++ c_rpar :: x) = Some (n, x).
  Proof.
    intro Hn. induction n as [|c n IH]; cbn [app take_until_rpar].
    - rewrite N.eqb_refl. reflexivity.
    - cbn [forallb] in Hn. apply andb_true_iff in Hn. destruct Hn as [Hc Hn].
      destruct (is_word_not_special c Hc) as (_ & Hr & _).
      destruct (N.eqb_spec c c_rpar); [contradiction|]. rewrite (IH Hn). reflexivity.
  Qed.

  Definition names_ok (items : list item) : Prop := forall n, In (IVar n) items -> name_ok n.

  Theorem printf_restores_text get : forall items,
    names_ok items -> (forall n, In (IVar n) items -> get n = Some (lk n)) ->
    printf 0 (serialize items) get = Ok (render_items items lk).
  Proof.
    induction items as [|[c|n] r IH]; intros Hok Hget; [reflexivity| |].
    - assert (IH' : printf 0 (serialize r) get = Ok (render_items r lk)).
      { apply IH; [intros n Hn; apply Hok; right; exact Hn | intros n Hn; apply Hget; right; exact Hn]. }
      cbn [serialize render_items]. destruct (N.eqb_spec c c_pct) as [->|Hne].
      + cbn [printf]. cbn [N.eqb c_pct Pos.eqb]. cbn [printf]. rewrite IH'. reflexivity.
      + cbn [printf]. destruct (N.eqb_spec c c_pct); [contradiction|]. rewrite IH'. reflexivity.
    - assert (IH' : printf 0 (serialize r) get = Ok (render_items r lk)).
      { apply IH; [intros m Hm; apply Hok; right; exact Hm | intros m Hm; apply Hget; right; exact Hm]. }
      destruct (Hok n (or_introl eq_refl)) as [Hne Hw].
      cbn [serialize render_items].
      assert (Hstep : forall r0, printf 0 (c_pct :: c_lpar :: r0) get =
                match take_until_rpar r0 with
                | None => Err EValueError
                | Some (k, rest) =>
                    match rest with
                    | e :: _ => if (e =? c_s)%N
                                then match get k with
                                     | Some v => do o <- printf (length k + 3) (c_lpar :: r0) get; Ok (v ++ o)
                                     | None => Err EKeyError
                                     end
                                else Err EValueError
                    | [] => Err EValueError
                    end
                end) by reflexivity.
      rewrite Hstep, (take_until_rpar_name n (c_s :: serialize r) Hw). rewrite N.eqb_refl.
      rewrite (Hget n (or_introl eq_refl)).
      rewrite ph_split, <- ph_len. rewrite printf_skip, IH'. reflexivity.
  Qed.

  (* findall with the repaired pattern sees every variable of the block, whatever percent signs surround it *)
  Fixpoint names_of (items : list item) : list str :=
    match items with [] => [] | IChar _ :: r => names_of r | IVar n :: r => n :: names_of r end.

  Lemma find_vars_t_skip : forall u run rest, u <> [] ->
    find_vars_t (length u) run (u ++ rest) = find_vars_t 0 0 rest.
  Proof.
    induction u as [|c u IH]; intros run rest Hne; [contradiction|].
    cbn [length app find_vars_t]. destruct u as [|d u]; [reflexivity|]. apply IH. discriminate.
  Qed.

  Lemma find_vars_serialize : forall items run, names_ok items -> Nat.even run = true ->
    find_vars_t 0 run (serialize items) = names_of items.
  Proof.
    induction items as [|[c|n] r IH]; intros run Hok Hev; [reflexivity| |].
    - assert (Hok' : names_ok r) by (intros m Hm; apply Hok; right; exact Hm).
      cbn [serialize names_of]. destruct (N.eqb_spec c c_pct) as [->|Hne].
      + cbn [find_vars_t]. cbn [N.eqb c_pct Pos.eqb]. rewrite Hev.
        replace (parse_ph (37%N :: serialize r)) with (@None (str * str)) by reflexivity.
        cbn [find_vars_t N.eqb Pos.eqb].
        replace (Nat.even (S run)) with false by (rewrite Nat.even_succ, <- Nat.negb_even, Hev; reflexivity).
        apply IH; [exact Hok'|]. rewrite Nat.even_succ, Nat.odd_succ. exact Hev.
      + cbn [find_vars_t]. destruct (N.eqb_spec c c_pct); [contradiction|]. apply IH; [exact Hok'|reflexivity].
    - assert (Hok' : names_ok r) by (intros m Hm; apply Hok; right; exact Hm).
      cbn [serialize names_of].
      assert (Hstep : forall r0, find_vars_t 0 run (c_pct :: r0) =
                if Nat.even run
                then match parse_ph r0 with
                     | Some (n0, _) => n0 :: find_vars_t (length n0 + 3) 0 r0
                     | None => find_vars_t 0 (S run) r0
                     end
                else find_vars_t 0 (S run) r0) by reflexivity.
      rewrite Hstep, Hev.
      rewrite (parse_ph_placeholder n (serialize r) (Hok n (or_introl eq_refl))). f_equal.
      rewrite ph_split, <- ph_len. rewrite find_vars_t_skip by discriminate. apply IH; [exact Hok'|reflexivity].
  Qed.

  Lemma mem_In x l : mem x l = true <-> In x l.
  Proof.
    induction l as [|y l IH]; cbn; [split; [discriminate|tauto]|].
    rewrite orb_true_iff, IH, str_eqb_eq. split; intros [H|H]; auto.
  Qed.

  Lemma names_of_In n items : In (IVar n) items -> In n (names_of items).
  Proof.
    induction items as [|[c|m] r IH]; cbn; [tauto| |].
    - intros [H|H]; [discriminate|auto].
    - intros [H|H]; [inversion H; auto|auto].
  Qed.

  (* C26 (tag): for every block of text characters (any percent signs, parentheses, ...) and variables, formatting
     the message built by validate_message_block gives back the text with the variables substituted *)
  Theorem tag_message_intact items : names_ok items ->
    format_tag_msg (serialize items) lk = Ok (render_items items lk).
  Proof.
    intro Hok. unfold format_tag_msg, find_vars_tag.
    rewrite (find_vars_serialize items 0 Hok eq_refl).
    apply printf_restores_text; [exact Hok|].
    intros n Hn. replace (mem n (names_of items)) with true; [reflexivity|].
    symmetry. apply mem_In, names_of_In, Hn.
  Qed.

  (* whitespace normalisation does nothing to a message without whitespace *)
  Lemma drop_space_id s : forallb (fun c => negb (is_space c)) s = true -> drop_space s = s.
  Proof. destruct s as [|c s]; cbn; [reflexivity|]. intro H. apply andb_true_iff in H. destruct H as [H _].
         apply negb_true_iff in H. rewrite H. reflexivity. Qed.

  Lemma collapse_id s : forallb (fun c => negb (is_space c)) s = true -> collapse 0 s = s.
  Proof.
    induction s as [|c s IH]; cbn [forallb collapse]; [reflexivity|]. intro H.
    apply andb_true_iff in H. destruct H as [Hc Hs]. apply negb_true_iff in Hc. rewrite Hc. f_equal. apply IH, Hs.
  Qed.

  Lemma forallb_rev {A} (f : A -> bool) l : forallb f (rev l) = forallb f l.
  Proof.
    induction l as [|x l IH]; cbn; [reflexivity|]. rewrite forallb_app, IH. cbn. rewrite andb_true_r. apply andb_comm.
  Qed.

  Lemma normalise_id s : forallb (fun c => negb (is_space c)) s = true -> normalise s = s.
  Proof.
    intro H. unfold normalise, strip. rewrite (drop_space_id s H).
    rewrite drop_space_id by (rewrite forallb_rev; exact H). rewrite rev_involutive. apply collapse_id, H.
  Qed.

  Theorem tag_text_intact items : names_ok items ->
    forallb (fun c => negb (is_space c)) (serialize items) = true ->
    format_tag items lk = Ok (render_items items lk).
  Proof.
    intros Hok Hns. unfold format_tag. rewrite (normalise_id _ Hns). apply tag_message_intact, Hok.
  Qed.
End Tag.

(* ------------------------------------------------------------------ *)
(* plural selection                                                    *)

Theorem plural_rule z :
  t_form true (CInt z) = null_ngettext z /\ t_form false (CInt z) = Singular /\
  tag_form true (CInt z) = Ok (null_ngettext z) /\ tag_form false (CInt z) = Ok Singular /\
  t_form true (CStrInt z) = null_ngettext z /\ tag_form true (CStrInt z) = Ok (null_ngettext z).
Proof. repeat split. Qed.
