From LiquidVerif Require Import Prelude PyPrims Translate.
From Coq Require Import ZifyBool.

(* ------------------------------------------------------------------ *)
(* placeholders                                                        *)

Definition name_ok (n : str) : Prop := n <> [] /\ forallb is_word n = true.

Lemma is_word_not_special c : is_word c = true -> c <> c_pct /\ c <> c_rpar /\ c <> c_lpar.
Proof. unfold is_word, c_pct, c_rpar, c_lpar. intro H. lia. Qed.

Lemma take_word_name n x : forallb is_word n = true -> (match x with [] => True | c :: _ => is_word c = false end) ->
  take_word (n ++ x) = (n, x).
Proof.
  intros Hn Hx. induction n as [|c n IH]; cbn [app].
  - destruct x as [|c x]; cbn [take_word]; [reflexivity|]. rewrite Hx. reflexivity.
  - cbn [forallb] in Hn. apply andb_true_iff in Hn. destruct Hn as [Hc Hn].
    cbn [take_word]. rewrite Hc, (IH Hn). reflexivity.
Qed.

Lemma parse_ph_placeholder n rest : name_ok n ->
  parse_ph (c_lpar :: n ++ c_rpar :: c_s :: rest) = Some (n, rest).
Proof.
  intros [Hne Hw]. unfold parse_ph. rewrite N.eqb_refl.
  rewrite (take_word_name n (c_rpar :: c_s :: rest) Hw) by reflexivity.
  destruct n as [|c n]; [contradiction|]. rewrite !N.eqb_refl. reflexivity.
Qed.

Lemma ph_split n (x : str) : c_lpar :: n ++ c_rpar :: c_s :: x = (c_lpar :: n ++ [c_rpar; c_s]) ++ x.
Proof. cbn [app]. rewrite <- app_assoc. reflexivity. Qed.

Lemma ph_len (n : str) : length (c_lpar :: n ++ [c_rpar; c_s]) = length n + 3.
Proof. cbn [length]. rewrite app_length. cbn. lia. Qed.

(* ------------------------------------------------------------------ *)
(* the filters                                                         *)

Section Filters.
  Variable lk : lookup_fn.

  Lemma fmt_skip : forall u p rest, u <> [] -> fmt_filter (length u) p (u ++ rest) lk = fmt_filter 0 false rest lk.
  Proof.
    induction u as [|c u IH]; intros p rest Hne; [contradiction|].
    cbn [length app fmt_filter]. destruct u as [|d u]; [reflexivity|].
    apply IH. discriminate.
  Qed.

  (* a message without placeholders is output unchanged, whatever percent signs it contains *)
  Lemma fmt_no_placeholder : forall s p, find_vars_f 0 p s = [] -> fmt_filter 0 p s lk = s.
  Proof.
    induction s as [|c r IH]; intros p H; [reflexivity|].
    cbn [fmt_filter find_vars_f] in *.
    destruct ((c =? c_pct)%N && negb p)%bool.
    - destruct (parse_ph r) as [[n rest]|]; [discriminate|]. f_equal. apply IH, H.
    - f_equal. apply IH, H.
  Qed.

  Theorem filter_text_without_placeholders text :
    find_vars text = [] -> format_filter text lk = text.
  Proof. apply fmt_no_placeholder. Qed.

  (* a failed placeholder attempt stays failed when the text is followed by nothing or by a '%' *)
  Definition pct_or_end (rest : str) : Prop := rest = [] \/ exists x, rest = c_pct :: x.

  Lemma take_word_app u rest : pct_or_end rest ->
    take_word (u ++ rest) = (fst (take_word u), snd (take_word u) ++ rest).
  Proof.
    intro Hr. induction u as [|c u IH]; cbn [app].
    - destruct Hr as [->|[x ->]]; reflexivity.
    - cbn [take_word]. destruct (is_word c); [|reflexivity].
      rewrite IH. destruct (take_word u) as [w r2]. reflexivity.
  Qed.

  Lemma parse_ph_app_none u rest : pct_or_end rest -> parse_ph u = None -> parse_ph (u ++ rest) = None.
  Proof.
    intros Hr H. unfold parse_ph in *. destruct u as [|c u1]; cbn [app].
    - destruct Hr as [->|[x ->]]; reflexivity.
    - destruct (c =? c_lpar)%N; [|reflexivity].
      rewrite (take_word_app u1 rest Hr). destruct (take_word u1) as [w r2]. cbn [fst snd].
      destruct w as [|w0 w]; [destruct (r2 ++ rest) as [|? [|? ?]]; reflexivity|].
      destruct r2 as [|c1 [|c2 r3]]; cbn [app].
      + destruct Hr as [->|[x ->]]; [reflexivity|]. destruct x; reflexivity.
      + destruct Hr as [->|[x ->]]; [reflexivity|].
        replace (c_pct =? c_s)%N with false by reflexivity. rewrite andb_false_r. reflexivity.
      + destruct ((c1 =? c_rpar)%N && (c2 =? c_s)%N)%bool; [discriminate|reflexivity].
  Qed.

  Definition endpct (p : bool) (t : str) : bool :=
    match t with [] => p | _ => (last t 0 =? c_pct)%N end.

  Lemma scan_text : forall t p rest, find_vars_f 0 p t = [] -> pct_or_end rest ->
    fmt_filter 0 p (t ++ rest) lk = t ++ fmt_filter 0 (endpct p t) rest lk.
  Proof.
    induction t as [|c t IH]; intros p rest H Hr; [reflexivity|].
    cbn [app fmt_filter find_vars_f] in *.
    assert (Hend : forall q, endpct q t = endpct p (c :: t) \/ t = []).
    { intro q. destruct t; [right; reflexivity|left; reflexivity]. }
    destruct ((c =? c_pct)%N && negb p)%bool eqn:E.
    - destruct (parse_ph t) as [[n r']|] eqn:Ep; [discriminate|].
      rewrite (parse_ph_app_none t rest Hr Ep). f_equal. rewrite (IH true rest H Hr). f_equal.
      destruct t as [|d t]; [|reflexivity].
      cbn. apply andb_true_iff in E. destruct E as [E _]. rewrite E. reflexivity.
    - f_equal. rewrite (IH _ rest H Hr). f_equal.
      destruct t as [|d t]; [|reflexivity]. reflexivity.
  Qed.

  (* messages given as pieces: literal text and placeholders *)
  Inductive piece := PText (t : str) | PVar (n : str).

  Fixpoint ser (ps : list piece) : str :=
    match ps with
    | [] => []
    | PText t :: r => t ++ ser r
    | PVar n :: r => c_pct :: c_lpar :: n ++ c_rpar :: c_s :: ser r
    end.

  Fixpoint render (ps : list piece) : str :=
    match ps with
    | [] => []
    | PText t :: r => t ++ render r
    | PVar n :: r => lk n ++ render r
    end.

  (* a text piece: non-empty, no placeholder of its own, not ending in '%', and followed by a placeholder or the end *)
  Fixpoint wf_pieces (ps : list piece) : Prop :=
    match ps with
    | [] => True
    | PVar n :: r => name_ok n /\ wf_pieces r
    | PText t :: r =>
        t <> [] /\ find_vars t = [] /\ (last t 0 =? c_pct)%N = false /\
        match r with [] | PVar _ :: _ => True | PText _ :: _ => False end /\ wf_pieces r
    end.

  Lemma ser_pct_or_end r : match r with [] | PVar _ :: _ => True | PText _ :: _ => False end -> pct_or_end (ser r).
  Proof.
    destruct r as [|[t|n] r]; intro H; [left; reflexivity|contradiction|right; eexists; reflexivity].
  Qed.

  Theorem filter_substitutes_placeholders : forall ps, wf_pieces ps ->
    format_filter (ser ps) lk = render ps.
  Proof.
    unfold format_filter. induction ps as [|[t|n] r IH]; intro Hwf; [reflexivity| |].
    - destruct Hwf as (Hne & Hclean & Hlast & Hnext & Hwf). cbn [ser render].
      rewrite (scan_text t false (ser r) Hclean (ser_pct_or_end r Hnext)).
      f_equal. destruct t as [|c t]; [contradiction|]. unfold endpct. rewrite Hlast. apply IH, Hwf.
    - destruct Hwf as (Hn & Hwf). cbn [ser render].
      assert (Hstep : forall r0, fmt_filter 0 false (c_pct :: r0) lk =
                match parse_ph r0 with
                | Some (n0, _) => lk n0 ++ fmt_filter (length n0 + 3) false r0 lk
                | None => c_pct :: fmt_filter 0 true r0 lk
                end) by reflexivity.
      rewrite Hstep, (parse_ph_placeholder n (ser r) Hn). f_equal.
      rewrite ph_split, <- ph_len. rewrite fmt_skip by discriminate. apply IH, Hwf.
  Qed.
End Filters.

(* placeholders of the tag: names are [\w?-]+ *)
Definition tname_ok (n : str) : Prop := n <> [] /\ forallb is_tname n = true.

Lemma is_tname_not_special c : is_tname c = true -> c <> c_pct /\ c <> c_rpar /\ c <> c_lpar /\ is_space c = false.
Proof. unfold is_tname, is_word, is_space, c_pct, c_rpar, c_lpar. intro H. lia. Qed.

Lemma take_tname_name n x : forallb is_tname n = true -> (match x with [] => True | c :: _ => is_tname c = false end) ->
  take_tname (n ++ x) = (n, x).
Proof.
  intros Hn Hx. induction n as [|c n IH]; cbn [app].
  - destruct x as [|c x]; cbn [take_tname]; [reflexivity|]. rewrite Hx. reflexivity.
  - cbn [forallb] in Hn. apply andb_true_iff in Hn. destruct Hn as [Hc Hn].
    cbn [take_tname]. rewrite Hc, (IH Hn). reflexivity.
Qed.

Lemma parse_ph_t_placeholder n rest : tname_ok n ->
  parse_ph_t (c_lpar :: n ++ c_rpar :: c_s :: rest) = Some (n, rest).
Proof.
  intros [Hne Hw]. unfold parse_ph_t. change (c_lpar =? 40)%N with true. cbv iota.
  rewrite (take_tname_name n (c_rpar :: c_s :: rest) Hw) by reflexivity.
  destruct n as [|c n]; [contradiction|]. reflexivity.
Qed.

(* ------------------------------------------------------------------ *)
(* the tag: doubling '%' and printf-formatting restores the text       *)

Section Tag.
  Variable lk : lookup_fn.

  Lemma printf_skip get : forall u rest, printf (length u) (u ++ rest) get = printf 0 rest get.
  Proof.
    induction u as [|c u IH]; intro rest; [reflexivity|]. cbn [length app printf]. apply IH.
  Qed.

  Lemma take_until_rpar_name n x : forallb is_tname n = true ->
    take_until_rpar (n ++ c_rpar :: x) = Some (n, x).
  Proof.
    intro Hn. induction n as [|c n IH]; cbn [app take_until_rpar].
    - rewrite N.eqb_refl. reflexivity.
    - cbn [forallb] in Hn. apply andb_true_iff in Hn. destruct Hn as [Hc Hn].
      destruct (is_tname_not_special c Hc) as (_ & Hr & _).
      destruct (N.eqb_spec c c_rpar); [contradiction|]. rewrite (IH Hn). reflexivity.
  Qed.

  Definition names_ok (items : list item) : Prop := forall n, In (IVar n) items -> tname_ok n.

  Theorem printf_restores_text get : forall items,
    names_ok items -> (forall n, In (IVar n) items -> get n = Some (lk n)) ->
    printf 0 (serialize items) get = Ok (render_items items lk).
  Proof.
    induction items as [|[c|n] r IH]; intros Hok Hget; [reflexivity| |].
    - assert (IH' : printf 0 (serialize r) get = Ok (render_items r lk)).
      { apply IH; [intros n Hn; apply Hok; right; exact Hn | intros n Hn; apply Hget; right; exact Hn]. }
      cbn [serialize render_items]. destruct (N.eqb_spec c c_pct) as [->|Hne].
      + cbn [printf]. cbn [N.eqb c_pct Pos.eqb]. cbn [printf]. rewrite IH'. reflexivity.
      + cbn [printf]. destruct (N.eqb_spec c c_pct); [contradiction|]. rewrite IH'. reflexivity.
    - assert (IH' : printf 0 (serialize r) get = Ok (render_items r lk)).
      { apply IH; [intros m Hm; apply Hok; right; exact Hm | intros m Hm; apply Hget; right; exact Hm]. }
      destruct (Hok n (or_introl eq_refl)) as [Hne Hw].
      cbn [serialize render_items].
      assert (Hstep : forall r0, printf 0 (c_pct :: c_lpar :: r0) get =
                match take_until_rpar r0 with
                | None => Err EValueError
                | Some (k, rest) =>
                    match rest with
                    | e :: _ => if (e =? c_s)%N
                                then match get k with
                                     | Some v => do o <- printf (length k + 3) (c_lpar :: r0) get; Ok (v ++ o)
                                     | None => Err EKeyError
                                     end
                                else Err EValueError
                    | [] => Err EValueError
                    end
                end) by reflexivity.
      rewrite Hstep, (take_until_rpar_name n (c_s :: serialize r) Hw). rewrite N.eqb_refl.
      rewrite (Hget n (or_introl eq_refl)).
      rewrite ph_split, <- ph_len. rewrite printf_skip, IH'. reflexivity.
  Qed.

  (* findall with the repaired pattern sees every variable of the block, whatever percent signs surround it *)
  Fixpoint names_of (items : list item) : list str :=
    match items with [] => [] | IChar _ :: r => names_of r | IVar n :: r => n :: names_of r end.

  Lemma find_vars_t_skip : forall u run rest, u <> [] ->
    find_vars_t (length u) run (u ++ rest) = find_vars_t 0 0 rest.
  Proof.
    induction u as [|c u IH]; intros run rest Hne; [contradiction|].
    cbn [length app find_vars_t]. destruct u as [|d u]; [reflexivity|]. apply IH. discriminate.
  Qed.

  Lemma find_vars_serialize : forall items run, names_ok items -> Nat.even run = true ->
    find_vars_t 0 run (serialize items) = names_of items.
  Proof.
    induction items as [|[c|n] r IH]; intros run Hok Hev; [reflexivity| |].
    - assert (Hok' : names_ok r) by (intros m Hm; apply Hok; right; exact Hm).
      cbn [serialize names_of]. destruct (N.eqb_spec c c_pct) as [->|Hne].
      + cbn [find_vars_t]. cbn [N.eqb c_pct Pos.eqb]. rewrite Hev.
        replace (parse_ph_t (37%N :: serialize r)) with (@None (str * str)) by reflexivity.
        cbn [find_vars_t N.eqb Pos.eqb].
        replace (Nat.even (S run)) with false by (rewrite Nat.even_succ, <- Nat.negb_even, Hev; reflexivity).
        apply IH; [exact Hok'|]. rewrite Nat.even_succ, Nat.odd_succ. exact Hev.
      + cbn [find_vars_t]. destruct (N.eqb_spec c c_pct); [contradiction|]. apply IH; [exact Hok'|reflexivity].
    - assert (Hok' : names_ok r) by (intros m Hm; apply Hok; right; exact Hm).
      cbn [serialize names_of].
      assert (Hstep : forall r0, find_vars_t 0 run (c_pct :: r0) =
                if Nat.even run
                then match parse_ph_t r0 with
                     | Some (n0, _) => n0 :: find_vars_t (length n0 + 3) 0 r0
                     | None => find_vars_t 0 (S run) r0
                     end
                else find_vars_t 0 (S run) r0) by reflexivity.
      rewrite Hstep, Hev.
      rewrite (parse_ph_t_placeholder n (serialize r) (Hok n (or_introl eq_refl))). f_equal.
      rewrite ph_split, <- ph_len. rewrite find_vars_t_skip by discriminate. apply IH; [exact Hok'|reflexivity].
  Qed.

  Lemma mem_In x l : mem x l = true <-> In x l.
  Proof.
    induction l as [|y l IH]; cbn; [split; [discriminate|tauto]|].
    rewrite orb_true_iff, IH, str_eqb_eq. split; intros [H|H]; auto.
  Qed.

  Lemma names_of_In n items : In (IVar n) items -> In n (names_of items).
  Proof.
    induction items as [|[c|m] r IH]; cbn; [tauto| |].
    - intros [H|H]; [discriminate|auto].
    - intros [H|H]; [inversion H; auto|auto].
  Qed.

  (* C26 (tag): for every block of text characters (any percent signs, parentheses, ...) and variables, formatting
     the message built by validate_message_block gives back the text with the variables substituted *)
  Theorem tag_message_intact items : names_ok items ->
    format_tag_msg (serialize items) lk = Ok (render_items items lk).
  Proof.
    intro Hok. unfold format_tag_msg, find_vars_tag.
    rewrite (find_vars_serialize items 0 Hok eq_refl).
    apply printf_restores_text; [exact Hok|].
    intros n Hn. replace (mem n (names_of items)) with true; [reflexivity|].
    symmetry. apply mem_In, names_of_In, Hn.
  Qed.

End Tag.


(* ------------------------------------------------------------------ *)
(* the tag: whitespace normalisation, for every block                  *)

Definition nsp (c : N) : bool := negb (is_space c).
Definition head_ns (x : str) : Prop := match x with [] => True | c :: _ => is_space c = false end.
Definition last_ns (x : str) : Prop := head_ns (rev x).

Lemma forallb_rev' {A} (f : A -> bool) l : forallb f (rev l) = forallb f l.
Proof.
  induction l as [|x l IH]; cbn; [reflexivity|]. rewrite forallb_app, IH. cbn. rewrite andb_true_r. apply andb_comm.
Qed.

Lemma drop_space_all g x : forallb is_space g = true -> drop_space (g ++ x) = drop_space x.
Proof.
  induction g as [|c g IH]; cbn [app forallb]; [reflexivity|]. intro H. apply andb_true_iff in H. destruct H as [Hc Hg].
  cbn [drop_space]. rewrite Hc. apply IH, Hg.
Qed.

Lemma drop_space_head x : head_ns x -> drop_space x = x.
Proof. destruct x as [|c x]; cbn; [reflexivity|]. intros ->. reflexivity. Qed.

Lemma drop_space_blank g : forallb is_space g = true -> drop_space g = [].
Proof. intro H. rewrite <- (app_nil_r g), drop_space_all by exact H. reflexivity. Qed.

Lemma strip_core lead core trail : forallb is_space lead = true -> forallb is_space trail = true ->
  head_ns core -> last_ns core -> strip (lead ++ core ++ trail) = core.
Proof.
  intros Hl Ht Hh Hla. unfold strip. rewrite (drop_space_all lead _ Hl).
  destruct core as [|c m].
  - cbn [app]. rewrite (drop_space_blank trail Ht). reflexivity.
  - rewrite (drop_space_head ((c :: m) ++ trail)) by exact Hh.
    rewrite rev_app_distr, drop_space_all by (rewrite forallb_rev'; exact Ht).
    rewrite (drop_space_head _ Hla). apply rev_involutive.
Qed.

Lemma head_ns_app x y : x <> [] -> forallb nsp x = true -> head_ns (x ++ y).
Proof.
  destruct x as [|c x]; [contradiction|]. intros _ H. cbn in *. apply andb_true_iff in H. destruct H as [H _].
  apply negb_true_iff in H. exact H.
Qed.

Lemma last_ns_word x : x <> [] -> forallb nsp x = true -> last_ns x.
Proof.
  intros Hne H. unfold last_ns. rewrite <- (app_nil_r (rev x)). apply head_ns_app.
  - intro E. apply Hne. rewrite <- (rev_involutive x), E. reflexivity.
  - rewrite forallb_rev'. exact H.
Qed.

Lemma last_ns_app a b : b <> [] -> last_ns b -> last_ns (a ++ b).
Proof.
  unfold last_ns. intros Hne H. rewrite rev_app_distr.
  destruct (rev b) as [|c m] eqn:E.
  - exfalso. apply Hne. rewrite <- (rev_involutive b), E. reflexivity.
  - exact H.
Qed.

Lemma collapse_skip : forall u x, collapse (length u) (u ++ x) = collapse 0 x.
Proof. induction u as [|c u IH]; intro x; [reflexivity|]. cbn [length app collapse]. apply IH. Qed.

Lemma collapse_word : forall w x, forallb nsp w = true -> collapse 0 (w ++ x) = w ++ collapse 0 x.
Proof.
  induction w as [|c w IH]; intros x H; [reflexivity|]. cbn [forallb] in H. apply andb_true_iff in H. destruct H as [Hc Hw].
  apply negb_true_iff in Hc. cbn [app collapse]. rewrite Hc. f_equal. apply IH, Hw.
Qed.

Lemma span_space_gap g x : forallb is_space g = true -> head_ns x -> span_space (g ++ x) = (g, x).
Proof.
  intros Hg Hx. induction g as [|c g IH]; cbn [app].
  - destruct x as [|c x]; cbn [span_space]; [reflexivity|]. cbn in Hx. rewrite Hx. reflexivity.
  - cbn [forallb] in Hg. apply andb_true_iff in Hg. destruct Hg as [Hc Hg].
    cbn [span_space]. rewrite Hc, (IH Hg). reflexivity.
Qed.

Definition sgap_out (g : str) : str := if existsb (fun x => (x =? 10)%N) g then [32%N] else g.

Lemma collapse_gap g x : g <> [] -> forallb is_space g = true -> head_ns x ->
  collapse 0 (g ++ x) = sgap_out g ++ collapse 0 x.
Proof.
  intros Hne Hg Hx. pose proof (span_space_gap g x Hg Hx) as Hs.
  destruct g as [|c g]; [contradiction|]. cbn [app] in *.
  assert (Hc : is_space c = true) by (cbn [forallb] in Hg; apply andb_true_iff in Hg; tauto).
  cbn [collapse]. rewrite Hc, Hs. cbn [fst]. unfold sgap_out. f_equal.
  cbn [length]. rewrite Nat.sub_1_r. cbn [Nat.pred]. apply collapse_skip.
Qed.

(* item level *)
Lemma serialize_app a b : serialize (a ++ b) = serialize a ++ serialize b.
Proof.
  induction a as [|[c|n] a IH]; cbn [app serialize]; [reflexivity| |].
  - destruct (c =? c_pct)%N; cbn [app]; rewrite IH; reflexivity.
  - rewrite IH. cbn [app]. rewrite <- app_assoc. reflexivity.
Qed.

Lemma names_valid_app a b : names_valid (a ++ b) = (names_valid a && names_valid b)%bool.
Proof.
  induction a as [|[c|n] a IH]; cbn [app names_valid]; [reflexivity|exact IH|]. rewrite IH. apply andb_assoc.
Qed.

Lemma space_not_pct c : is_space c = true -> (c =? c_pct)%N = false.
Proof. unfold is_space, c_pct. lia. Qed.

(* a gap serialises to itself: whitespace characters, the same newlines *)
Lemma ser_gap g : all_space g = true ->
  forallb is_space (serialize g) = true /\ existsb (fun x => (x =? 10)%N) (serialize g) = existsb item_nl g /\
  (g <> [] -> serialize g <> []) /\ names_valid g = true.
Proof.
  unfold all_space. induction g as [|[c|n] g IH]; cbn [forallb item_space]; intro H.
  - repeat split. intro E. exfalso. apply E. reflexivity.
  - apply andb_true_iff in H. destruct H as [Hc Hg]. destruct (IH Hg) as (I1 & I2 & I3 & I4).
    cbn [serialize]. rewrite (space_not_pct c Hc). cbn [forallb existsb item_nl names_valid]. rewrite Hc, I1, I2.
    repeat split; [discriminate|exact I4].
  - discriminate.
Qed.

Lemma ser_gap_out g : all_space g = true -> serialize (gap_out g) = sgap_out (serialize g).
Proof.
  intro H. destruct (ser_gap g H) as (_ & Hnl & _). unfold gap_out, sgap_out. rewrite Hnl.
  destruct (existsb item_nl g); reflexivity.
Qed.

Lemma name_valid_chars n : name_valid n = true -> n <> [] /\ forallb is_tname n = true.
Proof. destruct n as [|c n]; [discriminate|]. intro H. split; [discriminate|exact H]. Qed.

Lemma tname_nsp n : forallb is_tname n = true -> forallb nsp n = true.
Proof.
  induction n as [|c n IH]; cbn [forallb]; [reflexivity|]. intro H. apply andb_true_iff in H. destruct H as [Hc Hn].
  destruct (is_tname_not_special c Hc) as (_ & _ & _ & Hs). unfold nsp at 1. rewrite Hs, (IH Hn). reflexivity.
Qed.

(* a word serialises to non-whitespace characters *)
Lemma ser_word w : forallb (fun i => negb (item_space i)) w = true -> names_valid w = true ->
  forallb nsp (serialize w) = true /\ (w <> [] -> serialize w <> []).
Proof.
  induction w as [|[c|n] w IH]; cbn [forallb item_space names_valid]; intros H Hv.
  - split; [reflexivity|intro E; exfalso; apply E; reflexivity].
  - apply andb_true_iff in H. destruct H as [Hc Hw]. destruct (IH Hw Hv) as (I1 & _).
    cbn [serialize]. destruct (c =? c_pct)%N; cbn [forallb]; rewrite I1; unfold nsp at 1.
    + split; [reflexivity|discriminate].
    + rewrite Hc. split; [reflexivity|discriminate].
  - apply andb_true_iff in H. destruct H as [_ Hw]. apply andb_true_iff in Hv. destruct Hv as [Hn Hv].
    destruct (IH Hw Hv) as (I1 & _). destruct (name_valid_chars n Hn) as [_ Hch].
    cbn [serialize forallb]. rewrite forallb_app, (tname_nsp n Hch). cbn [forallb]. rewrite I1.
    split; [reflexivity|discriminate].
Qed.

Definition rest_ok (rest : list (list item * list item)) : bool :=
  forallb (fun gw => is_gap (fst gw) && is_word_run (snd gw)) rest.

Lemma is_word_run_inv w : is_word_run w = true -> w <> [] /\ forallb (fun i => negb (item_space i)) w = true.
Proof. destruct w as [|i w]; [discriminate|]. intro H. split; [discriminate|exact H]. Qed.
Lemma is_gap_inv g : is_gap g = true -> g <> [] /\ all_space g = true.
Proof. destruct g as [|i g]; [discriminate|]. intro H. split; [discriminate|exact H]. Qed.

Lemma app_nonempty {A} (a b : list A) : a <> [] -> a ++ b <> [].
Proof. destruct a; [contradiction|discriminate]. Qed.

(* the words-and-gaps part of a block: collapse rewrites exactly the gaps *)
Lemma collapse_body : forall rest w1, is_word_run w1 = true -> rest_ok rest = true ->
  names_valid (w1 ++ flat_rest rest) = true ->
  collapse 0 (serialize (w1 ++ flat_rest rest)) = serialize (w1 ++ norm_rest rest) /\
  last_ns (serialize (w1 ++ flat_rest rest)) /\ names_valid (w1 ++ norm_rest rest) = true.
Proof.
  induction rest as [|[g w] rest IH]; intros w1 Hw1 Hr Hv.
  - cbn [flat_rest norm_rest] in *. rewrite app_nil_r in *. destruct (is_word_run_inv w1 Hw1) as [Hne Hns].
    destruct (ser_word w1 Hns Hv) as [S1 S2]. split; [|split; [|exact Hv]].
    + rewrite <- (app_nil_r (serialize w1)) at 1. rewrite collapse_word by exact S1. cbn [collapse]. apply app_nil_r.
    + apply last_ns_word; [apply S2, Hne|exact S1].
  - cbn [flat_rest norm_rest rest_ok forallb fst snd] in *.
    apply andb_true_iff in Hr. destruct Hr as [Hgw Hr]. apply andb_true_iff in Hgw. destruct Hgw as [Hg Hw].
    rewrite names_valid_app in Hv. apply andb_true_iff in Hv. destruct Hv as [Hv1 Hv]. rewrite names_valid_app in Hv.
    apply andb_true_iff in Hv. destruct Hv as [Hvg Hv].
    destruct (is_word_run_inv w1 Hw1) as [Hne1 Hns1]. destruct (ser_word w1 Hns1 Hv1) as [S1 S2].
    destruct (is_gap_inv g Hg) as [Hgne Hgs]. destruct (ser_gap g Hgs) as (G1 & G2 & G3 & G4).
    destruct (is_word_run_inv w Hw) as [Hne Hns].
    destruct (IH w Hw Hr Hv) as (I1 & I2 & I3).
    assert (Hvw : names_valid w = true).
    { rewrite names_valid_app in Hv. apply andb_true_iff in Hv. tauto. }
    destruct (ser_word w Hns Hvw) as [W1 W2].
    assert (Hhead : head_ns (serialize (w ++ flat_rest rest))).
    { rewrite serialize_app. apply head_ns_app; [apply W2, Hne|exact W1]. }
    assert (Hnonempty : serialize (w ++ flat_rest rest) <> []).
    { rewrite serialize_app. apply app_nonempty, W2, Hne. }
    split; [|split].
    + rewrite !serialize_app. rewrite <- !serialize_app with (a := w).
      rewrite collapse_word by exact S1. rewrite collapse_gap by (auto using G3). rewrite I1.
      rewrite (ser_gap_out g Hgs). reflexivity.
    + rewrite serialize_app. apply last_ns_app.
      * rewrite serialize_app. intro E. apply app_eq_nil in E. destruct E as [_ E]. exact (Hnonempty E).
      * rewrite serialize_app. apply last_ns_app; [exact Hnonempty|exact I2].
    + rewrite !names_valid_app. rewrite Hv1. rewrite names_valid_app in I3. rewrite I3. cbn [andb].
      unfold gap_out. destruct (existsb item_nl g); [reflexivity|]. rewrite G4. reflexivity.
Qed.

Lemma wf_words_inv lead w1 rest trail : wf_block (BWords lead w1 rest trail) = true ->
  all_space lead = true /\ is_word_run w1 = true /\ rest_ok rest = true /\ all_space trail = true.
Proof. cbn [wf_block]. intro H. repeat (apply andb_true_iff in H; destruct H as [H ?]). auto. Qed.

(* strip + re.sub on the serialised block = the serialised normal form of its decomposition *)
Theorem normalise_block b : wf_block b = true -> names_valid (flatten b) = true ->
  normalise (serialize (flatten b)) = serialize (norm_block b) /\ names_valid (norm_block b) = true.
Proof.
  destruct b as [ws|lead w1 rest trail]; intros Hwf Hv.
  - cbn [wf_block flatten norm_block] in *. destruct (ser_gap ws Hwf) as (G1 & _).
    unfold normalise. rewrite <- (app_nil_r (serialize ws)).
    change (serialize ws ++ []) with (serialize ws ++ [] ++ []).
    rewrite strip_core; [split; reflexivity|exact G1|reflexivity|exact I|exact I].
  - destruct (wf_words_inv _ _ _ _ Hwf) as (Hl & Hw1 & Hr & Ht).
    cbn [flatten norm_block] in *.
    replace (lead ++ w1 ++ flat_rest rest ++ trail) with (lead ++ (w1 ++ flat_rest rest) ++ trail) in *
      by (rewrite <- !app_assoc; reflexivity).
    rewrite names_valid_app in Hv. apply andb_true_iff in Hv. destruct Hv as [_ Hv].
    rewrite names_valid_app in Hv. apply andb_true_iff in Hv. destruct Hv as [Hv _].
    destruct (collapse_body rest w1 Hw1 Hr Hv) as (C1 & C2 & C3).
    destruct (ser_gap lead Hl) as (L1 & _). destruct (ser_gap trail Ht) as (T1 & _).
    destruct (is_word_run_inv w1 Hw1) as [Hne1 Hns1].
    assert (Hv1 : names_valid w1 = true) by (rewrite names_valid_app in Hv; apply andb_true_iff in Hv; tauto).
    destruct (ser_word w1 Hns1 Hv1) as [S1 S2].
    split; [|exact C3].
    unfold normalise. rewrite (serialize_app lead), (serialize_app (w1 ++ flat_rest rest) trail).
    rewrite strip_core; [exact C1|exact L1|exact T1| |exact C2].
    rewrite serialize_app. apply head_ns_app; [apply S2, Hne1|exact S1].
Qed.

Lemma names_valid_ok items : names_valid items = true -> names_ok items.
Proof.
  induction items as [|[c|n] r IH]; cbn [names_valid]; intros H m Hin.
  - destruct Hin.
  - destruct Hin as [E|Hin]; [discriminate|]. apply (IH H), Hin.
  - apply andb_true_iff in H. destruct H as [Hn Hr]. destruct Hin as [E|Hin].
    + inversion E; subst. apply name_valid_chars, Hn.
    + apply (IH Hr), Hin.
Qed.

Lemma names_ok_valid items : names_ok items -> names_valid items = true.
Proof.
  induction items as [|[c|n] r IH]; cbn [names_valid]; intro H; [reflexivity| |].
  - apply IH. intros m Hm. apply H. right. exact Hm.
  - rewrite IH by (intros m Hm; apply H; right; exact Hm). rewrite andb_true_r.
    destruct (H n (or_introl eq_refl)) as [Hne Hch]. destruct n; [contradiction|exact Hch].
Qed.

(* C26 (tag, whole pipeline): for EVERY decomposed block the rendered text is the normal form of the block with the
   variables substituted; a block with an unusable variable name is a syntax error *)
Theorem tag_normalised_block lk b : wf_block b = true ->
  format_tag (flatten b) lk =
  if names_valid (flatten b) then Ok (render_items (norm_block b) lk) else Err ESyntax.
Proof.
  intro Hwf. unfold format_tag. destruct (names_valid (flatten b)) eqn:Hv; [|reflexivity].
  destruct (normalise_block b Hwf Hv) as [Hn Hv']. rewrite Hn.
  apply tag_message_intact, names_valid_ok, Hv'.
Qed.

(* every block has a decomposition *)
Lemma span_items_spec p : forall l, let '(a, b) := span_items p l in
  l = a ++ b /\ forallb p a = true /\ (match b with [] => True | i :: _ => p i = false end) /\
  (match l with i :: _ => p i = true -> a <> [] | [] => True end).
Proof.
  induction l as [|i l IH]; cbn [span_items]; [repeat split|].
  destruct (p i) eqn:E.
  - destruct (span_items p l) as [a b]. destruct IH as (I1 & I2 & I3 & _).
    cbn [app forallb]. rewrite E, I2. repeat split; [f_equal; exact I1|exact I3|discriminate].
  - repeat split; [exact E|discriminate].
Qed.

Definition starts_space (l : list item) : Prop := match l with [] => True | i :: _ => item_space i = true end.

Lemma split_rest_spec : forall fuel l, length l <= fuel -> starts_space l ->
  let '(rest, trail) := split_rest fuel l in
  flat_rest rest ++ trail = l /\ rest_ok rest = true /\ all_space trail = true.
Proof.
  induction fuel as [|f IH]; intros l Hlen Hst.
  - destruct l; [repeat split|cbn in Hlen; lia].
  - cbn [split_rest].
    pose proof (span_items_spec item_space l) as Hs. destruct (span_items item_space l) as [g r1].
    destruct Hs as (E1 & G1 & G2 & G3).
    destruct r1 as [|i r1'] eqn:Er1.
    + rewrite app_nil_r in E1. subst g. repeat split. exact G1.
    + rewrite <- Er1 in *.
      pose proof (span_items_spec (fun i => negb (item_space i)) r1) as Hs2.
      destruct (span_items (fun i => negb (item_space i)) r1) as [w r2].
      destruct Hs2 as (E2 & W1 & W2 & W3).
      assert (Hwne : w <> []).
      { rewrite Er1 in W3. apply W3. rewrite G2. reflexivity. }
      assert (Hgne : g <> []).
      { destruct l as [|j l']; [rewrite Er1 in E1; destruct g; discriminate|]. apply G3. exact Hst. }
      assert (Hlen2 : length r2 <= f).
      { rewrite E1, E2, !app_length in Hlen. destruct w; [contradiction|]. cbn [length] in Hlen. lia. }
      assert (Hst2 : starts_space r2).
      { destruct r2 as [|j r2']; [exact I|]. cbn. apply negb_false_iff in W2. exact W2. }
      specialize (IH r2 Hlen2 Hst2). destruct (split_rest f r2) as [rest trail].
      destruct IH as (I1 & I2 & I3).
      cbn [flat_rest rest_ok forallb fst snd]. fold (rest_ok rest). rewrite I2, I3.
      repeat split.
      * rewrite E1, E2. rewrite <- !app_assoc. rewrite I1. reflexivity.
      * destruct g; [contradiction|]. destruct w; [contradiction|]. cbn [is_gap is_word_run].
        unfold all_space. rewrite G1, W1. reflexivity.
Qed.

Theorem decompose_ok items : wf_block (decompose items) = true /\ flatten (decompose items) = items.
Proof.
  unfold decompose.
  pose proof (span_items_spec item_space items) as Hs. destruct (span_items item_space items) as [lead r1].
  destruct Hs as (E1 & L1 & L2 & _).
  destruct r1 as [|i r1'] eqn:Er1.
  - rewrite app_nil_r in E1. subst lead. split; [exact L1|reflexivity].
  - rewrite <- Er1 in *.
    pose proof (span_items_spec (fun i => negb (item_space i)) r1) as Hs2.
    destruct (span_items (fun i => negb (item_space i)) r1) as [w1 r2].
    destruct Hs2 as (E2 & W1 & W2 & W3).
    assert (Hwne : w1 <> []).
    { rewrite Er1 in W3. apply W3. rewrite L2. reflexivity. }
    assert (Hst2 : starts_space r2).
    { destruct r2 as [|j r2']; [exact I|]. cbn. apply negb_false_iff in W2. exact W2. }
    pose proof (split_rest_spec (length r2) r2 (le_n _) Hst2) as Hsp.
    destruct (split_rest (length r2) r2) as [rest trail]. destruct Hsp as (I1 & I2 & I3).
    split.
    + cbn [wf_block]. unfold all_space at 1. rewrite L1. fold (rest_ok rest). rewrite I2, I3.
      destruct w1; [contradiction|]. cbn [is_word_run]. rewrite W1. reflexivity.
    + cbn [flatten]. rewrite E1, E2, <- I1. reflexivity.
Qed.

(* C26 (tag): for EVERY block of characters (any whitespace, percent signs, ...) and variables *)
Theorem tag_normalised lk items :
  format_tag items lk =
  if names_valid items then Ok (render_items (norm_block (decompose items)) lk) else Err ESyntax.
Proof.
  destruct (decompose_ok items) as [Hwf Hfl].
  pose proof (tag_normalised_block lk (decompose items) Hwf) as H. rewrite Hfl in H. exact H.
Qed.

Theorem run_tag_is_spec c : run_tag c = run_tag_spec c.
Proof.
  unfold run_tag, run_tag_spec. rewrite tag_normalised. destruct (names_valid (tc_items c)); reflexivity.
Qed.

(* ---- what the normal form is, read declaratively ---- *)
Definition nonspace (i : item) : bool := negb (item_space i).

Lemma filter_all_space g : all_space g = true -> filter nonspace g = [].
Proof.
  unfold all_space. induction g as [|i g IH]; cbn [forallb filter]; [reflexivity|]. intro H.
  apply andb_true_iff in H. destruct H as [Hi Hg]. unfold nonspace at 1. rewrite Hi. cbn. apply IH, Hg.
Qed.

Lemma gap_out_space g : all_space g = true -> all_space (gap_out g) = true.
Proof. intro H. unfold gap_out. destruct (existsb item_nl g); [reflexivity|exact H]. Qed.

(* nothing but whitespace changes: the non-whitespace items (characters and variables) are the same, in the same order *)
Theorem norm_keeps_nonspace b : wf_block b = true ->
  filter nonspace (norm_block b) = filter nonspace (flatten b).
Proof.
  destruct b as [ws|lead w1 rest trail]; intro Hwf.
  - cbn [norm_block flatten wf_block] in *. rewrite (filter_all_space ws Hwf). reflexivity.
  - destruct (wf_words_inv _ _ _ _ Hwf) as (Hl & _ & Hr & Ht). cbn [norm_block flatten].
    rewrite !filter_app, (filter_all_space lead Hl), (filter_all_space trail Ht), app_nil_r. cbn [app]. f_equal.
    clear Hwf. induction rest as [|[g w] rest IH]; [reflexivity|].
    cbn [rest_ok forallb fst snd] in Hr. apply andb_true_iff in Hr. destruct Hr as [Hgw Hr].
    apply andb_true_iff in Hgw. destruct Hgw as [Hg _]. destruct (is_gap_inv g Hg) as [_ Hgs].
    cbn [norm_rest flat_rest]. rewrite !filter_app, (filter_all_space g Hgs), (filter_all_space _ (gap_out_space g Hgs)).
    cbn [app]. f_equal. apply IH, Hr.
Qed.

(* no newline survives outside a variable's value *)
Theorem norm_no_newline b : wf_block b = true -> forallb (fun i => negb (item_nl i)) (norm_block b) = true.
Proof.
  assert (Hword : forall w, forallb (fun i => negb (item_space i)) w = true -> forallb (fun i => negb (item_nl i)) w = true).
  { induction w as [|[c|n] w IH]; cbn [forallb item_space item_nl]; intro H; [reflexivity| |].
    - apply andb_true_iff in H. destruct H as [Hc Hw]. rewrite (IH Hw), andb_true_r.
      apply negb_true_iff in Hc. apply negb_true_iff. unfold is_space in Hc. lia.
    - apply andb_true_iff in H. destruct H as [_ Hw]. apply IH, Hw. }
  assert (Hgap : forall g, forallb (fun i => negb (item_nl i)) (gap_out g) = true).
  { intro g. unfold gap_out. destruct (existsb item_nl g) eqn:E; [reflexivity|].
    induction g as [|i g IH]; [reflexivity|]. cbn [existsb] in E. apply orb_false_iff in E. destruct E as [Ei Eg].
    cbn [forallb]. rewrite Ei, (IH Eg). reflexivity. }
  destruct b as [ws|lead w1 rest trail]; intro Hwf; [reflexivity|].
  destruct (wf_words_inv _ _ _ _ Hwf) as (_ & Hw1 & Hr & _). cbn [norm_block].
  rewrite forallb_app. destruct (is_word_run_inv w1 Hw1) as [_ H1]. rewrite (Hword w1 H1). cbn [andb].
  clear Hwf. induction rest as [|[g w] rest IH]; [reflexivity|].
  cbn [rest_ok forallb fst snd] in Hr. apply andb_true_iff in Hr. destruct Hr as [Hgw Hr].
  apply andb_true_iff in Hgw. destruct Hgw as [_ Hw]. destruct (is_word_run_inv w Hw) as [_ H2].
  cbn [norm_rest]. rewrite !forallb_app, Hgap, (Hword w H2), (IH Hr). reflexivity.
Qed.

(* the normal form neither starts nor ends with whitespace *)
Definition ihead_ns (l : list item) : Prop := match l with [] => True | i :: _ => item_space i = false end.

Theorem norm_no_outer_space b : wf_block b = true -> ihead_ns (norm_block b) /\ ihead_ns (rev (norm_block b)).
Proof.
  assert (Hhead : forall w x, is_word_run w = true -> ihead_ns (w ++ x)).
  { intros [|i w] x H; [discriminate|]. cbn in *. apply andb_true_iff in H. destruct H as [H _].
    apply negb_true_iff in H. exact H. }
  assert (Hlast : forall w x, is_word_run w = true -> ihead_ns (rev (x ++ w))).
  { intros w x H. rewrite rev_app_distr. apply Hhead. destruct w as [|i w]; [discriminate|].
    cbn [is_word_run] in H. destruct (rev (i :: w)) eqn:E.
    - exfalso. apply (f_equal (@rev item)) in E. rewrite rev_involutive in E. discriminate.
    - cbn [is_word_run]. rewrite <- E, forallb_rev'. exact H. }
  destruct b as [ws|lead w1 rest trail]; intro Hwf; [split; exact I|].
  destruct (wf_words_inv _ _ _ _ Hwf) as (_ & Hw1 & Hr & _). cbn [norm_block]. split; [apply Hhead, Hw1|].
  clear Hwf. revert w1 Hw1. induction rest as [|[g w] rest IH]; intros w1 Hw1.
  - cbn [norm_rest]. rewrite app_nil_r. rewrite <- (app_nil_l w1). apply Hlast, Hw1.
  - cbn [rest_ok forallb fst snd] in Hr. apply andb_true_iff in Hr. destruct Hr as [Hgw Hr].
    apply andb_true_iff in Hgw. destruct Hgw as [_ Hw]. cbn [norm_rest].
    specialize (IH Hr w Hw). rewrite !app_assoc. rewrite <- app_assoc. rewrite rev_app_distr.
    destruct (rev (w ++ norm_rest rest)) eqn:E.
    + exfalso. apply (f_equal (@rev item)) in E. rewrite rev_involutive in E. destruct w; [discriminate|discriminate].
    + exact IH.
Qed.

(* a block without whitespace is left as it is (the earlier, partial theorem, now a special case) *)
Lemma drop_space_id s : forallb nsp s = true -> drop_space s = s.
Proof. destruct s as [|c s]; cbn; [reflexivity|]. intro H. apply andb_true_iff in H. destruct H as [H _].
       apply negb_true_iff in H. rewrite H. reflexivity. Qed.

Lemma normalise_id s : forallb nsp s = true -> normalise s = s.
Proof.
  intro H. unfold normalise, strip. rewrite (drop_space_id s H).
  rewrite drop_space_id by (rewrite forallb_rev'; exact H). rewrite rev_involutive.
  rewrite <- (app_nil_r s) at 1. rewrite collapse_word by exact H. apply app_nil_r.
Qed.

Theorem tag_text_intact lk items : names_ok items ->
  forallb (fun c => negb (is_space c)) (serialize items) = true ->
  format_tag items lk = Ok (render_items items lk).
Proof.
  intros Hok Hns. unfold format_tag. rewrite (names_ok_valid items Hok), (normalise_id _ Hns).
  apply tag_message_intact, Hok.
Qed.

(* ------------------------------------------------------------------ *)
(* counts and plural selection                                         *)

Definition dflt (d : Z) (o : option Z) : Z := match o with Some z => z | None => d end.

(* the tag: the count's integer value, 1 when it has none; then the NullTranslations rule *)
Theorem tag_form_spec hp c :
  tag_form hp c = Ok (if hp then null_ngettext (dflt 1 (count_int c)) else Singular).
Proof.
  destruct c; try reflexivity. unfold tag_form, tag_count, to_int, count_int. destruct (py_int s); reflexivity.
Qed.

(* ngettext / npgettext filters: the same, except that values int() has no conversion for are the Liquid type error *)
Theorem ng_form_spec c :
  ng_form c = if count_no_type c then Err EType else Ok (null_ngettext (dflt 1 (count_int c))).
Proof.
  destruct c; try reflexivity. unfold ng_form, ng_count, to_int, count_int, count_no_type. destruct (py_int s); reflexivity.
Qed.

(* the t filter: nil and booleans mean no count at all *)
Theorem t_form_spec hp c :
  t_form hp c =
  match c with
  | CAbsent | CNil | CBool _ => Ok Singular
  | CArr | CHash => Err EType
  | _ => Ok (match hp, count_int c with true, Some n => null_ngettext n | _, _ => Singular end)
  end.
Proof.
  destruct c; try reflexivity; try (destruct hp; reflexivity).
  unfold t_form, t_count, to_int, count_int. destruct (py_int s); destruct hp; reflexivity.
Qed.

(* no count value makes plural selection fail with anything but a Liquid error *)
Theorem count_errors_are_liquid hp c :
  (forall e, t_form hp c = Err e -> is_liquid e = true) /\
  (forall e, ng_form c = Err e -> is_liquid e = true) /\
  (forall e, tag_form hp c = Err e -> is_liquid e = true).
Proof.
  rewrite t_form_spec, ng_form_spec, tag_form_spec. repeat split; intros e H.
  - destruct c; inversion H; reflexivity.
  - destruct (count_no_type c); inversion H; reflexivity.
  - inversion H.
Qed.

Theorem plural_rule z :
  t_form true (CInt z) = Ok (null_ngettext z) /\ t_form false (CInt z) = Ok Singular /\
  tag_form true (CInt z) = Ok (null_ngettext z) /\ tag_form false (CInt z) = Ok Singular /\
  ng_form (CInt z) = Ok (null_ngettext z).
Proof. repeat split. Qed.

(* strings: Python's int() reads optional whitespace, an optional sign and decimal digits *)
Definition dval (ds : str) : Z := fold_left (fun a c => (a * 10 + Z.of_N (c - 48))%Z) ds 0%Z.

Lemma digits_us_plain : forall ds acc p, forallb is_digit ds = true -> (ds <> [] \/ p = true) ->
  digits_us ds acc p = Some (fold_left (fun a c => (a * 10 + Z.of_N (c - 48))%Z) ds acc).
Proof.
  induction ds as [|c ds IH]; intros acc p H Hne.
  - destruct Hne as [Hne| ->]; [contradiction|reflexivity].
  - cbn [forallb] in H. apply andb_true_iff in H. destruct H as [Hc Hds].
    cbn [digits_us fold_left]. rewrite Hc. apply IH; [exact Hds|right; reflexivity].
Qed.

Lemma digit_nsp ds : forallb is_digit ds = true -> forallb nsp ds = true.
Proof.
  induction ds as [|c ds IH]; cbn [forallb]; [reflexivity|]. intro H. apply andb_true_iff in H. destruct H as [Hc Hd].
  rewrite (IH Hd), andb_true_r. unfold nsp, is_digit, is_space in *. lia.
Qed.

Inductive sign := SNone | SPlus | SMinus.
Definition sign_str (s : sign) : str := match s with SNone => [] | SPlus => [43%N] | SMinus => [45%N] end.
Definition sign_val (s : sign) (z : Z) : Z := match s with SMinus => (- z)%Z | _ => z end.

Theorem py_int_decimal lead trail sg ds : forallb is_space lead = true -> forallb is_space trail = true ->
  ds <> [] -> forallb is_digit ds = true ->
  py_int (lead ++ (sign_str sg ++ ds) ++ trail) = Some (sign_val sg (dval ds)).
Proof.
  intros Hl Ht Hne Hd. unfold py_int.
  assert (Hns : forallb nsp (sign_str sg ++ ds) = true).
  { rewrite forallb_app, (digit_nsp ds Hd), andb_true_r. destruct sg; reflexivity. }
  assert (Hne' : sign_str sg ++ ds <> []) by (destruct sg; [exact Hne|discriminate|discriminate]).
  rewrite strip_core; [|exact Hl|exact Ht| |apply last_ns_word; assumption].
  - destruct sg; cbn [sign_str app sign_val].
    + destruct ds as [|c ds]; [contradiction|].
      assert (Hc : is_digit c = true) by (cbn in Hd; apply andb_true_iff in Hd; tauto).
      assert (c <> 43 /\ c <> 45)%N as [H1 H2] by (unfold is_digit in Hc; lia).
      destruct (N.eqb_spec c 43); [contradiction|]. destruct (N.eqb_spec c 45); [contradiction|].
      apply digits_us_plain; [exact Hd|left; discriminate].
    + cbn [N.eqb Pos.eqb]. apply digits_us_plain; [exact Hd|left; exact Hne].
    + cbn [N.eqb Pos.eqb]. rewrite (digits_us_plain ds 0 false Hd (or_introl Hne)). reflexivity.
  - rewrite <- (app_nil_r (sign_str sg ++ ds)). apply head_ns_app; assumption.
Qed.

(* ------------------------------------------------------------------ *)
(* message context                                                     *)

(* whatever the context argument is, with null translations the text is chosen by the count alone: the context only
   decides WHICH gettext function is asked *)
Theorem context_leaves_text c :
  run_plural c =
  match pc_entry c with
  | ETag => tag_form (pc_plural c) (pc_count c)
  | ETFilter => t_form (pc_plural c) (pc_count c)
  | EGettext | EPgettext => Ok Singular
  | ENgettext | ENpgettext => ng_form (pc_count c)
  end.
Proof.
  destruct c as [e hp cnt x]. unfold run_plural, run_call. cbn [pc_entry pc_plural pc_count pc_ctx].
  destruct e; try reflexivity.
  - unfold tag_call, tag_form. destruct (tag_count cnt); cbn; [|reflexivity|reflexivity].
    destruct hp, (tag_ctx x); reflexivity.
  - unfold t_call, t_form. destruct (t_count cnt) as [[n|]| |]; cbn; try reflexivity; destruct hp, (t_ctx x); reflexivity.
  - unfold ngettext_call, ng_form. destruct (ng_count cnt); reflexivity.
  - unfold npgettext_call, ng_form. destruct (ng_count cnt); reflexivity.
Qed.

(* which function the tag asks: the p-variants exactly for a truthy context, the n-variants exactly with a plural block *)
Theorem tag_call_spec hp c x :
  tag_call hp c x =
  do n <- tag_count c;
  Ok (match tag_ctx x with
      | Some k => if hp then GNpget k n else GPget k
      | None => if hp then GNget n else GGet
      end).
Proof. unfold tag_call. destruct (tag_count c); cbn; try reflexivity. destruct hp, (tag_ctx x); reflexivity. Qed.
