(* Lex_Match_Proofs.v — what the ordered alternation [match_at] finds at the start of each well-formed piece of
   concrete syntax (text, tag-shaped markup, output statement, raw/doc block, shorthand comment). *)
From Coq Require Import ZArith NArith List Bool Lia ZifyBool.
From LiquidVerif Require Import Prelude Lex LexSpec Lex_Proofs.
Import ListNotations.
Arguments hy : simpl never.
Arguments nl : simpl never.
Arguments hash : simpl never.
Arguments lbrace : simpl never.

Ltac norm_app := repeat rewrite <- app_assoc.
Ltac len_tac := repeat (rewrite app_length || (progress cbn [length hyp])); lia.

(* ---------------------------------------------------------------- facts packed in d_ok *)
Record dfacts (d : delims) : Prop := {
  ts_ne : nonempty (d_ts d) = true;  te_ne : nonempty (d_te d) = true;
  ss_ne : nonempty (d_ss d) = true;  se_ne : nonempty (d_se d) = true;
  te_nsp : is_space (hd0 (d_te d)) = false;  te_nhy : N.eqb (hd0 (d_te d)) hy = false;
  te_nw : is_word (hd0 (d_te d)) = false;
  se_nsp : is_space (hd0 (d_se d)) = false;  se_nhy : N.eqb (hd0 (d_se d)) hy = false;
  ce_nhy : N.eqb (hd0 (d_ce d)) hy = false;
  ts_ss : clash (d_ts d) (d_ss d) = false;
  cs_facts : nonempty (d_cs d) = true ->
             nonempty (d_ce d) = true /\ clash (d_cs d) (d_ts d) = false /\ clash (d_cs d) (d_ss d) = false
}.

Lemma d_ok_facts d : d_ok d = true -> dfacts d.
Proof.
  unfold d_ok. intros H.
  repeat (apply andb_true_iff in H; destruct H as [H ?]).
  repeat match goal with Hx : negb _ = true |- _ => apply negb_true_iff in Hx end.
  constructor; auto.
  intros Hcs. rewrite Hcs in *. cbn [negb orb andb] in *.
  rewrite orb_false_r in *.
  repeat match goal with Hx : _ && _ = true |- _ => apply andb_true_iff in Hx; destruct Hx end.
  repeat match goal with Hx : negb _ = true |- _ => apply negb_true_iff in Hx end.
  auto.
Qed.

Lemma default_delims_ok : d_ok default_delims = true.
Proof. reflexivity. Qed.

(* ---------------------------------------------------------------- wordtag *)
Lemma wordtag_at_ok te w s k w1 w2 r rest :
  nonempty te = true -> is_space (hd0 te) = false -> N.eqb (hd0 te) hy = false ->
  skipn k s = w1 ++ w ++ w2 ++ hyp r ++ te ++ rest ->
  all_space w1 = true -> all_space w2 = true -> stops (w ++ w2 ++ hyp r ++ te ++ rest) ->
  wordtag_at te w s k = Some (r, k + (length w1 + (length w + (length w2 + length (hyp r) + length te)))).
Proof.
  intros T1 T2 T3 Hs Hw1 Hw2 Hst. unfold wordtag_at.
  rewrite Hs. rewrite ws_len_app_stops by auto.
  rewrite skipn_add, Hs, skipn_app_len, prefixb_app.
  rewrite !skipn_add, Hs, skipn_app_len, skipn_app_len.
  rewrite close_here by auto. f_equal. f_equal. lia.
Qed.

Lemma wordtag_at_mismatch te w s k w1 X :
  skipn k s = w1 ++ X -> all_space w1 = true -> stops X -> prefixb w X = false -> wordtag_at te w s k = None.
Proof.
  intros Hs Hw1 Hst Hp. unfold wordtag_at. rewrite Hs, ws_len_app_stops by auto.
  rewrite skipn_add, Hs, skipn_app_len, Hp. reflexivity.
Qed.

Lemma skipn_S_app {A} (a : list A) c x : skipn (S (length a)) (a ++ c :: x) = x.
Proof. induction a; simpl; auto. Qed.

Definition word_ok (w : str) : Prop :=
  nonempty w = true /\ is_space (hd0 w) = false /\ N.eqb (hd0 w) hy = false.

Lemma word_ok_stops w s : word_ok w -> stops (w ++ s).
Proof. intros (H1 & H2 & _). destruct w; simpl in *; try discriminate. exact H2. Qed.

Lemma hyphen_next_space_or w X : all_space w = true -> hyphen_next X = false -> hyphen_next (w ++ X) = false.
Proof.
  destruct w as [|c w]; simpl; auto. intros H _. apply andb_true_iff in H as [Hc _].
  destruct (N.eqb_spec c hy); auto. subst c. rewrite hy_not_space in Hc. discriminate.
Qed.

Lemma hyphen_next_word w s : word_ok w -> hyphen_next (w ++ s) = false.
Proof. intros (H1 & _ & H3). destruct w; simpl in *; try discriminate. exact H3. Qed.

Lemma wordtag_ok d l w1 w w2 r rest : dfacts d ->
  all_space w1 = true -> all_space w2 = true -> word_ok w ->
  wordtag d w (d_ts d ++ hyp l ++ w1 ++ w ++ w2 ++ hyp r ++ d_te d ++ rest)
  = Some (r, length (d_ts d ++ hyp l ++ w1 ++ w ++ w2 ++ hyp r ++ d_te d)).
Proof.
  intros F Hw1 Hw2 Hw. unfold wordtag. rewrite prefixb_app.
  destruct l; cbn [hyp app].
  - erewrite with_hyphen_yes; [reflexivity | apply skipn_app_len |].
    erewrite wordtag_at_ok; try apply skipn_S_app; auto using te_ne, te_nsp, te_nhy, word_ok_stops.
    f_equal. f_equal. len_tac.
  - rewrite with_hyphen_no.
    + erewrite wordtag_at_ok; try apply skipn_app_len; auto using te_ne, te_nsp, te_nhy, word_ok_stops.
      f_equal. f_equal. len_tac.
    + rewrite skipn_app_len. apply hyphen_next_space_or; auto. apply hyphen_next_word; auto.
Qed.

Lemma wordtag_not_ts d w s : prefixb (d_ts d) s = false -> wordtag d w s = None.
Proof. intros H. unfold wordtag. rewrite H. reflexivity. Qed.

(* a tag whose name is not w *)
Lemma wordtag_mismatch d w l w1 X : word_ok w ->
  all_space w1 = true -> stops X -> hyphen_next X = false -> prefixb w X = false ->
  wordtag d w (d_ts d ++ hyp l ++ w1 ++ X) = None.
Proof.
  intros Hw Hw1 Hst Hhn Hp. unfold wordtag. rewrite prefixb_app.
  destruct l; cbn [hyp app].
  - erewrite with_hyphen_yes_none; [ | apply skipn_app_len | ].
    + unfold wordtag_at. rewrite skipn_app_len. rewrite ws_len_stop by apply hy_not_space.
      rewrite Nat.add_0_r, skipn_app_len.
      destruct Hw as (H1 & _ & H3). destruct w as [|c w']; simpl in H1; try discriminate.
      cbn [prefixb hd0] in *. rewrite H3. reflexivity.
    + eapply wordtag_at_mismatch; eauto. apply skipn_S_app.
  - rewrite with_hyphen_no.
    + eapply wordtag_at_mismatch; eauto. apply skipn_app_len.
    + rewrite skipn_app_len. apply hyphen_next_space_or; auto.
Qed.

(* ---------------------------------------------------------------- RAW / DOC blocks *)
Lemma block_ok d w endw l1 w1 w2 r1 body l2 w3 w4 r2 rest : dfacts d ->
  all_space w1 = true -> all_space w2 = true -> all_space w3 = true -> all_space w4 = true ->
  word_ok w -> word_ok endw ->
  forallb (fun c => negb (N.eqb c (hd0 (d_ts d)))) body = true ->
  block d w endw ((d_ts d ++ hyp l1 ++ w1 ++ w ++ w2 ++ hyp r1 ++ d_te d) ++ body
                  ++ (d_ts d ++ hyp l2 ++ w3 ++ endw ++ w4 ++ hyp r2 ++ d_te d) ++ rest)
  = Some (r1, r2, length (d_ts d ++ hyp l1 ++ w1 ++ w ++ w2 ++ hyp r1 ++ d_te d), length body,
          length (d_ts d ++ hyp l1 ++ w1 ++ w ++ w2 ++ hyp r1 ++ d_te d)
          + (length body + length (d_ts d ++ hyp l2 ++ w3 ++ endw ++ w4 ++ hyp r2 ++ d_te d))).
Proof.
  intros F H1 H2 H3 H4 Hw Hew Hb. unfold block.
  set (t1 := d_ts d ++ hyp l1 ++ w1 ++ w ++ w2 ++ hyp r1 ++ d_te d).
  set (t2 := d_ts d ++ hyp l2 ++ w3 ++ endw ++ w4 ++ hyp r2 ++ d_te d).
  assert (E1 : wordtag d w (t1 ++ body ++ t2 ++ rest) = Some (r1, length t1)).
  { unfold t1. norm_app. apply wordtag_ok; auto. }
  rewrite E1, skipn_app_len.
  erewrite find_first_skip; [reflexivity | | ].
  - intros k Hk. rewrite skipn_app_lt by lia.
    assert (exists c y, skipn k body = c :: y /\ N.eqb c (hd0 (d_ts d)) = false) as (c & y & Hy & Hc).
    { clear -Hk Hb. revert body Hk Hb. induction k; intros [|c b] Hk Hb; simpl in *; try lia.
      - apply andb_true_iff in Hb as [Hc _]. apply negb_true_iff in Hc. eauto.
      - apply andb_true_iff in Hb as [_ Hb]. apply IHk; auto. lia. }
    rewrite Hy. apply wordtag_not_ts. apply prefixb_hd_neq. apply F.
    intro E. rewrite E, N.eqb_refl in Hc. discriminate.
  - apply find_first_here. unfold t2. norm_app. apply wordtag_ok; auto.
Qed.

(* ---------------------------------------------------------------- TAG *)
Lemma m_tag_ok d l w1 name w2 expr w3 r rest : dfacts d ->
  all_space w1 = true -> all_space w2 = true -> all_space w3 = true ->
  stops (name ++ w2 ++ expr ++ w3 ++ hyp r ++ d_te d ++ rest) ->
  hyphen_next (name ++ w2 ++ expr ++ w3 ++ hyp r ++ d_te d ++ rest) = false ->
  name_len (name ++ w2 ++ expr ++ w3 ++ hyp r ++ d_te d ++ rest) = length name ->
  stops (expr ++ w3 ++ hyp r ++ d_te d ++ rest) ->
  body_ok (d_te d) expr ->
  m_tag d (d_ts d ++ hyp l ++ w1 ++ name ++ w2 ++ expr ++ w3 ++ hyp r ++ d_te d ++ rest)
  = Some (length (d_ts d ++ hyp l ++ w1), length name, length (d_ts d ++ hyp l ++ w1 ++ name ++ w2), length expr, r,
          length (d_ts d ++ hyp l ++ w1 ++ name ++ w2 ++ expr ++ w3 ++ hyp r ++ d_te d)).
Proof.
  intros F H1 H2 H3 Hst Hhn Hnl Hste Hbody. unfold m_tag. rewrite prefixb_app.
  set (X := name ++ w2 ++ expr ++ w3 ++ hyp r ++ d_te d ++ rest) in *.
  assert (G : forall s k, skipn k s = w1 ++ X ->
     (let k2 := k + ws_len (skipn k s) in
      let nlen := name_len (skipn k2 s) in
      let k3 := k2 + nlen in
      let k4 := k3 + ws_len (skipn k3 s) in
      match find_first (close (d_te d)) (skipn k4 s) with
      | Some (j, h, n) => Some (k2, nlen, k4, j, h, k4 + n)
      | None => None
      end) = Some (k + length w1, length name, k + length w1 + length name + length w2, length expr, r,
                   k + length w1 + length name + length w2
                   + (length expr + (length w3 + length (hyp r) + length (d_te d))))).
  { intros s k Hs. cbv zeta. rewrite !skipn_add, !Hs.
    rewrite (ws_len_app_stops w1 X) by auto. rewrite !skipn_app_len, Hnl.
    unfold X. rewrite !skipn_app_len. rewrite (ws_len_app_stops w2) by auto. rewrite !skipn_app_len.
    rewrite lazy_close; auto using te_ne, te_nsp, te_nhy. }
  destruct l; cbn [hyp app].
  - erewrite with_hyphen_yes; [reflexivity | apply skipn_app_len |].
    rewrite (G _ _ (skipn_S_app _ _ _)). f_equal. repeat f_equal; len_tac.
  - rewrite with_hyphen_no.
    + rewrite (G _ _ (skipn_app_len _ _)). f_equal. repeat f_equal; len_tac.
    + rewrite skipn_app_len. apply hyphen_next_space_or; auto.
Qed.

(* ---------------------------------------------------------------- OUTPUT *)
Lemma m_output_ok d l w1 expr w2 r rest : dfacts d ->
  all_space w1 = true -> all_space w2 = true ->
  stops (expr ++ w2 ++ hyp r ++ d_se d ++ rest) ->
  hyphen_next (expr ++ w2 ++ hyp r ++ d_se d ++ rest) = false ->
  body_ok (d_se d) expr ->
  m_output d (d_ss d ++ hyp l ++ w1 ++ expr ++ w2 ++ hyp r ++ d_se d ++ rest)
  = Some (length (d_ss d ++ hyp l ++ w1), length expr, r,
          length (d_ss d ++ hyp l ++ w1 ++ expr ++ w2 ++ hyp r ++ d_se d)).
Proof.
  intros F H1 H2 Hst Hhn Hbody. unfold m_output. rewrite prefixb_app.
  set (X := expr ++ w2 ++ hyp r ++ d_se d ++ rest) in *.
  assert (G : forall s k, skipn k s = w1 ++ X ->
     (let k2 := k + ws_len (skipn k s) in
      match find_first (close (d_se d)) (skipn k2 s) with
      | Some (j, h, n) => Some (k2, j, h, k2 + n)
      | None => None
      end) = Some (k + length w1, length expr, r,
                   k + length w1 + (length expr + (length w2 + length (hyp r) + length (d_se d))))).
  { intros s k Hs. cbv zeta. rewrite !skipn_add, !Hs.
    rewrite (ws_len_app_stops w1 X) by auto. rewrite !skipn_app_len. unfold X.
    rewrite lazy_close; auto using se_ne, se_nsp, se_nhy. }
  destruct l; cbn [hyp app].
  - erewrite with_hyphen_yes; [reflexivity | apply skipn_app_len |].
    rewrite (G _ _ (skipn_S_app _ _ _)). f_equal. repeat f_equal; len_tac.
  - rewrite with_hyphen_no.
    + rewrite (G _ _ (skipn_app_len _ _)). f_equal. repeat f_equal; len_tac.
    + rewrite skipn_app_len. apply hyphen_next_space_or; auto.
Qed.

(* ---------------------------------------------------------------- shorthand COMMENT *)
Lemma m_comment_ok d y r rest : dfacts d -> nonempty (d_cs d) = true ->
  cbody_ok (d_ce d) y ->
  m_comment d (d_cs d ++ y ++ hyp r ++ d_ce d ++ rest)
  = Some (length (d_cs d), length y, r, length (d_cs d ++ y ++ hyp r ++ d_ce d)).
Proof.
  intros F Hcs Hy. unfold m_comment. rewrite Hcs, prefixb_app. cbn [andb].
  rewrite skipn_app_len. destruct (cs_facts d F Hcs) as (Hce & _ & _).
  rewrite lazy_cclose; auto using ce_nhy. rewrite !app_length. repeat f_equal; lia.
Qed.

Lemma m_comment_not d s : (nonempty (d_cs d) = true -> prefixb (d_cs d) s = false) -> m_comment d s = None.
Proof.
  intros H. unfold m_comment. destruct (nonempty (d_cs d)); cbn [andb]; auto. rewrite H; auto.
Qed.

(* ---------------------------------------------------------------- CONTENT *)
Lemma plain_not_delim d c s : dfacts d -> plain_char d c = true -> delim_at d (c :: s) = None.
Proof.
  intros F H. unfold plain_char in H.
  apply andb_true_iff in H as [H Hcs]. apply andb_true_iff in H as [Hts Hss].
  apply negb_true_iff in Hts, Hss, Hcs.
  unfold delim_at.
  rewrite (prefixb_hd_neq (d_ts d)); [ | apply F | intro E; rewrite E, N.eqb_refl in Hts; discriminate ].
  rewrite (prefixb_hd_neq (d_ss d)); [ | apply F | intro E; rewrite E, N.eqb_refl in Hss; discriminate ].
  destruct (nonempty (d_cs d)) eqn:Hne; cbn [andb] in *; auto.
  rewrite (prefixb_hd_neq (d_cs d)); auto. intro E; rewrite E, N.eqb_refl in Hcs; discriminate.
Qed.

Lemma plain_not_ts d c s : dfacts d -> plain_char d c = true -> prefixb (d_ts d) (c :: s) = false.
Proof.
  intros F H. unfold plain_char in H.
  apply andb_true_iff in H as [H Hcs]. apply andb_true_iff in H as [Hts Hss].
  apply negb_true_iff in Hts. apply prefixb_hd_neq. apply F. intro E; rewrite E, N.eqb_refl in Hts; discriminate.
Qed.

Lemma plain_not_ss d c s : dfacts d -> plain_char d c = true -> prefixb (d_ss d) (c :: s) = false.
Proof.
  intros F H. unfold plain_char in H.
  apply andb_true_iff in H as [H Hcs]. apply andb_true_iff in H as [Hts Hss].
  apply negb_true_iff in Hss. apply prefixb_hd_neq. apply F. intro E; rewrite E, N.eqb_refl in Hss; discriminate.
Qed.

Lemma plain_not_cs d c s : dfacts d -> plain_char d c = true -> nonempty (d_cs d) = true ->
  prefixb (d_cs d) (c :: s) = false.
Proof.
  intros F H Hne. unfold plain_char in H.
  apply andb_true_iff in H as [H Hcs]. rewrite Hne in Hcs. cbn [andb] in Hcs.
  apply negb_true_iff in Hcs. apply prefixb_hd_neq; auto. intro E; rewrite E, N.eqb_refl in Hcs; discriminate.
Qed.

(* what follows a text: the end of the source, or something at which the look-ahead sees a delimiter *)
Definition follows (d : delims) (after : str) (h : bool) : Prop :=
  (after = [] /\ h = false) \/ delim_at d after = Some h.

Lemma content_from_plain d t after h : dfacts d -> plain d t = true -> follows d after h ->
  content_from d false (t ++ after) = (length t, h).
Proof.
  intros F Ht Hf. induction t as [|c t IH].
  - simpl app. destruct Hf as [[-> ->]|Hd].
    + simpl. unfold delim_at. rewrite !prefixb_nil by apply F.
      destruct (nonempty (d_cs d)) eqn:E; cbn [andb]; auto. rewrite prefixb_nil; auto.
    + destruct after; simpl; rewrite Hd; reflexivity.
  - simpl in Ht. apply andb_true_iff in Ht as [Hc Ht]. simpl app. cbn [content_from].
    rewrite plain_not_delim by auto. cbn [andb]. rewrite IH by auto. reflexivity.
Qed.

Lemma match_at_text d q c t after h : dfacts d -> q_dollar q = false ->
  plain d (c :: t) = true -> follows d after h ->
  match_at d q ((c :: t) ++ after) = MContent (length (c :: t)) h.
Proof.
  intros F Hq Ht Hf. pose proof Ht as Ht'. simpl in Ht. apply andb_true_iff in Ht as [Hc Ht].
  unfold match_at. simpl app.
  unfold block. rewrite !wordtag_not_ts by (apply plain_not_ts; auto).
  rewrite m_comment_not by (intros; apply plain_not_cs; auto).
  unfold m_output. rewrite plain_not_ss by auto.
  unfold m_tag. rewrite plain_not_ts by auto.
  cbn [tl]. rewrite Hq, content_from_plain with (h := h) by auto. reflexivity.
Qed.
