(* Proofs about the caching-loader model (CachingLoader.v): for EVERY request history the repaired mixin
   answers exactly as a fresh non-caching loader would. *)
From Coq Require Import ZifyBool.
From LiquidVerif Require Import Prelude Lru CachingLoader.

(* ------------------------------------------------------------------ the key coding is injective *)
Lemma odd_pow2_inj : forall a b m n : N,
  ((2 * m + 1) * 2 ^ a = (2 * n + 1) * 2 ^ b)%N -> a = b /\ m = n.
Proof.
  induction a using N.peano_ind; intros b m n H.
  - destruct (N.eq_dec b 0) as [->|Hb].
    + rewrite !N.pow_0_r in H. lia.
    + exfalso. rewrite N.pow_0_r in H.
      replace b with (N.succ (N.pred b)) in H by lia. rewrite N.pow_succ_r' in H.
      replace ((2 * n + 1) * (2 * 2 ^ N.pred b))%N with (2 * ((2 * n + 1) * 2 ^ N.pred b))%N in H by ring.
      lia.
  - destruct (N.eq_dec b 0) as [->|Hb].
    + exfalso. rewrite N.pow_0_r, N.pow_succ_r' in H.
      replace ((2 * m + 1) * (2 * 2 ^ a))%N with (2 * ((2 * m + 1) * 2 ^ a))%N in H by ring.
      lia.
    + replace b with (N.succ (N.pred b)) in H by lia. rewrite !N.pow_succ_r' in H.
      replace ((2 * m + 1) * (2 * 2 ^ a))%N with (2 * ((2 * m + 1) * 2 ^ a))%N in H by ring.
      replace ((2 * n + 1) * (2 * 2 ^ N.pred b))%N with (2 * ((2 * n + 1) * 2 ^ N.pred b))%N in H by ring.
      apply N.mul_cancel_l in H; [|lia].
      destruct (IHa _ _ _ H) as [E1 E2]. split; [lia|exact E2].
Qed.

Lemma enc_cons c r : enc (c :: r) = ((2 * enc r + 1) * 2 ^ c)%N.
Proof. cbn [enc]. apply N.shiftl_mul_pow2. Qed.

Lemma enc_cons_pos c r : enc (c :: r) <> 0%N.
Proof.
  rewrite enc_cons. intro H. apply N.mul_eq_0 in H. destruct H as [H|H]; [lia|].
  apply N.pow_nonzero in H; [exact H|lia].
Qed.

Theorem enc_inj : forall a b, enc a = enc b -> a = b.
Proof.
  induction a as [|c r IH]; intros [|d q] H.
  - reflexivity.
  - exfalso. symmetry in H. exact (enc_cons_pos _ _ H).
  - exfalso. exact (enc_cons_pos _ _ H).
  - rewrite !enc_cons in H. apply odd_pow2_inj in H. destruct H as [-> H]. f_equal. apply IH. exact H.
Qed.

(* ------------------------------------------------------------------ equalities on keys *)
Lemma ostr_eqb_eq a b : ostr_eqb a b = true <-> a = b.
Proof.
  destruct a, b; cbn; try (split; congruence).
  rewrite str_eqb_eq. split; congruence.
Qed.

Lemma skey_eqb_eq a b : skey_eqb a b = true <-> a = b.
Proof.
  destruct a as [a1 a2], b as [b1 b2]. unfold skey_eqb. cbn [fst snd].
  rewrite andb_true_iff, str_eqb_eq, ostr_eqb_eq. split; [intros [-> ->]; reflexivity | intro E; inversion E; auto].
Qed.

Lemma skey_eqb_refl a : skey_eqb a a = true.
Proof. apply skey_eqb_eq. reflexivity. Qed.

(* ------------------------------------------------------------------ the store under edits and deletions *)
Lemma slookup_sdelete_same k st : slookup k (sdelete k st) = None.
Proof.
  induction st as [|[k' [v pr]] r IH]; cbn; [reflexivity|].
  destruct (skey_eqb k k') eqn:E; cbn; rewrite E; [reflexivity|exact IH].
Qed.

Lemma slookup_sdelete_other k k' st : k' <> k -> slookup k' (sdelete k st) = slookup k' st.
Proof.
  intro Hn. induction st as [|[k2 [v pr]] r IH]; cbn; [reflexivity|].
  destruct (skey_eqb k k2) eqn:E; cbn.
  - apply skey_eqb_eq in E. subst k2.
    destruct (skey_eqb k' k) eqn:E2; [apply skey_eqb_eq in E2; congruence|reflexivity].
  - destruct (skey_eqb k' k2); [reflexivity|exact IH].
Qed.

(* the version counter of an entry, present or not *)
Fixpoint sversion (k : skey) (st : store) : option N :=
  match st with
  | [] => None
  | (k', (v, _)) :: r => if skey_eqb k k' then Some v else sversion k r
  end.

Lemma sversion_sdelete k k' st : sversion k' (sdelete k st) = sversion k' st.
Proof.
  induction st as [|[k2 [v pr]] r IH]; cbn; [reflexivity|].
  destruct (skey_eqb k k2) eqn:E; cbn; destruct (skey_eqb k' k2); auto.
Qed.

(* writing a text makes the entry present with a version never used before, also after a deletion *)
Lemma slookup_sedit_same k st : slookup k (sedit k st) = option_map N.succ (sversion k st).
Proof.
  induction st as [|[k' [v pr]] r IH]; cbn; [reflexivity|].
  destruct (skey_eqb k k') eqn:E; cbn; rewrite E; [reflexivity|exact IH].
Qed.

Lemma slookup_sedit_other k k' st : k' <> k -> slookup k' (sedit k st) = slookup k' st.
Proof.
  intro Hn. induction st as [|[k2 [v pr]] r IH]; cbn; [reflexivity|].
  destruct (skey_eqb k k2) eqn:E; cbn.
  - apply skey_eqb_eq in E. subst k2.
    destruct (skey_eqb k' k) eqn:E2; [apply skey_eqb_eq in E2; congruence|reflexivity].
  - destruct (skey_eqb k' k2); [reflexivity|exact IH].
Qed.

Lemma slookup_sversion k st v : slookup k st = Some v -> sversion k st = Some v.
Proof.
  induction st as [|[k' [v' pr]] r IH]; cbn; [discriminate|].
  destruct (skey_eqb k k'); [destruct pr; [auto|discriminate]|exact IH].
Qed.

(* ------------------------------------------------------------------ LRU facts in terms of membership *)
Lemma lookup_In k l v : lookup k l = Some v -> In (k, v) l.
Proof.
  induction l as [|[k' v'] l IH]; cbn; [discriminate|].
  destruct (N.eqb_spec k k'); intro H.
  - inversion H; subst. left; reflexivity.
  - right; auto.
Qed.

Lemma remove_key_In k l x : In x (remove_key k l) -> In x l.
Proof.
  induction l as [|[k' v'] l IH]; cbn; [tauto|].
  destruct (N.eqb k k'); cbn; intuition.
Qed.

Lemma do_get_some c k c' v :
  do_get c k = (c', Some v) -> In (k, v) (items c) /\ (forall x, In x (items c') -> In x (items c)).
Proof.
  unfold do_get. destruct (lookup k (items c)) eqn:E; intro H; inversion H; subst; clear H.
  split; [apply lookup_In; exact E|].
  cbn. intros x Hx. apply in_app_or in Hx. destruct Hx as [Hx|[<-|[]]].
  - eapply remove_key_In; eauto.
  - apply lookup_In; exact E.
Qed.

Lemma do_get_none c k c' : do_get c k = (c', None) -> c' = c.
Proof.
  unfold do_get. destruct (lookup k (items c)); intro H; inversion H; reflexivity.
Qed.

Lemma in_tl {A} (x : A) l : In x (tl l) -> In x l.
Proof. destruct l; cbn; auto. Qed.

Lemma do_set_In c k v x : In x (items (do_set c k v)) -> x = (k, v) \/ In x (items c).
Proof.
  unfold do_set. destruct (lookup k (items c)).
  - cbn. intro H. apply in_app_or in H. destruct H as [H|[<-|[]]]; [right; eapply remove_key_In; eauto|left; reflexivity].
  - destruct (Nat.leb (cap c) (length (items c))); cbn; intro H; apply in_app_or in H;
      destruct H as [H|[<-|[]]]; auto. right. apply in_tl; exact H.
Qed.

(* ------------------------------------------------------------------ the object heap *)
Definition hbound (h : heap) : Prop := forall id t, In (id, t) h -> (0 <= id < Z.of_nat (length h))%Z.

Lemma hget_In id h t : hget id h = Some t -> In (id, t) h.
Proof.
  induction h as [|[i t'] h IH]; cbn; [discriminate|].
  destruct (Z.eqb_spec id i); intro H.
  - inversion H; subst. left; reflexivity.
  - right; auto.
Qed.

Lemma hget_fresh h : hbound h -> hget (hfresh h) h = None.
Proof.
  intro Hb. destruct (hget (hfresh h) h) eqn:E; [|reflexivity].
  apply hget_In in E. apply Hb in E. unfold hfresh in E. lia.
Qed.

Lemma hbound_cons_fresh h t : hbound h -> hbound ((hfresh h, t) :: h).
Proof.
  intros Hb id t' [E|H].
  - inversion E; subst. unfold hfresh. cbn [length]. lia.
  - apply Hb in H. cbn [length]. lia.
Qed.

Lemma hbound_cons_old h id t t' : hbound h -> hget id h = Some t -> hbound ((id, t') :: h).
Proof.
  intros Hb Hg id' t'' [E|H].
  - inversion E; subst. apply hget_In in Hg. apply Hb in Hg. cbn [length]. lia.
  - apply Hb in H. cbn [length]. lia.
Qed.

(* a later heap that still says the same about every object of an earlier one *)
Definition heap_ext (h h' : heap) : Prop :=
  hbound h' /\ forall id t, hget id h = Some t -> hget id h' = Some t.

Lemma heap_ext_refl h : hbound h -> heap_ext h h.
Proof. intro H. split; auto. Qed.

Lemma heap_ext_trans h1 h2 h3 : heap_ext h1 h2 -> heap_ext h2 h3 -> heap_ext h1 h3.
Proof. intros [_ A] [B C]. split; auto. Qed.

Lemma heap_ext_fresh h t : hbound h -> heap_ext h ((hfresh h, t) :: h).
Proof.
  intro Hb. split; [apply hbound_cons_fresh; exact Hb|].
  intros id t' H. cbn. destruct (Z.eqb_spec id (hfresh h)) as [->|]; [|exact H].
  rewrite hget_fresh in H by exact Hb. discriminate.
Qed.

Lemma heap_ext_same h id t : hbound h -> hget id h = Some t -> heap_ext h ((id, t) :: h).
Proof.
  intros Hb Hg. split; [eapply hbound_cons_old; eauto|].
  intros id' t' H. cbn. destruct (Z.eqb_spec id' id) as [->|]; [congruence|exact H].
Qed.

Lemma same_globals_eq a b : same_globals a b = true -> a = b.
Proof.
  destruct a, b. unfold same_globals. cbn. intro H. apply andb_true_iff in H. destruct H as [H1 H2].
  apply N.eqb_eq in H1, H2. congruence.
Qed.

(* ------------------------------------------------------------------ the two copies agree *)
Lemma cca_ext v c s key gl (l1 l2 : unit -> res tmpl) :
  l1 tt = l2 tt -> check_cache_async v c s key gl l1 = check_cache_async v c s key gl l2.
Proof. intro H. unfold check_cache_async. rewrite H. reflexivity. Qed.

Lemma cc_ext v c s key gl (l1 l2 : unit -> res tmpl) :
  l1 tt = l2 tt -> check_cache v c s key gl l1 = check_cache v c s key gl l2.
Proof. intro H. unfold check_cache. rewrite H. reflexivity. Qed.

(* _check_cache and _check_cache_async differ only in is_up_to_date vs is_up_to_date_async: they agree
   whenever the cached template's uptodate need not be awaited *)
Lemma check_cache_sync_async v c s key gl load :
  (forall cache1 id t, do_get (st_cache s) (enc key) = (cache1, Some id) ->
                       hget id (st_heap s) = Some t -> t_awaitable t = false) ->
  check_cache v c s key gl load = check_cache_async v c s key gl load.
Proof.
  intro Haw. unfold check_cache, check_cache_async.
  destruct (do_get (st_cache s) (enc key)) as [cache1 [id|]] eqn:E; [|reflexivity].
  destruct (hget id (st_heap s)) as [cached|] eqn:Hg; [|reflexivity].
  specialize (Haw _ _ _ eq_refl Hg).
  unfold up_to_date_sync, up_to_date. rewrite Haw. reflexivity.
Qed.

(* ------------------------------------------------------------------ the invariant *)
Section Transparent.
  Variable c : config.
  Variable P : get -> Prop.           (* the requests that may occur *)

  Local Notation ckey := (CachingLoader.ckey c).
  Local Notation srckey := (CachingLoader.srckey c).

  (* two admissible requests with the same cache key read the same source *)
  Definition keys_ok : Prop := forall g1 g2, P g1 -> P g2 -> ckey g1 = ckey g2 -> srckey g1 = srckey g2.

  Hypothesis Hok : keys_ok.
  Hypothesis Haw : awaitable_uptodate c = false.
  Hypothesis Hmr : missing_raises c = false.

  (* what a non-caching loader returns for request g when the entry has version ver *)
  Definition fresh_tmpl (g : get) (ver : N) : tmpl :=
    {| t_name := basename (g_name g); t_src := srckey g; t_ver := ver; t_awaitable := false;
       t_globals := make_globals c (g_globals g) |}.

  Definition fresh_load (st : store) (g : get) : res tmpl :=
    match slookup (srckey g) st with None => Err ENotFound | Some ver => Ok (fresh_tmpl g ver) end.

  Lemma base_load_fixed st m g :
    base_load fixed c st m (g_name g) (g_kw g) (g_ctx g) (make_globals c (g_globals g)) = fresh_load st g.
  Proof.
    unfold base_load, fresh_load, fresh_tmpl, CachingLoader.srckey.
    destruct (slookup _ st); [|reflexivity]. destruct m; cbn; rewrite ?Haw; reflexivity.
  Qed.

  Lemma ref_get_fixed st g :
    ref_get c st g = match slookup (srckey g) st with None => RE ENotFound | Some ver => RT (fresh_tmpl g ver) end.
  Proof. unfold ref_get. rewrite base_load_fixed. unfold fresh_load. destruct (slookup _ st); reflexivity. Qed.

  (* every cache entry (k |-> object) was made for an admissible request g0 with that cache key, from g0's
     source entry, under g0's name; its uptodate is a plain callable *)
  Definition good (k : N) (t : tmpl) : Prop :=
    exists g0, P g0 /\ k = enc (ckey g0) /\ t_src t = srckey g0 /\ t_name t = basename (g_name g0)
               /\ t_awaitable t = false.

  Definition Inv (s : state) : Prop :=
    hbound (st_heap s) /\
    forall k id, In (k, id) (items (st_cache s)) ->
                 exists t, hget id (st_heap s) = Some t /\ good k t.

  (* ... and, as long as no source was edited or deleted, carries the current version *)
  Definition Fresh (s : state) : Prop :=
    forall k id t, In (k, id) (items (st_cache s)) -> hget id (st_heap s) = Some t ->
                   slookup (t_src t) (st_store s) = Some (t_ver t).

  Lemma Inv_init st : Inv (init c st).
  Proof. split; [intros id t []|intros k id []]. Qed.

  Lemma Fresh_init st : Fresh (init c st).
  Proof. intros k id t []. Qed.

  Lemma good_with_globals k t gl : good k t -> good k (with_globals t gl).
  Proof. intros (g0 & H1 & H2 & H3 & H4 & H5). exists g0. cbn. auto 10. Qed.

  (* the uptodate check answers (it does not raise) *)
  Lemma up_to_date_answers st t : exists b, up_to_date c st t = Ok b.
  Proof.
    unfold up_to_date, uptodate_call. rewrite Hmr. destruct (negb (detects c)); [eexists; reflexivity|].
    destruct (slookup (t_src t) st); eexists; reflexivity.
  Qed.

  Lemma step_get_eq s g :
    Inv s ->
    step fixed c s (Get g) =
    check_cache_async fixed c s (ckey g) (make_globals c (g_globals g)) (fun _ => fresh_load (st_store s) g).
  Proof.
    intros [Hb Hc]. cbn [step]. destruct (g_mode g) eqn:M.
    - unfold mixin_load. fold (ckey g).
      rewrite check_cache_sync_async.
      + apply cca_ext. apply base_load_fixed.
      + intros cache1 id t E Hg. apply do_get_some in E. destruct E as [E _].
        destruct (Hc _ _ E) as (t' & Ht' & g0 & _ & _ & _ & _ & A). congruence.
    - unfold mixin_load_async. cbn [fixed v_async_swap]. fold (ckey g).
      apply cca_ext. apply base_load_fixed.
  Qed.

  (* the load path: a (re)load stores a new object under the key *)
  Lemma load_path s g cache1 ver :
    Inv s -> P g ->
    (forall x, In x (items cache1) -> In x (items (st_cache s))) ->
    slookup (srckey g) (st_store s) = Some ver ->
    let s' := {| st_cache := do_set cache1 (enc (ckey g)) (hfresh (st_heap s));
                 st_heap := (hfresh (st_heap s), fresh_tmpl g ver) :: st_heap s;
                 st_store := st_store s |} in
    Inv s' /\ (Fresh s -> Fresh s').
  Proof.
    intros [Hb Hc] HP Hsub Hs s'. split; [split|].
    - apply hbound_cons_fresh; exact Hb.
    - intros k id Hin. cbn in Hin. apply do_set_In in Hin. destruct Hin as [E|Hin].
      + inversion E; subst. exists (fresh_tmpl g ver). split.
        * cbn. rewrite Z.eqb_refl. reflexivity.
        * exists g. cbn. repeat split; auto.
      + apply Hsub in Hin. destruct (Hc _ _ Hin) as (t & Ht & Hg). exists t. split; [|exact Hg].
        cbn. destruct (Z.eqb_spec id (hfresh (st_heap s))) as [->|]; [|exact Ht].
        rewrite hget_fresh in Ht by exact Hb. discriminate.
    - intros HF k id t Hin Hg. cbn in Hin, Hg. apply do_set_In in Hin. destruct Hin as [E|Hin].
      + inversion E; subst. rewrite Z.eqb_refl in Hg. inversion Hg; subst. cbn. exact Hs.
      + apply Hsub in Hin. destruct (Z.eqb_spec id (hfresh (st_heap s))) as [->|].
        * destruct (Hc _ _ Hin) as (t' & Ht' & _). rewrite hget_fresh in Ht' by exact Hb. discriminate.
        * cbn. eapply HF; eauto.
  Qed.

  (* a failed load leaves the objects alone; the cache may have been reordered *)
  Lemma fail_path s cache1 :
    Inv s -> (forall x, In x (items cache1) -> In x (items (st_cache s))) ->
    let s' := {| st_cache := cache1; st_heap := st_heap s; st_store := st_store s |} in
    Inv s' /\ (Fresh s -> Fresh s').
  Proof.
    intros [Hb Hc] Hsub s'. split; [split; [exact Hb|]|].
    - intros k id Hin. apply Hsub in Hin. exact (Hc _ _ Hin).
    - intros HF k id t Hin Hg. apply Hsub in Hin. exact (HF _ _ _ Hin Hg).
  Qed.

  (* a hit: the cache may have been reordered, objects were only added *)
  Lemma keep_path s cache1 h' :
    Inv s -> (forall x, In x (items cache1) -> In x (items (st_cache s))) -> heap_ext (st_heap s) h' ->
    let s' := {| st_cache := cache1; st_heap := h'; st_store := st_store s |} in
    Inv s' /\ (Fresh s -> Fresh s').
  Proof.
    intros [Hb Hc] Hsub [Hb' Hext] s'. split; [split; [exact Hb'|]|].
    - intros k id Hin. apply Hsub in Hin. destruct (Hc _ _ Hin) as (t & Ht & Hg). exists t. split; auto.
    - intros HF k id t Hin Hg. apply Hsub in Hin. destruct (Hc _ _ Hin) as (t0 & Ht0 & _).
      cbn in Hg. rewrite (Hext _ _ Ht0) in Hg. inversion Hg; subst. exact (HF _ _ _ Hin Ht0).
  Qed.

  (* One request.  A template returned is what a non-caching loader returns for this request, except
     possibly for the version of the source; an error is returned only when the source is not there.
     Under auto-reload with a working uptodate check, and whenever every cached template is current, the
     answer is exactly the non-caching one: the current version, or not-found for a removed source. *)
  Definition stale_only (s : state) : Prop :=
    (auto_reload c = true -> detects c = true -> False) /\ (Fresh s -> False).

  Lemma get_step s g :
    Inv s -> P g ->
    let '(s', r) := step fixed c s (Get g) in
    Inv s' /\ st_store s' = st_store s /\ (Fresh s -> Fresh s') /\
    match slookup (srckey g) (st_store s) with
    | None => r = RE ENotFound \/ (exists ver', r = RT (fresh_tmpl g ver') /\ stale_only s)
    | Some ver => exists ver', r = RT (fresh_tmpl g ver') /\
                               (auto_reload c = true -> detects c = true -> ver' = ver) /\
                               (Fresh s -> ver' = ver)
    end.
  Proof.
    intros HI HP. rewrite step_get_eq by exact HI. pose proof HI as [Hb Hc].
    unfold check_cache_async.
    destruct (do_get (st_cache s) (enc (ckey g))) as [cache1 [id|]] eqn:E.
    - (* the key is cached *)
      apply do_get_some in E. destruct E as [Ein Hsub].
      destruct (Hc _ _ Ein) as (cached & Hget & g0 & HP0 & Hk & Hsrc & Hname & Hawt).
      rewrite Hget.
      apply enc_inj in Hk. pose proof (Hok _ _ HP HP0 Hk) as Hs.
      assert (Hn : g_name g = g_name g0) by (apply (f_equal fst) in Hs; exact Hs).
      rewrite <- Hs in Hsrc. rewrite <- Hn in Hname.
      assert (Hup : exists b, (if auto_reload c then up_to_date c (st_store s) cached else Ok true) = Ok b).
      { destruct (auto_reload c); [apply up_to_date_answers|eexists; reflexivity]. }
      destruct Hup as [b Hup]. rewrite Hup. destruct b.
      + (* served from the cache: the cached object itself, or a copy bound to this request's globals *)
        cbn [fixed v_hit_mutates].
        assert (Hc' : with_globals cached (make_globals c (g_globals g)) = fresh_tmpl g (t_ver cached)).
        { unfold with_globals, fresh_tmpl. rewrite Hname, Hsrc, Hawt. reflexivity. }
        assert (HA : auto_reload c = true -> detects c = true ->
                     slookup (srckey g) (st_store s) = Some (t_ver cached)).
        { intros Har Hdet. rewrite Har in Hup. unfold up_to_date, uptodate_call in Hup.
          rewrite Hdet, Hmr, Hsrc in Hup. cbn in Hup.
          destruct (slookup (srckey g) (st_store s)) as [v|]; [|discriminate].
          inversion Hup as [Hv]. apply N.eqb_eq in Hv. congruence. }
        assert (HB : Fresh s -> slookup (srckey g) (st_store s) = Some (t_ver cached)).
        { intro HF. specialize (HF _ _ _ Ein Hget). rewrite Hsrc in HF. exact HF. }
        assert (Hresp : forall r, r = RT (fresh_tmpl g (t_ver cached)) ->
                  match slookup (srckey g) (st_store s) with
                  | None => r = RE ENotFound \/ (exists ver', r = RT (fresh_tmpl g ver') /\ stale_only s)
                  | Some ver => exists ver', r = RT (fresh_tmpl g ver') /\
                                             (auto_reload c = true -> detects c = true -> ver' = ver) /\
                                             (Fresh s -> ver' = ver)
                  end).
        { intros r ->. destruct (slookup (srckey g) (st_store s)) as [ver|] eqn:Hver.
          - exists (t_ver cached). split; [reflexivity|]. split.
            + intros Har Hdet. specialize (HA Har Hdet). congruence.
            + intro HF. specialize (HB HF). congruence.
          - right. exists (t_ver cached). split; [reflexivity|]. split.
            + intros Har Hdet. specialize (HA Har Hdet). discriminate.
            + intro HF. specialize (HB HF). discriminate. }
        destruct (same_globals (t_globals cached) (make_globals c (g_globals g))) eqn:Hsame.
        * apply same_globals_eq in Hsame.
          assert (Hcc : cached = fresh_tmpl g (t_ver cached)).
          { rewrite <- Hc'. unfold with_globals. rewrite <- Hsame. destruct cached; reflexivity. }
          destruct (keep_path s cache1 ((id, cached) :: st_heap s) HI Hsub (heap_ext_same _ _ _ Hb Hget)) as [HI' HF'].
          split; [exact HI'|]. split; [reflexivity|]. split; [exact HF'|]. apply Hresp. f_equal. exact Hcc.
        * destruct (keep_path s cache1 ((hfresh (st_heap s), with_globals cached (make_globals c (g_globals g))) :: st_heap s)
                              HI Hsub (heap_ext_fresh _ _ Hb)) as [HI' HF'].
          split; [exact HI'|]. split; [reflexivity|]. split; [exact HF'|]. apply Hresp. f_equal. exact Hc'.
      + (* not up to date: load again *)
        unfold fresh_load. destruct (slookup (srckey g) (st_store s)) as [ver|] eqn:Hver.
        * destruct (load_path s g cache1 ver HI HP Hsub Hver) as [HI' HF'].
          split; [exact HI'|]. split; [reflexivity|]. split; [exact HF'|]. exists ver. auto.
        * destruct (fail_path s cache1 HI Hsub) as [HI' HF'].
          split; [exact HI'|]. split; [reflexivity|]. split; [exact HF'|]. left; reflexivity.
    - (* KeyError: load and store *)
      apply do_get_none in E. subst cache1. unfold fresh_load.
      destruct (slookup (srckey g) (st_store s)) as [ver|] eqn:Hver.
      + destruct (load_path s g (st_cache s) ver HI HP (fun _ H => H) Hver) as [HI' HF'].
        split; [exact HI'|]. split; [reflexivity|]. split; [exact HF'|]. exists ver. auto.
      + split; [exact HI|]. split; [reflexivity|]. split; [intro H; exact H|left; reflexivity].
  Qed.

  (* an edit, a deletion, a re-creation touch neither the cache nor the objects *)
  Lemma change_step s r : (forall g, r <> Get g) -> Inv s -> Inv (fst (step fixed c s r)).
  Proof.
    intros Hr [Hb Hc]. destruct r as [g|name ns|name ns]; [exfalso; exact (Hr g eq_refl)| |]; (split; [exact Hb|exact Hc]).
  Qed.

  Definition all_gets (rs : list request) : Prop := forall g, In (Get g) rs -> P g.

  (* a history in which no source changes: neither edits nor deletions *)
  Fixpoint no_edits (rs : list request) : Prop :=
    match rs with [] => True | Get _ :: r => no_edits r | _ => False end.

  Theorem run_auto_reload rs : forall s,
    Inv s -> all_gets rs -> auto_reload c = true -> detects c = true ->
    run fixed c s rs = ref_run c (st_store s) rs.
  Proof.
    induction rs as [|r rs IH]; intros s HI HA Har Hdet; [reflexivity|].
    assert (HA' : all_gets rs) by (intros g Hg; apply HA; right; exact Hg).
    destruct r as [g|name ns|name ns].
    - cbn [run ref_run]. pose proof (get_step s g HI (HA g (or_introl eq_refl))) as H.
      destruct (step fixed c s (Get g)) as [s' r]. destruct H as (HI' & Hst & _ & Hr).
      rewrite ref_get_fixed. rewrite <- Hst. f_equal; [|apply IH; auto].
      rewrite Hst. destruct (slookup (srckey g) (st_store s)).
      + destruct Hr as (ver' & -> & Hv & _). rewrite (Hv Har Hdet). reflexivity.
      + destruct Hr as [Hr|(ver' & _ & Hf & _)]; [exact Hr|destruct (Hf Har Hdet)].
    - cbn [run ref_run]. pose proof (change_step s (Edit name ns) ltac:(discriminate) HI) as HI'.
      cbn [step fst] in *. f_equal. apply (IH _ HI' HA' Har Hdet).
    - cbn [run ref_run]. pose proof (change_step s (Delete name ns) ltac:(discriminate) HI) as HI'.
      cbn [step fst] in *. f_equal. apply (IH _ HI' HA' Har Hdet).
  Qed.

  Theorem run_no_edits rs : forall s,
    Inv s -> Fresh s -> all_gets rs -> no_edits rs ->
    run fixed c s rs = ref_run c (st_store s) rs.
  Proof.
    induction rs as [|r rs IH]; intros s HI HF HA Hne; [reflexivity|].
    assert (HA' : all_gets rs) by (intros g Hg; apply HA; right; exact Hg).
    destruct r as [g|name ns|name ns]; [|destruct Hne|destruct Hne].
    cbn [run ref_run]. pose proof (get_step s g HI (HA g (or_introl eq_refl))) as H.
    destruct (step fixed c s (Get g)) as [s' r]. destruct H as (HI' & Hst & HF' & Hr).
    rewrite ref_get_fixed. rewrite <- Hst. f_equal; [|apply IH; auto].
    rewrite Hst. destruct (slookup (srckey g) (st_store s)).
    - destruct Hr as (ver' & -> & _ & Hv). rewrite (Hv HF). reflexivity.
    - destruct Hr as [Hr|(ver' & _ & _ & Hf)]; [exact Hr|destruct (Hf HF)].
  Qed.

  (* what holds of every response in every history, whatever auto_reload is and whatever was edited or
     deleted: a template returned is the one a non-caching loader builds for THIS request (name, source
     entry, globals) from some version of that entry; an error is returned only where the non-caching
     loader returns the same error *)
  Definition resp_ok (rq : request) (refr r : response) : Prop :=
    match rq with
    | Get g => match r with
               | RT x => exists ver, x = fresh_tmpl g ver
               | RE e => refr = RE e
               | _ => False
               end
    | _ => r = RDone
    end.

  Fixpoint all_ok (st : store) (rs : list request) (out : list response) : Prop :=
    match rs, out with
    | [], [] => True
    | rq :: rs', r :: out' =>
        resp_ok rq (match rq with Get g => ref_get c st g | _ => RDone end) r /\
        all_ok (match rq with
                | Get _ => st
                | Edit n ns => sedit (n, ns) st
                | Delete n ns => sdelete (n, ns) st
                end) rs' out'
    | _, _ => False
    end.

  Theorem run_all_ok rs : forall s,
    Inv s -> all_gets rs -> all_ok (st_store s) rs (run fixed c s rs).
  Proof.
    induction rs as [|r rs IH]; intros s HI HA; [exact I|].
    assert (HA' : all_gets rs) by (intros g Hg; apply HA; right; exact Hg).
    destruct r as [g|name ns|name ns].
    - cbn [run all_ok]. pose proof (get_step s g HI (HA g (or_introl eq_refl))) as H.
      destruct (step fixed c s (Get g)) as [s' r]. destruct H as (HI' & Hst & _ & Hr).
      split; [|rewrite <- Hst; apply IH; auto].
      rewrite ref_get_fixed. cbn [resp_ok]. destruct (slookup (srckey g) (st_store s)).
      + destruct Hr as (ver' & -> & _). eexists; reflexivity.
      + destruct Hr as [->|(ver' & -> & _)]; [reflexivity|eexists; reflexivity].
    - cbn [run all_ok]. pose proof (change_step s (Edit name ns) ltac:(discriminate) HI) as HI'.
      cbn [step fst] in *. split; [reflexivity|]. apply (IH _ HI' HA').
    - cbn [run all_ok]. pose proof (change_step s (Delete name ns) ltac:(discriminate) HI) as HI'.
      cbn [step fst] in *. split; [reflexivity|]. apply (IH _ HI' HA').
  Qed.

  Lemma all_ok_no_internal rs : forall st out, all_ok st rs out -> ~ In RInternal out.
  Proof.
    induction rs as [|rq rs IH]; intros st [|r out] H; cbn in H; try tauto.
    destruct H as [H1 H2]. intros [->|Hin]; [|exact (IH _ _ H2 Hin)].
    destruct rq; cbn in H1; [exact H1|discriminate|discriminate].
  Qed.
End Transparent.

(* ------------------------------------------------------------------ the hypothesis on cache keys, decidably *)
Lemma gets_of_In g rs : In (Get g) rs <-> In g (gets_of rs).
Proof.
  induction rs as [|[g'|n ns|n ns] rs IH]; cbn; [tauto| | |].
  - rewrite <- IH. split; intros [H|H]; auto; left; congruence.
  - rewrite <- IH. split; [intros [H|H]; [discriminate|exact H]|auto].
  - rewrite <- IH. split; [intros [H|H]; [discriminate|exact H]|auto].
Qed.

(* the requests of a history: same cache key => same source entry *)
Definition keys_injective (c : config) (rs : list request) : Prop :=
  forall g1 g2, In (Get g1) rs -> In (Get g2) rs -> ckey c g1 = ckey c g2 -> srckey c g1 = srckey c g2.

Lemma keys_injective_b_ok c rs : keys_injective_b c rs = true -> keys_injective c rs.
Proof.
  unfold keys_injective_b, keys_injective. intros H g1 g2 H1 H2 E.
  rewrite forallb_forall in H. apply gets_of_In in H1, H2.
  specialize (H _ H1). rewrite forallb_forall in H. specialize (H _ H2).
  unfold pair_ok in H. apply orb_true_iff in H. destruct H as [H|H].
  - apply negb_true_iff in H. rewrite E, str_eqb_refl in H. discriminate.
  - apply skey_eqb_eq. exact H.
Qed.

(* two structural sufficient conditions *)
Definition no_slash (s : str) : Prop := ~ In slash s.

Lemma split_first_slash : forall a b n m,
  no_slash a -> no_slash b -> a ++ [slash] ++ n = b ++ [slash] ++ m -> a = b /\ n = m.
Proof.
  induction a as [|x a IH]; intros [|y b] n m Ha Hb E; cbn in E.
  - inversion E; auto.
  - inversion E; subst. exfalso. apply Hb. left; reflexivity.
  - inversion E; subst. exfalso. apply Ha. left; reflexivity.
  - inversion E; subst. destruct (IH b n m) as [-> ->]; auto.
    + intro H. apply Ha. right; exact H.
    + intro H. apply Hb. right; exact H.
Qed.

(* (1) no namespace key configured on a loader that ignores namespaces: the key is the name *)
Lemma keys_injective_plain c rs : nk c = [] -> aware c = false -> keys_injective c rs.
Proof.
  intros Hnk Haw g1 g2 _ _ E. unfold ckey, cache_key in E. rewrite Hnk in E.
  unfold srckey, source_key. rewrite Haw, E. reflexivity.
Qed.

(* (2) every request carries a namespace (keyword argument or context) and namespaces contain no '/':
   the key ns/name determines both *)
Lemma keys_injective_namespaced c rs :
  nk c <> [] ->
  (forall g, In (Get g) rs -> exists ns, eff_ns (g_kw g) (g_ctx g) = Some ns /\ no_slash ns) ->
  keys_injective c rs.
Proof.
  intros Hnk Hall g1 g2 H1 H2 E.
  destruct (Hall _ H1) as (n1 & E1 & S1). destruct (Hall _ H2) as (n2 & E2 & S2).
  assert (K : forall g n, eff_ns (g_kw g) (g_ctx g) = Some n -> ckey c g = n ++ [slash] ++ g_name g).
  { intros g n En. unfold ckey, cache_key. destruct (nk c); [congruence|].
    unfold eff_ns in En. destruct (g_kw g); [inversion En; reflexivity|]. rewrite En. reflexivity. }
  rewrite (K _ _ E1), (K _ _ E2) in E. apply split_first_slash in E; auto. destruct E as [-> En].
  unfold srckey, source_key. rewrite E1, E2, En. reflexivity.
Qed.

(* ------------------------------------------------------------------ the theorems, from an empty cache *)
Theorem transparent_auto_reload c st rs :
  awaitable_uptodate c = false -> missing_raises c = false -> keys_injective c rs ->
  auto_reload c = true -> detects c = true ->
  run fixed c (init c st) rs = ref_run c st rs.
Proof.
  intros Haw Hmr Hk Har Hdet.
  exact (run_auto_reload c (fun g => In (Get g) rs) Hk Haw Hmr rs (init c st) (Inv_init c _ st) (fun g H => H) Har Hdet).
Qed.

Theorem transparent_no_edits c st rs :
  awaitable_uptodate c = false -> missing_raises c = false -> keys_injective c rs -> no_edits rs ->
  run fixed c (init c st) rs = ref_run c st rs.
Proof.
  intros Haw Hmr Hk Hne.
  exact (run_no_edits c (fun g => In (Get g) rs) Hk Haw Hmr rs (init c st) (Inv_init c _ st) (Fresh_init c st)
                      (fun g H => H) Hne).
Qed.

Theorem no_substitution c st rs :
  awaitable_uptodate c = false -> missing_raises c = false -> keys_injective c rs ->
  all_ok c st rs (run fixed c (init c st) rs).
Proof.
  intros Haw Hmr Hk.
  exact (run_all_ok c (fun g => In (Get g) rs) Hk Haw Hmr rs (init c st) (Inv_init c _ st) (fun g H => H)).
Qed.

Theorem never_internal c st rs :
  awaitable_uptodate c = false -> missing_raises c = false -> keys_injective c rs ->
  ~ In RInternal (run fixed c (init c st) rs).
Proof. intros Haw Hmr Hk. eapply all_ok_no_internal. apply no_substitution; eauto. Qed.

(* ------------------------------------------------------------------ deletion and re-creation, at the specification *)
(* (the caching loader equals the specification by transparent_auto_reload) *)
Theorem deleted_is_not_found c st g :
  awaitable_uptodate c = false ->
  ref_get c (sdelete (srckey c g) st) g = RE ENotFound.
Proof. intro Haw. rewrite (ref_get_fixed c Haw). rewrite slookup_sdelete_same. reflexivity. Qed.

Theorem recreated_is_picked_up c st g v :
  awaitable_uptodate c = false -> sversion (srckey c g) st = Some v ->
  ref_get c (sedit (srckey c g) (sdelete (srckey c g) st)) g = RT (fresh_tmpl c g (N.succ v)).
Proof.
  intros Haw Hv. rewrite (ref_get_fixed c Haw). rewrite slookup_sedit_same, sversion_sdelete, Hv. reflexivity.
Qed.

(* the whole story in one history: load, delete, ask, re-create, ask -- whatever happens in between (rs1, rs2, rs3:
   any requests that leave this source alone are covered by transparent_auto_reload; here the minimal one) *)
Theorem delete_recreate_history c st g v :
  awaitable_uptodate c = false -> missing_raises c = false -> auto_reload c = true -> detects c = true ->
  slookup (srckey c g) st = Some v ->
  run fixed c (init c st)
      [Get g; Delete (fst (srckey c g)) (snd (srckey c g)); Get g; Edit (fst (srckey c g)) (snd (srckey c g)); Get g] =
  [RT (fresh_tmpl c g v); RDone; RE ENotFound; RDone; RT (fresh_tmpl c g (N.succ v))].
Proof.
  intros Haw Hmr Har Hdet Hv.
  rewrite transparent_auto_reload; auto.
  - cbn [ref_run]. rewrite <- surjective_pairing.
    rewrite (ref_get_fixed c Haw st), Hv.
    rewrite deleted_is_not_found by exact Haw.
    rewrite (recreated_is_picked_up c st g v Haw (slookup_sversion _ _ _ Hv)). reflexivity.
  - intros g1 g2 H1 H2 _.
    assert (E : forall x, In (Get x) [Get g; Delete (fst (srckey c g)) (snd (srckey c g)); Get g;
                                      Edit (fst (srckey c g)) (snd (srckey c g)); Get g] -> x = g).
    { intros x Hx. cbn in Hx. repeat (destruct Hx as [Hx|Hx]; [try discriminate; inversion Hx; reflexivity|]). destruct Hx. }
    rewrite (E _ H1), (E _ H2). reflexivity.
Qed.

(* ------------------------------------------------------------------ earlier responses are not affected by later requests *)
(* No hypothesis on keys, configuration or store is needed: the repaired mixin only ever ADDS objects. *)
Ltac mono_branch Hb :=
  let H := fresh "H" in
  intro H; inversion H; subst; clear H; cbn [st_heap];
  split;
  [ first [ apply heap_ext_refl; exact Hb | apply heap_ext_fresh; exact Hb | eapply heap_ext_same; eassumption ]
  | let t := fresh "t" in let E := fresh "E" in
    intros t E;
    first [ discriminate E
          | inversion E; subst; eexists; split; [reflexivity|]; cbn [hget]; rewrite Z.eqb_refl; reflexivity ] ].

Lemma check_cache_async_mono c s key gl load s' o :
  hbound (st_heap s) -> check_cache_async fixed c s key gl load = (s', o) ->
  heap_ext (st_heap s) (st_heap s') /\
  (forall t, o = RT t -> exists id, handle s' o = Some id /\ hget id (st_heap s') = Some t).
Proof.
  intros Hb. unfold check_cache_async. cbn [fixed v_hit_mutates].
  destruct (do_get (st_cache s) (enc key)) as [cache1 [id|]].
  - destruct (hget id (st_heap s)) as [cached|] eqn:Hg; [|mono_branch Hb].
    destruct (if auto_reload c then up_to_date c (st_store s) cached else Ok true) as [[|]|e|].
    + destruct (same_globals (t_globals cached) gl); mono_branch Hb.
    + destruct (load tt); mono_branch Hb.
    + mono_branch Hb.
    + mono_branch Hb.
  - destruct (load tt); mono_branch Hb.
Qed.

Lemma check_cache_mono c s key gl load s' o :
  hbound (st_heap s) -> check_cache fixed c s key gl load = (s', o) ->
  heap_ext (st_heap s) (st_heap s') /\
  (forall t, o = RT t -> exists id, handle s' o = Some id /\ hget id (st_heap s') = Some t).
Proof.
  intros Hb. unfold check_cache. cbn [fixed v_hit_mutates].
  destruct (do_get (st_cache s) (enc key)) as [cache1 [id|]].
  - destruct (hget id (st_heap s)) as [cached|] eqn:Hg; [|mono_branch Hb].
    destruct (if auto_reload c then up_to_date_sync c (st_store s) cached else Ok true) as [[|]|e|].
    + destruct (same_globals (t_globals cached) gl); mono_branch Hb.
    + destruct (load tt); mono_branch Hb.
    + mono_branch Hb.
    + mono_branch Hb.
  - destruct (load tt); mono_branch Hb.
Qed.

Lemma step_mono c s r s' o :
  hbound (st_heap s) -> step fixed c s r = (s', o) ->
  heap_ext (st_heap s) (st_heap s') /\
  (forall t, o = RT t -> exists id, handle s' o = Some id /\ hget id (st_heap s') = Some t).
Proof.
  intros Hb. destruct r as [g|n ns|n ns]; cbn [step].
  - destruct (g_mode g).
    + unfold mixin_load. apply check_cache_mono. exact Hb.
    + unfold mixin_load_async. cbn [fixed v_async_swap]. apply check_cache_async_mono. exact Hb.
  - mono_branch Hb.
  - mono_branch Hb.
Qed.

Lemma final_ext c rs : forall s, hbound (st_heap s) -> heap_ext (st_heap s) (st_heap (final fixed c s rs)).
Proof.
  induction rs as [|r rs IH]; intros s Hb; cbn [final]; [apply heap_ext_refl; exact Hb|].
  destruct (step fixed c s r) as [s' o] eqn:E. cbn [fst].
  destruct (step_mono _ _ _ _ _ Hb E) as [Hext _].
  eapply heap_ext_trans; [exact Hext|]. apply IH. exact (proj1 Hext).
Qed.

Lemma reobserve_all c rs : forall s hfin,
  hbound (st_heap s) -> heap_ext (st_heap (final fixed c s rs)) hfin ->
  map (reobserve hfin) (run_h fixed c s rs) = run fixed c s rs.
Proof.
  induction rs as [|r rs IH]; intros s hfin Hb Hfin; [reflexivity|].
  cbn [run_h run final] in *. destruct (step fixed c s r) as [s' o] eqn:E. cbn [fst map] in *.
  destruct (step_mono _ _ _ _ _ Hb E) as [Hext Hobj].
  f_equal; [|apply IH; [exact (proj1 Hext)|exact Hfin]].
  destruct o as [t| | |]; try reflexivity.
  destruct (Hobj t eq_refl) as (id & Hh & Hg). rewrite Hh. cbn [reobserve].
  pose proof (final_ext c rs s' (proj1 Hext)) as [_ Hf]. destruct Hfin as [_ Hfin].
  rewrite (Hfin _ _ (Hf _ _ Hg)). reflexivity.
Qed.

(* every template handed out during a history, observed again when the history is over, is what it was when
   it was returned: later requests (other globals, reloads, evictions, edits, deletions) do not reach it *)
Theorem earlier_responses_unaffected c st rs :
  run_again fixed c (init c st) rs = run fixed c (init c st) rs.
Proof.
  unfold run_again. apply reobserve_all.
  - intros id t [].
  - apply heap_ext_refl. exact (proj1 (final_ext c rs (init c st) (fun id t (H : In (id, t) []) => match H with end))).
Qed.
