From LiquidVerif Require Import Prelude Lru.
From Coq Require Import Sorted.

(* ------------------------------------------------------------------ *)
(* basic facts about lookup / remove_key                               *)

Lemma lookup_in k l v : lookup k l = Some v -> In k (map fst l).
Proof.
  induction l as [|[k' v'] l IH]; simpl; [discriminate|].
  destruct (N.eqb_spec k k') as [->|Hn]; auto.
Qed.

Lemma lookup_none k l : lookup k l = None -> ~ In k (map fst l).
Proof.
  induction l as [|[k' v'] l IH]; simpl; [tauto|].
  destruct (N.eqb_spec k k') as [->|Hn]; [discriminate|].
  intros H [E|Hin]; [congruence | exact (IH H Hin)].
Qed.

Lemma remove_key_keys k l : map fst (remove_key k l) = filter (fun x => negb (N.eqb k x)) (map fst l).
Proof.
  induction l as [|[k' v'] l IH]; simpl; [reflexivity|].
  destruct (N.eqb k k'); simpl; congruence.
Qed.

Lemma remove_key_not_in k l : ~ In k (map fst (remove_key k l)).
Proof.
  rewrite remove_key_keys, filter_In. intros [_ H]. rewrite N.eqb_refl in H. discriminate.
Qed.

Lemma remove_key_subset k l x : In x (map fst (remove_key k l)) -> In x (map fst l).
Proof. rewrite remove_key_keys, filter_In. tauto. Qed.

Lemma NoDup_filter {A} (f : A -> bool) l : NoDup l -> NoDup (filter f l).
Proof.
  induction 1 as [|x l Hx Hnd IH]; simpl; [constructor|].
  destruct (f x); [constructor; [rewrite filter_In; tauto | exact IH] | exact IH].
Qed.

Lemma remove_key_nodup k l : NoDup (map fst l) -> NoDup (map fst (remove_key k l)).
Proof. rewrite remove_key_keys. apply NoDup_filter. Qed.

Lemma remove_key_length k l : length (remove_key k l) <= length l.
Proof. induction l as [|[k' v'] l IH]; simpl; [lia|]. destruct (N.eqb k k'); simpl; lia. Qed.

Lemma remove_key_length_in k l : In k (map fst l) -> length (remove_key k l) < length l.
Proof.
  induction l as [|[k' v'] l IH]; simpl; [tauto|].
  destruct (N.eqb_spec k k') as [->|Hn].
  - intros _. pose proof (remove_key_length k' l). lia.
  - intros [E|Hin]; [congruence|]. specialize (IH Hin). simpl. lia.
Qed.

Lemma NoDup_snoc {A} (l : list A) x : NoDup l -> ~ In x l -> NoDup (l ++ [x]).
Proof.
  intros Hnd Hx. apply NoDup_app_remove_l with (l := []) || idtac.
  induction Hnd as [|y l Hy Hnd IH]; simpl.
  - constructor; [tauto|constructor].
  - constructor.
    + rewrite in_app_iff. simpl. intros [H|[H|[]]]; [tauto|]. subst. apply Hx. left. reflexivity.
    + apply IH. intro H. apply Hx. right. exact H.
Qed.

(* ------------------------------------------------------------------ *)
(* invariant of the plain model: bounded and duplicate-free            *)

Definition wf (c : cache) : Prop :=
  1 <= cap c /\ NoDup (map fst (items c)) /\ length (items c) <= cap c.

Lemma wf_empty n : 1 <= n -> wf (empty n).
Proof. intro H. repeat split; simpl; [exact H | constructor | lia]. Qed.

Lemma do_get_wf c k : wf c -> wf (fst (do_get c k)).
Proof.
  intros (Hc & Hnd & Hlen). unfold do_get.
  destruct (lookup k (items c)) as [v|] eqn:E; simpl; [|repeat split; assumption].
  repeat split; simpl; [exact Hc | |].
  - rewrite map_app. simpl. apply NoDup_snoc; [apply remove_key_nodup, Hnd | apply remove_key_not_in].
  - rewrite app_length. simpl. pose proof (remove_key_length_in k (items c) (lookup_in _ _ _ E)). lia.
Qed.

Lemma tl_keys (l : list (N * Z)) : map fst (tl l) = tl (map fst l).
Proof. destruct l; reflexivity. Qed.

Lemma NoDup_tl {A} (l : list A) : NoDup l -> NoDup (tl l).
Proof. destruct 1; simpl; [constructor | assumption]. Qed.

Lemma in_tl {A} (x : A) l : In x (tl l) -> In x l.
Proof. destruct l; simpl; tauto. Qed.

Lemma do_set_wf c k v : wf c -> wf (do_set c k v).
Proof.
  intros (Hc & Hnd & Hlen). unfold do_set.
  destruct (lookup k (items c)) as [v0|] eqn:E.
  - repeat split; simpl; [exact Hc | |].
    + rewrite map_app. simpl. apply NoDup_snoc; [apply remove_key_nodup, Hnd | apply remove_key_not_in].
    + rewrite app_length. simpl. pose proof (remove_key_length_in k (items c) (lookup_in _ _ _ E)). lia.
  - pose proof (lookup_none _ _ E) as Hnin.
    destruct (Nat.leb_spec (cap c) (length (items c))) as [Hfull|Hroom].
    + repeat split; simpl; [exact Hc | |].
      * rewrite map_app, tl_keys. simpl. apply NoDup_snoc; [apply NoDup_tl, Hnd|].
        intro H. apply Hnin. apply in_tl. exact H.
      * rewrite app_length. simpl. destruct (items c); simpl in *; lia.
    + repeat split; simpl; [exact Hc | |].
      * rewrite map_app. simpl. apply NoDup_snoc; assumption.
      * rewrite app_length. simpl. lia.
Qed.

Lemma step_wf c o : wf c -> wf (fst (step c o)).
Proof.
  intros H. destruct o; simpl; try exact H.
  - pose proof (do_get_wf c k H). destruct (do_get c k) as [c' [v|]]; exact H0.
  - pose proof (do_get_wf c k H). destruct (do_get c k) as [c' [v|]]; exact H0.
  - pose proof (do_get_wf c k H). destruct (do_get c k) as [c' [v|]]; exact H0.
  - apply do_set_wf, H.
  - destruct (lookup k (items c)) eqn:E; simpl; [|exact H].
    destruct H as (Hc & Hnd & Hlen). repeat split; simpl; [exact Hc | apply remove_key_nodup, Hnd |].
    pose proof (remove_key_length k (items c)). lia.
Qed.

Lemma final_wf ops : forall c, wf c -> wf (final c ops).
Proof.
  unfold final. induction ops as [|o ops IH]; simpl; intros c H; [exact H|].
  apply IH, step_wf, H.
Qed.

(* C24 clause 1: at most [cap] entries, one entry per key, after every op sequence *)
Theorem capacity_respected n ops :
  1 <= n ->
  length (items (final (empty n) ops)) <= n /\ NoDup (map fst (items (final (empty n) ops))).
Proof.
  intro Hn. destruct (final_wf ops (empty n) (wf_empty n Hn)) as (Hc & Hnd & Hlen).
  assert (Hstep : forall c o, cap (fst (step c o)) = cap c).
  { clear. intros c o. destruct o; simpl; try reflexivity; unfold do_get, do_set;
      try (destruct (lookup k (items c)); simpl; try reflexivity).
    destruct (Nat.leb (cap c) (length (items c))); reflexivity. }
  assert (Hcap : forall ops c, cap (final c ops) = cap c).
  { clear -Hstep. unfold final. induction ops as [|o ops IH]; simpl; intro c; [reflexivity|].
    rewrite IH. apply Hstep. }
  rewrite Hcap in Hlen. simpl in Hlen. split; assumption.
Qed.

(* ------------------------------------------------------------------ *)
(* the ghost machine erases to the plain one                           *)

Lemma glookup_erase k l : lookup k (erase_items l) = option_map fst (glookup k l).
Proof.
  induction l as [|[[k' v] t] l IH]; simpl; [reflexivity|].
  destruct (N.eqb k k'); [reflexivity | exact IH].
Qed.

Lemma gremove_erase k l : erase_items (gremove k l) = remove_key k (erase_items l).
Proof.
  induction l as [|[[k' v] t] l IH]; simpl; [reflexivity|].
  destruct (N.eqb k k'); simpl; congruence.
Qed.

Lemma erase_app a b : erase_items (a ++ b) = erase_items a ++ erase_items b.
Proof. apply map_app. Qed.

Lemma erase_tl l : erase_items (tl l) = tl (erase_items l).
Proof. destruct l; reflexivity. Qed.

Lemma erase_length l : length (erase_items l) = length l.
Proof. apply map_length. Qed.

Lemma gstep_erase g o :
  erase (fst (gstep g o)) = fst (step (erase g) o) /\ snd (gstep g o) = snd (step (erase g) o).
Proof.
  destruct g as [n l t]. unfold erase.
  destruct o; simpl; unfold do_get, do_set, with_items; simpl;
    rewrite ?glookup_erase;
    try (destruct (glookup k l) as [[v0 t0]|] eqn:E; simpl;
         rewrite ?erase_app, ?gremove_erase; simpl; auto);
    rewrite ?erase_length; auto.
  destruct (Nat.leb n (length l)); simpl; rewrite ?erase_app, ?erase_tl; simpl; auto.
Qed.

Lemma gfinal_erase ops : forall g, erase (gfinal g ops) = final (erase g) ops.
Proof.
  unfold gfinal, final. induction ops as [|o ops IH]; simpl; intro g; [reflexivity|].
  rewrite IH. f_equal. apply gstep_erase.
Qed.

(* ------------------------------------------------------------------ *)
(* ghost invariant: entries are ordered by strictly increasing time of last use *)

Definition times (l : list (N * Z * nat)) : list nat := map snd l.

Definition GInv (g : gcache) : Prop :=
  StronglySorted lt (times (gitems g)) /\ Forall (fun t => t < clock g) (times (gitems g)).

Lemma times_gremove_sub k l x : In x (times (gremove k l)) -> In x (times l).
Proof.
  induction l as [|[[k' v] t] l IH]; simpl; [tauto|].
  destruct (N.eqb k k'); simpl; [tauto|]. intros [E|H]; [left; exact E | right; exact (IH H)].
Qed.

Lemma sorted_gremove k l : StronglySorted lt (times l) -> StronglySorted lt (times (gremove k l)).
Proof.
  induction l as [|[[k' v] t] l IH]; simpl; intro H; [constructor|].
  inversion H as [|? ? Hs Hf]; subst.
  destruct (N.eqb k k'); [exact (IH Hs)|]. simpl. constructor; [exact (IH Hs)|].
  rewrite Forall_forall in *. intros x Hx. apply Hf. apply (times_gremove_sub k). exact Hx.
Qed.

Lemma sorted_snoc l c : StronglySorted lt l -> Forall (fun t => t < c) l -> StronglySorted lt (l ++ [c]).
Proof.
  induction 1 as [|x l Hs IH Hf]; simpl; intro Hall.
  - constructor; constructor.
  - inversion Hall; subst. constructor; [apply IH; assumption|].
    rewrite Forall_forall in *. intros y Hy. rewrite in_app_iff in Hy. simpl in Hy.
    destruct Hy as [Hy|[<-|[]]]; [apply Hf, Hy | assumption].
Qed.

Lemma forall_lt_weaken l c : Forall (fun t => t < c) l -> Forall (fun t => t < S c) l.
Proof. apply Forall_impl. intros; lia. Qed.

Lemma forall_gremove k l (P : nat -> Prop) : Forall P (times l) -> Forall P (times (gremove k l)).
Proof.
  rewrite !Forall_forall. intros H x Hx. apply H. apply (times_gremove_sub k). exact Hx.
Qed.

Lemma times_tl l : times (tl l) = tl (times l).
Proof. destruct l; reflexivity. Qed.

Lemma sorted_tl l : StronglySorted lt l -> StronglySorted lt (tl l).
Proof. destruct 1; simpl; [constructor|assumption]. Qed.

Lemma forall_tl {A} (P : A -> Prop) l : Forall P l -> Forall P (tl l).
Proof. destruct 1; simpl; [constructor|assumption]. Qed.

Lemma ginv_touch g l :
  StronglySorted lt (times l) -> Forall (fun t => t < clock g) (times l) ->
  forall k v, GInv (gwith g (l ++ [(k, v, clock g)])).
Proof.
  intros Hs Hf k v. unfold GInv, gwith; simpl. unfold times. rewrite map_app. simpl. split.
  - apply sorted_snoc; assumption.
  - apply Forall_app. split; [apply forall_lt_weaken, Hf | constructor; [lia|constructor]].
Qed.

Lemma ginv_same g : GInv g -> GInv (gwith g (gitems g)).
Proof. intros [Hs Hf]. split; simpl; [exact Hs | apply forall_lt_weaken, Hf]. Qed.

Lemma gstep_inv g o : GInv g -> GInv (fst (gstep g o)).
Proof.
  intros [Hs Hf]. pose proof (ginv_same g (conj Hs Hf)) as Hsame.
  destruct o; simpl; try exact Hsame.
  - destruct (glookup k (gitems g)) as [[v t]|]; simpl; [|exact Hsame].
    apply ginv_touch; [apply sorted_gremove, Hs | apply forall_gremove, Hf].
  - destruct (glookup k (gitems g)) as [[v t]|]; simpl; [|exact Hsame].
    apply ginv_touch; [apply sorted_gremove, Hs | apply forall_gremove, Hf].
  - destruct (glookup k (gitems g)) as [[v t]|]; simpl; [|exact Hsame].
    apply ginv_touch; [apply sorted_gremove, Hs | apply forall_gremove, Hf].
  - destruct (glookup k (gitems g)) as [[v0 t]|]; simpl.
    + apply ginv_touch; [apply sorted_gremove, Hs | apply forall_gremove, Hf].
    + destruct (Nat.leb (gcap g) (length (gitems g))); simpl.
      * apply ginv_touch; rewrite times_tl; [apply sorted_tl, Hs | apply forall_tl, Hf].
      * apply ginv_touch; assumption.
  - destruct (glookup k (gitems g)) as [[v t]|]; simpl; [|exact Hsame].
    split; simpl; [apply sorted_gremove, Hs | apply forall_lt_weaken, forall_gremove, Hf].
Qed.

Lemma ginv_empty n : GInv (gempty n).
Proof. split; simpl; constructor. Qed.

Lemma gfinal_inv ops : forall g, GInv g -> GInv (gfinal g ops).
Proof.
  unfold gfinal. induction ops as [|o ops IH]; simpl; intros g H; [exact H|].
  apply IH, gstep_inv, H.
Qed.

(* C24 clause 2: on overflow exactly the least recently used entry goes.
   In any reachable state, storing an absent key into a full cache removes the head
   entry, whose time of last use is strictly smaller than that of every survivor,
   and keeps every other entry (key, value and time) unchanged and in order. *)
Theorem eviction_is_lru n ops k v k0 v0 t0 rest :
  let g := gfinal (gempty n) ops in
  glookup k (gitems g) = None ->
  gcap g <= length (gitems g) ->
  gitems g = (k0, v0, t0) :: rest ->
  gitems (fst (gstep g (Set_ k v))) = rest ++ [(k, v, clock g)] /\
  Forall (fun t => t0 < t) (times rest).
Proof.
  intros g Habs Hfull Hitems.
  pose proof (gfinal_inv ops (gempty n) (ginv_empty n)) as [Hs _]. fold g in Hs.
  split.
  - simpl. rewrite Habs. destruct (Nat.leb_spec (gcap g) (length (gitems g))); [|lia].
    simpl. rewrite Hitems. reflexivity.
  - rewrite Hitems in Hs. simpl in Hs. inversion Hs; assumption.
Qed.

(* and when there is room, or the key is present, nothing is evicted *)
Theorem no_eviction_otherwise g k v :
  (exists vt, glookup k (gitems g) = Some vt) \/ length (gitems g) < gcap g ->
  forall k', k' <> k -> glookup k' (gitems (fst (gstep g (Set_ k v)))) = glookup k' (gitems g).
Proof.
  assert (Hsn : forall l k' x, k' <> fst (fst x) -> glookup k' (l ++ [x]) = glookup k' l).
  { intros l k' [[kx vx] tx]; simpl; intro Hne. induction l as [|[[k2 v2] t2] l IH]; simpl.
    - destruct (N.eqb_spec k' kx); [congruence|reflexivity].
    - destruct (N.eqb k' k2); [reflexivity|exact IH]. }
  assert (Hrm : forall l k', k' <> k -> glookup k' (gremove k l) = glookup k' l).
  { intros l k' Hne. induction l as [|[[k2 v2] t2] l IH]; simpl; [reflexivity|].
    destruct (N.eqb_spec k k2) as [->|Hk].
    - destruct (N.eqb_spec k' k2); [congruence|exact IH].
    - simpl. destruct (N.eqb k' k2); [reflexivity|exact IH]. }
  intros H k' Hne. simpl.
  destruct (glookup k (gitems g)) as [[v0 t0]|] eqn:E; simpl.
  - rewrite Hsn by (simpl; exact Hne). apply Hrm, Hne.
  - destruct H as [[vt Hvt]|Hroom]; [discriminate|].
    destruct (Nat.leb_spec (gcap g) (length (gitems g))); [lia|]. simpl.
    apply Hsn. simpl. exact Hne.
Qed.

(* C24 clause 4: listings go from most to least recently used *)
Theorem listing_order n ops :
  let g := gfinal (gempty n) ops in
  snd (gstep g Items) = OItems (rev (erase_items (gitems g))) /\
  snd (gstep g Keys) = OKeys (map fst (rev (erase_items (gitems g)))) /\
  snd (gstep g Values) = OVals (map snd (rev (erase_items (gitems g)))) /\
  StronglySorted gt (rev (times (gitems g))).
Proof.
  intro g. simpl. rewrite !map_rev. repeat split.
  pose proof (gfinal_inv ops (gempty n) (ginv_empty n)) as [Hs _]. fold g in Hs.
  revert Hs. generalize (times (gitems g)). clear.
  induction l as [|x l IH]; simpl; intro H; [constructor|].
  inversion H as [|? ? Hs Hf]; subst.
  assert (Hgen : forall l x, StronglySorted gt l -> Forall (fun t => t > x) l -> StronglySorted gt (l ++ [x])).
  { clear. induction 1 as [|y l Hs IH Hf]; simpl; intro Hall; [repeat constructor|].
    inversion Hall; subst. constructor; [apply IH; assumption|].
    rewrite Forall_forall in *. intros z Hz. rewrite in_app_iff in Hz. simpl in Hz.
    destruct Hz as [Hz|[<-|[]]]; [apply Hf, Hz | assumption]. }
  apply Hgen; [apply IH, Hs|].
  rewrite Forall_forall in *. intros y Hy. apply in_rev in Hy. specialize (Hf y Hy). lia.
Qed.

(* ------------------------------------------------------------------ *)
(* C24 clause 3: a lookup returns the most recently stored value       *)

(* the time stamp of a present key is the index of the last operation that used it *)
Definition uses (o : op) (k : N) : bool :=
  match o with Get k' | GetD k' _ | GetN k' | Set_ k' _ => N.eqb k k' | _ => false end.

(* history most recent first *)
Fixpoint last_use (hr : list op) (k : N) : option nat :=
  match hr with
  | [] => None
  | o :: hr' => if uses o k then Some (length hr') else last_use hr' k
  end.

(* value stored by the most recent Set of k, if no Del k came after it (most recent first) *)
Fixpoint last_stored (hr : list op) (k : N) : option Z :=
  match hr with
  | [] => None
  | Set_ k' v :: hr' => if N.eqb k k' then Some v else last_stored hr' k
  | Del k' :: hr' => if N.eqb k k' then None else last_stored hr' k
  | _ :: hr' => last_stored hr' k
  end.

Definition HInv (hr : list op) (g : gcache) : Prop :=
  clock g = length hr /\
  forall k v t, glookup k (gitems g) = Some (v, t) -> last_use hr k = Some t /\ last_stored hr k = Some v.

Lemma glookup_snoc l k k' v' t' :
  glookup k (l ++ [(k', v', t')]) =
  match glookup k l with Some x => Some x | None => if N.eqb k k' then Some (v', t') else None end.
Proof.
  induction l as [|[[k2 v2] t2] l IH]; simpl; [reflexivity|].
  destruct (N.eqb k k2); [reflexivity|exact IH].
Qed.

Lemma glookup_gremove_same k l : glookup k (gremove k l) = None.
Proof.
  induction l as [|[[k2 v2] t2] l IH]; simpl; [reflexivity|].
  destruct (N.eqb_spec k k2) as [->|Hn]; [exact IH|]. simpl.
  destruct (N.eqb_spec k k2); [congruence|exact IH].
Qed.

Lemma glookup_gremove_other k k' l : k' <> k -> glookup k' (gremove k l) = glookup k' l.
Proof.
  intro Hne. induction l as [|[[k2 v2] t2] l IH]; simpl; [reflexivity|].
  destruct (N.eqb_spec k k2) as [->|Hk].
  - destruct (N.eqb_spec k' k2); [congruence|exact IH].
  - simpl. destruct (N.eqb k' k2); [reflexivity|exact IH].
Qed.

Lemma glookup_tl_some k l x : NoDup (map fst (erase_items l)) ->
  glookup k (tl l) = Some x -> glookup k l = Some x.
Proof.
  destruct l as [|[[k2 v2] t2] l]; simpl; [auto|].
  intros Hnd H. inversion Hnd as [|? ? Hnin _]; subst.
  destruct (N.eqb_spec k k2) as [->|Hn]; [|exact H].
  exfalso. apply Hnin.
  clear -H. induction l as [|[[k3 v3] t3] l IH]; simpl in *; [discriminate|].
  destruct (N.eqb_spec k2 k3) as [->|Hn]; [left; reflexivity | right; exact (IH H)].
Qed.

Lemma hinv_step hr g o :
  NoDup (map fst (erase_items (gitems g))) ->
  HInv hr g -> HInv (o :: hr) (fst (gstep g o)).
Proof.
  intros Hnd [Hclk H]. split.
  { destruct o; simpl; repeat match goal with |- context [match ?x with _ => _ end] => destruct x end;
      simpl; congruence. }
  assert (Hkeep : forall o', (forall k, uses o' k = false) ->
            (forall k, last_stored (o' :: hr) k = last_stored hr k) ->
            forall k v t, glookup k (gitems g) = Some (v, t) ->
            last_use (o' :: hr) k = Some t /\ last_stored (o' :: hr) k = Some v).
  { intros o' Hu Hst k v t E. simpl last_use. rewrite Hu, Hst. apply H, E. }
  assert (Htouch : forall k0 v0 o', uses o' k0 = true ->
            (forall k, uses o' k = N.eqb k k0) ->
            last_stored (o' :: hr) k0 = Some v0 ->
            (forall k, k <> k0 -> last_stored (o' :: hr) k = last_stored hr k) ->
            forall base, (forall k x, k <> k0 -> glookup k base = Some x -> glookup k (gitems g) = Some x) ->
            glookup k0 base = None ->
            forall k v t, glookup k (base ++ [(k0, v0, clock g)]) = Some (v, t) ->
            last_use (o' :: hr) k = Some t /\ last_stored (o' :: hr) k = Some v).
  { intros k0 v0 o' Hu0 Hu Hst0 Hst base Hbase Hb0 k v t E.
    rewrite glookup_snoc in E. simpl last_use. rewrite Hu.
    destruct (N.eqb_spec k k0) as [->|Hne].
    - rewrite Hb0 in E. inversion E; subst. split; [congruence|exact Hst0].
    - destruct (glookup k base) as [x|] eqn:Eb; [|discriminate]. inversion E; subst.
      rewrite Hst by exact Hne. apply H. apply Hbase; assumption. }
  destruct o; simpl fst.
  - (* Get *) simpl. destruct (glookup k (gitems g)) as [[v0 t0]|] eqn:E; simpl gitems.
    + apply (Htouch k v0 (Get k)); simpl; try apply N.eqb_refl; auto.
      * destruct (H k v0 t0 E) as [_ Hs]. exact Hs.
      * intros k1 x Hne Hx. rewrite glookup_gremove_other in Hx by exact Hne. exact Hx.
      * apply glookup_gremove_same.
    + intros k1 v1 t1 E1. simpl last_use. simpl last_stored.
      destruct (N.eqb_spec k1 k) as [->|Hne]; [congruence|]. apply H, E1.
  - (* GetD *) simpl. destruct (glookup k (gitems g)) as [[v0 t0]|] eqn:E; simpl gitems.
    + apply (Htouch k v0 (GetD k d)); simpl; try apply N.eqb_refl; auto.
      * destruct (H k v0 t0 E) as [_ Hs]. exact Hs.
      * intros k1 x Hne Hx. rewrite glookup_gremove_other in Hx by exact Hne. exact Hx.
      * apply glookup_gremove_same.
    + intros k1 v1 t1 E1. simpl last_use. simpl last_stored.
      destruct (N.eqb_spec k1 k) as [->|Hne]; [congruence|]. apply H, E1.
  - (* GetN *) simpl. destruct (glookup k (gitems g)) as [[v0 t0]|] eqn:E; simpl gitems.
    + apply (Htouch k v0 (GetN k)); simpl; try apply N.eqb_refl; auto.
      * destruct (H k v0 t0 E) as [_ Hs]. exact Hs.
      * intros k1 x Hne Hx. rewrite glookup_gremove_other in Hx by exact Hne. exact Hx.
      * apply glookup_gremove_same.
    + intros k1 v1 t1 E1. simpl last_use. simpl last_stored.
      destruct (N.eqb_spec k1 k) as [->|Hne]; [congruence|]. apply H, E1.
  - (* Set *) simpl.
    assert (Hst0 : last_stored (Set_ k v :: hr) k = Some v) by (simpl; rewrite N.eqb_refl; reflexivity).
    assert (Hst : forall k1, k1 <> k -> last_stored (Set_ k v :: hr) k1 = last_stored hr k1).
    { intros k1 Hne. simpl. destruct (N.eqb_spec k1 k); [congruence|reflexivity]. }
    destruct (glookup k (gitems g)) as [[v0 t0]|] eqn:E; simpl gitems.
    + apply (Htouch k v (Set_ k v)); simpl; try apply N.eqb_refl; auto.
      * intros k1 x Hne Hx. rewrite glookup_gremove_other in Hx by exact Hne. exact Hx.
      * apply glookup_gremove_same.
    + destruct (Nat.leb (gcap g) (length (gitems g))); simpl gitems.
      * apply (Htouch k v (Set_ k v)); simpl; try apply N.eqb_refl; auto.
        -- intros k1 x Hne Hx. apply glookup_tl_some; assumption.
        -- destruct (glookup k (tl (gitems g))) as [x|] eqn:Et; [|reflexivity].
           apply glookup_tl_some in Et; [congruence|exact Hnd].
      * apply (Htouch k v (Set_ k v)); simpl; try apply N.eqb_refl; auto.
  - (* Del *) simpl. destruct (glookup k (gitems g)) as [[v0 t0]|] eqn:E; simpl gitems.
    + intros k1 v1 t1 E1. simpl last_use. simpl last_stored.
      destruct (N.eqb_spec k1 k) as [->|Hne]; [rewrite glookup_gremove_same in E1; discriminate|].
      rewrite glookup_gremove_other in E1 by exact Hne. apply H, E1.
    + intros k1 v1 t1 E1. simpl last_use. simpl last_stored.
      destruct (N.eqb_spec k1 k) as [->|Hne]; [congruence|]. apply H, E1.
  - apply Hkeep; reflexivity.
  - apply Hkeep; reflexivity.
  - apply Hkeep; reflexivity.
  - apply Hkeep; reflexivity.
  - apply Hkeep; reflexivity.
  - apply Hkeep; reflexivity.
Qed.

Lemma gfinal_snoc g ops o : gfinal g (ops ++ [o]) = fst (gstep (gfinal g ops) o).
Proof. unfold gfinal. rewrite fold_left_app. reflexivity. Qed.

Lemma gfinal_nodup n ops : NoDup (map fst (erase_items (gitems (gfinal (gempty n) ops)))).
Proof.
  destruct (Nat.le_gt_cases 1 n) as [Hn|Hn].
  - pose proof (final_wf ops (empty n) (wf_empty n Hn)) as (_ & Hnd & _).
    change (empty n) with (erase (gempty n)) in Hnd. rewrite <- gfinal_erase in Hnd. exact Hnd.
  - (* capacity 0 is rejected by the constructor; the invariant still holds *)
    assert (n = 0) by lia. subst n.
    assert (Hgen : forall ops g, gcap g = 0 -> NoDup (map fst (erase_items (gitems g))) ->
               length (gitems g) <= 1 ->
               NoDup (map fst (erase_items (gitems (gfinal g ops)))) ).
    { clear. unfold gfinal. induction ops as [|o ops IH]; simpl; intros g Hc Hnd Hl; [exact Hnd|].
      assert (Hkeys : forall l : list (N * Z * nat), length l <= 1 -> NoDup (map fst (erase_items l))).
      { intros [|x [|y l]]; simpl; intro; try lia; repeat constructor; simpl; tauto. }
      assert (Hrm : forall k l, length (gremove k l) <= length l).
      { intros k l. induction l as [|[[k2 v2] t2] l IHl]; simpl; [lia|]. destruct (N.eqb k k2); simpl; lia. }
      assert (Hrm2 : forall k l x, glookup k l = Some x -> length (gremove k l) < length l).
      { intros k l. induction l as [|[[k2 v2] t2] l IHl]; simpl; intros x Hx; [discriminate|].
        destruct (N.eqb k k2); simpl; [pose proof (Hrm k l); lia | specialize (IHl x Hx); lia]. }
      apply IH.
      - destruct o; simpl; repeat match goal with |- context [match ?x with _ => _ end] => destruct x end; exact Hc.
      - apply Hkeys.
        destruct o; simpl; try exact Hl;
          try (destruct (glookup k (gitems g)) as [[v0 t0]|] eqn:E; simpl; try exact Hl;
               try (rewrite app_length; simpl; pose proof (Hrm2 _ _ _ E); lia)).
        + rewrite Hc. simpl. rewrite app_length. simpl. destruct (gitems g) as [|x [|y l]]; simpl in *; lia.
        + pose proof (Hrm k (gitems g)). lia.
      - destruct o; simpl; try exact Hl;
          try (destruct (glookup k (gitems g)) as [[v0 t0]|] eqn:E; simpl; try exact Hl;
               try (rewrite app_length; simpl; pose proof (Hrm2 _ _ _ E); lia)).
        + rewrite Hc. simpl. rewrite app_length. simpl. destruct (gitems g) as [|x [|y l]]; simpl in *; lia.
        + pose proof (Hrm k (gitems g)). lia. }
    apply Hgen; simpl; [reflexivity | constructor | lia].
Qed.

Lemma hinv_reachable n ops : HInv (rev ops) (gfinal (gempty n) ops).
Proof.
  induction ops as [|o ops IH] using rev_ind.
  - split; simpl; [reflexivity | discriminate].
  - rewrite gfinal_snoc, rev_app_distr. simpl. apply hinv_step; [apply gfinal_nodup | exact IH].
Qed.

(* In every reachable state, looking up a present key returns the value of the most
   recent store to that key, and the entry's recency stamp is the index of the most
   recent operation that used the key. A key absent from the cache gives KeyError /
   the default. *)
Theorem get_returns_latest n ops k :
  let g := gfinal (gempty n) ops in
  match glookup k (gitems g) with
  | Some (v, t) =>
      snd (gstep g (Get k)) = OVal v /\ (forall d, snd (gstep g (GetD k d)) = OVal v) /\
      last_stored (rev ops) k = Some v /\ last_use (rev ops) k = Some t
  | None => snd (gstep g (Get k)) = OKeyError /\ (forall d, snd (gstep g (GetD k d)) = OVal d)
  end.
Proof.
  intro g. destruct (hinv_reachable n ops) as [_ H]. fold g in H.
  destruct (glookup k (gitems g)) as [[v t]|] eqn:E.
  - destruct (H k v t E) as [Hu Hs]. simpl. rewrite E. auto.
  - simpl. rewrite E. auto.
Qed.

(* ------------------------------------------------------------------ *)
(* thread-safe variant                                                 *)

(* Call actions are whole method bodies: any schedule restricted to its Call actions
   is a sequential history of the plain cache (linearisable by construction; the
   assumption "the lock makes each method body atomic" is what this states). *)
Fixpoint calls (acts : list action) : list op :=
  match acts with
  | [] => []
  | Call _ o :: a => o :: calls a
  | _ :: a => calls a
  end.

Lemma tstep_cache m s a :
  tc (fst (tstep m s a)) = match a with Call _ o => fst (step (tc s) o) | _ => tc s end.
Proof.
  destruct a; simpl.
  - destruct (step (tc s) o); reflexivity.
  - reflexivity.
  - destruct (iter_lookup tid (titers s)) as [[[|kv rest]|ver n]|]; simpl; try reflexivity.
    destruct (negb (ver =? tver s)); simpl; [reflexivity|].
    destruct (nth_error (rev (items (tc s))) n); reflexivity.
Qed.

Definition tfinal m (s : tstate) (acts : list action) : tstate :=
  fold_left (fun s a => fst (tstep m s a)) acts s.

Theorem threadsafe_linearizable m acts : forall s,
  tc (tfinal m s acts) = final (tc s) (calls acts).
Proof.
  unfold tfinal, final. induction acts as [|a acts IH]; simpl; intro s; [reflexivity|].
  rewrite IH, tstep_cache. destruct a; reflexivity.
Qed.

(* With snapshot listings no action of any schedule raises RuntimeError. *)
Lemma iter_lookup_set_same tid i l : iter_lookup tid (iter_set tid i l) = Some i.
Proof.
  induction l as [|[t j] l IH]; simpl; [rewrite Nat.eqb_refl; reflexivity|].
  destruct (Nat.eqb_spec tid t) as [->|Hn]; simpl; [rewrite Nat.eqb_refl; reflexivity|].
  destruct (Nat.eqb_spec tid t); [congruence|exact IH].
Qed.

Lemma iter_lookup_set_other tid t i l : t <> tid -> iter_lookup t (iter_set tid i l) = iter_lookup t l.
Proof.
  intro Hne. induction l as [|[t2 j] l IH]; simpl.
  - destruct (Nat.eqb_spec t tid); [congruence|reflexivity].
  - destruct (Nat.eqb_spec tid t2) as [->|Hn]; simpl.
    + destruct (Nat.eqb_spec t t2); [congruence|reflexivity].
    + destruct (Nat.eqb t t2); [reflexivity|exact IH].
Qed.

Definition all_snap (s : tstate) : Prop :=
  forall t i, iter_lookup t (titers s) = Some i -> exists r, i = ISnap r.

Lemma all_snap_set s tid r c v :
  all_snap s -> all_snap {| tc := c; tver := v; titers := iter_set tid (ISnap r) (titers s) |}.
Proof.
  intros H t i. simpl. destruct (Nat.eq_dec t tid) as [->|Hne].
  - rewrite iter_lookup_set_same. intro E; inversion E; eauto.
  - rewrite iter_lookup_set_other by exact Hne. apply H.
Qed.

Lemma tstep_snapshot_ok s a :
  all_snap s -> all_snap (fst (tstep Snapshot s a)) /\ snd (tstep Snapshot s a) <> TRuntimeError.
Proof.
  intro H. destruct a; simpl.
  - destruct (step (tc s) o); simpl. split; [exact H | discriminate].
  - split; [apply all_snap_set, H | discriminate].
  - destruct (iter_lookup tid (titers s)) as [i|] eqn:E; [|split; [exact H|discriminate]].
    destruct (H _ _ E) as [r ->]. destruct r as [|kv rest]; simpl.
    + split; [exact H|discriminate].
    + split; [apply all_snap_set, H | discriminate].
Qed.

Theorem snapshot_listing_never_fails n acts : ~ In TRuntimeError (trun Snapshot (tinit n) acts).
Proof.
  assert (Hgen : forall acts s, all_snap s -> ~ In TRuntimeError (trun Snapshot s acts)).
  { clear. induction acts as [|a acts IH]; simpl; intros s H; [tauto|].
    destruct (tstep_snapshot_ok s a H) as [H' Hne].
    destruct (tstep Snapshot s a) as [s' r]; simpl in *.
    intros [E|Hin]; [congruence | exact (IH s' H' Hin)]. }
  apply Hgen. intros t i. simpl. discriminate.
Qed.

(* and a listing started at some point yields exactly the items as they were then,
   most recent first, whatever other threads do in between *)
Fixpoint yields_of (tid : nat) (acts : list action) (outs : list tout) : list (N * Z) :=
  match acts, outs with
  | ListNext t :: a, TYield kv :: o => if Nat.eqb t tid then kv :: yields_of tid a o else yields_of tid a o
  | _ :: a, _ :: o => yields_of tid a o
  | _, _ => []
  end.

(* With lazy views (the code before the fix) a three-action schedule fails. *)
Theorem lazy_listing_refuted :
  exists n acts, In TRuntimeError (trun Lazy (tinit n) acts).
Proof.
  exists 2, [Call 1 (Set_ 1%N 1%Z); ListBegin 1; Call 2 (Set_ 2%N 1%Z); ListNext 1].
  vm_compute. tauto.
Qed.
