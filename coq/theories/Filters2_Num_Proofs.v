(* C25, number filters: the model's results agree with exact rational arithmetic (Coq's Q) on the values the operands
   denote.  An int z denotes z, a float holding the short decimal m * 10^-e denotes m / 10^e. *)
From Coq Require Import ZArith Lia ZifyBool QArith Qabs.
From LiquidVerif Require Import Prelude PyPrims Filters Filters_Proofs Filters2.
Local Open Scope Z_scope.

(* ------------------------------------------------------------------ *)
(* values                                                              *)

Lemma pow10_pos e : 0 < pow10 e.
Proof. unfold pow10. apply Z.pow_pos_nonneg; lia. Qed.

Lemma pow10_S e : pow10 (S e) = 10 * pow10 e.
Proof. unfold pow10. rewrite Nat2Z.inj_succ, Z.pow_succ_r by lia. reflexivity. Qed.

Lemma pow10_add a b : pow10 (a + b) = pow10 a * pow10 b.
Proof. unfold pow10. rewrite Nat2Z.inj_add, Z.pow_add_r by lia. reflexivity. Qed.

Lemma pow10_split e e' : (e' <= e)%nat -> pow10 e = pow10 e' * pow10 (e - e').
Proof. intro H. rewrite <- pow10_add. f_equal. lia. Qed.

Lemma pow10_0 : pow10 0 = 1.
Proof. reflexivity. Qed.

Definition dec_Q (m : Z) (e : nat) : Q := Qmake m (Z.to_pos (pow10 e)).
Definition num_Q (n : num) : Q := dec_Q (mant n) (num_e n).
Definition val_Q (v : val) : Q := match v with VInt z => inject_Z z | VDec m e => dec_Q m e | _ => 0%Q end.
Definition numeric (v : val) : Prop := match v with VInt _ | VDec _ _ => True | _ => False end.

Lemma den_id e : Z.pos (Z.to_pos (pow10 e)) = pow10 e.
Proof. apply Z2Pos.id, pow10_pos. Qed.

Lemma Qeq_dec m1 e1 m2 e2 : (dec_Q m1 e1 == dec_Q m2 e2)%Q <-> m1 * pow10 e2 = m2 * pow10 e1.
Proof. unfold Qeq, dec_Q. cbn [Qnum Qden]. rewrite !den_id. tauto. Qed.

Lemma Qle_dec m1 m2 e : (dec_Q m1 e <= dec_Q m2 e)%Q <-> m1 <= m2.
Proof. unfold Qle, dec_Q. cbn [Qnum Qden]. rewrite den_id. pose proof (pow10_pos e). split; intro; nia. Qed.

Lemma Qlt_dec m1 m2 e : (dec_Q m1 e < dec_Q m2 e)%Q <-> m1 < m2.
Proof. unfold Qlt, dec_Q. cbn [Qnum Qden]. rewrite den_id. pose proof (pow10_pos e). split; intro; nia. Qed.

Lemma int_Q z : (inject_Z z == dec_Q z 0)%Q.
Proof. reflexivity. Qed.

Lemma Qle_int_dec z m e : (inject_Z z <= dec_Q m e)%Q <-> z * pow10 e <= m.
Proof. unfold Qle, dec_Q, inject_Z. cbn [Qnum Qden]. rewrite den_id. split; intro; lia. Qed.
Lemma Qlt_dec_int m e z : (dec_Q m e < inject_Z z)%Q <-> m < z * pow10 e.
Proof. unfold Qlt, dec_Q, inject_Z. cbn [Qnum Qden]. rewrite den_id. split; intro; lia. Qed.
Lemma Qle_dec_int m e z : (dec_Q m e <= inject_Z z)%Q <-> m <= z * pow10 e.
Proof. unfold Qle, dec_Q, inject_Z. cbn [Qnum Qden]. rewrite den_id. split; intro; lia. Qed.
Lemma Qlt_int_dec z m e : (inject_Z z < dec_Q m e)%Q <-> z * pow10 e < m.
Proof. unfold Qlt, dec_Q, inject_Z. cbn [Qnum Qden]. rewrite den_id. split; intro; lia. Qed.

(* canonical float form: the value is kept *)
Lemma canon_dec_eq : forall fuel m e, let '(m', e') := canon_dec fuel m e in m' * pow10 e = m * pow10 e'.
Proof.
  induction fuel as [|f IH]; intros m e; cbn [canon_dec]; [reflexivity|].
  destruct e as [|[|e']]; try reflexivity.
  destruct (Z.eqb_spec (m mod 10) 0) as [Hm|Hm]; [|reflexivity].
  specialize (IH (m / 10) (S e')). destruct (canon_dec f (m / 10) (S e')) as [m'' e''].
  rewrite (pow10_S (S e')). assert (Hd : m = 10 * (m / 10)) by (apply Z.div_exact; lia).
  remember (m / 10) as d eqn:Ed. clear Ed Hm. subst m. nia.
Qed.

Lemma mk_dec_Q m e : numeric (mk_dec m e) /\ (val_Q (mk_dec m e) == dec_Q m e)%Q.
Proof.
  unfold mk_dec. destruct e as [|e].
  - split; [exact I|]. cbn [val_Q]. apply Qeq_dec. rewrite pow10_0. change (pow10 1) with 10. ring.
  - pose proof (canon_dec_eq (S e) m (S e)) as H. destruct (canon_dec (S e) m (S e)) as [m' e'].
    split; [exact I|]. cbn [val_Q]. apply Qeq_dec. exact H.
Qed.

Lemma num_val_Q n : numeric (num_val n) /\ (val_Q (num_val n) == num_Q n)%Q.
Proof. destruct n as [z|m e]; [split; [exact I|reflexivity]|apply mk_dec_Q]. Qed.

Lemma scale_eq n e : scale n e = mant n * pow10 (e - num_e n).
Proof. destruct n; cbn [scale mant num_e]; [rewrite Nat.sub_0_r|]; reflexivity. Qed.

Lemma dec_Q_scale n e : (num_e n <= e)%nat -> (dec_Q (scale n e) e == num_Q n)%Q.
Proof.
  intro H. unfold num_Q. apply Qeq_dec. rewrite scale_eq, (pow10_split e (num_e n) H). ring.
Qed.

Lemma dec_Q_plus m1 m2 e : (dec_Q (m1 + m2) e == dec_Q m1 e + dec_Q m2 e)%Q.
Proof. unfold Qeq, Qplus, dec_Q. cbn [Qnum Qden]. rewrite Pos2Z.inj_mul. ring. Qed.
Lemma dec_Q_minus m1 m2 e : (dec_Q (m1 - m2) e == dec_Q m1 e - dec_Q m2 e)%Q.
Proof. unfold Qeq, Qminus, Qplus, Qopp, dec_Q. cbn [Qnum Qden]. rewrite Pos2Z.inj_mul. ring. Qed.
Lemma dec_Q_mult m1 e1 m2 e2 : (dec_Q (m1 * m2) (e1 + e2) == dec_Q m1 e1 * dec_Q m2 e2)%Q.
Proof. unfold Qeq, Qmult, dec_Q. cbn [Qnum Qden]. rewrite Pos2Z.inj_mul, !den_id, pow10_add. ring. Qed.

(* ------------------------------------------------------------------ *)
(* plus, minus, times on every pair of operands                        *)

Lemma arith_general op mul a b : is_int a && is_int b = false ->
  arith op mul a b =
  if mul then mk_dec (scale a (num_e a) * scale b (num_e b)) (num_e a + num_e b)
  else mk_dec (op (scale a (Nat.max (num_e a) (num_e b))) (scale b (Nat.max (num_e a) (num_e b)))) (Nat.max (num_e a) (num_e b)).
Proof. destruct a, b; cbn [is_int andb]; intro H; try discriminate; reflexivity. Qed.

Lemma num_Q_int x : num_Q (NInt x) = inject_Z x.
Proof. reflexivity. Qed.

Lemma scale_self n : scale n (num_e n) = mant n.
Proof. rewrite scale_eq, Nat.sub_diag, pow10_0. ring. Qed.

Lemma int_int_cases a b : (exists x y, a = NInt x /\ b = NInt y) \/ is_int a && is_int b = false.
Proof. destruct a, b; cbn; eauto. Qed.

(* whatever the two inputs are (ints, floats, numeric strings, booleans, nil, undefined, anything else read as 0), the
   result is a number whose value is exactly the sum / difference / product of the values of the operands; it is an int
   when both operands are ints *)
Theorem plus_minus_times_exact (v o : val) :
  let a := math_in v in let b := math_in o in
  (exists r, f_plus v o = FOk r /\ numeric r /\ (val_Q r == num_Q a + num_Q b)%Q) /\
  (exists r, f_minus v o = FOk r /\ numeric r /\ (val_Q r == num_Q a - num_Q b)%Q) /\
  (exists r, f_times v o = FOk r /\ numeric r /\ (val_Q r == num_Q a * num_Q b)%Q) /\
  (forall x y, a = NInt x -> b = NInt y ->
     f_plus v o = FOk (VInt (x + y)) /\ f_minus v o = FOk (VInt (x - y)) /\ f_times v o = FOk (VInt (x * y))).
Proof.
  intros a b. unfold f_plus, f_minus, f_times, other_in. subst a b.
  generalize (math_in v) (math_in o). intros a b.
  assert (Hla : (num_e a <= Nat.max (num_e a) (num_e b))%nat) by apply Nat.le_max_l.
  assert (Hlb : (num_e b <= Nat.max (num_e a) (num_e b))%nat) by apply Nat.le_max_r.
  destruct (int_int_cases a b) as [[x [y [Ea Eb]]]|Hg].
  - subst a b. cbn [arith]. rewrite !num_Q_int. split; [|split; [|split]].
    + eexists. split; [reflexivity|]. split; [exact I|]. cbn [val_Q]. rewrite inject_Z_plus. reflexivity.
    + eexists. split; [reflexivity|]. split; [exact I|]. cbn [val_Q]. unfold Z.sub, Qminus. rewrite inject_Z_plus, inject_Z_opp. reflexivity.
    + eexists. split; [reflexivity|]. split; [exact I|]. cbn [val_Q]. rewrite inject_Z_mult. reflexivity.
    + intros x' y' Hx Hy. injection Hx as <-. injection Hy as <-. repeat split; reflexivity.
  - rewrite !arith_general by exact Hg. split; [|split; [|split]].
    + eexists. split; [reflexivity|]. destruct (mk_dec_Q (scale a (Nat.max (num_e a) (num_e b)) + scale b (Nat.max (num_e a) (num_e b))) (Nat.max (num_e a) (num_e b))) as [Hn Hq].
      split; [exact Hn|]. rewrite Hq, dec_Q_plus, !dec_Q_scale by assumption. reflexivity.
    + eexists. split; [reflexivity|]. destruct (mk_dec_Q (scale a (Nat.max (num_e a) (num_e b)) - scale b (Nat.max (num_e a) (num_e b))) (Nat.max (num_e a) (num_e b))) as [Hn Hq].
      split; [exact Hn|]. rewrite Hq, dec_Q_minus, !dec_Q_scale by assumption. reflexivity.
    + eexists. split; [reflexivity|]. destruct (mk_dec_Q (scale a (num_e a) * scale b (num_e b)) (num_e a + num_e b)) as [Hn Hq].
      split; [exact Hn|]. rewrite Hq, dec_Q_mult, !scale_self. reflexivity.
    + intros x0 y0 -> ->. discriminate.
Qed.

(* ------------------------------------------------------------------ *)
(* abs, at_least, at_most                                              *)

Theorem abs_exact (v : val) :
  exists r, f_abs v = FOk r /\ numeric r /\ (val_Q r == Qabs (num_Q (math_in v)))%Q.
Proof.
  unfold f_abs. destruct (math_in v) as [x|m e].
  - eexists. split; [reflexivity|]. split; [exact I|]. reflexivity.
  - eexists. split; [reflexivity|]. destruct (mk_dec_Q (Z.abs m) e) as [Hn Hq]. split; [exact Hn|]. rewrite Hq. reflexivity.
Qed.

Lemma num_leb_Q a b : num_leb a b = true <-> (num_Q a <= num_Q b)%Q.
Proof.
  unfold num_leb. set (e := Nat.max (num_e a) (num_e b)).
  assert (Hla : (num_e a <= e)%nat) by apply Nat.le_max_l.
  assert (Hlb : (num_e b <= e)%nat) by apply Nat.le_max_r.
  rewrite <- (dec_Q_scale a e Hla), <- (dec_Q_scale b e Hlb), Qle_dec. lia.
Qed.

(* at_least is the larger and at_most the smaller of the two values, and always one of the two operands *)
Theorem at_least_at_most_exact (v o : val) :
  let a := num_Q (math_in v) in let b := num_Q (math_in o) in
  (exists r, f_at_least v o = FOk r /\ numeric r /\ ((val_Q r == a \/ val_Q r == b) /\ a <= val_Q r /\ b <= val_Q r)%Q) /\
  (exists r, f_at_most v o = FOk r /\ numeric r /\ ((val_Q r == a \/ val_Q r == b) /\ val_Q r <= a /\ val_Q r <= b)%Q).
Proof.
  intros a b. unfold f_at_least, f_at_most, other_in. split.
  - destruct (num_leb (math_in o) (math_in v)) eqn:E; eexists; (split; [reflexivity|]).
    + destruct (num_val_Q (math_in v)) as [Hn Hq]. split; [exact Hn|]. fold a in Hq. rewrite Hq.
      apply num_leb_Q in E. fold a b in E. split; [left; reflexivity|]. split; [apply Qle_refl|exact E].
    + destruct (num_val_Q (math_in o)) as [Hn Hq]. split; [exact Hn|]. fold b in Hq. rewrite Hq.
      assert (Hlt : (a < b)%Q). { apply Qnot_le_lt. intro H. apply num_leb_Q in H. congruence. }
      split; [right; reflexivity|]. split; [apply Qlt_le_weak, Hlt|apply Qle_refl].
  - destruct (num_leb (math_in v) (math_in o)) eqn:E; eexists; (split; [reflexivity|]).
    + destruct (num_val_Q (math_in v)) as [Hn Hq]. split; [exact Hn|]. fold a in Hq. rewrite Hq.
      apply num_leb_Q in E. fold a b in E. split; [left; reflexivity|]. split; [apply Qle_refl|exact E].
    + destruct (num_val_Q (math_in o)) as [Hn Hq]. split; [exact Hn|]. fold b in Hq. rewrite Hq.
      assert (Hlt : (b < a)%Q). { apply Qnot_le_lt. intro H. apply num_leb_Q in H. congruence. }
      split; [right; reflexivity|]. split; [apply Qlt_le_weak, Hlt|apply Qle_refl].
Qed.

(* ------------------------------------------------------------------ *)
(* floor, ceil, round                                                  *)

(* floor is the largest integer not above the value, ceil the smallest integer not below it *)
Theorem floor_ceil_exact (v : val) :
  let q := num_Q (math_in v) in
  (exists z, f_floor v = FOk (VInt z) /\ (inject_Z z <= q /\ q < inject_Z (z + 1))%Q) /\
  (exists z, f_ceil v = FOk (VInt z) /\ (inject_Z (z - 1) < q /\ q <= inject_Z z)%Q).
Proof.
  intro q. unfold q, f_floor, f_ceil, num_Q. destruct (math_in v) as [x|m e]; cbn [mant num_e].
  - split; eexists; (split; [reflexivity|]).
    + rewrite Qle_int_dec, Qlt_dec_int, pow10_0. lia.
    + rewrite Qlt_int_dec, Qle_dec_int, pow10_0. lia.
  - pose proof (pow10_pos e) as Hp. split; eexists; (split; [reflexivity|]).
    + rewrite Qle_int_dec, Qlt_dec_int.
      pose proof (Z.mul_div_le m (pow10 e) Hp). pose proof (Z.mul_succ_div_gt m (pow10 e) Hp). lia.
    + rewrite Qlt_int_dec, Qle_dec_int.
      pose proof (Z.mul_div_le (- m) (pow10 e) Hp). pose proof (Z.mul_succ_div_gt (- m) (pow10 e) Hp). lia.
Qed.

(* the integer nearest to m / p, exact halves to the even neighbour *)
Lemma round_half_even_spec m p : 0 < p ->
  let z := round_half_even m p in
  2 * Z.abs (m - z * p) <= p /\ (2 * Z.abs (m - z * p) = p -> Z.even z = true).
Proof.
  intros Hp z. unfold z, round_half_even.
  pose proof (Z.div_mod m p ltac:(lia)) as Hdm. pose proof (Z.mod_pos_bound m p Hp) as Hb.
  set (q := m / p) in *. set (r := m mod p) in *.
  destruct (Z.ltb_spec (2 * r) p).
  - split; [nia|]. intro. nia.
  - destruct (Z.ltb_spec p (2 * r)).
    + split; [nia|]. intro. nia.
    + destruct (Z.even q) eqn:Ev.
      * split; [nia|]. intro. exact Ev.
      * split; [nia|]. intro. rewrite Z.even_add, Ev. reflexivity.
Qed.

Lemma Qabs_half_le m e z : (Qabs (dec_Q m e - inject_Z z) <= 1 # 2)%Q <-> 2 * Z.abs (m - z * pow10 e) <= pow10 e.
Proof.
  unfold Qle, Qabs, Qminus, Qplus, Qopp, dec_Q, inject_Z. cbn [Qnum Qden].
  rewrite Pos.mul_1_r, den_id. replace (m * 1 + - z * pow10 e) with (m - z * pow10 e) by ring. split; intro; lia.
Qed.
Lemma Qabs_half_eq m e z : (Qabs (dec_Q m e - inject_Z z) == 1 # 2)%Q <-> 2 * Z.abs (m - z * pow10 e) = pow10 e.
Proof.
  unfold Qeq, Qabs, Qminus, Qplus, Qopp, dec_Q, inject_Z. cbn [Qnum Qden].
  rewrite Pos.mul_1_r, den_id. replace (m * 1 + - z * pow10 e) with (m - z * pow10 e) by ring. split; intro; lia.
Qed.

(* round without digits: an integer at distance at most one half, the even one when the distance is exactly one half *)
Theorem round_exact (v : val) :
  let q := num_Q (math_in v) in
  exists z, f_round v = FOk (VInt z) /\ (Qabs (q - inject_Z z) <= 1 # 2)%Q /\ ((Qabs (q - inject_Z z) == 1 # 2)%Q -> Z.even z = true).
Proof.
  intro q. unfold q, f_round, num_Q. destruct (math_in v) as [x|m e]; cbn [mant num_e].
  - exists x. split; [reflexivity|]. rewrite Qabs_half_le, Qabs_half_eq, pow10_0. split; [lia|intro; lia].
  - exists (round_half_even m (pow10 e)). split; [reflexivity|]. rewrite Qabs_half_le, Qabs_half_eq.
    apply round_half_even_spec, pow10_pos.
Qed.

(* round with n > 0 digits.  An int is returned as it is.  A decimal with at most n places is returned as it is; with more
   places the result r is the multiple of 10^-n nearest to the input: r * 10^n is the integer nearest to q * 10^n (half to
   even; the binary float decides differently when the decimal tie is not a dyadic number - those inputs are outside the
   correspondence).  A negative number of digits gives 0 whatever the input: the code says so explicitly, the
   documentation is silent. *)
Theorem round_digits_exact (v : val) (n : Z) : 0 < n ->
  let q := num_Q (math_in v) in
  (forall x, math_in v = NInt x -> f_round2 v (VInt n) = FOk (VInt x)) /\
  (forall m e, math_in v = NDec m e -> (Z.of_nat e <= n) ->
     exists r, f_round2 v (VInt n) = FOk r /\ numeric r /\ (val_Q r == q)%Q) /\
  (forall m e, math_in v = NDec m e -> (n < Z.of_nat e) ->
     exists r z, f_round2 v (VInt n) = FOk r /\ numeric r /\
       (val_Q r * inject_Z (pow10 (Z.to_nat n)) == inject_Z z)%Q /\
       (Qabs (q * inject_Z (pow10 (Z.to_nat n)) - inject_Z z) <= 1 # 2)%Q /\
       ((Qabs (q * inject_Z (pow10 (Z.to_nat n)) - inject_Z z) == 1 # 2)%Q -> Z.even z = true)) /\
  (forall k, k < 0 -> f_round2 v (VInt k) = FOk (VInt 0)) /\
  f_round2 v (VInt 0) = f_round v /\ f_round2 v VUndef = f_round v /\ f_round2 v VNil = f_round v.
Proof.
  intros Hn q. unfold q, f_round2. cbn [num_arg].
  destruct (Z.ltb_spec n 0); [lia|]. destruct (Z.eqb_spec n 0); [lia|].
  split; [intros x ->; reflexivity|]. split; [|split; [|split; [|repeat split]]].
  - intros m e -> He. destruct (Z.leb_spec (Z.of_nat e) n); [|lia].
    eexists. split; [reflexivity|]. apply mk_dec_Q.
  - intros m e -> He. destruct (Z.leb_spec (Z.of_nat e) n); [lia|].
    set (nn := Z.to_nat n). set (k := (e - nn)%nat). set (z := round_half_even m (pow10 k)).
    exists (mk_dec z nn), z. split; [reflexivity|]. destruct (mk_dec_Q z nn) as [Hnum Hq]. split; [exact Hnum|].
    assert (Hsplit : pow10 e = pow10 nn * pow10 k) by (apply pow10_split; unfold nn; lia).
    assert (H1 : (val_Q (mk_dec z nn) * inject_Z (pow10 nn) == inject_Z z)%Q).
    { rewrite Hq. unfold Qeq, Qmult, dec_Q, inject_Z. cbn [Qnum Qden]. rewrite Pos2Z.inj_mul, den_id. ring. }
    assert (H2 : (num_Q (NDec m e) * inject_Z (pow10 nn) == dec_Q m k)%Q).
    { unfold num_Q, Qeq, Qmult, dec_Q, inject_Z. cbn [Qnum Qden mant num_e]. rewrite Pos2Z.inj_mul, !den_id, Hsplit. ring. }
    split; [exact H1|]. rewrite H2, Qabs_half_le, Qabs_half_eq. apply round_half_even_spec, pow10_pos.
  - intros k Hk. destruct (Z.ltb_spec k 0); [reflexivity|lia].
Qed.

(* ------------------------------------------------------------------ *)
(* divided_by                                                          *)

Lemma find_quot_sound d : d <> 0 -> forall fuel k n q k',
  find_quot fuel k n d = Some (q, k') -> exists j, k' = (k + j)%nat /\ q * d = n * pow10 j.
Proof.
  intros Hd. induction fuel as [|f IH]; intros k n q k' H; cbn [find_quot] in H; [discriminate|].
  destruct (Z.eqb_spec (n mod d) 0) as [Hm|Hm].
  - injection H as <- <-. exists 0%nat. split; [lia|]. rewrite pow10_0.
    pose proof (proj2 (Z.div_exact n d Hd) Hm). lia.
  - destruct (IH _ _ _ _ H) as [j [-> Hj]]. exists (S j). split; [lia|]. rewrite pow10_S. lia.
Qed.

(* two ints: floor division, a zero divisor is the Liquid error FilterArgumentError.  Otherwise a result of the model is
   exactly the quotient: result * divisor = dividend; and a divisor of value zero is the same error.  (The model gives no
   result when the quotient has more than DIV_DIGITS places: there Decimal's 28-digit context rounds.) *)
Theorem divided_by_exact (v o : val) :
  let a := math_in v in let b := math_in o in
  (forall x y, a = NInt x -> b = NInt y ->
     f_divided_by2 v o = if (y =? 0) then FErr EFilterArg else FOk (VInt (x / y))) /\
  (mant b = 0 -> f_divided_by2 v o = FErr EFilterArg) /\
  (is_int a && is_int b = false -> forall r, f_divided_by2 v o = FOk r ->
     numeric r /\ (val_Q r * num_Q b == num_Q a)%Q).
Proof.
  intros a b. unfold f_divided_by2. fold a b. split; [intros x y -> ->; reflexivity|]. split.
  - intro Hz. destruct a as [x|ma ea], b as [y|mb eb]; cbn [mant num_e] in *; subst; try reflexivity;
      rewrite Z.mul_0_l; reflexivity.
  - intros Hg r Hr.
    assert (Hgen : (let n := mant a * pow10 (num_e b) in let d := mant b * pow10 (num_e a) in
                    if d =? 0 then FErr EFilterArg
                    else match find_quot (S DIV_DIGITS) 0 n d with Some (q, k) => FOk (mk_dec q k) | None => FErr EOtherForeign end)
                   = FOk r).
    { destruct a, b; cbn [is_int andb] in Hg; try discriminate; exact Hr. }
    clear Hr. cbv zeta in Hgen. destruct (Z.eqb_spec (mant b * pow10 (num_e a)) 0) as [|Hd]; [discriminate|].
    destruct (find_quot (S DIV_DIGITS) 0 (mant a * pow10 (num_e b)) (mant b * pow10 (num_e a))) as [[q k]|] eqn:Ef; [|discriminate].
    injection Hgen as <-. destruct (find_quot_sound _ Hd _ _ _ _ _ Ef) as [j [-> Hj]]. cbn [Nat.add] in *.
    destruct (mk_dec_Q q j) as [Hnum Hq]. split; [exact Hnum|]. rewrite Hq.
    unfold num_Q, Qeq, Qmult, dec_Q. cbn [Qnum Qden]. rewrite Pos2Z.inj_mul, !den_id. nia.
Qed.

(* ------------------------------------------------------------------ *)
(* modulo                                                              *)

(* for a divisor that is not zero the result r satisfies  a = b * k + r  for an integer k, and lies between 0 and the
   divisor (sign of the divisor) - for ints and for decimals alike; a zero divisor is FilterArgumentError *)
Theorem modulo_exact (v o : val) :
  let a := math_in v in let b := math_in o in
  (mant b = 0 -> f_modulo2 v o = FErr EFilterArg) /\
  (mant b <> 0 ->
   exists r k, f_modulo2 v o = FOk r /\ numeric r /\
     (num_Q a == num_Q b * inject_Z k + val_Q r)%Q /\
     ((0 <= val_Q r /\ val_Q r < num_Q b)%Q \/ (num_Q b < val_Q r /\ val_Q r <= 0)%Q) /\
     (is_int a && is_int b = true -> exists z, r = VInt z)).
Proof.
  intros a b. unfold f_modulo2. subst a b. generalize (math_in v) (math_in o). intros a b.
  set (e := Nat.max (num_e a) (num_e b)).
  assert (Hla : (num_e a <= e)%nat) by apply Nat.le_max_l.
  assert (Hlb : (num_e b <= e)%nat) by apply Nat.le_max_r.
  assert (HB : scale b e = 0 <-> mant b = 0).
  { rewrite scale_eq. pose proof (pow10_pos (e - num_e b)). nia. }
  split.
  - intro Hz. destruct a as [x|ma ea], b as [y|mb eb]; cbn [mant] in Hz; subst; try reflexivity;
      fold e; (destruct (Z.eqb_spec (scale _ e) 0) as [|Hne]; [reflexivity|]); exfalso; apply Hne; apply HB; reflexivity.
  - intro Hnz.
    assert (Hgen : forall A B, B <> 0 -> (dec_Q A e == dec_Q B e * inject_Z (A / B) + dec_Q (A mod B) e)%Q /\
              ((0 <= dec_Q (A mod B) e /\ dec_Q (A mod B) e < dec_Q B e)%Q \/ (dec_Q B e < dec_Q (A mod B) e /\ dec_Q (A mod B) e <= 0)%Q)).
    { intros A B HBn. split.
      - rewrite (Z.div_mod A B HBn) at 1. unfold Qeq, Qplus, Qmult, dec_Q, inject_Z. cbn [Qnum Qden].
        rewrite !Pos2Z.inj_mul. ring.
      - assert (H0 : (0 == dec_Q 0 e)%Q) by (unfold Qeq, dec_Q; cbn [Qnum Qden]; ring).
        rewrite H0, !Qle_dec, !Qlt_dec.
        destruct (Z.lt_trichotomy B 0) as [Hneg|[Hz|Hpos]]; [right|contradiction|left].
        + pose proof (Z.mod_neg_bound A B Hneg). lia.
        + pose proof (Z.mod_pos_bound A B Hpos). lia. }
    destruct (int_int_cases a b) as [[x [y [Ea Eb]]]|Hg].
    + subst a b. cbn [mant] in Hnz. destruct (Z.eqb_spec y 0); [contradiction|].
      exists (VInt (x mod y)), (x / y). split; [reflexivity|]. split; [exact I|].
      destruct (Hgen x y Hnz) as [H1 H2].
      split; [exact H1|]. split; [exact H2|]. intros _. eexists. reflexivity.
    + match goal with |- exists r k, ?X = FOk r /\ _ =>
        assert (Heq : X = (if scale b e =? 0 then FErr EFilterArg else FOk (mk_dec (scale a e mod scale b e) e)))
      end.
      { unfold e. clear - Hg. destruct a, b; cbn [is_int andb] in Hg; try discriminate; reflexivity. }
      rewrite Heq. clear Heq.
      destruct (Z.eqb_spec (scale b e) 0) as [Hz|Hne]; [apply HB in Hz; contradiction|].
      exists (mk_dec (scale a e mod scale b e) e), (scale a e / scale b e). split; [reflexivity|].
      destruct (mk_dec_Q (scale a e mod scale b e) e) as [Hnum Hq]. split; [exact Hnum|].
      destruct (Hgen (scale a e) (scale b e) Hne) as [H1 H2].
      rewrite Hq, <- (dec_Q_scale a e Hla), <- (dec_Q_scale b e Hlb).
      split; [exact H1|]. split; [exact H2|]. rewrite Hg. discriminate.
Qed.
