(* Lex_Occ_Proofs.v — C10/C11 under the occurrence guard (LexOcc.v).
   The general search lemma: if a matcher matches at no position of a prefix y of the source, find_first lands exactly
   at the end of y ("no occurrence in a prefix  =>  find_first lands at the start of the markup"); instantiated for the
   content look-ahead (opening delimiters), the closing sub-pattern of expressions, the shorthand comment end and the
   endraw / enddoc tags.  Then the scanner on a whole template, and the alphabet guard as a special case. *)
From Coq Require Import ZArith NArith List Bool Lia ZifyBool.
From LiquidVerif Require Import Prelude Lex LexSpec Lex_Proofs Lex_Match_Proofs Lex_C10_Proofs LexOcc.
Import ListNotations.
Arguments hy : simpl never.
Arguments nl : simpl never.
Arguments hash : simpl never.
Arguments lbrace : simpl never.

(* ---------------------------------------------------------------- nomatch *)
Lemma is_some_false {A} (o : option A) : is_some o = false -> o = None.
Proof. destruct o; simpl; congruence. Qed.

Lemma nomatch_cons {A} (f : str -> option A) c y after :
  nomatch f (c :: y) after = true -> f ((c :: y) ++ after) = None /\ nomatch f y after = true.
Proof.
  cbn [nomatch]. intros H. apply andb_true_iff in H as [H1 H2]. apply negb_true_iff in H1.
  split; auto. apply is_some_false; auto.
Qed.

Lemma nomatch_at {A} (f : str -> option A) y after j :
  nomatch f y after = true -> j < length y -> f (skipn j (y ++ after)) = None.
Proof.
  revert j. induction y as [|c y IH]; intros j H Hj; simpl in Hj; [lia|].
  apply nomatch_cons in H as [H1 H2]. destruct j; [exact H1|]. simpl. apply IH; auto. lia.
Qed.

(* the search lemma *)
Lemma nomatch_find_first {A} (f : str -> option (A * nat)) y after a n :
  nomatch f y after = true -> f after = Some (a, n) ->
  find_first f (y ++ after) = Some (length y, a, length y + n).
Proof.
  intros H Hf. apply find_first_skip.
  - intros k Hk. apply nomatch_at; auto.
  - apply find_first_here; auto.
Qed.

(* conversely: if every position of y fails, nomatch holds *)
Lemma nomatch_intro {A} (f : str -> option A) y after :
  (forall j, j < length y -> f (skipn j (y ++ after)) = None) -> nomatch f y after = true.
Proof.
  induction y as [|c y IH]; intros H; [reflexivity|]. cbn [nomatch].
  pose proof (H 0 ltac:(simpl; lia)) as H0. cbn [skipn] in H0. rewrite H0. cbn [is_some negb andb]. apply IH. intros j Hj. apply (H (S j)). simpl. lia.
Qed.

(* ---------------------------------------------------------------- instances of the search lemma *)
Lemma lazy_close_occ e y w r rest :
  nonempty e = true -> is_space (hd0 e) = false -> N.eqb (hd0 e) hy = false -> all_space w = true ->
  nomatch (close e) y (w ++ hyp r ++ e ++ rest) = true ->
  find_first (close e) (y ++ w ++ hyp r ++ e ++ rest)
  = Some (length y, r, length y + (length w + length (hyp r) + length e)).
Proof. intros. apply nomatch_find_first; auto. apply close_here; auto. Qed.

Lemma lazy_cclose_occ e y r rest :
  nonempty e = true -> N.eqb (hd0 e) hy = false ->
  nomatch (cclose e) y (hyp r ++ e ++ rest) = true ->
  find_first (cclose e) (y ++ hyp r ++ e ++ rest) = Some (length y, r, length y + (length (hyp r) + length e)).
Proof. intros. apply nomatch_find_first; auto. apply cclose_here; auto. Qed.

(* ---------------------------------------------------------------- matchers with the search result as hypothesis *)
Lemma m_tag_ok_gen d l w1 name w2 expr w3 r rest : dfacts d ->
  all_space w1 = true -> all_space w2 = true ->
  stops (name ++ w2 ++ expr ++ w3 ++ hyp r ++ d_te d ++ rest) ->
  hyphen_next (name ++ w2 ++ expr ++ w3 ++ hyp r ++ d_te d ++ rest) = false ->
  name_len (name ++ w2 ++ expr ++ w3 ++ hyp r ++ d_te d ++ rest) = length name ->
  stops (expr ++ w3 ++ hyp r ++ d_te d ++ rest) ->
  find_first (close (d_te d)) (expr ++ w3 ++ hyp r ++ d_te d ++ rest)
    = Some (length expr, r, length expr + (length w3 + length (hyp r) + length (d_te d))) ->
  m_tag d (d_ts d ++ hyp l ++ w1 ++ name ++ w2 ++ expr ++ w3 ++ hyp r ++ d_te d ++ rest)
  = Some (length (d_ts d ++ hyp l ++ w1), length name, length (d_ts d ++ hyp l ++ w1 ++ name ++ w2), length expr, r,
          length (d_ts d ++ hyp l ++ w1 ++ name ++ w2 ++ expr ++ w3 ++ hyp r ++ d_te d)).
Proof.
  intros F H1 H2 Hst Hhn Hnl Hste Hff. unfold m_tag. rewrite prefixb_app.
  set (X := name ++ w2 ++ expr ++ w3 ++ hyp r ++ d_te d ++ rest) in *.
  assert (G : forall s k, skipn k s = w1 ++ X ->
     (let k2 := k + ws_len (skipn k s) in
      let nlen := name_len (skipn k2 s) in
      let k3 := k2 + nlen in
      let k4 := k3 + ws_len (skipn k3 s) in
      match find_first (close (d_te d)) (skipn k4 s) with
      | Some (j, h, n) => Some (k2, nlen, k4, j, h, k4 + n)
      | None => None
      end) = Some (k + length w1, length name, k + length w1 + length name + length w2, length expr, r,
                   k + length w1 + length name + length w2
                   + (length expr + (length w3 + length (hyp r) + length (d_te d))))).
  { intros s k Hs. cbv zeta. rewrite !skipn_add, !Hs.
    rewrite (ws_len_app_stops w1 X) by auto. rewrite !skipn_app_len, Hnl.
    unfold X. rewrite !skipn_app_len. rewrite (ws_len_app_stops w2) by auto. rewrite !skipn_app_len.
    rewrite Hff. reflexivity. }
  destruct l; cbn [hyp app].
  - erewrite with_hyphen_yes; [reflexivity | apply skipn_app_len |].
    rewrite (G _ _ (skipn_S_app _ _ _)). f_equal. repeat f_equal; len_tac.
  - rewrite with_hyphen_no.
    + rewrite (G _ _ (skipn_app_len _ _)). f_equal. repeat f_equal; len_tac.
    + rewrite skipn_app_len. apply hyphen_next_space_or; auto.
Qed.

Lemma m_output_ok_gen d l w1 expr w2 r rest : dfacts d ->
  all_space w1 = true ->
  stops (expr ++ w2 ++ hyp r ++ d_se d ++ rest) ->
  hyphen_next (expr ++ w2 ++ hyp r ++ d_se d ++ rest) = false ->
  find_first (close (d_se d)) (expr ++ w2 ++ hyp r ++ d_se d ++ rest)
    = Some (length expr, r, length expr + (length w2 + length (hyp r) + length (d_se d))) ->
  m_output d (d_ss d ++ hyp l ++ w1 ++ expr ++ w2 ++ hyp r ++ d_se d ++ rest)
  = Some (length (d_ss d ++ hyp l ++ w1), length expr, r,
          length (d_ss d ++ hyp l ++ w1 ++ expr ++ w2 ++ hyp r ++ d_se d)).
Proof.
  intros F H1 Hst Hhn Hff. unfold m_output. rewrite prefixb_app.
  set (X := expr ++ w2 ++ hyp r ++ d_se d ++ rest) in *.
  assert (G : forall s k, skipn k s = w1 ++ X ->
     (let k2 := k + ws_len (skipn k s) in
      match find_first (close (d_se d)) (skipn k2 s) with
      | Some (j, h, n) => Some (k2, j, h, k2 + n)
      | None => None
      end) = Some (k + length w1, length expr, r,
                   k + length w1 + (length expr + (length w2 + length (hyp r) + length (d_se d))))).
  { intros s k Hs. cbv zeta. rewrite !skipn_add, !Hs.
    rewrite (ws_len_app_stops w1 X) by auto. rewrite !skipn_app_len. rewrite Hff. reflexivity. }
  destruct l; cbn [hyp app].
  - erewrite with_hyphen_yes; [reflexivity | apply skipn_app_len |].
    rewrite (G _ _ (skipn_S_app _ _ _)). f_equal. repeat f_equal; len_tac.
  - rewrite with_hyphen_no.
    + rewrite (G _ _ (skipn_app_len _ _)). f_equal. repeat f_equal; len_tac.
    + rewrite skipn_app_len. apply hyphen_next_space_or; auto.
Qed.

Lemma block_ok_gen d w endw l1 w1 w2 r1 body l2 w3 w4 r2 rest : dfacts d ->
  all_space w1 = true -> all_space w2 = true -> all_space w3 = true -> all_space w4 = true ->
  word_ok w -> word_ok endw ->
  nomatch (wordtag d endw) body ((d_ts d ++ hyp l2 ++ w3 ++ endw ++ w4 ++ hyp r2 ++ d_te d) ++ rest) = true ->
  block d w endw ((d_ts d ++ hyp l1 ++ w1 ++ w ++ w2 ++ hyp r1 ++ d_te d) ++ body
                  ++ (d_ts d ++ hyp l2 ++ w3 ++ endw ++ w4 ++ hyp r2 ++ d_te d) ++ rest)
  = Some (r1, r2, length (d_ts d ++ hyp l1 ++ w1 ++ w ++ w2 ++ hyp r1 ++ d_te d), length body,
          length (d_ts d ++ hyp l1 ++ w1 ++ w ++ w2 ++ hyp r1 ++ d_te d)
          + (length body + length (d_ts d ++ hyp l2 ++ w3 ++ endw ++ w4 ++ hyp r2 ++ d_te d))).
Proof.
  intros F H1 H2 H3 H4 Hw Hew Hb. unfold block.
  set (t1 := d_ts d ++ hyp l1 ++ w1 ++ w ++ w2 ++ hyp r1 ++ d_te d).
  set (t2 := d_ts d ++ hyp l2 ++ w3 ++ endw ++ w4 ++ hyp r2 ++ d_te d) in *.
  assert (E1 : wordtag d w (t1 ++ body ++ t2 ++ rest) = Some (r1, length t1)).
  { unfold t1. norm_app. apply wordtag_ok; auto. }
  rewrite E1, skipn_app_len.
  erewrite nomatch_find_first; [reflexivity | exact Hb | ].
  unfold t2. norm_app. apply wordtag_ok; auto.
Qed.

Lemma m_comment_ok_gen d y r rest : dfacts d -> nonempty (d_cs d) = true ->
  nomatch (cclose (d_ce d)) y (hyp r ++ d_ce d ++ rest) = true ->
  m_comment d (d_cs d ++ y ++ hyp r ++ d_ce d ++ rest)
  = Some (length (d_cs d), length y, r, length (d_cs d ++ y ++ hyp r ++ d_ce d)).
Proof.
  intros F Hcs Hy. unfold m_comment. rewrite Hcs, prefixb_app. cbn [andb].
  rewrite skipn_app_len. destruct (cs_facts d F Hcs) as (Hce & _ & _).
  rewrite lazy_cclose_occ; auto using ce_nhy. rewrite !app_length. repeat f_equal; lia.
Qed.

(* ---------------------------------------------------------------- match_at on the shapes *)
Section ShapesOcc.
  Variable d : delims.
  Variable q : quirks.
  Hypothesis F : dfacts d.

  Lemma match_at_tag_gen l w1 name w2 expr w3 r rest :
    all_space w1 = true -> all_space w2 = true -> all_space w3 = true ->
    stops (name ++ w2 ++ expr ++ w3 ++ hyp r ++ d_te d ++ rest) ->
    hyphen_next (name ++ w2 ++ expr ++ w3 ++ hyp r ++ d_te d ++ rest) = false ->
    name_len (name ++ w2 ++ expr ++ w3 ++ hyp r ++ d_te d ++ rest) = length name ->
    stops (expr ++ w3 ++ hyp r ++ d_te d ++ rest) ->
    nomatch (close (d_te d)) expr (w3 ++ hyp r ++ d_te d ++ rest) = true ->
    (forall Y, prefixb w_raw (name ++ Y) = false) -> (forall Y, prefixb w_doc (name ++ Y) = false) ->
    match_at d q (d_ts d ++ hyp l ++ w1 ++ name ++ w2 ++ expr ++ w3 ++ hyp r ++ d_te d ++ rest)
    = MTag (length (d_ts d ++ hyp l ++ w1)) (length name) (length (d_ts d ++ hyp l ++ w1 ++ name ++ w2))
           (length expr) r (length (d_ts d ++ hyp l ++ w1 ++ name ++ w2 ++ expr ++ w3 ++ hyp r ++ d_te d)).
  Proof.
    intros H1 H2 H3 Hst Hhn Hnl Hste Hb Hraw Hdoc. unfold match_at, block.
    rewrite (wordtag_mismatch d w_raw) by (auto using word_ok_raw).
    rewrite (wordtag_mismatch d w_doc) by (auto using word_ok_doc).
    rewrite m_comment_not by (intros; apply cs_not_ts; auto).
    unfold m_output. rewrite ss_not_ts by auto.
    rewrite m_tag_ok_gen; auto. apply lazy_close_occ; auto using te_ne, te_nsp, te_nhy.
  Qed.

  Lemma match_at_out_gen l w1 expr w2 r rest :
    all_space w1 = true -> all_space w2 = true ->
    stops (expr ++ w2 ++ hyp r ++ d_se d ++ rest) ->
    hyphen_next (expr ++ w2 ++ hyp r ++ d_se d ++ rest) = false ->
    nomatch (close (d_se d)) expr (w2 ++ hyp r ++ d_se d ++ rest) = true ->
    match_at d q (d_ss d ++ hyp l ++ w1 ++ expr ++ w2 ++ hyp r ++ d_se d ++ rest)
    = MOutput (length (d_ss d ++ hyp l ++ w1)) (length expr) r
              (length (d_ss d ++ hyp l ++ w1 ++ expr ++ w2 ++ hyp r ++ d_se d)).
  Proof.
    intros H1 H2 Hst Hhn Hb. unfold match_at, block.
    rewrite !wordtag_not_ts by (apply ts_not_ss; auto).
    rewrite m_comment_not by (intros; apply cs_not_ss; auto).
    rewrite m_output_ok_gen; auto. apply lazy_close_occ; auto using se_ne, se_nsp, se_nhy.
  Qed.

  Lemma match_at_raw_gen l1 w1 w2 r1 body l2 w3 w4 r2 rest :
    all_space w1 = true -> all_space w2 = true -> all_space w3 = true -> all_space w4 = true ->
    nomatch (wordtag d w_endraw) body (wtag d l2 w3 w_endraw w4 r2 ++ rest) = true ->
    match_at d q (wtag d l1 w1 w_raw w2 r1 ++ body ++ wtag d l2 w3 w_endraw w4 r2 ++ rest)
    = MRaw r1 r2 (length (wtag d l1 w1 w_raw w2 r1)) (length body)
           (length (wtag d l1 w1 w_raw w2 r1) + (length body + length (wtag d l2 w3 w_endraw w4 r2))).
  Proof.
    intros. unfold match_at, wtag in *. rewrite block_ok_gen by (auto using word_ok_raw, word_ok_endraw). reflexivity.
  Qed.

  Lemma match_at_doc_gen l1 w1 w2 r1 body l2 w3 w4 r2 rest :
    all_space w1 = true -> all_space w2 = true -> all_space w3 = true -> all_space w4 = true ->
    nomatch (wordtag d w_enddoc) body (wtag d l2 w3 w_enddoc w4 r2 ++ rest) = true ->
    match_at d q (wtag d l1 w1 w_doc w2 r1 ++ body ++ wtag d l2 w3 w_enddoc w4 r2 ++ rest)
    = MDoc r1 r2 (length (wtag d l1 w1 w_doc w2 r1)) (length body)
           (length (wtag d l1 w1 w_doc w2 r1) + (length body + length (wtag d l2 w3 w_enddoc w4 r2))).
  Proof.
    intros. unfold match_at.
    assert (E : block d w_raw w_endraw (wtag d l1 w1 w_doc w2 r1 ++ body ++ wtag d l2 w3 w_enddoc w4 r2 ++ rest) = None).
    { unfold block, wtag. norm_app. rewrite (wordtag_mismatch d w_raw); auto using word_ok_raw; reflexivity. }
    rewrite E. unfold wtag in *. rewrite block_ok_gen by (auto using word_ok_doc, word_ok_enddoc). reflexivity.
  Qed.

  Lemma match_at_short_gen y r rest : nonempty (d_cs d) = true ->
    nomatch (cclose (d_ce d)) y (hyp r ++ d_ce d ++ rest) = true ->
    match_at d q (d_cs d ++ y ++ hyp r ++ d_ce d ++ rest)
    = MComment (length (d_cs d)) (length y) r (length (d_cs d ++ y ++ hyp r ++ d_ce d)).
  Proof.
    intros Hcs Hy. unfold match_at, block.
    rewrite !wordtag_not_ts by (apply ts_not_cs; auto).
    rewrite m_comment_ok_gen by auto. reflexivity.
  Qed.
End ShapesOcc.

(* ---------------------------------------------------------------- texts under the occurrence guard *)
Lemma delim_at_none d s : dfacts d -> delim_at d s = None ->
  prefixb (d_ts d) s = false /\ prefixb (d_ss d) s = false /\ (nonempty (d_cs d) = true -> prefixb (d_cs d) s = false).
Proof.
  intros F. unfold delim_at. destruct (prefixb (d_ts d) s); [discriminate|].
  destruct (prefixb (d_ss d) s); [discriminate|].
  destruct (nonempty (d_cs d)); cbn [andb]; [|intros; repeat split; auto; discriminate].
  destruct (prefixb (d_cs d) s); [discriminate|]. auto.
Qed.

Lemma content_from_clean d t after h : clean d t after = true -> follows d after h ->
  nonempty (d_ts d) = true -> nonempty (d_ss d) = true ->
  content_from d false (t ++ after) = (length t, h).
Proof.
  intros Ht Hf Hts Hss. induction t as [|c t IH].
  - simpl app. destruct Hf as [[-> ->]|Hd].
    + simpl. unfold delim_at. rewrite !prefixb_nil by auto.
      destruct (nonempty (d_cs d)) eqn:E; cbn [andb]; auto. rewrite prefixb_nil; auto.
    + destruct after; simpl; rewrite Hd; reflexivity.
  - apply nomatch_cons in Ht as [H0 Ht]. simpl app in *. cbn [content_from].
    rewrite H0. cbn [andb]. rewrite IH by auto. reflexivity.
Qed.

Lemma match_at_text_occ d q c t after h : dfacts d -> q_dollar q = false ->
  clean d (c :: t) after = true -> follows d after h ->
  match_at d q ((c :: t) ++ after) = MContent (length (c :: t)) h.
Proof.
  intros F Hq Ht Hf. apply nomatch_cons in Ht as [H0 Ht].
  destruct (delim_at_none d _ F H0) as (Pts & Pss & Pcs).
  unfold match_at. unfold block. rewrite !wordtag_not_ts by exact Pts.
  rewrite m_comment_not by exact Pcs.
  unfold m_output. rewrite Pss. unfold m_tag. rewrite Pts.
  simpl app. cbn [tl]. rewrite Hq, content_from_clean with (h := h); auto; apply F.
Qed.

(* the stripped text is a piece of the text *)
Lemma rstrip_prefix x : exists w, x = rstrip_s x ++ w.
Proof.
  unfold rstrip_s. destruct (lstrip_spec (rev x)) as (w & E & _ & _).
  exists (rev w). rewrite <- rev_app_distr, <- E, rev_involutive. reflexivity.
Qed.

Lemma strip_piece a b t : exists w1 w2, t = w1 ++ strip_text a b t ++ w2.
Proof.
  unfold strip_text. destruct a.
  - destruct (lstrip_spec t) as (w & E & _ & _). destruct b.
    + destruct (rstrip_prefix (lstrip_s t)) as (w' & E'). exists w, w'. rewrite <- E'. exact E.
    + exists w, []. rewrite app_nil_r. exact E.
  - destruct b.
    + destruct (rstrip_prefix t) as (w' & E'). exists [], w'. exact E'.
    + exists [], []. rewrite app_nil_r. reflexivity.
Qed.

Lemma prefixb_app_r p v z : prefixb p v = true -> prefixb p (v ++ z) = true.
Proof.
  revert v; induction p as [|a p IH]; intros v H; [reflexivity|].
  destruct v as [|c v]; simpl in *; [discriminate|]. apply andb_true_iff in H as [H1 H2]. rewrite H1. simpl. auto.
Qed.

Lemma clean_not_markup d t after a b : dfacts d -> clean d t after = true ->
  strip_text a b t <> [] -> starts_markup d fixed (strip_text a b t) = false.
Proof.
  intros F Hc Hne. destruct (strip_piece a b t) as (w1 & w2 & E).
  set (v := strip_text a b t) in *.
  assert (Hlt : length w1 < length t).
  { pose proof (f_equal (@length N) E) as El. rewrite !app_length in El. destruct v; [congruence|]. simpl in El. lia. }
  pose proof (nomatch_at _ _ _ _ Hc Hlt) as Hn.
  rewrite E in Hn. rewrite <- !app_assoc in Hn. rewrite skipn_app_len in Hn.
  destruct (delim_at_none d _ F Hn) as (Pts & Pss & _).
  unfold starts_markup. cbn [q_brace fixed].
  destruct (prefixb (d_ss d) v) eqn:E1.
  - rewrite (prefixb_app_r _ _ (w2 ++ after) E1) in Pss. discriminate.
  - destruct (prefixb (d_ts d) v) eqn:E2; auto.
    rewrite (prefixb_app_r _ _ (w2 ++ after) E2) in Pts. discriminate.
Qed.

Lemma go_text_occ d p c t after h b ci ct : dfacts d -> clean d (c :: t) after = true -> follows d after h ->
  go d fixed 0 p ((c :: t) ++ after) (mk b ci ct)
  = map Tok (match strip_text b h (c :: t) with
             | [] => []
             | v => [{| t_kind := KContent; t_value := v; t_start := p |}]
             end)
    ++ go d fixed 0 (off p (length (c :: t))) after (mk b ci ct).
Proof.
  intros F Hp Hf. erewrite go_piece; [ | | discriminate].
  2: { erewrite step_MContent0 by (apply match_at_text_occ; eauto). reflexivity. }
  rewrite firstn_app_len. f_equal.
  pose proof (clean_not_markup d _ after b h F Hp) as Hv. destruct (strip_text b h (c :: t)) eqn:E; auto.
  cbv zeta. rewrite Hv by discriminate. reflexivity.
Qed.

Lemma renders_text_occ d p t after h b ci ct X : dfacts d -> clean d t after = true -> follows d after h ->
  (forall p', renders d p' after (mk b ci ct) X) ->
  renders d p (t ++ after) (mk b ci ct) (strip_text b h t ++ X).
Proof.
  intros F Hp Hf HX. destruct t as [|c t].
  - rewrite strip_text_nil. apply HX.
  - eapply renders_step; [ apply go_text_occ; eauto | apply piece_text | apply HX ].
Qed.

(* ---------------------------------------------------------------- markup pieces, given what follows *)
Definition markup_steps_at (d : delims) (m : markup) (rest : str) : Prop :=
  forall p b ci ct, exists toks p' ci' ct',
    go d fixed 0 p (msrc d m ++ rest) (mk b ci ct)
    = map Tok toks ++ go d fixed 0 p' rest (mk (closes m) ci' ct')
    /\ piece_ok toks (mout m).

Lemma steps_out_occ d l w1 q e w2 r rest : dfacts d -> wf_markup_occ d (MkOut l w1 q e w2 r) rest = true ->
  markup_steps_at d (MkOut l w1 q e w2 r) rest.
Proof.
  intros F H. cbn [wf_markup_occ] in H.
  apply andb_true_iff in H as [H Ht]. apply andb_true_iff in H as [H Hl]. apply andb_true_iff in H as [H Hq].
  apply andb_true_iff in H as [H1 H2].
  destruct (quote_facts q Hq) as (Q1 & Q2 & Q3 & Q4).
  intros p b ci ct. set (M := MkOut l w1 q e w2 r). set (E := q :: e ++ [q]) in *.
  assert (HM : match_at d fixed (msrc d M ++ rest)
               = MOutput (length (d_ss d ++ hyp l ++ w1)) (length E) r (length (msrc d M))).
  { unfold M. cbn [msrc]. fold E. norm_app. apply match_at_out_gen; auto. }
  assert (Hsub : sub (msrc d M ++ rest) (length (d_ss d ++ hyp l ++ w1)) (length E) = E).
  { apply sub_at with (c := w2 ++ hyp r ++ d_se d ++ rest). unfold M. cbn [msrc]. fold E. norm_app. reflexivity. }
  exists [ {| t_kind := KOutput; t_value := firstn (length (msrc d M)) (msrc d M ++ rest); t_start := p |};
           {| t_kind := KExpr; t_value := E; t_start := off p (length (d_ss d ++ hyp l ++ w1)) |} ],
         (off p (length (msrc d M))), ci, ct.
  split.
  - erewrite go_piece; [ reflexivity | erewrite step_MOutput0 by exact HM; rewrite Hsub; reflexivity | ].
    unfold M. cbn [msrc]. apply app_ne, F.
  - intros ts' Hh. split; [simpl; discriminate|].
    cbn [app render_toks t_kind t_value mout M]. unfold E. rewrite str_lit_ok by auto. reflexivity.
Qed.

Lemma steps_echo_occ d l w1 w2 q e w3 r rest : dfacts d -> wf_markup_occ d (MkEcho l w1 w2 q e w3 r) rest = true ->
  markup_steps_at d (MkEcho l w1 w2 q e w3 r) rest.
Proof.
  intros F H. cbn [wf_markup_occ] in H.
  apply andb_true_iff in H as [H Ht]. apply andb_true_iff in H as [H Hl]. apply andb_true_iff in H as [H Hq].
  apply andb_true_iff in H as [H H3]. apply andb_true_iff in H as [H1 H2].
  destruct (quote_facts q Hq) as (Q1 & Q2 & Q3 & Q4).
  intros p b ci ct. set (M := MkEcho l w1 w2 q e w3 r). set (E := q :: e ++ [q]) in *.
  assert (HM : match_at d fixed (msrc d M ++ rest)
               = MTag (length (d_ts d ++ hyp l ++ w1)) (length w_echo) (length (d_ts d ++ hyp l ++ w1 ++ w_echo ++ w2))
                      (length E) r (length (msrc d M))).
  { unfold M. cbn [msrc]. fold E. norm_app. apply match_at_tag_gen; auto; try reflexivity.
    change (name_len (w_echo ++ w2 ++ E ++ w3 ++ hyp r ++ d_te d ++ rest))
      with (word_len (w_echo ++ w2 ++ E ++ w3 ++ hyp r ++ d_te d ++ rest)).
    rewrite word_len_app by reflexivity. rewrite word_len_after_name; auto. }
  assert (Hname : sub (msrc d M ++ rest) (length (d_ts d ++ hyp l ++ w1)) (length w_echo) = w_echo).
  { apply sub_at with (c := w2 ++ E ++ w3 ++ hyp r ++ d_te d ++ rest). unfold M. cbn [msrc]. fold E. norm_app. reflexivity. }
  assert (Hsub : sub (msrc d M ++ rest) (length (d_ts d ++ hyp l ++ w1 ++ w_echo ++ w2)) (length E) = E).
  { apply sub_at with (c := w3 ++ hyp r ++ d_te d ++ rest). unfold M. cbn [msrc]. fold E. norm_app. reflexivity. }
  exists [ {| t_kind := KTag; t_value := w_echo; t_start := off p (length (d_ts d ++ hyp l ++ w1)) |};
           {| t_kind := KExpr; t_value := E; t_start := off p (length (d_ts d ++ hyp l ++ w1 ++ w_echo ++ w2)) |} ],
         (off p (length (msrc d M))), ci, ct.
  split.
  - erewrite go_piece; [ reflexivity | erewrite step_MTag0 by exact HM; rewrite Hname, Hsub; reflexivity | ].
    unfold M. cbn [msrc]. apply app_ne, F.
  - intros ts' Hh. split; [simpl; discriminate|].
    cbn [app render_toks t_kind t_value mout M]. unfold E.
    change (str_eqb w_echo w_hash) with false. change (str_eqb w_echo w_comment) with false.
    change (str_eqb w_echo w_doc) with false. change (str_eqb w_echo w_echo) with true. cbv iota.
    rewrite str_lit_ok by auto. reflexivity.
Qed.

Lemma steps_inline_occ d l w1 w2 body w3 r rest : dfacts d -> wf_markup_occ d (MkInline l w1 w2 body w3 r) rest = true ->
  markup_steps_at d (MkInline l w1 w2 body w3 r) rest.
Proof.
  intros F H. cbn [wf_markup_occ] in H.
  apply andb_true_iff in H as [H Hfn]. apply andb_true_iff in H as [H Hw3]. apply andb_true_iff in H as [H Hnl].
  apply andb_true_iff in H as [H Ht]. apply andb_true_iff in H as [H H3]. apply andb_true_iff in H as [H1 H2].
  intros p b ci ct. set (M := MkInline l w1 w2 body w3 r).
  assert (Hstop : stops (body ++ w3 ++ hyp r ++ d_te d ++ rest)).
  { destruct body as [|c body'].
    - cbn [nonempty orb negb] in Hw3. destruct w3; [|discriminate]. cbn [app]. apply stops_hyp_e; apply F.
    - simpl in Hfn. apply negb_true_iff in Hfn. simpl. exact Hfn. }
  assert (HM : match_at d fixed (msrc d M ++ rest)
               = MTag (length (d_ts d ++ hyp l ++ w1)) (length w_hash) (length (d_ts d ++ hyp l ++ w1 ++ w_hash ++ w2))
                      (length body) r (length (msrc d M))).
  { unfold M. cbn [msrc]. norm_app. apply match_at_tag_gen; auto; reflexivity. }
  assert (Hname : sub (msrc d M ++ rest) (length (d_ts d ++ hyp l ++ w1)) (length w_hash) = w_hash).
  { apply sub_at with (c := w2 ++ body ++ w3 ++ hyp r ++ d_te d ++ rest). unfold M. cbn [msrc]. norm_app. reflexivity. }
  assert (Hsub : sub (msrc d M ++ rest) (length (d_ts d ++ hyp l ++ w1 ++ w_hash ++ w2)) (length body) = body).
  { apply sub_at with (c := w3 ++ hyp r ++ d_te d ++ rest). unfold M. cbn [msrc]. norm_app. reflexivity. }
  exists ({| t_kind := KTag; t_value := w_hash; t_start := off p (length (d_ts d ++ hyp l ++ w1)) |}
          :: match length body with
             | O => []
             | _ => [ {| t_kind := KExpr; t_value := body;
                         t_start := off p (length (d_ts d ++ hyp l ++ w1 ++ w_hash ++ w2)) |} ]
             end),
         (off p (length (msrc d M))), ci, ct.
  split.
  - erewrite go_piece; [ | erewrite step_MTag0 by exact HM; rewrite Hname, Hsub; reflexivity | ].
    + destruct (length body); reflexivity.
    + unfold M. cbn [msrc]. apply app_ne, F.
  - intros ts' Hh. split; [simpl; discriminate|]. cbn [mout M]. rewrite rprepend_nil.
    destruct body as [|c body'].
    + cbn [length app render_toks t_kind t_value]. change (str_eqb w_hash w_hash) with true. cbv iota.
      destruct ts' as [|t ts'']; [reflexivity|]. simpl in Hh. destruct (t_kind t); try reflexivity. congruence.
    + cbn [length app render_toks t_kind t_value]. change (str_eqb w_hash w_hash) with true. cbv iota.
      rewrite no_nl_valid by auto. reflexivity.
Qed.

Lemma steps_raw_occ d l1 w1 w2 r1 body l2 w3 w4 r2 rest : dfacts d ->
  wf_markup_occ d (MkRaw l1 w1 w2 r1 body l2 w3 w4 r2) rest = true ->
  markup_steps_at d (MkRaw l1 w1 w2 r1 body l2 w3 w4 r2) rest.
Proof.
  intros F H. cbn [wf_markup_occ] in H.
  apply andb_true_iff in H as [H Hb]. apply andb_true_iff in H as [H H4]. apply andb_true_iff in H as [H H3].
  apply andb_true_iff in H as [H1 H2].
  intros p b ci ct. set (M := MkRaw l1 w1 w2 r1 body l2 w3 w4 r2).
  set (t1 := wtag d l1 w1 w_raw w2 r1). set (t2 := wtag d l2 w3 w_endraw w4 r2) in *.
  assert (HM : match_at d fixed (msrc d M ++ rest) = MRaw r1 r2 (length t1) (length body) (length (msrc d M))).
  { unfold M. cbn [msrc]. fold t1 t2. norm_app. unfold t1, t2 in *. rewrite match_at_raw_gen by auto.
    f_equal. rewrite !app_length. lia. }
  assert (Hsub : sub (msrc d M ++ rest) (length t1) (length body) = body).
  { apply sub_at with (c := t2 ++ rest). unfold M. cbn [msrc]. fold t1 t2. norm_app. reflexivity. }
  exists [ {| t_kind := KContent; t_value := body; t_start := p |} ], (off p (length (msrc d M))), ci, ct.
  split.
  - erewrite go_piece; [ reflexivity | erewrite step_MRaw0 by exact HM; rewrite Hsub; reflexivity | ].
    unfold M. cbn [msrc]. unfold wtag. norm_app. apply app_ne, F.
  - intros ts' Hh. split; [simpl; discriminate|]. reflexivity.
Qed.

Lemma steps_doc_occ d l1 w1 w2 r1 body l2 w3 w4 r2 rest : dfacts d ->
  wf_markup_occ d (MkDoc l1 w1 w2 r1 body l2 w3 w4 r2) rest = true ->
  markup_steps_at d (MkDoc l1 w1 w2 r1 body l2 w3 w4 r2) rest.
Proof.
  intros F H. cbn [wf_markup_occ] in H.
  apply andb_true_iff in H as [H Hb]. apply andb_true_iff in H as [H H4]. apply andb_true_iff in H as [H H3].
  apply andb_true_iff in H as [H1 H2].
  intros p b ci ct. set (M := MkDoc l1 w1 w2 r1 body l2 w3 w4 r2).
  set (t1 := wtag d l1 w1 w_doc w2 r1). set (t2 := wtag d l2 w3 w_enddoc w4 r2) in *.
  assert (HM : match_at d fixed (msrc d M ++ rest) = MDoc r1 r2 (length t1) (length body) (length (msrc d M))).
  { unfold M. cbn [msrc]. fold t1 t2. norm_app. unfold t1, t2 in *. rewrite match_at_doc_gen by auto.
    f_equal. rewrite !app_length. lia. }
  exists [ {| t_kind := KDoc; t_value := sub (msrc d M ++ rest) (length t1) (length body); t_start := p |} ],
         (off p (length (msrc d M))), ci, ct.
  split.
  - erewrite go_piece; [ reflexivity | erewrite step_MDoc0 by exact HM; reflexivity | ].
    unfold M. cbn [msrc]. unfold wtag. norm_app. apply app_ne, F.
  - intros ts' Hh. split; [simpl; discriminate|]. cbn [mout M]. rewrite rprepend_nil. reflexivity.
Qed.

Lemma steps_short_occ d l body r rest : dfacts d -> wf_markup_occ d (MkShort l body r) rest = true ->
  markup_steps_at d (MkShort l body r) rest.
Proof.
  intros F H. cbn [wf_markup_occ] in H.
  apply andb_true_iff in H as [H Hm]. apply andb_true_iff in H as [Hcs Hb].
  intros p b ci ct. set (M := MkShort l body r).
  assert (HM : match_at d fixed (msrc d M ++ rest)
               = MComment (length (d_cs d)) (length (hyp l ++ body)) r (length (msrc d M))).
  { unfold M. cbn [msrc]. norm_app. rewrite (app_assoc (hyp l) body). rewrite match_at_short_gen by auto.
    f_equal. rewrite !app_length. lia. }
  exists [ {| t_kind := KShort; t_value := sub (msrc d M ++ rest) (length (d_cs d)) (length (hyp l ++ body)); t_start := p |} ],
         (off p (length (msrc d M))), ci, ct.
  split.
  - erewrite go_piece; [ reflexivity | erewrite step_MComment0 by exact HM; reflexivity | ].
    unfold M. cbn [msrc]. apply app_ne; auto.
  - intros ts' Hh. split; [simpl; discriminate|]. cbn [mout M]. rewrite rprepend_nil. reflexivity.
Qed.

Lemma steps_comment_occ d l1 w1 w2 r1 body l2 w3 w4 r2 rest : dfacts d ->
  wf_markup_occ d (MkComment l1 w1 w2 r1 body l2 w3 w4 r2) rest = true ->
  markup_steps_at d (MkComment l1 w1 w2 r1 body l2 w3 w4 r2) rest.
Proof.
  intros F H. cbn [wf_markup_occ] in H.
  apply andb_true_iff in H as [H Hb]. apply andb_true_iff in H as [H H4]. apply andb_true_iff in H as [H H3].
  apply andb_true_iff in H as [H1 H2].
  intros p b ci ct. set (M := MkComment l1 w1 w2 r1 body l2 w3 w4 r2).
  set (t1 := wtag d l1 w1 w_comment w2 r1). set (t2 := wtag d l2 w3 w_endcomment w4 r2) in *.
  assert (HM1 : forall after, match_at d fixed (t1 ++ after)
               = MTag (length (d_ts d ++ hyp l1 ++ w1)) (length w_comment) (length (d_ts d ++ hyp l1 ++ w1 ++ w_comment ++ w2))
                      0 r1 (length t1)).
  { intros after. unfold t1, wtag. norm_app.
    pose proof (match_at_tag d fixed F l1 w1 w_comment w2 [] [] r1 after) as HT. cbn [app length] in HT.
    apply HT; auto; try reflexivity.
    - change (name_len (w_comment ++ w2 ++ hyp r1 ++ d_te d ++ after))
        with (word_len (w_comment ++ w2 ++ hyp r1 ++ d_te d ++ after)).
      rewrite word_len_app by reflexivity. rewrite word_stop; auto.
    - apply stops_hyp_e; apply F.
    - split; [reflexivity | congruence]. }
  assert (HM3 : match_at d fixed (t2 ++ rest)
               = MTag (length (d_ts d ++ hyp l2 ++ w3)) (length w_endcomment)
                      (length (d_ts d ++ hyp l2 ++ w3 ++ w_endcomment ++ w4)) 0 r2 (length t2)).
  { unfold t2, wtag. norm_app.
    pose proof (match_at_tag d fixed F l2 w3 w_endcomment w4 [] [] r2 rest) as HT. cbn [app length] in HT.
    apply HT; auto; try reflexivity.
    - change (name_len (w_endcomment ++ w4 ++ hyp r2 ++ d_te d ++ rest))
        with (word_len (w_endcomment ++ w4 ++ hyp r2 ++ d_te d ++ rest)).
      rewrite word_len_app by reflexivity. rewrite word_stop; auto.
    - apply stops_hyp_e; apply F.
    - split; [reflexivity | congruence]. }
  assert (Hn1 : forall after, sub (t1 ++ after) (length (d_ts d ++ hyp l1 ++ w1)) (length w_comment) = w_comment).
  { intros after. apply sub_at with (c := w2 ++ hyp r1 ++ d_te d ++ after). unfold t1, wtag. norm_app. reflexivity. }
  assert (Hn3 : sub (t2 ++ rest) (length (d_ts d ++ hyp l2 ++ w3)) (length w_endcomment) = w_endcomment).
  { apply sub_at with (c := w4 ++ hyp r2 ++ d_te d ++ rest). unfold t2, wtag. norm_app. reflexivity. }
  assert (Hne1 : t1 <> []). { unfold t1, wtag. apply app_ne, F. }
  assert (Hne2 : t2 <> []). { unfold t2, wtag. apply app_ne, F. }
  assert (G1 : go d fixed 0 p (msrc d M ++ rest) (mk b ci ct)
               = [Tok {| t_kind := KTag; t_value := w_comment; t_start := off p (length (d_ts d ++ hyp l1 ++ w1)) |}]
                 ++ go d fixed 0 (off p (length t1)) (body ++ t2 ++ rest) (mk1 r1 (off p (length t1)) ct)).
  { unfold M. cbn [msrc]. fold t1 t2. norm_app.
    erewrite go_piece; [ reflexivity | | exact Hne1 ].
    erewrite step_MTag0 by apply HM1. rewrite Hn1. reflexivity. }
  assert (G2 : exists ct', go d fixed 0 (off p (length t1)) (body ++ t2 ++ rest) (mk1 r1 (off p (length t1)) ct)
               = go d fixed 0 (off (off p (length t1)) (length body)) (t2 ++ rest) (mk1 r1 (off p (length t1)) ct')).
  { destruct body as [|c body'].
    - exists ct. cbn [app length]. rewrite off_0. reflexivity.
    - exists (ct ++ c :: body').
      erewrite go_piece; [ | | discriminate ].
      2: { erewrite step_MContent1.
           2: { apply match_at_text_occ with (h := l2); auto. right. unfold t2, wtag. norm_app.
                apply delim_at_ts. apply hyphen_next_space_or; auto. }
           rewrite firstn_app_len. reflexivity. }
      reflexivity. }
  destruct G2 as (ct' & G2).
  assert (G3 : forall p3 ci3, go d fixed 0 p3 (t2 ++ rest) (mk1 r1 ci3 ct')
               = [Tok {| t_kind := KComment; t_value := ct'; t_start := ci3 |};
                  Tok {| t_kind := KTag; t_value := w_endcomment; t_start := off p3 (length (d_ts d ++ hyp l2 ++ w3)) |}]
                 ++ go d fixed 0 (off p3 (length t2)) rest (mk r2 0%N [])).
  { intros p3 ci3. erewrite go_piece; [ reflexivity | | exact Hne2 ].
    erewrite step_MTag1_end; [reflexivity | exact HM3 | exact Hn3]. }
  eexists [ _; _; _ ], _, 0%N, []. split.
  - rewrite G1, G2, G3. cbn [closes M]. reflexivity.
  - intros ts' Hh. split; [simpl; discriminate|]. cbn [mout M]. rewrite rprepend_nil. reflexivity.
Qed.

Lemma markup_ok_occ d m rest : dfacts d -> wf_markup_occ d m rest = true -> markup_steps_at d m rest.
Proof.
  intros F H. destruct m.
  - apply steps_out_occ; auto.
  - apply steps_echo_occ; auto.
  - apply steps_inline_occ; auto.
  - apply steps_raw_occ; auto.
  - apply steps_doc_occ; auto.
  - apply steps_comment_occ; auto.
  - apply steps_short_occ; auto.
Qed.

Lemma follows_markup_occ d m rest : dfacts d -> wf_markup_occ d m rest = true -> follows d (msrc d m ++ rest) (opens m).
Proof.
  intros F H. right. destruct m; cbn [msrc opens wf_markup_occ] in *; unfold wtag; norm_app.
  - (* out *) split_and H. destruct (quote_facts q W1) as (_ & _ & Q3 & _).
    unfold delim_at. rewrite ts_not_ss by auto. rewrite prefixb_app, skipn_app_len.
    destruct l; cbn [hyp app]; [reflexivity|]. rewrite hyphen_next_space_or; auto.
  - (* echo *) split_and H. apply delim_at_ts. apply hyphen_next_space_or; auto.
  - (* inline *) split_and H. apply delim_at_ts. apply hyphen_next_space_or; auto.
  - (* raw *) split_and H. apply delim_at_ts. apply hyphen_next_space_or; auto.
  - (* doc *) split_and H. apply delim_at_ts. apply hyphen_next_space_or; auto.
  - (* comment *) split_and H. apply delim_at_ts. apply hyphen_next_space_or; auto.
  - (* short *) split_and H. unfold delim_at.
    rewrite ts_not_cs, ss_not_cs by auto. rewrite H, prefixb_app, skipn_app_len. cbn [andb].
    destruct l; cbn [hyp app orb] in *; [reflexivity|].
    apply negb_true_iff in W. rewrite W. reflexivity.
Qed.

(* ---------------------------------------------------------------- the whole template *)
Lemma follows_nil d : follows d [] false.
Proof. left; auto. Qed.

Lemma scan_segs_occ d : dfacts d -> forall segs tail, wf_segs_occ d segs tail = true ->
  forall p b ci ct, renders d p (build_segs d segs ++ tail) (mk b ci ct) (spec_from b segs tail).
Proof.
  intros F segs tail. induction segs as [|[t m] segs IH]; intros Hwf p b ci ct.
  - cbn [build_segs app spec_from wf_segs_occ] in *.
    rewrite <- (app_nil_r tail) at 1. rewrite <- (app_nil_r (strip_text b false tail)).
    apply renders_text_occ; auto using follows_nil. intros; apply renders_nil.
  - cbn [wf_segs_occ] in Hwf. cbv zeta in Hwf.
    apply andb_true_iff in Hwf as [Hm Hwf]. apply andb_true_iff in Hm as [Ht Hm].
    cbn [build_segs spec_from]. norm_app.
    apply renders_text_occ; auto using follows_markup_occ.
    intros p1.
    destruct (markup_ok_occ d m _ F Hm p1 b ci ct) as (toks & p2 & ci2 & ct2 & Hgo & Hpiece).
    eapply renders_step; [ exact Hgo | exact Hpiece | ]. apply IH; auto.
Qed.

(* C10 under the occurrence guard *)
Theorem whitespace_control : forall d tp, no_collision_occ d tp = true ->
  render_src d (build d tp) = ROut (spec_render tp).
Proof.
  intros d [segs tail] H. unfold no_collision_occ in H. cbn [fst snd] in H.
  apply andb_true_iff in H as [Hd Hwf].
  pose proof (d_ok_facts d Hd) as F.
  destruct (scan_segs_occ d F segs tail Hwf 0%N false 0%N []) as (ts & H1 & _ & H3).
  unfold render_src, tokenize, tokenize_q, scan, build, spec_render. cbn [fst snd].
  change ls0 with (mk false 0%N []). rewrite H1. exact H3.
Qed.

(* C11 part 1 under the occurrence guard *)
Theorem delimiter_equivariance_occ : forall d1 d2 tp,
  no_collision_occ d1 tp = true -> no_collision_occ d2 tp = true ->
  render_src d1 (build d1 tp) = render_src d2 (build d2 tp).
Proof. intros. rewrite !whitespace_control; auto. Qed.

(* ---------------------------------------------------------------- the alphabet guard is a special case *)
Lemma plain_clean d t after : dfacts d -> plain d t = true -> clean d t after = true.
Proof.
  intros F. induction t as [|c t IH]; intros H; [reflexivity|].
  simpl in H. apply andb_true_iff in H as [Hc Ht]. unfold clean in *. cbn [nomatch]. simpl app.
  rewrite plain_not_delim by auto. cbn [is_some negb andb]. auto.
Qed.

Lemma body_ok_nomatch e y z :
  nonempty e = true -> is_space (hd0 e) = false -> N.eqb (hd0 e) hy = false ->
  body_ok e y -> nomatch (close e) y z = true.
Proof.
  intros E1 E2 E3 Hy. apply nomatch_intro. intros j Hj. rewrite skipn_app_lt by lia.
  destruct (body_ok_suffix e y j Hj Hy) as [Hne Hok]. apply close_none; auto.
Qed.

Lemma cbody_ok_nomatch e y z : nonempty e = true -> cbody_ok e y -> nomatch (cclose e) y z = true.
Proof.
  intros E1 Hy. apply nomatch_intro. intros j Hj. rewrite skipn_app_lt by lia.
  destruct (cbody_ok_suffix e y j Hj Hy) as [Hne Hok]. apply cclose_none; auto.
Qed.

Lemma no_ts_nomatch d w body z : dfacts d ->
  forallb (fun c => negb (N.eqb c (hd0 (d_ts d)))) body = true -> nomatch (wordtag d w) body z = true.
Proof.
  intros F. induction body as [|c body IH]; intros H; [reflexivity|].
  simpl in H. apply andb_true_iff in H as [Hc Hb]. apply negb_true_iff in Hc. cbn [nomatch]. simpl app.
  rewrite wordtag_not_ts; [cbn [is_some negb andb]; auto|].
  apply prefixb_hd_neq. apply F. intro E. rewrite E, N.eqb_refl in Hc. discriminate.
Qed.

Lemma wf_markup_occ_of_wf d m rest : dfacts d -> wf_markup d m = true -> wf_markup_occ d m rest = true.
Proof.
  intros F H. destruct m; cbn [wf_markup wf_markup_occ] in *.
  - split_and H. rewrite H, W2, W1, W0. cbn [andb].
    destruct (tight_facts _ _ W) as (Hb & _ & _). apply body_ok_nomatch; auto using se_ne, se_nsp, se_nhy.
  - split_and H. rewrite H, W3, W2, W1, W0. cbn [andb].
    destruct (tight_facts _ _ W) as (Hb & _ & _). apply body_ok_nomatch; auto using te_ne, te_nsp, te_nhy.
  - split_and H. rewrite H, W3, W2, W0, W. cbn [andb].
    destruct (tight_facts _ _ W1) as (Hb & _ & Hhd).
    rewrite body_ok_nomatch by (auto using te_ne, te_nsp, te_nhy). cbn [andb].
    destruct body as [|c body']; [reflexivity|]. pose proof (Hhd ltac:(discriminate)) as Hc. cbn [hd0] in Hc.
    cbn [nonempty orb first_nonspace andb]. rewrite Hc. reflexivity.
  - split_and H. rewrite H, W2, W1, W0. cbn [andb]. apply no_ts_nomatch; auto.
  - split_and H. rewrite H, W2, W1, W0. cbn [andb]. apply no_ts_nomatch; auto.
  - split_and H. rewrite H, W2, W1, W0. cbn [andb]. apply plain_clean; auto.
  - split_and H. rewrite H. cbn [andb]. pose proof (ce_nhy d F) as Hce. destruct (cs_facts d F H) as (Hcene & _).
    assert (Hy : cbody_ok (d_ce d) (hyp l ++ body)).
    { split.
      - rewrite forallb_app, W0, andb_true_r. destruct l; cbn [hyp forallb]; auto.
        rewrite N.eqb_sym, Hce. reflexivity.
      - destruct body as [|c body'].
        + apply andb_true_iff in W as [Hl _]. apply negb_true_iff in Hl. subst l. cbn [hyp app]. congruence.
        + intros _. apply andb_true_iff in W as [_ Hlast]. apply negb_true_iff in Hlast.
          rewrite last0_app_cons. exact Hlast. }
    rewrite cbody_ok_nomatch by auto. cbn [andb].
    destruct l; [reflexivity|]. cbn [orb]. apply negb_true_iff.
    destruct body as [|c body'].
    + apply andb_true_iff in W as [_ Wr]. apply negb_true_iff in Wr. subst r. cbn [hyp app].
      destruct (d_ce d); cbn [nonempty hd0 app hyphen_next] in *; [discriminate|]. exact Hce.
    + apply andb_true_iff in W as [Wc _]. apply negb_true_iff in Wc. cbn [app hyphen_next]. exact Wc.
Qed.

Lemma wf_segs_occ_of_wf d segs tail : dfacts d -> wf_segs d segs = true -> plain d tail = true ->
  wf_segs_occ d segs tail = true.
Proof.
  intros F. induction segs as [|[t m] segs IH]; intros Hwf Htail; cbn [wf_segs_occ].
  - apply plain_clean; auto.
  - cbn [wf_segs forallb fst snd] in Hwf. apply andb_true_iff in Hwf as [Hm Hwf].
    apply andb_true_iff in Hm as [Ht Hm]. cbv zeta.
    rewrite plain_clean, wf_markup_occ_of_wf by auto. cbn [andb]. apply IH; auto.
Qed.

(* every template admitted by the alphabet guard is admitted by the occurrence guard *)
Theorem no_collision_occ_of_alphabet : forall d tp, no_collision d tp = true -> no_collision_occ d tp = true.
Proof.
  intros d [segs tail] H. unfold no_collision in H. cbn [fst snd] in H.
  apply andb_true_iff in H as [H Htail]. apply andb_true_iff in H as [Hd Hwf].
  unfold no_collision_occ. cbn [fst snd]. rewrite Hd. cbn [andb].
  apply wf_segs_occ_of_wf; auto. apply d_ok_facts; auto.
Qed.

(* ... so the earlier theorem is a corollary *)
Corollary whitespace_control_alphabet : forall d tp, no_collision d tp = true ->
  render_src d (build d tp) = ROut (spec_render tp).
Proof. intros. apply whitespace_control. apply no_collision_occ_of_alphabet; auto. Qed.

(* a local reading of the text guard: what [clean] demands, position by position *)
Lemma clean_spec d t after : clean d t after = true <->
  (forall j, j < length t -> delim_at d (skipn j (t ++ after)) = None).
Proof.
  split.
  - intros H j Hj. apply nomatch_at; auto.
  - apply nomatch_intro.
Qed.

(* text verbatim, under the occurrence guard: any text in which no opening delimiter occurs *)
Lemma text_verbatim_occ d t : d_ok d = true -> clean d t [] = true -> render_src d t = ROut t.
Proof.
  intros Hd Ht. change t with (build d ([], t)) at 1.
  rewrite whitespace_control; [reflexivity|]. unfold no_collision_occ. cbn [fst snd wf_segs_occ]. rewrite Hd, Ht. reflexivity.
Qed.

Lemma one_markup_occ d t1 m t2 : no_collision_occ d ([(t1, m)], t2) = true ->
  render_src d (t1 ++ msrc d m ++ t2)
  = ROut (strip_text false (opens m) t1 ++ mout m ++ strip_text (closes m) false t2).
Proof.
  intros H. pose proof (whitespace_control d ([(t1, m)], t2) H) as E.
  unfold build, spec_render in E. cbn [fst snd build_segs spec_from] in E.
  rewrite <- !app_assoc, app_nil_l in E. cbn [app] in E. exact E.
Qed.

Lemma raw_verbatim_occ d t1 l1 w1 w2 r1 body l2 w3 w4 r2 t2 :
  no_collision_occ d ([(t1, MkRaw l1 w1 w2 r1 body l2 w3 w4 r2)], t2) = true ->
  render_src d (t1 ++ msrc d (MkRaw l1 w1 w2 r1 body l2 w3 w4 r2) ++ t2)
  = ROut (strip_text false l1 t1 ++ body ++ strip_text r2 false t2).
Proof. intros H. apply (one_markup_occ d t1 _ t2 H). Qed.

Lemma comments_silent_occ d t1 m t2 : silent m = true -> no_collision_occ d ([(t1, m)], t2) = true ->
  render_src d (t1 ++ msrc d m ++ t2) = ROut (strip_text false (opens m) t1 ++ strip_text (closes m) false t2).
Proof. intros Hs H. rewrite (one_markup_occ d t1 m t2 H). destruct m; try discriminate; reflexivity. Qed.
