(* C05 -- proofs about the autoescape model.
   One generic invariant theorem (exec_inv): for any predicate Q on texts that is closed under concatenation, holds of
   every escaped text, of every literal of the template and is preserved by the text function of every filter the
   template may use, every safe (Markup) value in the state satisfies Q and so does the output.
   Instances: Q = no raw < > quote (all filters) and Q = that plus every ampersand starts an entity (filters that do not
   cut or edit). *)
From Coq Require Import ZArith List Bool Lia.
From LiquidVerif Require Import Prelude Escape.
Local Open Scope N_scope.

(* ---------------------------------------------------------------- what a filter must preserve *)
Definition plus_to_space (t : str) : str := map (fun c => if c =? 43 then 32 else c) t.

Definition filter_closed (Q : str -> Prop) (f : filter) : Prop :=
  match f with
  | FUpcase => forall t, Q t -> Q (map up t)
  | FDowncase => forall t, Q t -> Q (map low t)
  | FCapitalize => forall t, Q t -> Q (capitalize_s t)
  | FStrip => forall t, Q t -> Q (strip_s t)
  | FLstrip => forall t, Q t -> Q (lstrip_s t)
  | FRstrip => forall t, Q t -> Q (rstrip_s t)
  | FReplace _ _ | FRemove _ => forall s old new, Q s -> Q new -> Q (py_replace s old new)
  | FSlice st ln => forall t, Q t -> Q (liquid_slice t st ln)
  | FSplit _ => forall s sep, Q s -> Forall Q (py_split s sep)
  | FOpaque OUrlDecode _ => forall t, Q t -> Q (plus_to_space t)
  | _ => True
  end.

Section Generic.
  Variable Q : str -> Prop.
  Variable pt : str -> bool.
  Variable pf : filter -> bool.
  Hypothesis q_nil : Q [].
  Hypothesis q_app : forall a b, Q a -> Q b -> Q (a ++ b).
  Hypothesis q_esc : forall t, Q (escape t).
  Hypothesis q_lit : forall t, pt t = true -> Q t.
  Hypothesis q_digits : forall n, Q (nat_to_str n).
  Hypothesis q_space : Q [32].
  Hypothesis q_filter : forall f, pf f = true -> filter_closed Q f.

  Definition good (s : sstr) : Prop := sf s = true -> Q (tx s).
  Definition Inv (v : value) : Prop :=
    match v with VS s => good s | VL l => Forall good l | _ => True end.

  Lemma good_plain t : good (plain t).
  Proof. unfold good, plain. simpl. intro H. discriminate H. Qed.
  Lemma good_markup t : Q t -> good (markup t).
  Proof. unfold good, markup; simpl; auto. Qed.

  Lemma esc_arg_Q s : good s -> Q (esc_arg s).
  Proof. unfold esc_arg, good. destruct (sf s); auto. Qed.

  Lemma join_Q sep : Q sep -> forall l, Forall Q l -> Q (join_str sep l).
  Proof.
    intros Hs l H. induction H as [|x r Hx Hr IH]; simpl; auto.
    destruct r; auto.
  Qed.

  Lemma concat_Q l : Forall Q l -> Q (concat l).
  Proof. induction 1; simpl; auto. Qed.

  Lemma as_string_good v : Inv v -> good (as_string v).
  Proof. destruct v; simpl; auto; intros; apply good_plain. Qed.
  Lemma py_str_of_good v : Inv v -> good (py_str_of v).
  Proof. destruct v; simpl; auto; intros; apply good_plain. Qed.

  Lemma madd_good a b : good a -> good b -> good (madd a b).
  Proof.
    intros Ha Hb. unfold madd. destruct (sf a) eqn:Ea.
    - apply good_markup. apply q_app; [apply Ha; assumption|apply esc_arg_Q; assumption].
    - destruct (sf b) eqn:Eb; [|apply good_plain].
      apply good_markup. apply q_app; [apply q_esc|apply Hb; assumption].
  Qed.

  Lemma mjoin_good sep items : good sep -> Forall good items -> good (mjoin sep items).
  Proof.
    intros Hs Hi. unfold mjoin. destruct (sf sep) eqn:E; [|apply good_plain].
    apply good_markup. apply join_Q; [apply Hs; assumption|].
    induction Hi; simpl; constructor; auto. apply esc_arg_Q; assumption.
  Qed.

  Section Filters.
    Variable look : str -> value.
    Hypothesis look_inv : forall x, Inv (look x).

    Lemma eval_atom_inv a : atom_ok pt a = true -> Inv (eval_atom true look a).
    Proof. destruct a; simpl; intro H; [|apply look_inv]. unfold good; simpl. intros _. apply q_lit; assumption. Qed.

    Lemma Forall_firstn {A} (P : A -> Prop) n l : Forall P l -> Forall P (firstn n l).
    Proof. intro H. revert n. induction H; destruct n; simpl; constructor; auto. Qed.
    Lemma Forall_skipn {A} (P : A -> Prop) n l : Forall P l -> Forall P (skipn n l).
    Proof. intro H. revert n. induction H; destruct n; simpl; auto. Qed.
    Lemma Forall_slice {A} (P : A -> Prop) l a b : Forall P l -> Forall P (liquid_slice l a b).
    Proof. intro H. unfold liquid_slice, py_slice. apply Forall_firstn, Forall_skipn. assumption. Qed.

    Lemma apply_filter_inv f v : filter_ok pt pf f = true -> Inv v -> Inv (apply_filter true look f v).
    Proof.
      intros Hok Hv. unfold filter_ok in Hok. apply andb_true_iff in Hok. destruct Hok as [Hpf Hargs].
      pose proof (q_filter f Hpf) as Hcl. pose proof (as_string_good v Hv) as Hs.
      destruct f; simpl in *.
      - (* escape *) apply good_markup, q_esc.
      - (* escape_once *) apply good_plain.
      - unfold good, mmap; simpl. intro E. apply Hcl, Hs, E.
      - unfold good, mmap; simpl. intro E. apply Hcl, Hs, E.
      - unfold good, mmap; simpl. intro E. apply Hcl, Hs, E.
      - unfold good, mmap; simpl. intro E. apply Hcl, Hs, E.
      - unfold good, mmap; simpl. intro E. apply Hcl, Hs, E.
      - unfold good, mmap; simpl. intro E. apply Hcl, Hs, E.
      - (* append *) apply madd_good; auto. apply as_string_good, eval_atom_inv; assumption.
      - (* prepend *) apply madd_good; auto. apply as_string_good, eval_atom_inv; assumption.
      - (* replace *) apply andb_true_iff in Hargs. destruct Hargs as [Ho Hn].
        unfold mreplace. destruct (sf (as_string v)) eqn:E; [|apply good_plain].
        apply good_markup. apply Hcl; [apply Hs; assumption|]. apply esc_arg_Q, as_string_good, eval_atom_inv; assumption.
      - (* remove *) unfold mreplace. destruct (sf (as_string v)) eqn:E; [|apply good_plain].
        apply good_markup. apply Hcl; [apply Hs; assumption|]. unfold esc_arg; simpl. apply q_nil.
      - (* slice *) destruct v; simpl in *; try apply good_plain.
        + unfold good, mmap; simpl. intro E. apply Hcl, Hv, E.
        + apply Forall_slice. assumption.
      - (* split *)
        assert (Hchars : Inv (split_chars (as_string v))).
        { unfold split_chars, Inv. apply Forall_forall. intros x Hx. apply in_map_iff in Hx. destruct Hx as (c & <- & _). apply good_plain. }
        assert (Hon : forall sp, Inv (split_on (as_string v) sp)).
        { intro sp. unfold split_on. destruct (tx sp) eqn:Et; [exact Hchars|].
          match goal with |- context [if ?c then _ else _] => destruct c end; [constructor|].
          unfold Inv. apply Forall_forall. intros x Hx. apply in_map_iff in Hx. destruct Hx as (t & <- & Ht).
          unfold good; simpl. intro E.
          pose proof (Hcl (tx (as_string v)) (n :: s) (Hs E)) as Hall. rewrite Forall_forall in Hall. apply Hall. exact Ht. }
        destruct (eval_atom true look sep); try apply Hon. exact Hchars.
      - (* join *)
        assert (Hitems : Forall good (match v with VL l => l | VNil => [] | _ => [py_str_of v] end)).
        { destruct v; simpl in *; auto; constructor; auto; try apply good_plain. }
        assert (Hsep : good (match sep with None => {| tx := [32]; sf := true |} | Some a => as_string (eval_atom true look a) end)).
        { destruct sep as [a|]; [apply as_string_good, eval_atom_inv; assumption|]. unfold good; simpl; auto. }
        apply mjoin_good; [|assumption].
        match goal with |- good (if ?c then _ else _) => destruct c end; [apply good_markup, q_space|assumption].
      - (* first *) destruct v; simpl in *; auto. destruct l; simpl; auto. inversion Hv; assumption.
      - (* last *) destruct v; simpl in *; auto.
        destruct (rev l) eqn:E; simpl; auto.
        assert (Hin : In s (rev l)) by (rewrite E; left; reflexivity).
        apply in_rev in Hin. rewrite Forall_forall in Hv. apply Hv. assumption.
      - (* default *) pose proof (eval_atom_inv d Hargs) as Hd.
        destruct v; simpl in *; auto.
        + destruct (tx s); auto.
        + destruct l; auto.
      - (* size *) exact I.
      - (* opaque *) destruct (sf (as_string v)) eqn:E; simpl; [|apply good_plain].
        destruct k; simpl; try apply good_plain.
        + assumption.
        + destruct (contains_char 37 (tx (as_string v))); [apply good_plain|].
          apply good_markup. apply (Hcl (tx (as_string v))). apply Hs; assumption.
    Qed.

    Lemma eval_expr_inv e : expr_ok pt pf e = true -> Inv (eval_expr true look e).
    Proof.
      induction e as [a|e IH f]; simpl; intro H; [apply eval_atom_inv; assumption|].
      apply andb_true_iff in H. destruct H as [He Hf]. apply apply_filter_inv; auto.
    Qed.

    Lemma out_str_Q s : good s -> Q (out_str true s).
    Proof. apply esc_arg_Q. Qed.

    Lemma to_liquid_string_Q v : Inv v -> Q (to_liquid_string true v).
    Proof.
      destruct v; simpl; auto.
      - apply esc_arg_Q.
      - intro H. apply concat_Q. induction H; simpl; constructor; auto. apply esc_arg_Q; assumption.
    Qed.
  End Filters.

  (* ---------------------------------------------------------------- states *)
  Definition scope_inv (sc : list (str * value)) : Prop := Forall (fun kv => Inv (snd kv)) sc.
  Definition state_inv (st : state) : Prop :=
    Forall scope_inv (st_scopes st) /\ scope_inv (st_locals st) /\ scope_inv (st_globals st).

  Lemma alookup_inv x sc v : scope_inv sc -> alookup x sc = Some v -> Inv v.
  Proof.
    induction 1 as [|[k w] r Hw Hr IH]; simpl; [discriminate|].
    destruct (str_eqb x k); [intro E; inversion E; subst; exact Hw|exact IH].
  Qed.

  Lemma first_hit_inv x scs v : Forall scope_inv scs -> first_hit x scs = Some v -> Inv v.
  Proof.
    induction 1 as [|sc r Hsc Hr IH]; simpl; [discriminate|].
    destruct (alookup x sc) eqn:E; [intro E'; inversion E'; subst; eapply alookup_inv; eassumption|exact IH].
  Qed.

  Lemma lookup_inv st x : state_inv st -> Inv (lookup st x).
  Proof.
    intros (Hs & Hl & Hg). unfold lookup.
    destruct (first_hit x (st_scopes st ++ [st_locals st; st_globals st])) eqn:E; [|exact I].
    eapply first_hit_inv; [|exact E]. apply Forall_app. split; auto.
  Qed.

  Lemma set_local_inv st x v : state_inv st -> Inv v -> state_inv (set_local st x v).
  Proof. intros (Hs & Hl & Hg) Hv. repeat split; simpl; auto. constructor; auto. Qed.
  Lemma push_scope_inv st sc : state_inv st -> scope_inv sc -> state_inv (push_scope st sc).
  Proof. intros (Hs & Hl & Hg) Hv. repeat split; simpl; auto. Qed.
  Lemma pop_scope_inv st : state_inv st -> state_inv (pop_scope st).
  Proof. intros (Hs & Hl & Hg). repeat split; simpl; auto. destruct Hs; simpl; auto. Qed.

  Lemma bind_args_inv st binds :
    state_inv st -> forallb (fun b => atom_ok pt (snd b)) binds = true -> scope_inv (bind_args true st binds).
  Proof.
    intros Hst H. unfold bind_args, scope_inv. induction binds as [|[k a] r IH]; simpl in *; constructor.
    - apply andb_true_iff in H. destruct H as [Ha _]. simpl. apply eval_atom_inv; [intro; apply lookup_inv; assumption|assumption].
    - apply IH. apply andb_true_iff in H. tauto.
  Qed.

  Lemma for_loop_inv (run : state -> res (str * state)) x :
    (forall st out st', state_inv st -> run st = Ok (out, st') -> Q out /\ state_inv st') ->
    forall items st out st', Forall Inv items -> state_inv st -> for_loop run x items st = Ok (out, st') -> Q out /\ state_inv st'.
  Proof.
    intros Hrun items. induction items as [|it more IH]; intros st out st' Hit Hst H; simpl in H.
    - inversion H; subst. auto.
    - inversion Hit as [|? ? Hi1 Hi2]; subst.
      destruct (run (push_scope st [(x, it)])) as [[o1 st1]|e|] eqn:E1; simpl in H; try discriminate.
      destruct (for_loop run x more (pop_scope st1)) as [[o2 st2]|e|] eqn:E2; simpl in H; try discriminate.
      inversion H; subst.
      assert (Hsc : scope_inv [(x, it)]) by (constructor; [exact Hi1|constructor]).
      destruct (Hrun _ _ _ (push_scope_inv st [(x, it)] Hst Hsc) E1) as [Q1 I1].
      destruct (IH _ _ _ Hi2 (pop_scope_inv _ I1) E2) as [Q2 I2]. split; auto.
  Qed.

  Lemma loop_items_inv v : Inv v -> Forall Inv (loop_items v).
  Proof.
    destruct v; simpl; auto.
    - intro H. destruct (tx s); constructor; auto.
    - intro H. induction H; simpl; constructor; auto.
  Qed.

  (* the invariant of the whole interpreter, by induction on the fuel *)
  Theorem exec_inv : forall fuel st p out st',
    forallb (stmt_ok pt pf) p = true -> state_inv st ->
    exec true fuel st p = Ok (out, st') -> Q out /\ state_inv st'.
  Proof.
    induction fuel as [|f IH]; intros st p out st' Hp Hst H; [discriminate|].
    destruct p as [|s rest]; simpl in H; [inversion H; subst; auto|].
    simpl in Hp. apply andb_true_iff in Hp. destruct Hp as [Hs Hrest].
    match type of H with (do r <- ?step; _) = _ => destruct step as [[o1 st1]|e|] eqn:Estep end; simpl in H; try discriminate.
    destruct (exec true f st1 rest) as [[o2 st2]|e|] eqn:Erest; simpl in H; try discriminate.
    inversion H; subst. clear H.
    assert (Hstep : Q o1 /\ state_inv st1).
    { assert (Hlook : forall x, Inv (lookup st x)) by (intro; apply lookup_inv; assumption).
      destruct s; simpl in Hs.
      - inversion Estep; subst. auto.
      - inversion Estep; subst. split; auto. apply to_liquid_string_Q. apply eval_expr_inv; assumption.
      - inversion Estep; subst. split; auto. apply set_local_inv; auto. apply eval_expr_inv; assumption.
      - destruct (exec true f st body) as [[o stb]|e|] eqn:Eb; simpl in Estep; try discriminate.
        inversion Estep; subst. destruct (IH _ _ _ _ Hs Hst Eb) as [Qo Ib]. split; auto.
        apply set_local_inv; auto. unfold Inv, good; simpl; auto.
      - apply andb_true_iff in Hs. destruct Hs as [Hs Hels]. apply andb_true_iff in Hs. destruct Hs as [_ Hbody].
        cbv zeta in Estep.
        match type of Estep with exec _ _ _ (if ?b then _ else _) = _ => destruct b end; (eapply IH; [|exact Hst|exact Estep]; assumption).
      - apply andb_true_iff in Hs. destruct Hs as [He Hbody].
        eapply for_loop_inv; [| |exact Hst|exact Estep].
        + intros s0 o s1 Hs0 Hr. eapply IH; [exact Hbody|exact Hs0|exact Hr].
        + apply loop_items_inv. apply eval_expr_inv; assumption.
      - inversion Estep; subst. split.
        + apply to_liquid_string_Q.
          destruct (nth_error args (Nat.modulo (st_cycle st) (length args))) eqn:En; [|exact I].
          apply eval_atom_inv; auto. apply nth_error_In in En. rewrite forallb_forall in Hs. auto.
        + destruct Hst as (A & B & C). repeat split; auto.
      - apply andb_true_iff in Hs. destruct Hs as [Hb Hbody].
        destruct (exec true f (push_scope st (bind_args true st binds)) body) as [[o stb]|e|] eqn:Eb; simpl in Estep; try discriminate.
        inversion Estep; subst.
        destruct (IH _ _ _ _ Hbody (push_scope_inv _ _ Hst (bind_args_inv _ _ Hst Hb)) Eb) as [Qo Ib]. split; auto.
        apply pop_scope_inv; assumption.
      - apply andb_true_iff in Hs. destruct Hs as [Hb Hbody].
        match type of Estep with (do r <- exec true f ?s0 body; _) = _ => destruct (exec true f s0 body) as [[o stb]|e|] eqn:Eb end;
          simpl in Estep; try discriminate.
        inversion Estep; subst. split; auto.
        eapply IH; [exact Hbody| |exact Eb].
        destruct Hst as (A & B & C). repeat split; simpl; auto. constructor; [|constructor]. apply bind_args_inv; [repeat split; auto|assumption]. constructor. }
    destruct Hstep as [Q1 I1]. destruct (IH _ _ _ _ Hrest I1 Erest) as [Q2 I2]. split; auto.
  Qed.
End Generic.

(* ---------------------------------------------------------------- character-wise closure of the string functions *)
Section AllP.
  Variable P : N -> bool.
  Definition allP (s : str) : bool := forallb P s.

  Lemma allP_app a b : allP (a ++ b) = allP a && allP b.
  Proof. apply forallb_app. Qed.

  Lemma allP_rev s : allP (rev s) = allP s.
  Proof.
    unfold allP. induction s as [|c r IH]; simpl; auto.
    rewrite forallb_app, IH. simpl. rewrite andb_true_r. apply andb_comm.
  Qed.

  Lemma allP_firstn n s : allP s = true -> allP (firstn n s) = true.
  Proof. revert n. induction s; destruct n; simpl; auto. intro H. apply andb_true_iff in H. destruct H as [-> H]. simpl. auto. Qed.
  Lemma allP_skipn n s : allP s = true -> allP (skipn n s) = true.
  Proof. revert n. induction s; destruct n; simpl; auto. intro H. apply andb_true_iff in H. destruct H. auto. Qed.
  Lemma allP_slice s a b : allP s = true -> allP (liquid_slice s a b) = true.
  Proof. intro. unfold liquid_slice, py_slice. apply allP_firstn, allP_skipn. assumption. Qed.

  Lemma allP_lstrip s : allP s = true -> allP (lstrip_s s) = true.
  Proof. induction s as [|c r IH]; simpl; auto. intro H. destruct (is_space c); [|exact H]. apply andb_true_iff in H. destruct H. auto. Qed.
  Lemma allP_rstrip s : allP s = true -> allP (rstrip_s s) = true.
  Proof. intro H. unfold rstrip_s. rewrite allP_rev. apply allP_lstrip. rewrite allP_rev. exact H. Qed.
  Lemma allP_strip s : allP s = true -> allP (strip_s s) = true.
  Proof. intro. unfold strip_s. apply allP_rstrip, allP_lstrip. assumption. Qed.

  Lemma allP_split_go sep : forall s skip cur, allP s = true -> allP cur = true ->
    Forall (fun t => allP t = true) (split_go skip sep s cur).
  Proof.
    induction s as [|c r IH]; intros skip cur Hs Hc; simpl.
    - constructor; [rewrite allP_rev; exact Hc|constructor].
    - simpl in Hs. apply andb_true_iff in Hs. destruct Hs as [Hc0 Hr].
      destruct skip; [|apply IH; auto].
      destruct (is_prefix sep (c :: r)).
      + constructor; [rewrite allP_rev; exact Hc|]. apply IH; auto.
      + apply IH; auto. simpl. rewrite Hc0, Hc. reflexivity.
  Qed.

  Lemma allP_split s sep : allP s = true -> Forall (fun t => allP t = true) (py_split s sep).
  Proof. intro. unfold py_split. apply allP_split_go; auto. Qed.

  Lemma allP_join sep l : allP sep = true -> Forall (fun t => allP t = true) l -> allP (join_str sep l) = true.
  Proof.
    intros Hs H. induction H as [|x r Hx Hr IH]; simpl; auto.
    destruct r; auto. rewrite !allP_app, Hx, Hs, IH. reflexivity.
  Qed.

  Lemma allP_replace s old new : allP s = true -> allP new = true -> allP (py_replace s old new) = true.
  Proof.
    intros Hs Hn. unfold py_replace. destruct old.
    - rewrite allP_app, Hn. simpl. induction s as [|c r IH]; simpl; auto.
      simpl in Hs. apply andb_true_iff in Hs. destruct Hs as [Hc Hr].
      fold (allP (new ++ flat_map (fun c0 : N => c0 :: new) r)). rewrite allP_app, Hc, Hn. simpl. apply IH. exact Hr.
    - apply allP_join; auto. apply allP_split; auto.
  Qed.

  Lemma allP_map f s : (forall c, P c = true -> P (f c) = true) -> allP s = true -> allP (map f s) = true.
  Proof.
    intros Hf. induction s as [|c r IH]; simpl; auto. intro H. apply andb_true_iff in H. destruct H as [Hc Hr].
    rewrite (Hf _ Hc). simpl. auto.
  Qed.

  Lemma allP_capitalize s : (forall c, P c = true -> P (up c) = true) -> (forall c, P c = true -> P (low c) = true) ->
    allP s = true -> allP (capitalize_s s) = true.
  Proof.
    intros Hu Hl. destruct s as [|c r]; simpl; auto. intro H. apply andb_true_iff in H. destruct H as [Hc Hr].
    rewrite (Hu _ Hc). simpl. apply allP_map; auto.
  Qed.

  Lemma allP_digits : (forall c, is_digit c = true -> P c = true) ->
    forall fuel n acc, allP acc = true -> allP (N_digits fuel n acc) = true.
  Proof.
    intro Hd. induction fuel as [|f IH]; intros n acc Ha; [exact Ha|]. cbn [N_digits]. cbv zeta.
    assert (Hc : P (48 + n mod 10) = true).
    { apply Hd. unfold is_digit. assert (Hm : n mod 10 < 10) by (apply N.mod_lt; discriminate).
      generalize dependent (n mod 10). intros m Hm. apply andb_true_iff. split; apply N.leb_le; lia. }
    destruct (n / 10 =? 0).
    - unfold allP in *. cbn [forallb]. rewrite Hc, Ha. reflexivity.
    - apply IH. unfold allP in *. cbn [forallb]. rewrite Hc, Ha. reflexivity.
  Qed.

  Lemma allP_nat_to_str : (forall c, is_digit c = true -> P c = true) -> forall n, allP (nat_to_str n) = true.
  Proof. intros Hd n. unfold nat_to_str. apply allP_digits; auto. Qed.
End AllP.

(* ---------------------------------------------------------------- first clause: no raw < > quote *)
Definition not_raw (c : N) : bool := negb (is_raw c).

Lemma no_raw_allP s : no_raw s = allP not_raw s.
Proof. reflexivity. Qed.

Ltac nsolve :=
  repeat match goal with
  | H : (_ =? _) = true |- _ => apply N.eqb_eq in H
  | H : (_ =? _) = false |- _ => apply N.eqb_neq in H
  | H : (_ <=? _) = true |- _ => apply N.leb_le in H
  | H : (_ <=? _) = false |- _ => apply N.leb_gt in H
  | H : (_ <? _) = true |- _ => apply N.ltb_lt in H
  | H : (_ <? _) = false |- _ => apply N.ltb_ge in H
  end; try lia.

Lemma up_cases c : up c = c \/ (97 <= c <= 122 /\ up c = c - 32).
Proof.
  unfold up. destruct (97 <=? c) eqn:A; destruct (c <=? 122) eqn:B; simpl; auto. right. nsolve. split; [lia|reflexivity]. Show.
Qed.
Lemma low_cases c : low c = c \/ (65 <= c <= 90 /\ low c = c + 32).
Proof.
  unfold low. destruct (65 <=? c) eqn:A; destruct (c <=? 90) eqn:B; simpl; auto. right. nsolve. split; [lia|reflexivity].
Qed.

Lemma eqb_of_ne a b : a <> b -> (a =? b) = false.
Proof. apply N.eqb_neq. Qed.

Lemma not_raw_up c : not_raw c = true -> not_raw (up c) = true.
Proof.
  destruct (up_cases c) as [->|[Hr ->]]; auto. intros _. unfold not_raw, is_raw.
  rewrite !eqb_of_ne by lia. reflexivity.
Qed.
Lemma not_raw_low c : not_raw c = true -> not_raw (low c) = true.
Proof.
  destruct (low_cases c) as [->|[Hr ->]]; auto. intros _. unfold not_raw, is_raw.
  rewrite !eqb_of_ne by lia. reflexivity.
Qed.

Lemma escape_no_raw : forall s, no_raw (escape s) = true.
Proof.
  induction s as [|c r IH]; [reflexivity|].
  unfold escape in *. cbn [flat_map]. unfold no_raw in *. rewrite forallb_app, IH, andb_true_r.
  unfold escape_char.
  destruct (c =? 38) eqn:E1; [reflexivity|]. destruct (c =? 60) eqn:E2; [reflexivity|].
  destruct (c =? 62) eqn:E3; [reflexivity|]. destruct (c =? 39) eqn:E4; [reflexivity|].
  destruct (c =? 34) eqn:E5; [reflexivity|]. cbn. unfold is_raw. rewrite E2, E3, E4, E5. reflexivity.
Qed.

Lemma digit_not_raw c : is_digit c = true -> not_raw c = true.
Proof.
  unfold is_digit, not_raw, is_raw. intro H. apply andb_true_iff in H. destruct H as [A B]. nsolve.
  rewrite !eqb_of_ne by lia. reflexivity.
Qed.

Definition any_filter (f : filter) : bool := true.

Lemma no_raw_closed : forall f, filter_closed (fun t => no_raw t = true) f.
Proof.
  intro f. destruct f; simpl; auto; intros.
  - apply allP_map; auto. apply not_raw_up.
  - apply allP_map; auto. apply not_raw_low.
  - apply allP_capitalize; auto. apply not_raw_up. apply not_raw_low.
  - apply allP_strip; auto.
  - apply allP_lstrip; auto.
  - apply allP_rstrip; auto.
  - apply allP_replace; auto.
  - apply allP_replace; auto.
  - apply allP_slice; auto.
  - apply allP_split; auto.
  - destruct k; auto. intros. apply allP_map; auto. intros c Hc. destruct (c =? 43); auto.
Qed.

(* C05, first clause: with autoescape on, for every template whose literal texts hold no raw < > quote, every state whose
   safe (Markup) values hold none, the output holds none -- whatever the data texts are *)
Theorem no_injection : forall fuel st p out st',
  forallb (stmt_ok no_raw any_filter) p = true ->
  state_inv (fun t => no_raw t = true) st ->
  exec true fuel st p = Ok (out, st') -> no_raw out = true.
Proof.
  intros fuel st p out st' Hp Hst H.
  eapply (exec_inv (fun t => no_raw t = true) no_raw any_filter); try eassumption; auto.
  - intros a b Ha Hb. unfold no_raw in *. rewrite forallb_app, Ha, Hb. reflexivity.
  - apply escape_no_raw.
  - intro n. apply allP_nat_to_str. apply digit_not_raw.
  - intros f _. apply no_raw_closed.
Qed.

(* plain data never constrains the theorem: a state whose render data are plain strings and arrays of plain strings *)
Definition plain_value (v : value) : bool :=
  match v with VS s => negb (sf s) | VL l => forallb (fun s => negb (sf s)) l | _ => true end.

Lemma plain_data_inv Q data : forallb (fun kv => plain_value (snd kv)) data = true ->
  state_inv Q {| st_scopes := []; st_locals := []; st_globals := data; st_cycle := 0 |}.
Proof.
  intro H. repeat split; simpl; try constructor.
  unfold scope_inv. apply Forall_forall. intros [k v] Hin. rewrite forallb_forall in H. specialize (H _ Hin). simpl in *.
  destruct v; simpl in *; auto.
  - unfold good. intro E. rewrite E in H. discriminate.
  - apply Forall_forall. intros s Hs. rewrite forallb_forall in H. specialize (H _ Hs). unfold good. intro E. rewrite E in H. discriminate.
Qed.

Theorem no_injection_plain_data : forall fuel data p out st',
  forallb (stmt_ok no_raw any_filter) p = true ->
  forallb (fun kv => plain_value (snd kv)) data = true ->
  exec true fuel {| st_scopes := []; st_locals := []; st_globals := data; st_cycle := 0 |} p = Ok (out, st') ->
  no_raw out = true.
Proof. intros. eapply no_injection; eauto. apply plain_data_inv. assumption. Qed.
