(* C05 -- proofs about the autoescape model.
   One generic invariant theorem (exec_inv): for any predicate Q on texts that is closed under concatenation, holds of
   every escaped text, of every literal of the template and is preserved by the text function of every filter the
   template may use, every safe (Markup) value in the state satisfies Q and so does the output.
   Instances: Q = no raw < > quote (all filters) and Q = that plus every ampersand starts an entity (filters that do not
   cut or edit). *)
From Coq Require Import ZArith List Bool Lia.
From LiquidVerif Require Import Prelude Escape.
Local Open Scope N_scope.

(* ---------------------------------------------------------------- what a filter must preserve *)
Definition plus_to_space (t : str) : str := map (fun c => if c =? 43 then 32 else c) t.

Definition filter_closed (Q : str -> Prop) (f : filter) : Prop :=
  match f with
  | FUpcase => forall t, Q t -> Q (map up t)
  | FDowncase => forall t, Q t -> Q (map low t)
  | FCapitalize => forall t, Q t -> Q (capitalize_s t)
  | FStrip => forall t, Q t -> Q (strip_s t)
  | FLstrip => forall t, Q t -> Q (lstrip_s t)
  | FRstrip => forall t, Q t -> Q (rstrip_s t)
  | FReplace _ _ | FRemove _ => forall s old new, Q s -> Q new -> Q (py_replace s old new)
  | FSlice st ln => forall t, Q t -> Q (liquid_slice t st ln)
  | FSplit _ => forall s sep, Q s -> Forall Q (py_split s sep)
  | FOpaque OUrlDecode _ => forall t, Q t -> Q (plus_to_space t)
  | FTrans _ _ _ _ => forall r t, Q t -> (forall k, Q (r k)) -> Q (format_message r t)
  | _ => True
  end.

Section Generic.
  Variable Q : str -> Prop.
  Variable pt : str -> bool.
  Variable pf : filter -> bool.
  Hypothesis q_nil : Q [].
  Hypothesis q_app : forall a b, Q a -> Q b -> Q (a ++ b).
  Hypothesis q_esc : forall t, Q (escape t).
  Hypothesis q_lit : forall t, pt t = true -> Q t.
  Hypothesis q_digits : forall n, Q (nat_to_str n).
  Hypothesis q_space : Q [32].
  Hypothesis q_filter : forall f, pf f = true -> filter_closed Q f.

  Definition good (s : sstr) : Prop := sf s = true -> Q (tx s).
  Definition Inv (v : value) : Prop :=
    match v with VS s => good s | VL l => Forall good l | _ => True end.

  Lemma good_plain t : good (plain t).
  Proof. unfold good, plain. simpl. intro H. discriminate H. Qed.
  Lemma good_markup t : Q t -> good (markup t).
  Proof. unfold good, markup; simpl; auto. Qed.

  Lemma esc_arg_Q s : good s -> Q (esc_arg s).
  Proof. unfold esc_arg, good. destruct (sf s); auto. Qed.

  Lemma join_Q sep : Q sep -> forall l, Forall Q l -> Q (join_str sep l).
  Proof.
    intros Hs l H. induction H as [|x r Hx Hr IH]; simpl; auto.
    destruct r; auto.
  Qed.

  Lemma concat_Q l : Forall Q l -> Q (concat l).
  Proof. induction 1; simpl; auto. Qed.

  Lemma as_string_good v : Inv v -> good (as_string v).
  Proof. destruct v; simpl; auto; intros; apply good_plain. Qed.
  Lemma py_str_of_good v : Inv v -> good (py_str_of v).
  Proof. destruct v; simpl; auto; intros; apply good_plain. Qed.

  Lemma madd_good a b : good a -> good b -> good (madd a b).
  Proof.
    intros Ha Hb. unfold madd. destruct (sf a) eqn:Ea.
    - apply good_markup. apply q_app; [apply Ha; assumption|apply esc_arg_Q; assumption].
    - destruct (sf b) eqn:Eb; [|apply good_plain].
      apply good_markup. apply q_app; [apply q_esc|apply Hb; assumption].
  Qed.

  Lemma mjoin_good sep items : good sep -> Forall good items -> good (mjoin sep items).
  Proof.
    intros Hs Hi. unfold mjoin. destruct (sf sep) eqn:E; [|apply good_plain].
    apply good_markup. apply join_Q; [apply Hs; assumption|].
    induction Hi; simpl; constructor; auto. apply esc_arg_Q; assumption.
  Qed.

  Section Filters.
    Variable look : str -> value.
    Hypothesis look_inv : forall x, Inv (look x).

    Lemma eval_atom_inv a : atom_ok pt a = true -> Inv (eval_atom true look a).
    Proof. destruct a; simpl; intro H; [|apply look_inv]. unfold good; simpl. intros _. apply q_lit; assumption. Qed.

    Lemma Forall_firstn {A} (P : A -> Prop) n l : Forall P l -> Forall P (firstn n l).
    Proof. intro H. revert n. induction H; destruct n; simpl; constructor; auto. Qed.
    Lemma Forall_skipn {A} (P : A -> Prop) n l : Forall P l -> Forall P (skipn n l).
    Proof. intro H. revert n. induction H; destruct n; simpl; auto. Qed.
    Lemma Forall_slice {A} (P : A -> Prop) l a b : Forall P l -> Forall P (liquid_slice l a b).
    Proof. intro H. unfold liquid_slice, py_slice. apply Forall_firstn, Forall_skipn. assumption. Qed.

    Lemma out_str_Q s : good s -> Q (out_str true s).
    Proof. apply esc_arg_Q. Qed.

    Lemma to_liquid_string_Q v : Inv v -> Q (to_liquid_string true v).
    Proof.
      destruct v; simpl; auto.
      - apply esc_arg_Q.
      - intro H. apply concat_Q. induction H; simpl; constructor; auto. apply esc_arg_Q; assumption.
    Qed.

    (* registered by hand, the value a translation filter is applied to is trusted: it is a template literal, hence a Markup *)
    Definition trusted (f : filter) (v : value) : Prop :=
      match f with FTrans _ false _ _ => exists s, v = VS s /\ sf s = true | _ => True end.

    Lemma tr_left_Q aem v : Inv v -> (aem = false -> exists s, v = VS s /\ sf s = true) -> Q (tr_left true aem v).
    Proof.
      intros Hv Ht. unfold tr_left. destruct aem; simpl.
      - apply to_liquid_string_Q. assumption.
      - destruct (Ht eq_refl) as (s & -> & Hs). simpl. unfold out_str. apply Hv. assumption.
    Qed.

    Lemma tr_plural_Q k aem a : atom_ok pt a = true -> (aem = false -> is_lit a = true) -> Q (tr_plural true look TrCurrent k aem a).
    Proof.
      intros Ha Hl. unfold tr_plural. destruct aem; simpl.
      - apply to_liquid_string_Q. apply eval_atom_inv. assumption.
      - specialize (Hl eq_refl). destruct a; [|discriminate]. simpl. unfold out_str; simpl. apply q_lit. assumption.
    Qed.

    Lemma tr_resolve_Q aem kw name : forallb (fun b => atom_ok pt (snd b)) kw = true -> Q (tr_resolve true look TrCurrent aem kw name).
    Proof.
      intro Hkw. unfold tr_resolve. apply to_liquid_string_Q.
      destruct (alookup name (tr_kwv true look kw)) eqn:E; [|apply look_inv].
      unfold tr_kwv in E. induction kw as [|[k a] r IH]; simpl in *; [discriminate|].
      apply andb_true_iff in Hkw. destruct Hkw as [Ha Hr].
      destruct (str_eqb name k); [inversion E; subst; apply eval_atom_inv; assumption|auto].
    Qed.

    Lemma alookup_forallb {A} (P : A -> bool) x (l : list (str * A)) v :
      forallb (fun b => P (snd b)) l = true -> alookup x l = Some v -> P v = true.
    Proof.
      induction l as [|[k a] r IH]; simpl; [discriminate|]. intros H E. apply andb_true_iff in H. destruct H as [Ha Hr].
      destruct (str_eqb x k); [inversion E; subst; exact Ha|auto].
    Qed.

    Lemma alookup_plural_lit (kw : list (str * atom)) pl :
      forallb (fun b => is_lit (snd b) || negb (str_eqb (fst b) [112; 108; 117; 114; 97; 108])) kw = true ->
      alookup s_plural kw = Some pl -> is_lit pl = true.
    Proof.
      induction kw as [|[k a] r IH]; [discriminate|]. intros H E. cbn [forallb fst snd] in H. apply andb_true_iff in H. destruct H as [Ha Hr].
      cbn [alookup] in E. destruct (str_eqb s_plural k) eqn:Ek.
      - injection E as Epl. subst pl. apply str_eqb_eq in Ek. subst k. unfold s_plural in Ha. rewrite str_eqb_refl in Ha.
        destruct (is_lit a); [reflexivity|discriminate Ha].
      - auto.
    Qed.

    Lemma tr_text_Q k aem args kw v t :
      Inv v -> (aem = false -> exists s, v = VS s /\ sf s = true) ->
      forallb (atom_ok pt) args = true -> forallb (fun b => atom_ok pt (snd b)) kw = true ->
      (aem = false -> msg_args_lit k args = true /\
                      forallb (fun b => is_lit (snd b) || negb (str_eqb (fst b) [112; 108; 117; 114; 97; 108])) kw = true) ->
      tr_text true look TrCurrent k aem args kw v = Some t -> Q t.
    Proof.
      intros Hv Ht Hargs Hkw Hlit H.
      pose proof (tr_left_Q aem v Hv Ht) as HL.
      assert (Hpick : forall pl n, atom_ok pt pl = true -> (aem = false -> is_lit pl = true) -> Q (tr_pick true look TrCurrent k aem v pl n)).
      { intros pl n Hp Hpl. unfold tr_pick. destruct (Nat.eqb n 1); [exact HL|apply tr_plural_Q; assumption]. }
      assert (Ht_text : Q (tr_t_text true look TrCurrent aem kw v)).
      { unfold tr_t_text. destruct (alookup s_plural kw) as [pl|] eqn:Epl; [|exact HL].
        destruct (t_count _); [|exact HL]. destruct (eval_atom true look pl); try exact HL;
        (unfold tr_pick; destruct (Nat.eqb n 1); [exact HL|]; apply tr_plural_Q;
         [apply (alookup_forallb (atom_ok pt) s_plural kw pl Hkw Epl)|intro E; destruct (Hlit E) as [_ Hk]; eapply alookup_plural_lit; eassumption]). }
      unfold tr_text in H.
      destruct k; destruct args as [|a1 [|a2 [|a3 [|a4 r]]]]; try discriminate H; simpl in Hargs;
        repeat (apply andb_true_iff in Hargs; destruct Hargs as [? Hargs]);
        try (inversion H; subst; assumption).
      - destruct (count_arg _); [|discriminate]. inversion H; subst. apply Hpick; auto. intro E. destruct (Hlit E) as [Hm _]. exact Hm.
      - destruct (count_arg _); [|discriminate]. inversion H; subst. apply Hpick; auto. intro E. destruct (Hlit E) as [Hm _]. exact Hm.
    Qed.

    Lemma apply_filter_inv f v : filter_ok pt pf f = true -> Inv v -> trusted f v -> Inv (apply_filter true look f v).
    Proof.
      intros Hok Hv Htr. unfold filter_ok in Hok. apply andb_true_iff in Hok. destruct Hok as [Hpf Hargs].
      pose proof (q_filter f Hpf) as Hcl. pose proof (as_string_good v Hv) as Hs.
      destruct f; simpl in *.
      - (* escape *) apply good_markup, q_esc.
      - (* escape_once *) apply good_plain.
      - unfold good, mmap; simpl. intro E. apply Hcl, Hs, E.
      - unfold good, mmap; simpl. intro E. apply Hcl, Hs, E.
      - unfold good, mmap; simpl. intro E. apply Hcl, Hs, E.
      - unfold good, mmap; simpl. intro E. apply Hcl, Hs, E.
      - unfold good, mmap; simpl. intro E. apply Hcl, Hs, E.
      - unfold good, mmap; simpl. intro E. apply Hcl, Hs, E.
      - (* append *) apply madd_good; auto. apply as_string_good, eval_atom_inv; assumption.
      - (* prepend *) apply madd_good; auto. apply as_string_good, eval_atom_inv; assumption.
      - (* replace *) apply andb_true_iff in Hargs. destruct Hargs as [Ho Hn].
        unfold mreplace. destruct (sf (as_string v)) eqn:E; [|apply good_plain].
        apply good_markup. apply Hcl; [apply Hs; assumption|]. apply esc_arg_Q, as_string_good, eval_atom_inv; assumption.
      - (* remove *) unfold mreplace. destruct (sf (as_string v)) eqn:E; [|apply good_plain].
        apply good_markup. apply Hcl; [apply Hs; assumption|]. unfold esc_arg; simpl. apply q_nil.
      - (* slice *) destruct v; simpl in *; try apply good_plain.
        + unfold good, mmap; simpl. intro E. apply Hcl, Hv, E.
        + apply Forall_slice. assumption.
      - (* split *)
        assert (Hchars : Inv (split_chars (as_string v))).
        { unfold split_chars, Inv. apply Forall_forall. intros x Hx. apply in_map_iff in Hx. destruct Hx as (c & <- & _). apply good_plain. }
        assert (Hon : forall sp, Inv (split_on (as_string v) sp)).
        { intro sp. unfold split_on. destruct (tx sp) eqn:Et; [exact Hchars|].
          match goal with |- context [if ?c then _ else _] => destruct c end; [constructor|].
          unfold Inv. apply Forall_forall. intros x Hx. apply in_map_iff in Hx. destruct Hx as (t & <- & Ht).
          unfold good; simpl. intro E.
          pose proof (Hcl (tx (as_string v)) (n :: s) (Hs E)) as Hall. rewrite Forall_forall in Hall. apply Hall. exact Ht. }
        destruct (eval_atom true look sep); try apply Hon. exact Hchars.
      - (* join *)
        assert (Hitems : Forall good (match v with VL l => l | VNil => [] | _ => [py_str_of v] end)).
        { destruct v; simpl in *; auto; constructor; auto; try apply good_plain. }
        assert (Hsep : good (match sep with None => {| tx := [32]; sf := true |} | Some a => as_string (eval_atom true look a) end)).
        { destruct sep as [a|]; [apply as_string_good, eval_atom_inv; assumption|]. unfold good; simpl; auto. }
        apply mjoin_good; [|assumption].
        match goal with |- good (if ?c then _ else _) => destruct c end; [apply good_markup, q_space|assumption].
      - (* first *) destruct v; simpl in *; auto. destruct l; simpl; auto. inversion Hv; assumption.
      - (* last *) destruct v; simpl in *; auto.
        destruct (rev l) eqn:E; simpl; auto.
        assert (Hin : In s (rev l)) by (rewrite E; left; reflexivity).
        apply in_rev in Hin. rewrite Forall_forall in Hv. apply Hv. assumption.
      - (* default *) pose proof (eval_atom_inv d Hargs) as Hd.
        destruct v; simpl in *; auto.
        + destruct (tx s); auto.
        + destruct l; auto.
      - (* size *) exact I.
      - (* translation filters *)
        apply andb_true_iff in Hargs. destruct Hargs as [Hargs Hlit]. apply andb_true_iff in Hargs. destruct Hargs as [Hargs Hkw].
        unfold trans_apply. destruct (tr_text true look TrCurrent k aem args kw v) as [t|] eqn:Et; [|exact I].
        unfold Inv, good; simpl. intros _. apply Hcl.
        + eapply tr_text_Q; try eassumption.
          * intro E. subst aem. exact Htr.
          * intro E. subst aem. simpl in Hlit. apply andb_true_iff in Hlit. exact Hlit.
        + intro name. apply tr_resolve_Q. assumption.
      - (* opaque *) destruct (sf (as_string v)) eqn:E; simpl; [|apply good_plain].
        destruct k; simpl; try apply good_plain.
        + assumption.
        + destruct (contains_char 37 (tx (as_string v))); [apply good_plain|].
          apply good_markup. apply (Hcl (tx (as_string v))). apply Hs; assumption.
    Qed.

    Lemma eval_expr_inv e : expr_ok pt pf e = true -> Inv (eval_expr true look e).
    Proof.
      induction e as [a|e IH f]; simpl; intro H; [apply eval_atom_inv; assumption|].
      apply andb_true_iff in H. destruct H as [H Hin]. apply andb_true_iff in H. destruct H as [He Hf]. apply apply_filter_inv; auto.
      unfold trusted. destruct f; auto. destruct aem; auto. simpl in Hin. destruct e as [[s|x]|]; try discriminate. simpl. eexists; split; reflexivity.
    Qed.

  End Filters.

  (* ---------------------------------------------------------------- states *)
  Definition scope_inv (sc : list (str * value)) : Prop := Forall (fun kv => Inv (snd kv)) sc.
  Definition state_inv (st : state) : Prop :=
    Forall scope_inv (st_scopes st) /\ scope_inv (st_locals st) /\ scope_inv (st_globals st).

  Lemma alookup_inv x sc v : scope_inv sc -> alookup x sc = Some v -> Inv v.
  Proof.
    induction 1 as [|[k w] r Hw Hr IH]; simpl; [discriminate|].
    destruct (str_eqb x k); [intro E; inversion E; subst; exact Hw|exact IH].
  Qed.

  Lemma first_hit_inv x scs v : Forall scope_inv scs -> first_hit x scs = Some v -> Inv v.
  Proof.
    induction 1 as [|sc r Hsc Hr IH]; simpl; [discriminate|].
    destruct (alookup x sc) eqn:E; [intro E'; inversion E'; subst; eapply alookup_inv; eassumption|exact IH].
  Qed.

  Lemma lookup_inv st x : state_inv st -> Inv (lookup st x).
  Proof.
    intros (Hs & Hl & Hg). unfold lookup.
    destruct (first_hit x (st_scopes st ++ [st_locals st; st_globals st])) eqn:E; [|exact I].
    eapply first_hit_inv; [|exact E]. apply Forall_app. split; auto.
  Qed.

  Lemma set_local_inv st x v : state_inv st -> Inv v -> state_inv (set_local st x v).
  Proof. intros (Hs & Hl & Hg) Hv. repeat split; simpl; auto. constructor; auto. Qed.
  Lemma push_scope_inv st sc : state_inv st -> scope_inv sc -> state_inv (push_scope st sc).
  Proof. intros (Hs & Hl & Hg) Hv. repeat split; simpl; auto. Qed.
  Lemma pop_scope_inv st : state_inv st -> state_inv (pop_scope st).
  Proof. intros (Hs & Hl & Hg). repeat split; simpl; auto. destruct Hs; simpl; auto. Qed.

  Lemma bind_args_inv st binds :
    state_inv st -> forallb (fun b => atom_ok pt (snd b)) binds = true -> scope_inv (bind_args true st binds).
  Proof.
    intros Hst H. unfold bind_args, scope_inv. induction binds as [|[k a] r IH]; simpl in *; constructor.
    - apply andb_true_iff in H. destruct H as [Ha _]. simpl. apply eval_atom_inv; [intro; apply lookup_inv; assumption|assumption].
    - apply IH. apply andb_true_iff in H. tauto.
  Qed.

  Lemma for_loop_inv (run : state -> res (str * state)) x :
    (forall st out st', state_inv st -> run st = Ok (out, st') -> Q out /\ state_inv st') ->
    forall items st out st', Forall Inv items -> state_inv st -> for_loop run x items st = Ok (out, st') -> Q out /\ state_inv st'.
  Proof.
    intros Hrun items. induction items as [|it more IH]; intros st out st' Hit Hst H; simpl in H.
    - inversion H; subst. auto.
    - inversion Hit as [|? ? Hi1 Hi2]; subst.
      destruct (run (push_scope st [(x, it)])) as [[o1 st1]|e|] eqn:E1; simpl in H; try discriminate.
      destruct (for_loop run x more (pop_scope st1)) as [[o2 st2]|e|] eqn:E2; simpl in H; try discriminate.
      inversion H; subst.
      assert (Hsc : scope_inv [(x, it)]) by (constructor; [exact Hi1|constructor]).
      destruct (Hrun _ _ _ (push_scope_inv st [(x, it)] Hst Hsc) E1) as [Q1 I1].
      destruct (IH _ _ _ Hi2 (pop_scope_inv _ I1) E2) as [Q2 I2]. split; auto.
  Qed.

  Lemma loop_items_inv v : Inv v -> Forall Inv (loop_items v).
  Proof.
    destruct v; simpl; auto.
    - intro H. destruct (tx s); constructor; auto.
    - intro H. induction H; simpl; constructor; auto.
  Qed.

  (* the invariant of the whole interpreter, by induction on the fuel *)
  Theorem exec_inv : forall fuel st p out st',
    forallb (stmt_ok pt pf) p = true -> state_inv st ->
    exec true fuel st p = Ok (out, st') -> Q out /\ state_inv st'.
  Proof.
    induction fuel as [|f IH]; intros st p out st' Hp Hst H; [discriminate|].
    destruct p as [|s rest]; simpl in H; [inversion H; subst; auto|].
    simpl in Hp. apply andb_true_iff in Hp. destruct Hp as [Hs Hrest].
    match type of H with (do r <- ?step; _) = _ => destruct step as [[o1 st1]|e|] eqn:Estep end; simpl in H; try discriminate.
    destruct (exec true f st1 rest) as [[o2 st2]|e|] eqn:Erest; simpl in H; try discriminate.
    inversion H; subst. clear H.
    assert (Hstep : Q o1 /\ state_inv st1).
    { assert (Hlook : forall x, Inv (lookup st x)) by (intro; apply lookup_inv; assumption).
      destruct s; simpl in Hs.
      - (* translate tag *)
        apply andb_true_iff in Hs. destruct Hs as [Hs Hpl]. apply andb_true_iff in Hs. destruct Hs as [Hb Hsing].
        cbv zeta in Estep. injection Estep as Eo Est. rewrite <- Eo, <- Est. clear Eo Est. split; [|assumption].
        set (st1' := push_scope st (bind_args true st binds)).
        assert (Hst1 : state_inv st1') by (apply push_scope_inv; [assumption|apply bind_args_inv; assumption]).
        assert (Hseg : forall m, forallb (fun g => match g with MText t => pt t | MVar _ => true end) m = true ->
                       Q (concat (map (fun g => match g with MText t => t | MVar x => to_liquid_string true (lookup st1' x) end) m))).
        { intros m Hm. apply concat_Q. induction m as [|g r IHm]; simpl in *; constructor.
          - apply andb_true_iff in Hm. destruct Hm as [Hg _]. destruct g; [apply q_lit; assumption|].
            apply to_liquid_string_Q. apply lookup_inv. assumption.
          - apply IHm. apply andb_true_iff in Hm. tauto. }
        destruct plural as [p0|]; [|apply Hseg; assumption].
        match goal with |- context [if ?c then _ else _] => destruct c end; apply Hseg; assumption.
      - inversion Estep; subst. auto.
      - inversion Estep; subst. split; auto. apply to_liquid_string_Q. apply eval_expr_inv; assumption.
      - inversion Estep; subst. split; auto. apply set_local_inv; auto. apply eval_expr_inv; assumption.
      - destruct (exec true f st body) as [[o stb]|e|] eqn:Eb; simpl in Estep; try discriminate.
        inversion Estep; subst. destruct (IH _ _ _ _ Hs Hst Eb) as [Qo Ib]. split; auto.
        apply set_local_inv; auto. unfold Inv, good; simpl; auto.
      - apply andb_true_iff in Hs. destruct Hs as [Hs Hels]. apply andb_true_iff in Hs. destruct Hs as [_ Hbody].
        cbv zeta in Estep.
        match type of Estep with exec _ _ _ (if ?b then _ else _) = _ => destruct b end; (eapply IH; [|exact Hst|exact Estep]; assumption).
      - apply andb_true_iff in Hs. destruct Hs as [He Hbody].
        eapply for_loop_inv; [| |exact Hst|exact Estep].
        + intros s0 o s1 Hs0 Hr. eapply IH; [exact Hbody|exact Hs0|exact Hr].
        + apply loop_items_inv. apply eval_expr_inv; assumption.
      - inversion Estep; subst. split.
        + apply to_liquid_string_Q.
          destruct (nth_error args (Nat.modulo (st_cycle st) (length args))) eqn:En; [|exact I].
          apply eval_atom_inv; auto. apply nth_error_In in En. rewrite forallb_forall in Hs. auto.
        + destruct Hst as (A & B & C). repeat split; auto.
      - apply andb_true_iff in Hs. destruct Hs as [Hb Hbody].
        destruct (exec true f (push_scope st (bind_args true st binds)) body) as [[o stb]|e|] eqn:Eb; simpl in Estep; try discriminate.
        inversion Estep; subst.
        destruct (IH _ _ _ _ Hbody (push_scope_inv _ _ Hst (bind_args_inv _ _ Hst Hb)) Eb) as [Qo Ib]. split; auto.
        apply pop_scope_inv; assumption.
      - apply andb_true_iff in Hs. destruct Hs as [Hb Hbody].
        match type of Estep with (do r <- exec true f ?s0 body; _) = _ => destruct (exec true f s0 body) as [[o stb]|e|] eqn:Eb end;
          simpl in Estep; try discriminate.
        inversion Estep; subst. split; auto.
        eapply IH; [exact Hbody| |exact Eb].
        destruct Hst as (A & B & C). repeat split; simpl; auto. constructor; [|constructor]. apply bind_args_inv; [repeat split; auto|assumption]. constructor. }
    destruct Hstep as [Q1 I1]. destruct (IH _ _ _ _ Hrest I1 Erest) as [Q2 I2]. split; auto.
  Qed.
End Generic.

(* ---------------------------------------------------------------- character-wise closure of the string functions *)
Section AllP.
  Variable P : N -> bool.
  Definition allP (s : str) : bool := forallb P s.

  Lemma allP_app a b : allP (a ++ b) = allP a && allP b.
  Proof. apply forallb_app. Qed.

  Lemma allP_rev s : allP (rev s) = allP s.
  Proof.
    unfold allP. induction s as [|c r IH]; simpl; auto.
    rewrite forallb_app, IH. simpl. rewrite andb_true_r. apply andb_comm.
  Qed.

  Lemma allP_firstn n s : allP s = true -> allP (firstn n s) = true.
  Proof. revert n. induction s; destruct n; simpl; auto. intro H. apply andb_true_iff in H. destruct H as [-> H]. simpl. auto. Qed.
  Lemma allP_skipn n s : allP s = true -> allP (skipn n s) = true.
  Proof. revert n. induction s; destruct n; simpl; auto. intro H. apply andb_true_iff in H. destruct H. auto. Qed.
  Lemma allP_slice s a b : allP s = true -> allP (liquid_slice s a b) = true.
  Proof. intro. unfold liquid_slice, py_slice. apply allP_firstn, allP_skipn. assumption. Qed.

  Lemma allP_lstrip s : allP s = true -> allP (lstrip_s s) = true.
  Proof. induction s as [|c r IH]; simpl; auto. intro H. destruct (is_space c); [|exact H]. apply andb_true_iff in H. destruct H. auto. Qed.
  Lemma allP_rstrip s : allP s = true -> allP (rstrip_s s) = true.
  Proof. intro H. unfold rstrip_s. rewrite allP_rev. apply allP_lstrip. rewrite allP_rev. exact H. Qed.
  Lemma allP_strip s : allP s = true -> allP (strip_s s) = true.
  Proof. intro. unfold strip_s. apply allP_rstrip, allP_lstrip. assumption. Qed.

  Lemma allP_split_go sep : forall s skip cur, allP s = true -> allP cur = true ->
    Forall (fun t => allP t = true) (split_go skip sep s cur).
  Proof.
    induction s as [|c r IH]; intros skip cur Hs Hc; simpl.
    - constructor; [rewrite allP_rev; exact Hc|constructor].
    - simpl in Hs. apply andb_true_iff in Hs. destruct Hs as [Hc0 Hr].
      destruct skip; [|apply IH; auto].
      destruct (is_prefix sep (c :: r)).
      + constructor; [rewrite allP_rev; exact Hc|]. apply IH; auto.
      + apply IH; auto. simpl. rewrite Hc0, Hc. reflexivity.
  Qed.

  Lemma allP_split s sep : allP s = true -> Forall (fun t => allP t = true) (py_split s sep).
  Proof. intro. unfold py_split. apply allP_split_go; auto. Qed.

  Lemma allP_join sep l : allP sep = true -> Forall (fun t => allP t = true) l -> allP (join_str sep l) = true.
  Proof.
    intros Hs H. induction H as [|x r Hx Hr IH]; simpl; auto.
    destruct r; auto. rewrite !allP_app, Hx, Hs, IH. reflexivity.
  Qed.

  Lemma allP_replace s old new : allP s = true -> allP new = true -> allP (py_replace s old new) = true.
  Proof.
    intros Hs Hn. unfold py_replace. destruct old.
    - rewrite allP_app, Hn. simpl. induction s as [|c r IH]; simpl; auto.
      simpl in Hs. apply andb_true_iff in Hs. destruct Hs as [Hc Hr].
      fold (allP (new ++ flat_map (fun c0 : N => c0 :: new) r)). rewrite allP_app, Hc, Hn. simpl. apply IH. exact Hr.
    - apply allP_join; auto. apply allP_split; auto.
  Qed.

  Lemma allP_map f s : (forall c, P c = true -> P (f c) = true) -> allP s = true -> allP (map f s) = true.
  Proof.
    intros Hf. induction s as [|c r IH]; simpl; auto. intro H. apply andb_true_iff in H. destruct H as [Hc Hr].
    rewrite (Hf _ Hc). simpl. auto.
  Qed.

  Lemma allP_capitalize s : (forall c, P c = true -> P (up c) = true) -> (forall c, P c = true -> P (low c) = true) ->
    allP s = true -> allP (capitalize_s s) = true.
  Proof.
    intros Hu Hl. destruct s as [|c r]; simpl; auto. intro H. apply andb_true_iff in H. destruct H as [Hc Hr].
    rewrite (Hu _ Hc). simpl. apply allP_map; auto.
  Qed.

  Lemma allP_digits : (forall c, is_digit c = true -> P c = true) ->
    forall fuel n acc, allP acc = true -> allP (N_digits fuel n acc) = true.
  Proof.
    intro Hd. induction fuel as [|f IH]; intros n acc Ha; [exact Ha|]. cbn [N_digits]. cbv zeta.
    assert (Hc : P (48 + n mod 10) = true).
    { apply Hd. unfold is_digit. assert (Hm : n mod 10 < 10) by (apply N.mod_lt; discriminate).
      generalize dependent (n mod 10). intros m Hm. apply andb_true_iff. split; apply N.leb_le; lia. }
    destruct (n / 10 =? 0).
    - unfold allP in *. cbn [forallb]. rewrite Hc, Ha. reflexivity.
    - apply IH. unfold allP in *. cbn [forallb]. rewrite Hc, Ha. reflexivity.
  Qed.

  Lemma allP_span f : forall n s, allP s = true -> allP (snd (span_upto f n s)) = true.
  Proof.
    induction n as [|n IH]; intros s H; simpl; auto. destruct s as [|c r]; auto.
    destruct (f c); [|exact H]. simpl in H. apply andb_true_iff in H. destruct H as [_ Hr].
    specialize (IH r Hr). destruct (span_upto f n r). exact IH.
  Qed.

  Lemma allP_placeholder s nm rest : allP s = true -> placeholder s = Some (nm, rest) -> allP rest = true.
  Proof.
    intros H E. unfold placeholder in E. pose proof (allP_span is_word (length s) s H) as Hs.
    destruct (span_upto is_word (length s) s) as [a b]. simpl in Hs.
    destruct a; [discriminate|]. destruct b as [|c1 [|c2 b']]; try discriminate.
    destruct ((c1 =? 41) && (c2 =? 115)); [|discriminate]. inversion E; subst.
    simpl in Hs. apply andb_true_iff in Hs. destruct Hs as [_ Hs]. apply andb_true_iff in Hs. tauto.
  Qed.

  Lemma allP_fmt_go r : (forall k, allP (r k) = true) -> forall fuel prev s, allP s = true -> allP (fmt_go r fuel prev s) = true.
  Proof.
    intro Hr. induction fuel as [|f IH]; intros prev s H; [exact H|].
    destruct s as [|c s']; [reflexivity|]. pose proof H as Hcs. simpl in H. apply andb_true_iff in H. destruct H as [Hc Hs'].
    cbn [fmt_go]. destruct ((c =? 37) && negb prev).
    - destruct s' as [|c1 r1]; [exact Hcs|].
      assert (Hkeep : allP (c :: fmt_go r f true (c1 :: r1)) = true) by (simpl; rewrite Hc; apply IH; exact Hs').
      destruct (c1 =? 40); [|exact Hkeep].
      destruct (placeholder r1) as [[nm rest]|] eqn:E; [|exact Hkeep].
      rewrite allP_app, Hr. simpl. apply IH. simpl in Hs'. apply andb_true_iff in Hs'. destruct Hs' as [_ Hr1].
      eapply allP_placeholder; [exact Hr1|exact E].
    - simpl. rewrite Hc. apply IH. exact Hs'.
  Qed.

  Lemma allP_format r t : (forall k, allP (r k) = true) -> allP t = true -> allP (format_message r t) = true.
  Proof. intros. unfold format_message. apply allP_fmt_go; assumption. Qed.

  Lemma allP_nat_to_str : (forall c, is_digit c = true -> P c = true) -> forall n, allP (nat_to_str n) = true.
  Proof. intros Hd n. unfold nat_to_str. apply allP_digits; auto. Qed.
End AllP.

(* ---------------------------------------------------------------- first clause: no raw < > quote *)
Definition not_raw (c : N) : bool := negb (is_raw c).

Lemma no_raw_allP s : no_raw s = allP not_raw s.
Proof. reflexivity. Qed.

Ltac nsolve :=
  repeat match goal with
  | H : (_ =? _) = true |- _ => apply N.eqb_eq in H
  | H : (_ =? _) = false |- _ => apply N.eqb_neq in H
  | H : (_ <=? _) = true |- _ => apply N.leb_le in H
  | H : (_ <=? _) = false |- _ => apply N.leb_gt in H
  | H : (_ <? _) = true |- _ => apply N.ltb_lt in H
  | H : (_ <? _) = false |- _ => apply N.ltb_ge in H
  end; try lia.

Lemma up_cases c : up c = c \/ (97 <= c <= 122 /\ up c = c - 32).
Proof.
  unfold up. destruct (97 <=? c) eqn:A; destruct (c <=? 122) eqn:B; simpl; auto. right. nsolve.
Qed.
Lemma low_cases c : low c = c \/ (65 <= c <= 90 /\ low c = c + 32).
Proof.
  unfold low. destruct (65 <=? c) eqn:A; destruct (c <=? 90) eqn:B; simpl; auto. right. nsolve.
Qed.

Lemma eqb_of_ne a b : a <> b -> (a =? b) = false.
Proof. apply N.eqb_neq. Qed.

Lemma not_raw_up c : not_raw c = true -> not_raw (up c) = true.
Proof.
  destruct (up_cases c) as [->|[Hr ->]]; auto. intros _. unfold not_raw, is_raw.
  rewrite !eqb_of_ne by lia. reflexivity.
Qed.
Lemma not_raw_low c : not_raw c = true -> not_raw (low c) = true.
Proof.
  destruct (low_cases c) as [->|[Hr ->]]; auto. intros _. unfold not_raw, is_raw.
  rewrite !eqb_of_ne by lia. reflexivity.
Qed.

Lemma escape_no_raw : forall s, no_raw (escape s) = true.
Proof.
  induction s as [|c r IH]; [reflexivity|].
  unfold escape in *. cbn [flat_map]. unfold no_raw in *. rewrite forallb_app, IH, andb_true_r.
  unfold escape_char.
  destruct (c =? 38) eqn:E1; [reflexivity|]. destruct (c =? 60) eqn:E2; [reflexivity|].
  destruct (c =? 62) eqn:E3; [reflexivity|]. destruct (c =? 39) eqn:E4; [reflexivity|].
  destruct (c =? 34) eqn:E5; [reflexivity|]. cbn. unfold is_raw. rewrite E2, E3, E4, E5. reflexivity.
Qed.

Lemma digit_not_raw c : is_digit c = true -> not_raw c = true.
Proof.
  unfold is_digit, not_raw, is_raw. intro H. apply andb_true_iff in H. destruct H as [A B]. nsolve.
  rewrite !eqb_of_ne by lia. reflexivity.
Qed.

Definition any_filter (f : filter) : bool := true.

Lemma no_raw_closed : forall f, filter_closed (fun t => no_raw t = true) f.
Proof.
  intro f. destruct f; simpl; auto; intros.
  - apply allP_map; auto. apply not_raw_up.
  - apply allP_map; auto. apply not_raw_low.
  - apply allP_capitalize; auto. apply not_raw_up. apply not_raw_low.
  - apply allP_strip; auto.
  - apply allP_lstrip; auto.
  - apply allP_rstrip; auto.
  - apply allP_replace; auto.
  - apply allP_replace; auto.
  - apply allP_slice; auto.
  - apply allP_split; auto.
  - apply allP_format; auto.
  - destruct k; auto. intros. apply allP_map; auto. intros c Hc. destruct (c =? 43); auto.
Qed.

(* C05, first clause: with autoescape on, for every template whose literal texts hold no raw < > quote, every state whose
   safe (Markup) values hold none, the output holds none -- whatever the data texts are *)
Theorem no_injection : forall fuel st p out st',
  forallb (stmt_ok no_raw any_filter) p = true ->
  state_inv (fun t => no_raw t = true) st ->
  exec true fuel st p = Ok (out, st') -> no_raw out = true.
Proof.
  intros fuel st p out st' Hp Hst H.
  eapply (exec_inv (fun t => no_raw t = true) no_raw any_filter); try eassumption; auto.
  - intros a b Ha Hb. unfold no_raw in *. rewrite forallb_app, Ha, Hb. reflexivity.
  - apply escape_no_raw.
  - intro n. apply allP_nat_to_str. apply digit_not_raw.
  - intros f _. apply no_raw_closed.
Qed.

(* plain data never constrains the theorem: a state whose render data are plain strings and arrays of plain strings *)
Definition plain_value (v : value) : bool :=
  match v with VS s => negb (sf s) | VL l => forallb (fun s => negb (sf s)) l | _ => true end.

Lemma plain_data_inv Q data : forallb (fun kv => plain_value (snd kv)) data = true ->
  state_inv Q {| st_scopes := []; st_locals := []; st_globals := data; st_cycle := 0 |}.
Proof.
  intro H. repeat split; simpl; try constructor.
  unfold scope_inv. apply Forall_forall. intros [k v] Hin. rewrite forallb_forall in H. specialize (H _ Hin). simpl in *.
  destruct v; simpl in *; auto.
  - unfold good. intro E. rewrite E in H. discriminate.
  - apply Forall_forall. intros s Hs. rewrite forallb_forall in H. specialize (H _ Hs). unfold good. intro E. rewrite E in H. discriminate.
Qed.

Theorem no_injection_plain_data : forall fuel data p out st',
  forallb (stmt_ok no_raw any_filter) p = true ->
  forallb (fun kv => plain_value (snd kv)) data = true ->
  exec true fuel {| st_scopes := []; st_locals := []; st_globals := data; st_cycle := 0 |} p = Ok (out, st') ->
  no_raw out = true.
Proof. intros. eapply no_injection; eauto. apply plain_data_inv. assumption. Qed.

(* ---------------------------------------------------------------- second clause: every ampersand starts an entity *)
Lemma amp_scan_seen_irrelevant s : forall a b, amp_scan false a s = amp_scan false b s.
Proof. destruct s; reflexivity. Qed.

(* a text that scans to the end closes every reference it opens; what follows is scanned from the idle state *)
Lemma amp_scan_app b : forall a r sn, amp_scan r sn a = true -> amp_scan r sn (a ++ b) = amp_scan false false b.
Proof.
  induction a as [|c a IH]; intros r sn H; simpl in *.
  - destruct r; [discriminate|]. apply amp_scan_seen_irrelevant.
  - destruct r.
    + destruct (c =? 59).
      * apply andb_true_iff in H. destruct H as [-> H]. simpl. apply IH. exact H.
      * destruct (is_ref_char c); [apply IH; exact H|discriminate].
    + destruct (c =? 38); apply IH; exact H.
Qed.

Lemma amp_ok_app a b : amp_ok a = true -> amp_ok b = true -> amp_ok (a ++ b) = true.
Proof. unfold amp_ok. intros Ha Hb. rewrite (amp_scan_app b a false false Ha). exact Hb. Qed.

Lemma amp_ok_escape s : amp_ok (escape s) = true.
Proof.
  induction s as [|c r IH]; [reflexivity|]. unfold escape in *. cbn [flat_map]. apply amp_ok_app; [|exact IH].
  unfold escape_char.
  destruct (c =? 38) eqn:E1; [reflexivity|]. destruct (c =? 60) eqn:E2; [reflexivity|].
  destruct (c =? 62) eqn:E3; [reflexivity|]. destruct (c =? 39) eqn:E4; [reflexivity|].
  destruct (c =? 34) eqn:E5; [reflexivity|]. unfold amp_ok. simpl. rewrite E1. reflexivity.
Qed.

(* a function on characters that keeps the classes the scanner looks at keeps the verdict *)
Lemma amp_scan_map f : (forall c, (f c =? 59) = (c =? 59) /\ (f c =? 38) = (c =? 38) /\ is_ref_char (f c) = is_ref_char c) ->
  forall s r sn, amp_scan r sn (map f s) = amp_scan r sn s.
Proof.
  intro Hf. induction s as [|c s IH]; intros r sn; simpl; auto.
  destruct (Hf c) as (E1 & E2 & E3). rewrite E1, E2, E3.
  destruct r; [destruct (c =? 59); [rewrite IH; reflexivity|destruct (is_ref_char c); auto]|destruct (c =? 38); auto].
Qed.

Lemma is_ref_char_spec c : is_ref_char c = true <->
  (48 <= c <= 57 \/ 65 <= c <= 90 \/ 97 <= c <= 122 \/ c = 35).
Proof.
  unfold is_ref_char, is_digit. rewrite !orb_true_iff, !andb_true_iff, !N.leb_le, N.eqb_eq. tauto.
Qed.

Lemma bool_eq_iff (a b : bool) : (a = true <-> b = true) -> a = b.
Proof. destruct a, b; intuition congruence. Qed.

Lemma up_keeps_classes c : (up c =? 59) = (c =? 59) /\ (up c =? 38) = (c =? 38) /\ is_ref_char (up c) = is_ref_char c.
Proof.
  destruct (up_cases c) as [->|[Hr ->]]; [auto|].
  repeat split.
  - rewrite !eqb_of_ne by lia. reflexivity.
  - rewrite !eqb_of_ne by lia. reflexivity.
  - apply bool_eq_iff. rewrite !is_ref_char_spec. lia.
Qed.
Lemma low_keeps_classes c : (low c =? 59) = (c =? 59) /\ (low c =? 38) = (c =? 38) /\ is_ref_char (low c) = is_ref_char c.
Proof.
  destruct (low_cases c) as [->|[Hr ->]]; [auto|].
  repeat split.
  - rewrite !eqb_of_ne by lia. reflexivity.
  - rewrite !eqb_of_ne by lia. reflexivity.
  - apply bool_eq_iff. rewrite !is_ref_char_spec. lia.
Qed.
Lemma plus_keeps_classes c :
  let f := fun c => if c =? 43 then 32 else c in
  (f c =? 59) = (c =? 59) /\ (f c =? 38) = (c =? 38) /\ is_ref_char (f c) = is_ref_char c.
Proof.
  simpl. destruct (c =? 43) eqn:E; [|auto]. apply N.eqb_eq in E. subst. repeat split; reflexivity.
Qed.

(* a text without ampersand passes *)
Lemma amp_ok_no_amp s : forallb (fun c => negb (c =? 38)) s = true -> amp_ok s = true.
Proof.
  unfold amp_ok. induction s as [|c r IH]; simpl; auto. intro H. apply andb_true_iff in H. destruct H as [Hc Hr].
  destruct (c =? 38); [discriminate|]. apply IH. exact Hr.
Qed.

Definition wf_text (t : str) : Prop := no_raw t = true /\ amp_ok t = true.
Definition wf_lit (t : str) : bool := no_raw t && amp_ok t.

(* the filters that neither cut nor edit a string *)
Definition keeps_entities (f : filter) : bool :=
  match f with
  | FEscape | FEscapeOnce | FUpcase | FDowncase | FAppend _ | FPrepend _ | FJoin _ | FFirst | FLast | FDefault _ | FSize | FOpaque _ _ => true
  | _ => false
  end.

Lemma digit_not_amp c : is_digit c = true -> negb (c =? 38) = true.
Proof. unfold is_digit. intro H. apply andb_true_iff in H. destruct H as [A B]. nsolve. rewrite eqb_of_ne by lia. reflexivity. Qed.

(* C05, both clauses, for templates that use no cutting or editing filter: the output holds no raw < > quote and every
   ampersand in it starts an entity (partial: slice, split, replace, remove, strip and capitalize are excluded) *)
Theorem entities_partial : forall fuel st p out st',
  forallb (stmt_ok wf_lit keeps_entities) p = true ->
  state_inv wf_text st ->
  exec true fuel st p = Ok (out, st') -> no_raw out = true /\ amp_ok out = true.
Proof.
  intros fuel st p out st' Hp Hst H.
  eapply (exec_inv wf_text wf_lit keeps_entities); try eassumption.
  - split; reflexivity.
  - intros a b [A1 A2] [B1 B2]. split; [unfold no_raw in *; rewrite forallb_app, A1, B1; reflexivity|apply amp_ok_app; assumption].
  - intro t. split; [apply escape_no_raw|apply amp_ok_escape].
  - intros t Ht. unfold wf_lit in Ht. apply andb_true_iff in Ht. exact Ht.
  - intro n. split; [apply allP_nat_to_str; apply digit_not_raw|].
    apply amp_ok_no_amp. apply (allP_nat_to_str (fun c => negb (c =? 38))). apply digit_not_amp.
  - split; reflexivity.
  - intros f Hf. destruct f; try discriminate Hf; simpl; auto.
    + intros t [A B]. split; [apply allP_map; auto; apply not_raw_up|]. unfold amp_ok. rewrite amp_scan_map; [exact B|apply up_keeps_classes].
    + intros t [A B]. split; [apply allP_map; auto; apply not_raw_low|]. unfold amp_ok. rewrite amp_scan_map; [exact B|apply low_keeps_classes].
    + destruct k; auto. intros t [A B]. split.
      * apply allP_map; auto. intros c Hc. destruct (c =? 43); auto.
      * unfold amp_ok, plus_to_space. rewrite amp_scan_map; [exact B|]. intro c. apply plus_keeps_classes.
Qed.

(* ... and the second clause is false as soon as a cutting filter is allowed: the witnesses of DESIGN section 7 row 19 *)
Definition x_data : list (str * value) := [([120], VS (plain [60; 97; 38; 98; 62]))].     (* x = <a&b> *)
Definition out_of (p : list stmt) : option str :=
  run_escape {| e_ae := true; e_data := x_data; e_prog := p |}.
Definition xvar : expr := EAtom (AVar [120]).

Lemma entities_refuted :
  (* escape | slice: 0, 2  gives  &l *)
  out_of [SOut (EFilt (EFilt xvar FEscape) (FSlice 0 2))] = Some [38; 108] /\
  (* escape | split: l | join: -  gives  &-t;a&amp;b&gt; *)
  out_of [SOut (EFilt (EFilt (EFilt xvar FEscape) (FSplit (ALit [108]))) (FJoin (Some (ALit [45]))))]
    = Some [38; 45; 116; 59; 97; 38; 97; 109; 112; 59; 98; 38; 103; 116; 59] /\
  (* escape | remove: lt  gives  &;a&amp;b&gt; *)
  out_of [SOut (EFilt (EFilt xvar FEscape) (FRemove (ALit [108; 116])))]
    = Some [38; 59; 97; 38; 97; 109; 112; 59; 98; 38; 103; 116; 59] /\
  amp_ok [38; 108] = false /\ amp_ok [38; 45; 116; 59] = false /\ amp_ok [38; 59; 97] = false /\
  (* none of them holds a raw special character *)
  no_raw [38; 108] = true.
Proof. repeat split; vm_compute; reflexivity. Qed.

(* ---------------------------------------------------------------- values marked safe pass unchanged *)
Theorem safe_passthrough : forall fuel st x t,
  lookup st x = VS (markup t) ->
  exec true (S (S fuel)) st [SOut (EAtom (AVar x))] = Ok (t, st).
Proof.
  intros fuel st x t H. cbn [exec bind]. unfold eval. cbn [eval_expr eval_atom]. rewrite H.
  cbn [to_liquid_string out_str esc_arg markup sf tx]. rewrite app_nil_r. reflexivity.
Qed.

Lemma out_str_safe l : forallb sf l = true -> map (out_str true) l = map tx l.
Proof.
  induction l as [|s r IH]; simpl; auto. intro H. apply andb_true_iff in H. destruct H as [Hs Hr].
  unfold out_str at 1, esc_arg. rewrite Hs. f_equal. apply IH. exact Hr.
Qed.

(* ... also as items of an array *)
Theorem safe_list_passthrough : forall fuel st x l,
  lookup st x = VL l -> forallb sf l = true ->
  exec true (S (S fuel)) st [SOut (EAtom (AVar x))] = Ok (concat (map tx l), st).
Proof.
  intros fuel st x l H Hl. cbn [exec bind]. unfold eval. cbn [eval_expr eval_atom]. rewrite H.
  cbn [to_liquid_string]. rewrite app_nil_r. rewrite out_str_safe by assumption. reflexivity.
Qed.

(* ---------------------------------------------------------------- third clause: without special characters autoescape changes nothing *)
Definition clean_c (c : N) : bool := negb (is_special c).
Definition clean (t : str) : bool := allP clean_c t.

Lemma clean_c_cases c : clean_c c = true -> (c =? 38) = false /\ (c =? 60) = false /\ (c =? 62) = false /\ (c =? 39) = false /\ (c =? 34) = false.
Proof.
  unfold clean_c, is_special, is_raw. intro H. apply negb_true_iff in H. repeat (apply orb_false_iff in H; destruct H as [H ?]). auto.
Qed.

Lemma escape_clean t : clean t = true -> escape t = t.
Proof.
  induction t as [|c r IH]; simpl; auto. intro H. apply andb_true_iff in H. destruct H as [Hc Hr].
  destruct (clean_c_cases c Hc) as (A & B & C & D & E). unfold escape_char. rewrite A, B, C, D, E. simpl. f_equal. apply IH. exact Hr.
Qed.
Lemma html_escape_clean t : clean t = true -> html_escape t = t.
Proof.
  induction t as [|c r IH]; simpl; auto. intro H. apply andb_true_iff in H. destruct H as [Hc Hr].
  destruct (clean_c_cases c Hc) as (A & B & C & D & E). unfold html_escape_char. rewrite A, B, C, E, D. simpl. f_equal. apply IH. exact Hr.
Qed.
Lemma unescape_go_clean : forall fuel t, clean t = true -> unescape_go fuel t = t.
Proof.
  induction fuel as [|f IH]; intros t H; simpl; auto. destruct t as [|c r]; auto.
  simpl in H. apply andb_true_iff in H. destruct H as [Hc Hr]. destruct (clean_c_cases c Hc) as (A & _). rewrite A. f_equal. apply IH. exact Hr.
Qed.
Lemma unescape_clean t : clean t = true -> unescape t = t.
Proof. apply unescape_go_clean. Qed.

Lemma clean_up c : clean_c c = true -> clean_c (up c) = true.
Proof.
  destruct (up_cases c) as [->|[Hr ->]]; auto. intros _. unfold clean_c, is_special, is_raw. rewrite !eqb_of_ne by lia. reflexivity.
Qed.
Lemma clean_low c : clean_c c = true -> clean_c (low c) = true.
Proof.
  destruct (low_cases c) as [->|[Hr ->]]; auto. intros _. unfold clean_c, is_special, is_raw. rewrite !eqb_of_ne by lia. reflexivity.
Qed.
Lemma digit_clean c : is_digit c = true -> clean_c c = true.
Proof.
  unfold is_digit, clean_c, is_special, is_raw. intro H. apply andb_true_iff in H. destruct H as [A B]. nsolve. rewrite !eqb_of_ne by lia. reflexivity.
Qed.

Lemma clean_esc_arg s : clean (tx s) = true -> esc_arg s = tx s.
Proof. intro H. unfold esc_arg. destruct (sf s); auto. apply escape_clean. exact H. Qed.

(* the filters of the identity theorem: everything but split (no arrays: str(list) holds quotes), the three text functions
   that are modelled by their flag only, and the translation filters (the translate TAG is covered) *)
Definition plain_filters (f : filter) : bool := match f with FSplit _ | FOpaque _ _ | FTrans _ _ _ _ => false | _ => true end.

(* two values with the same clean text (the Markup flags may differ) *)
Inductive Rv : value -> value -> Prop :=
| RS s s' : tx s = tx s' -> clean (tx s) = true -> Rv (VS s) (VS s')
| RNil : Rv VNil VNil
| RNone : Rv VNone VNone
| RInt n : Rv (VInt n) (VInt n).

Lemma Rv_as_string v v' : Rv v v' -> tx (as_string v) = tx (as_string v') /\ clean (tx (as_string v)) = true.
Proof.
  destruct 1; simpl; auto. split; auto. apply allP_nat_to_str. apply digit_clean.
Qed.
Lemma Rv_py_str_of v v' : Rv v v' -> tx (py_str_of v) = tx (py_str_of v') /\ clean (tx (py_str_of v)) = true.
Proof.
  destruct 1; simpl; auto. split; auto. apply allP_nat_to_str. apply digit_clean.
Qed.

Lemma RS' t f f' : clean t = true -> Rv (VS {| tx := t; sf := f |}) (VS {| tx := t; sf := f' |}).
Proof. intro. constructor; auto. Qed.

Lemma tx_madd a b : clean (tx a) = true -> clean (tx b) = true -> tx (madd a b) = tx a ++ tx b.
Proof.
  intros Ha Hb. unfold madd. destruct (sf a); simpl; [rewrite clean_esc_arg; auto|].
  destruct (sf b); simpl; auto. rewrite escape_clean; auto.
Qed.
Lemma tx_mreplace s o n : clean (tx n) = true -> tx (mreplace s o n) = py_replace (tx s) (tx o) (tx n).
Proof. intro Hn. unfold mreplace. destruct (sf s); simpl; auto. rewrite clean_esc_arg; auto. Qed.
Lemma tx_mjoin sep items : Forall (fun i => clean (tx i) = true) items -> tx (mjoin sep items) = join_str (tx sep) (map tx items).
Proof.
  intro H. unfold mjoin. destruct (sf sep); simpl; auto. f_equal.
  induction H; simpl; auto. rewrite clean_esc_arg by assumption. f_equal. assumption.
Qed.

Section Identity.
  Variables look look' : str -> value.
  Hypothesis look_rel : forall x, Rv (look x) (look' x).

  Lemma eval_atom_rel a : atom_ok clean a = true -> Rv (eval_atom true look a) (eval_atom false look' a).
  Proof. destruct a; simpl; intro H; [apply RS'; assumption|apply look_rel]. Qed.

  Lemma Rv_text t t' f f' : t = t' -> clean t = true -> Rv (VS {| tx := t; sf := f |}) (VS {| tx := t'; sf := f' |}).
  Proof. intros <- H. apply RS'. exact H. Qed.

  Lemma apply_filter_rel f v v' :
    filter_ok clean plain_filters f = true -> Rv v v' ->
    Rv (apply_filter true look f v) (apply_filter false look' f v').
  Proof.
    intros Hok Hv. unfold filter_ok in Hok. apply andb_true_iff in Hok. destruct Hok as [Hpf Hargs].
    destruct (Rv_as_string _ _ Hv) as [Et Hc].
    destruct f; try discriminate Hpf; simpl in *.
    - (* escape *) rewrite <- Et. rewrite escape_clean, html_escape_clean by assumption. apply RS'. assumption.
    - (* escape_once *) rewrite <- Et. rewrite !unescape_clean by assumption. rewrite html_escape_clean by assumption. apply RS'. assumption.
    - unfold mmap; simpl. rewrite <- Et. apply Rv_text; auto. apply allP_map; auto. apply clean_up.
    - unfold mmap; simpl. rewrite <- Et. apply Rv_text; auto. apply allP_map; auto. apply clean_low.
    - unfold mmap; simpl. rewrite <- Et. apply Rv_text; auto. apply allP_capitalize; auto. apply clean_up. apply clean_low.
    - unfold mmap; simpl. rewrite <- Et. apply Rv_text; auto. apply allP_strip; auto.
    - unfold mmap; simpl. rewrite <- Et. apply Rv_text; auto. apply allP_lstrip; auto.
    - unfold mmap; simpl. rewrite <- Et. apply Rv_text; auto. apply allP_rstrip; auto.
    - (* append *) destruct (Rv_as_string _ _ (eval_atom_rel a Hargs)) as [Ea Ha].
      constructor; [rewrite !tx_madd; auto; try congruence; rewrite <- ?Et, <- ?Ea; auto|].
      rewrite tx_madd; auto. unfold clean. rewrite allP_app. unfold clean in *. rewrite Hc, Ha. reflexivity.
    - (* prepend *) destruct (Rv_as_string _ _ (eval_atom_rel a Hargs)) as [Ea Ha].
      constructor; [rewrite !tx_madd; auto; try congruence; rewrite <- ?Et, <- ?Ea; auto|].
      rewrite tx_madd; auto. unfold clean. rewrite allP_app. unfold clean in *. rewrite Hc, Ha. reflexivity.
    - (* replace *) apply andb_true_iff in Hargs. destruct Hargs as [Ho Hn].
      destruct (Rv_as_string _ _ (eval_atom_rel old Ho)) as [Eo Hoc]. destruct (Rv_as_string _ _ (eval_atom_rel new Hn)) as [En Hnc].
      constructor; [rewrite !tx_mreplace; try congruence; rewrite <- ?En; auto|].
      rewrite tx_mreplace; auto. apply allP_replace; auto.
    - (* remove *) destruct (Rv_as_string _ _ (eval_atom_rel a Hargs)) as [Ea Ha].
      constructor; [rewrite !tx_mreplace; simpl; auto; congruence|]. rewrite tx_mreplace; simpl; auto. apply allP_replace; auto.
    - (* slice *) destruct (Rv_py_str_of _ _ Hv) as [Ep Hp].
      destruct Hv; simpl in *; unfold mmap; simpl;
        try (apply Rv_text; [congruence|apply allP_slice; auto]).
    - (* join *)
      set (sepv := match sep with Some a => as_string (eval_atom true look a) | None => {| tx := [32]; sf := true |} end).
      set (sepv' := match sep with Some a => as_string (eval_atom false look' a) | None => {| tx := [32]; sf := false |} end).
      assert (Hsep : tx sepv = tx sepv' /\ clean (tx sepv) = true).
      { unfold sepv, sepv'. destruct sep as [a|]; [apply Rv_as_string, eval_atom_rel; assumption|split; reflexivity]. }
      destruct Hsep as [Es Hsc].
      set (sep1 := if str_eqb (tx sepv) [32] then markup [32] else sepv).
      assert (Hs1 : tx sep1 = tx sepv).
      { unfold sep1. simpl. destruct (str_eqb (tx sepv) [32]) eqn:E; auto. apply str_eqb_eq in E. rewrite E. reflexivity. }
      destruct (Rv_py_str_of _ _ Hv) as [Ep Hp].
      assert (Hitems : map tx (match v with VL l => l | VNil => [] | _ => [py_str_of v] end)
                       = map tx (match v' with VL l => l | VNil => [] | _ => [py_str_of v'] end)
                       /\ Forall (fun i => clean (tx i) = true) (match v with VL l => l | VNil => [] | _ => [py_str_of v] end)
                       /\ Forall (fun i => clean (tx i) = true) (match v' with VL l => l | VNil => [] | _ => [py_str_of v'] end)).
      { destruct Hv; simpl in *; repeat split; auto; try congruence; constructor; auto; congruence. }
      destruct Hitems as (Ei & Hi & Hi').
      constructor.
      + rewrite !tx_mjoin; auto. rewrite Hs1, Ei, Es. reflexivity.
      + rewrite tx_mjoin; auto. rewrite Hs1. apply allP_join; auto.
        apply Forall_forall. intros t Ht. apply in_map_iff in Ht. destruct Ht as (i & <- & Hin). rewrite Forall_forall in Hi. auto.
    - (* first *) destruct Hv; constructor.
    - (* last *) destruct Hv; constructor.
    - (* default *) pose proof (eval_atom_rel d Hargs) as Hd. destruct Hv; simpl; auto; try constructor; auto.
      rewrite <- H. destruct (tx s); auto. constructor; auto.
    - (* size *) destruct Hv; simpl; try constructor. rewrite H. constructor.
  Qed.

  Lemma eval_expr_rel e : expr_ok clean plain_filters e = true -> Rv (eval_expr true look e) (eval_expr false look' e).
  Proof.
    induction e as [a|e IH f]; simpl; intro H; [apply eval_atom_rel; assumption|].
    apply andb_true_iff in H. destruct H as [H _]. apply andb_true_iff in H. destruct H as [He Hf]. apply apply_filter_rel; auto.
  Qed.
End Identity.

Lemma to_liquid_string_rel v v' : Rv v v' -> to_liquid_string true v = to_liquid_string false v' /\ clean (to_liquid_string true v) = true.
Proof.
  destruct 1; simpl; try (split; reflexivity).
  - unfold out_str. rewrite clean_esc_arg by assumption. split; auto.
  - split; auto. apply allP_nat_to_str. apply digit_clean.
Qed.

Definition Rscope (a b : list (str * value)) : Prop := Forall2 (fun p q => fst p = fst q /\ Rv (snd p) (snd q)) a b.
Definition Rstate (s s' : state) : Prop :=
  Forall2 Rscope (st_scopes s) (st_scopes s') /\ Rscope (st_locals s) (st_locals s') /\ Rscope (st_globals s) (st_globals s')
  /\ st_cycle s = st_cycle s'.

Definition Ropt (a b : option value) : Prop :=
  match a, b with Some v, Some v' => Rv v v' | None, None => True | _, _ => False end.

Lemma alookup_rel x a b : Rscope a b -> Ropt (alookup x a) (alookup x b).
Proof.
  induction 1 as [|[k v] [k' v'] ra rb [Hk Hv] Hr IH]; simpl; auto. simpl in Hk. subst k'.
  destruct (str_eqb x k); auto.
Qed.

Lemma first_hit_rel x a b : Forall2 Rscope a b -> Ropt (first_hit x a) (first_hit x b).
Proof.
  induction 1 as [|sa sb ra rb Hs Hr IH]; simpl; auto.
  pose proof (alookup_rel x _ _ Hs) as H. destruct (alookup x sa), (alookup x sb); simpl in H; try contradiction; auto.
Qed.

Lemma lookup_rel s s' x : Rstate s s' -> Rv (lookup s x) (lookup s' x).
Proof.
  intros (Hs & Hl & Hg & _). unfold lookup.
  assert (H : Ropt (first_hit x (st_scopes s ++ [st_locals s; st_globals s])) (first_hit x (st_scopes s' ++ [st_locals s'; st_globals s']))).
  { apply first_hit_rel. apply Forall2_app; auto. }
  destruct (first_hit x (st_scopes s ++ _)), (first_hit x (st_scopes s' ++ _)); simpl in H; try contradiction; auto. constructor.
Qed.

Lemma truthy_rel v v' : Rv v v' -> truthy v = truthy v'.
Proof. destruct 1; reflexivity. Qed.
Lemma text_eqb_rel a a' b b' : Rv a a' -> Rv b b' -> value_text_eqb a b = value_text_eqb a' b'.
Proof. destruct 1; destruct 1; simpl; auto; congruence. Qed.

Lemma loop_items_rel v v' : Rv v v' -> Forall2 Rv (loop_items v) (loop_items v').
Proof.
  destruct 1; simpl; try constructor.
  assert (Hr : Rv (VS s) (VS s')) by (constructor; auto).
  rewrite <- H. destruct (tx s); constructor; [exact Hr|constructor].
Qed.

Definition Rres (r r' : res (str * state)) : Prop :=
  match r, r' with
  | Ok (o, s), Ok (o', s') => o = o' /\ clean o = true /\ Rstate s s'
  | OutOfFuel, OutOfFuel => True
  | _, _ => False
  end.

Lemma bind_args_rel s s' binds : Rstate s s' -> forallb (fun b => atom_ok clean (snd b)) binds = true ->
  Rscope (bind_args true s binds) (bind_args false s' binds).
Proof.
  intros Hst H. unfold bind_args, Rscope. induction binds as [|[k a] r IH]; simpl in *; constructor.
  - apply andb_true_iff in H. destruct H as [Ha _]. simpl. split; auto. apply eval_atom_rel; auto. intro; apply lookup_rel; assumption.
  - apply IH. apply andb_true_iff in H. tauto.
Qed.

Lemma for_loop_rel (run run' : state -> res (str * state)) x :
  (forall s s', Rstate s s' -> Rres (run s) (run' s')) ->
  forall items items' s s', Forall2 Rv items items' -> Rstate s s' -> Rres (for_loop run x items s) (for_loop run' x items' s').
Proof.
  intros Hrun items items' s s' Hit. revert s s'. induction Hit as [|it it' more more' Hi Hm IH]; intros s s' Hst; simpl.
  - split; [reflexivity|split; [reflexivity|exact Hst]].
  - assert (Hp : Rstate (push_scope s [(x, it)]) (push_scope s' [(x, it')])).
    { destruct Hst as (A & B & C & D). repeat split; simpl; auto. constructor; auto. constructor; [split; auto|constructor]. }
    specialize (Hrun _ _ Hp).
    destruct (run (push_scope s [(x, it)])) as [[o1 s1]|e|], (run' (push_scope s' [(x, it')])) as [[o1' s1']|e'|]; simpl in *; try contradiction; auto.
    destruct Hrun as (Eo & Co & Rs).
    assert (Hpop : Rstate (pop_scope s1) (pop_scope s1')).
    { destruct Rs as (A & B & C & D). repeat split; simpl; auto. destruct A; simpl; auto. }
    specialize (IH _ _ Hpop).
    destruct (for_loop run x more (pop_scope s1)) as [[o2 s2]|e|], (for_loop run' x more' (pop_scope s1')) as [[o2' s2']|e'|]; simpl in *; try contradiction; auto.
    destruct IH as (Eo2 & Co2 & Rs2). subst. split; [reflexivity|split; [|exact Rs2]]. unfold clean in *. rewrite allP_app, Co, Co2. reflexivity.
Qed.

(* the two interpreters run in lock step on every template without special characters in its literals *)
Theorem exec_rel : forall fuel s s' p,
  forallb (stmt_ok clean plain_filters) p = true -> Rstate s s' ->
  Rres (exec true fuel s p) (exec false fuel s' p).
Proof.
  induction fuel as [|f IH]; intros s s' p Hp Hst; [exact I|].
  destruct p as [|st rest]; [simpl; split; [reflexivity|split; [reflexivity|exact Hst]]|].
  simpl in Hp. apply andb_true_iff in Hp. destruct Hp as [Hs Hrest].
  assert (Hlook : forall x, Rv (lookup s x) (lookup s' x)) by (intro; apply lookup_rel; assumption).
  assert (Hstep : Rres
    (match st with
     | STranslate binds sing plur =>
         let ns := bind_args true s binds in
         let n := match alookup s_count ns with Some v => tag_count v | None => 1%nat end in
         let msg := match plur with Some p => if Nat.eqb n 1 then sing else p | None => sing end in
         let st1 := push_scope s ns in
         Ok (concat (map (fun g => match g with MText t => t | MVar x => to_liquid_string true (lookup st1 x) end) msg), s)
     | SText t => Ok (t, s)
     | SOut e => Ok (to_liquid_string true (eval true s e), s)
     | SAssign x e => Ok ([], set_local s x (eval true s e))
     | SCapture x body => do r <- exec true f s body; let '(out, st1) := r in Ok ([], set_local st1 x (VS {| tx := out; sf := true |}))
     | SIf c body els =>
         let b := match c with CTruthy a => truthy (evala true s a) | CEq a b => value_text_eqb (evala true s a) (evala true s b) end in
         exec true f s (if b then body else els)
     | SFor x e body => for_loop (fun s0 => exec true f s0 body) x (loop_items (eval true s e)) s
     | SCycle args =>
         let v := match nth_error args (Nat.modulo (st_cycle s) (length args)) with Some a => evala true s a | None => VNil end in
         Ok (to_liquid_string true v, {| st_scopes := st_scopes s; st_locals := st_locals s; st_globals := st_globals s; st_cycle := S (st_cycle s) |})
     | SInclude binds body => do r <- exec true f (push_scope s (bind_args true s binds)) body; let '(out, st1) := r in Ok (out, pop_scope st1)
     | SRender binds body =>
         do r <- exec true f {| st_scopes := [bind_args true s binds]; st_locals := []; st_globals := st_globals s; st_cycle := 0 |} body;
         let '(out, _) := r in Ok (out, s)
     end)
    (match st with
     | STranslate binds sing plur =>
         let ns := bind_args false s' binds in
         let n := match alookup s_count ns with Some v => tag_count v | None => 1%nat end in
         let msg := match plur with Some p => if Nat.eqb n 1 then sing else p | None => sing end in
         let st1 := push_scope s' ns in
         Ok (concat (map (fun g => match g with MText t => t | MVar x => to_liquid_string false (lookup st1 x) end) msg), s')
     | SText t => Ok (t, s')
     | SOut e => Ok (to_liquid_string false (eval false s' e), s')
     | SAssign x e => Ok ([], set_local s' x (eval false s' e))
     | SCapture x body => do r <- exec false f s' body; let '(out, st1) := r in Ok ([], set_local st1 x (VS {| tx := out; sf := false |}))
     | SIf c body els =>
         let b := match c with CTruthy a => truthy (evala false s' a) | CEq a b => value_text_eqb (evala false s' a) (evala false s' b) end in
         exec false f s' (if b then body else els)
     | SFor x e body => for_loop (fun s0 => exec false f s0 body) x (loop_items (eval false s' e)) s'
     | SCycle args =>
         let v := match nth_error args (Nat.modulo (st_cycle s') (length args)) with Some a => evala false s' a | None => VNil end in
         Ok (to_liquid_string false v, {| st_scopes := st_scopes s'; st_locals := st_locals s'; st_globals := st_globals s'; st_cycle := S (st_cycle s') |})
     | SInclude binds body => do r <- exec false f (push_scope s' (bind_args false s' binds)) body; let '(out, st1) := r in Ok (out, pop_scope st1)
     | SRender binds body =>
         do r <- exec false f {| st_scopes := [bind_args false s' binds]; st_locals := []; st_globals := st_globals s'; st_cycle := 0 |} body;
         let '(out, _) := r in Ok (out, s')
     end)).
  { destruct st; simpl in Hs.
    - (* translate tag *)
      apply andb_true_iff in Hs. destruct Hs as [Hs Hpl]. apply andb_true_iff in Hs. destruct Hs as [Hb Hsing]. cbv zeta.
      pose proof (bind_args_rel _ _ binds Hst Hb) as Hns.
      assert (En : match alookup s_count (bind_args true s binds) with Some v => tag_count v | None => 1%nat end
                 = match alookup s_count (bind_args false s' binds) with Some v => tag_count v | None => 1%nat end).
      { pose proof (alookup_rel s_count _ _ Hns) as Hr.
        destruct (alookup s_count (bind_args true s binds)), (alookup s_count (bind_args false s' binds)); simpl in Hr; try contradiction; auto.
        destruct Hr; simpl; auto. rewrite H. reflexivity. }
      rewrite <- En.
      set (msg := match plural with Some p => if Nat.eqb _ 1 then singular else p | None => singular end).
      assert (Hmsg : forallb (fun g => match g with MText t => clean t | MVar _ => true end) msg = true).
      { unfold msg. destruct plural; [|exact Hsing]. match goal with |- context [if ?c then _ else _] => destruct c end; assumption. }
      assert (Hp : Rstate (push_scope s (bind_args true s binds)) (push_scope s' (bind_args false s' binds))).
      { destruct Hst as (A & B & C & D). repeat split; simpl; auto. }
      assert (Hseg : forall m, forallb (fun g => match g with MText t => clean t | MVar _ => true end) m = true ->
          concat (map (fun g => match g with MText t => t | MVar x => to_liquid_string true (lookup (push_scope s (bind_args true s binds)) x) end) m)
          = concat (map (fun g => match g with MText t => t | MVar x => to_liquid_string false (lookup (push_scope s' (bind_args false s' binds)) x) end) m)
          /\ clean (concat (map (fun g => match g with MText t => t | MVar x => to_liquid_string true (lookup (push_scope s (bind_args true s binds)) x) end) m)) = true).
      { induction m as [|g r IHm]; simpl; intro Hm; [split; reflexivity|].
        apply andb_true_iff in Hm. destruct Hm as [Hg Hr]. destruct (IHm Hr) as [E1 C1].
        destruct g.
        - split; [rewrite E1; reflexivity|]. unfold clean in *. rewrite allP_app, Hg, C1. reflexivity.
        - destruct (to_liquid_string_rel _ _ (lookup_rel _ _ x Hp)) as [E2 C2]. split; [rewrite E1, E2; reflexivity|].
          unfold clean in *. rewrite allP_app, C2, C1. reflexivity. }
      destruct (Hseg msg Hmsg) as [E C]. simpl. split; [exact E|split; [exact C|exact Hst]].
    - simpl. split; [reflexivity|split; [exact Hs|exact Hst]].
    - destruct (to_liquid_string_rel _ _ (eval_expr_rel _ _ Hlook e Hs)) as [E C]. simpl. split; [exact E|split; [exact C|exact Hst]].
    - simpl. split; [reflexivity|split; [reflexivity|]]. destruct Hst as (A & B & C & D). repeat split; simpl; auto.
      constructor; auto. split; auto. apply eval_expr_rel; auto.
    - specialize (IH s s' body Hs Hst).
      destruct (exec true f s body) as [[o1 s1]|e|], (exec false f s' body) as [[o1' s1']|e'|]; simpl in *; try contradiction; auto.
      destruct IH as (Eo & Co & (A & B & C & D)). subst. repeat split; simpl; auto. constructor; auto. split; auto. apply RS'. exact Co.
    - apply andb_true_iff in Hs. destruct Hs as [Hs Hels]. apply andb_true_iff in Hs. destruct Hs as [Hc Hbody]. cbv zeta.
      assert (Eb : match c with CTruthy a => truthy (evala true s a) | CEq a b => value_text_eqb (evala true s a) (evala true s b) end
                 = match c with CTruthy a => truthy (evala false s' a) | CEq a b => value_text_eqb (evala false s' a) (evala false s' b) end).
      { destruct c; simpl in Hc.
        - apply truthy_rel. apply eval_atom_rel; auto.
        - apply andb_true_iff in Hc. destruct Hc. apply text_eqb_rel; apply eval_atom_rel; auto. }
      rewrite Eb. match goal with |- context [if ?b then body else els] => destruct b end; apply IH; auto.
    - apply andb_true_iff in Hs. destruct Hs as [He Hbody].
      apply for_loop_rel; [intros s0 s0' H0; apply IH; auto|apply loop_items_rel; apply eval_expr_rel; auto|exact Hst].
    - cbv zeta. destruct Hst as (A & B & C & D). rewrite <- D.
      assert (Hv : Rv (match nth_error args (Nat.modulo (st_cycle s) (length args)) with Some a => evala true s a | None => VNil end)
                      (match nth_error args (Nat.modulo (st_cycle s) (length args)) with Some a => evala false s' a | None => VNil end)).
      { destruct (nth_error args (Nat.modulo (st_cycle s) (length args))) eqn:En; [|constructor].
        apply eval_atom_rel; auto. apply nth_error_In in En. rewrite forallb_forall in Hs. auto. }
      destruct (to_liquid_string_rel _ _ Hv) as [E Cn]. simpl. repeat split; simpl; auto.
    - apply andb_true_iff in Hs. destruct Hs as [Hb Hbody].
      assert (Hp : Rstate (push_scope s (bind_args true s binds)) (push_scope s' (bind_args false s' binds))).
      { pose proof (bind_args_rel _ _ binds Hst Hb). destruct Hst as (A & B & C & D). repeat split; simpl; auto. }
      specialize (IH _ _ body Hbody Hp).
      destruct (exec true f (push_scope s (bind_args true s binds)) body) as [[o1 s1]|e|],
               (exec false f (push_scope s' (bind_args false s' binds)) body) as [[o1' s1']|e'|]; simpl in *; try contradiction; auto.
      destruct IH as (Eo & Co & (A & B & C & D)). repeat split; simpl; auto. destruct A; simpl; auto.
    - apply andb_true_iff in Hs. destruct Hs as [Hb Hbody].
      assert (Hp : Rstate {| st_scopes := [bind_args true s binds]; st_locals := []; st_globals := st_globals s; st_cycle := 0 |}
                          {| st_scopes := [bind_args false s' binds]; st_locals := []; st_globals := st_globals s'; st_cycle := 0 |}).
      { pose proof (bind_args_rel _ _ binds Hst Hb). destruct Hst as (A & B & C & D). repeat split; simpl; auto. constructor. }
      specialize (IH _ _ body Hbody Hp).
      match goal with |- Rres (do r <- ?a; _) (do r <- ?b; _) => destruct a as [[o1 s1]|e|], b as [[o1' s1']|e'|] end; simpl in *; try contradiction; auto.
      destruct IH as (Eo & Co & _). split; [exact Eo|split; [exact Co|exact Hst]]. }
  cbn [exec].
  match goal with |- Rres (do r <- ?a; _) (do r <- ?b; _) =>
    pose proof (Hstep : Rres a b) as Hab; clear Hstep; destruct a as [[o1 s1]|e|], b as [[o1' s1']|e'|] end; simpl in Hab |- *; try contradiction; auto.
  destruct Hab as (Eo & Co & Rs). specialize (IH _ _ rest Hrest Rs).
  destruct (exec true f s1 rest) as [[o2 s2]|e|], (exec false f s1' rest) as [[o2' s2']|e'|]; simpl in *; try contradiction; auto.
  destruct IH as (Eo2 & Co2 & Rs2). subst. split; [reflexivity|split; [|exact Rs2]]. unfold clean in *. rewrite allP_app, Co, Co2. reflexivity.
Qed.

(* C05, third clause: a template whose literals hold no special character, rendered with data strings that hold none, gives
   the same text with autoescape on and off (split and the three flag-only text functions excluded) *)
Definition clean_data (data : list (str * value)) : bool :=
  forallb (fun kv => match snd kv with VS s => clean (tx s) | VNil | VNone | VInt _ => true | VL _ => false end) data.

Lemma Rscope_refl data : clean_data data = true -> Rscope data data.
Proof.
  unfold clean_data, Rscope. induction data as [|[k v] r IH]; simpl; intro H; constructor.
  - apply andb_true_iff in H. destruct H as [Hv _]. simpl in *. split; auto. destruct v; try discriminate; constructor; auto.
  - apply IH. apply andb_true_iff in H. tauto.
Qed.

Theorem identity_without_specials : forall data p,
  forallb (stmt_ok clean plain_filters) p = true -> clean_data data = true ->
  run_escape {| e_ae := true; e_data := data; e_prog := p |} = run_escape {| e_ae := false; e_data := data; e_prog := p |}.
Proof.
  intros data p Hp Hd. unfold run_escape. cbn [e_ae e_data e_prog].
  set (s0 := {| st_scopes := []; st_locals := []; st_globals := data; st_cycle := 0 |}).
  assert (Hst : Rstate s0 s0).
  { unfold s0. repeat split; cbn [st_scopes st_locals st_globals st_cycle]; try constructor. apply Rscope_refl. assumption. }
  pose proof (exec_rel 200 s0 s0 p Hp Hst) as H.
  destruct (exec true 200 s0 p) as [[o s]|e|]; destruct (exec false 200 s0 p) as [[o' s']|e'|]; unfold Rres in H; try contradiction; auto.
  destruct H as (-> & _). reflexivity.
Qed.

(* ---------------------------------------------------------------- translation filters: the seeded variants are told apart *)
Definition look_of (data : list (str * value)) (x : str) : value := match alookup x data with Some v => v | None => VNil end.
Definition d_hostile : list (str * value) :=
  [([120], VS (plain [60; 98; 62])); ([121], VS (plain [60; 105; 62; 39]))].          (* x = <b>   y = <i>' *)
Definition m_hello : str := [72; 105; 32; 37; 40; 97; 41; 115].                       (* Hi %(a)s *)
Definition text_of (v : value) : str := match v with VS s => tx s | _ => [] end.

Lemma translation_variants_refuted :
  (* registered by hand (autoescape_message = False), autoescape on:  'Hi %(a)s' | t: a: x *)
  (let run vr := text_of (trans_apply true (look_of d_hostile) vr TT false [] [([97], AVar [120])] (VS (markup m_hello))) in
   no_raw (run TrCurrent) = true /\ no_raw (run TrVarsOnlyIfAem) = false /\ run TrPluralStrRaw = run TrCurrent) /\
  (* registered by extra=True (autoescape_message = True), autoescape on:  'one' | ngettext: y, '2' *)
  (let run vr := text_of (trans_apply true (look_of d_hostile) vr TNgettext true [AVar [121]; ALit [50]] [] (VS (markup [111; 110; 101]))) in
   no_raw (run TrCurrent) = true /\ no_raw (run TrPluralStrRaw) = false /\ run TrVarsOnlyIfAem = run TrCurrent) /\
  (* the same plural through npgettext is not affected by that variant (it is specific to ngettext) *)
  (let run vr := text_of (trans_apply true (look_of d_hostile) vr TNpgettext true [ALit [99]; AVar [121]; ALit [50]] [] (VS (markup [111; 110; 101]))) in
   run TrPluralStrRaw = run TrCurrent).
Proof. repeat split; vm_compute; reflexivity. Qed.

(* why a filter registered by hand needs a literal message: its left value is printed as it is (by design: the message is trusted) *)
Lemma hand_registration_trusts_message :
  no_raw (text_of (trans_apply true (look_of d_hostile) TrCurrent TT false [] [] (VS (plain [60; 98; 62])))) = false /\
  no_raw (text_of (trans_apply true (look_of d_hostile) TrCurrent TT true [] [] (VS (plain [60; 98; 62])))) = true.
Proof. split; vm_compute; reflexivity. Qed.
