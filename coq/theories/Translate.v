(* Model of message formatting in liquid/extra/filters/translate.py and liquid/extra/tags/translate_tag.py
   with the default NullTranslations.  Executable definitions only. *)
From Coq Require Import String Ascii.
From LiquidVerif Require Import Prelude PyPrims.

Definition lit (x : string) : str := map N_of_ascii (list_ascii_of_string x).

Definition c_pct : N := 37.   (* % *)
Definition c_lpar : N := 40.  (* ( *)
Definition c_rpar : N := 41.  (* ) *)
Definition c_s : N := 115.    (* s *)

(* \w restricted to ASCII (assumption of the model) *)
Definition is_word (c : N) : bool :=
  ((48 <=? c) && (c <=? 57) || (65 <=? c) && (c <=? 90) || (97 <=? c) && (c <=? 122) || (c =? 95))%N.

(* \s for the characters the correspondence run uses: space, \t, \n, \r, \f, \v *)
Definition is_space (c : N) : bool := ((c =? 32) || (9 <=? c) && (c <=? 13))%N.

Fixpoint take_word (s : str) : str * str :=
  match s with
  | c :: r => if is_word c then let '(w, rest) := take_word r in (c :: w, rest) else ([], s)
  | [] => ([], [])
  end.

(* after a '%': "(" \w+ ")s" *)
Definition parse_ph (r : str) : option (str * str) :=
  match r with
  | c :: r1 =>
      if (c =? c_lpar)%N then
        let '(w, r2) := take_word r1 in
        match w, r2 with
        | _ :: _, c1 :: c2 :: rest => if ((c1 =? c_rpar) && (c2 =? c_s))%N then Some (w, rest) else None
        | _, _ => None
        end
      else None
  | [] => None
  end.

Definition lookup_fn := str -> str.     (* a variable's rendered value; missing => "" (default undefined) *)

(* ---- the filters (t, gettext, ngettext, pgettext, npgettext): only (?<!%)%\((\w+)\)s placeholders are
        replaced; every other character, percent signs included, is kept.
        [skip] = characters of an already matched placeholder still to be passed over. ---- *)
Fixpoint fmt_filter (skip : nat) (prev_pct : bool) (s : str) (lk : lookup_fn) : str :=
  match s with
  | [] => []
  | c :: r =>
      match skip with
      | S k => fmt_filter k false r lk
      | O =>
          if ((c =? c_pct)%N && negb prev_pct)%bool then
            match parse_ph r with
            | Some (n, _) => lk n ++ fmt_filter (length n + 3) false r lk
            | None => c :: fmt_filter 0 true r lk
            end
          else c :: fmt_filter 0 (c =? c_pct)%N r lk
      end
  end.

Definition format_filter (text : str) (lk : lookup_fn) : str := fmt_filter 0 false text lk.

(* the names found by re_vars.findall with (?<!%)%\((\w+)\)s *)
Fixpoint find_vars_f (skip : nat) (prev_pct : bool) (s : str) : list str :=
  match s with
  | [] => []
  | c :: r =>
      match skip with
      | S k => find_vars_f k false r
      | O =>
          if ((c =? c_pct)%N && negb prev_pct)%bool then
            match parse_ph r with
            | Some (n, _) => n :: find_vars_f (length n + 3) false r
            | None => find_vars_f 0 true r
            end
          else find_vars_f 0 (c =? c_pct)%N r
      end
  end.
Definition find_vars (text : str) : list str := find_vars_f 0 false text.

(* ---- Python printf-style formatting `msg % mapping`, for the conversions the tag can produce.
        A key missing from the mapping is KeyError; any other conversion is an error too. ---- *)
Fixpoint take_until_rpar (s : str) : option (str * str) :=
  match s with
  | [] => None
  | c :: r => if (c =? c_rpar)%N then Some ([], r)
              else match take_until_rpar r with Some (k, rest) => Some (c :: k, rest) | None => None end
  end.

Fixpoint printf (skip : nat) (s : str) (get : str -> option str) : res str :=
  match s with
  | [] => Ok []
  | c :: r =>
      match skip with
      | S k => printf k r get
      | O =>
          if (c =? c_pct)%N then
            match r with
            | [] => Err EValueError                                    (* incomplete format *)
            | d :: r' =>
                if (d =? c_pct)%N then do o <- printf 1 r get; Ok (c_pct :: o)
                else if (d =? c_lpar)%N then
                  match take_until_rpar r' with
                  | None => Err EValueError                            (* incomplete format key *)
                  | Some (k, rest) =>
                      match rest with
                      | e :: _ =>
                          if (e =? c_s)%N then
                            match get k with
                            | Some v => do o <- printf (length k + 3) r get; Ok (v ++ o)
                            | None => Err EKeyError
                            end
                          else Err EValueError                         (* other conversions: not produced by the tag *)
                      | [] => Err EValueError
                      end
                  end
                else Err ETypeError                                    (* positional conversion with a mapping *)
            end
          else do o <- printf 0 r get; Ok (c :: o)
      end
  end.

(* ---- the translate tag ---- *)
Inductive item := IChar (c : N) | IVar (name : str).     (* template text character | {{ name }} *)

(* validate_message_block: '%' in text is doubled, a variable becomes %(name)s *)
Fixpoint serialize (items : list item) : str :=
  match items with
  | [] => []
  | IChar c :: r => if (c =? c_pct)%N then c_pct :: c_pct :: serialize r else c :: serialize r
  | IVar n :: r => c_pct :: c_lpar :: n ++ c_rpar :: c_s :: serialize r
  end.

(* msg.strip() then re.sub(r"\s*\n\s*", " ", msg): every maximal whitespace run that contains a newline -> " " *)
Fixpoint drop_space (s : str) : str :=
  match s with c :: r => if is_space c then drop_space r else s | [] => [] end.
Definition strip (s : str) : str := rev (drop_space (rev (drop_space s))).

Fixpoint span_space (s : str) : str * str :=
  match s with
  | c :: r => if is_space c then let '(w, rest) := span_space r in (c :: w, rest) else ([], s)
  | [] => ([], [])
  end.

Fixpoint collapse (skip : nat) (s : str) : str :=
  match s with
  | [] => []
  | c :: r =>
      match skip with
      | S k => collapse k r
      | O =>
          if is_space c then
            let w := fst (span_space s) in
            (if existsb (fun x => (x =? 10)%N) w then [32%N] else w) ++ collapse (length w - 1) r
          else c :: collapse 0 r
      end
  end.

Definition normalise (msg : str) : str := collapse 0 (strip msg).

(* re_vars.findall for the tag: (?<!%)(?:%%)*%\((\w+)\)s -- a placeholder preceded by an EVEN number of '%' *)
Fixpoint find_vars_t (skip : nat) (run : nat) (s : str) : list str :=
  match s with
  | [] => []
  | c :: r =>
      match skip with
      | S k => find_vars_t k 0 r
      | O =>
          if (c =? c_pct)%N then
            if Nat.even run then
              match parse_ph r with
              | Some (n, _) => n :: find_vars_t (length n + 3) 0 r
              | None => find_vars_t 0 (S run) r
              end
            else find_vars_t 0 (S run) r
          else find_vars_t 0 0 r
      end
  end.
Definition find_vars_tag (msg : str) : list str := find_vars_t 0 0 msg.

Fixpoint mem (x : str) (l : list str) : bool :=
  match l with [] => false | y :: r => str_eqb x y || mem x r end.

(* TranslateNode._format_message with NullTranslations: _vars holds the names findall found *)
Definition format_tag_msg (msg : str) (lk : lookup_fn) : res str :=
  let vars := find_vars_tag msg in
  printf 0 msg (fun k => if mem k vars then Some (lk k) else None).

Definition format_tag (items : list item) (lk : lookup_fn) : res str :=
  format_tag_msg (normalise (serialize items)) lk.

(* the old findall of the tag, (?<!%)%\((\w+)\)s, misses a placeholder that directly follows a '%' of the text *)
Definition format_tag_msg_old (msg : str) (lk : lookup_fn) : res str :=
  let vars := find_vars msg in
  printf 0 msg (fun k => if mem k vars then Some (lk k) else None).

(* what the property demands of the tag, before whitespace normalisation: text as is, variables substituted *)
Fixpoint render_items (items : list item) (lk : lookup_fn) : str :=
  match items with
  | [] => []
  | IChar c :: r => c :: render_items r lk
  | IVar n :: r => lk n ++ render_items r lk
  end.

(* ---- plural selection ---- *)
Inductive countval := CAbsent | CNil | CBool (b : bool) | CInt (z : Z) | CStrInt (z : Z) | CStrBad.
Inductive form := Singular | Plural.

(* gettext.NullTranslations.ngettext *)
Definition null_ngettext (n : Z) : form := if (n =? 1)%Z then Singular else Plural.

(* the `t` filter: _count *)
Definition t_count (c : countval) : option Z :=
  match c with
  | CAbsent | CNil | CBool _ | CStrBad => None
  | CInt z | CStrInt z => Some z
  end.
Definition t_form (has_plural : bool) (c : countval) : form :=
  match has_plural, t_count c with
  | true, Some n => null_ngettext n
  | _, _ => Singular
  end.
(* before the fix: `val in (None, False, True)` also swallowed 0 and 1 *)
Definition t_count_old (c : countval) : option Z :=
  match c with
  | CAbsent | CNil | CBool _ | CStrBad => None
  | CInt z => if ((z =? 0) || (z =? 1))%Z then None else Some z
  | CStrInt z => Some z
  end.
Definition t_form_old (has_plural : bool) (c : countval) : form :=
  match has_plural, t_count_old c with
  | true, Some n => null_ngettext n
  | _, _ => Singular
  end.

(* the tag: resolve_count (to_int; ValueError and -- since the C02 repair -- TypeError -> 1, so nil counts as 1) *)
Definition tag_count (c : countval) : res Z :=
  match c with
  | CAbsent | CStrBad | CNil => Ok 1%Z
  | CBool b => Ok (if b then 1 else 0)%Z
  | CInt z | CStrInt z => Ok z
  end.
Definition tag_form (has_plural : bool) (c : countval) : res form :=
  do n <- tag_count c; Ok (if has_plural then null_ngettext n else Singular).
(* before the C02 repair a nil count let the TypeError of to_int(None) escape *)
Definition tag_count_nil_old (c : countval) : res Z := match c with CNil => Err ETypeError | _ => tag_count c end.
(* before the fix: `if self.plural_block and count:` *)
Definition tag_form_old (has_plural : bool) (c : countval) : res form :=
  do n <- tag_count c; Ok (if (has_plural && negb (n =? 0)%Z)%bool then null_ngettext n else Singular).

(* ---- correspondence cases ---- *)
Definition assoc_lookup (vars : list (str * str)) : lookup_fn :=
  fun k => match alookup k vars with Some v => v | None => [] end.

Record fcase := { fc_text : str; fc_vars : list (str * str) }.
Definition run_filter (c : fcase) : str := format_filter (fc_text c) (assoc_lookup (fc_vars c)).

Record tcase := { tc_items : list item; tc_vars : list (str * str) }.
Inductive tobs := TOut (s : str) | TErr (e : exn).
Definition run_tag (c : tcase) : tobs :=
  match format_tag (tc_items c) (assoc_lookup (tc_vars c)) with
  | Ok s => TOut s | Err e => TErr e | OutOfFuel => TErr EOtherForeign
  end.
Definition tobs_eqb (a b : tobs) : bool :=
  match a, b with TOut x, TOut y => str_eqb x y | TErr x, TErr y => exn_eqb x y | _, _ => false end.

Definition form_eqb (a b : form) : bool := match a, b with Singular, Singular | Plural, Plural => true | _, _ => false end.
Record pcase := { pc_tag : bool; pc_plural : bool; pc_count : countval }.
Definition run_plural (c : pcase) : res form :=
  if pc_tag c then tag_form (pc_plural c) (pc_count c) else Ok (t_form (pc_plural c) (pc_count c)).
Definition pobs_eqb (a b : res form) : bool :=
  match a, b with Ok x, Ok y => form_eqb x y | Err x, Err y => exn_eqb x y | _, _ => false end.
