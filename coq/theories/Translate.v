(* Model of message formatting in liquid/extra/filters/translate.py and liquid/extra/tags/translate_tag.py
   with the default NullTranslations.  Executable definitions only. *)
From Coq Require Import String Ascii.
From LiquidVerif Require Import Prelude PyPrims.

Definition lit (x : string) : str := map N_of_ascii (list_ascii_of_string x).

Definition c_pct : N := 37.   (* % *)
Definition c_lpar : N := 40.  (* ( *)
Definition c_rpar : N := 41.  (* ) *)
Definition c_s : N := 115.    (* s *)

(* \w restricted to ASCII (assumption of the model) *)
Definition is_word (c : N) : bool :=
  ((48 <=? c) && (c <=? 57) || (65 <=? c) && (c <=? 90) || (97 <=? c) && (c <=? 122) || (c =? 95))%N.

(* \s and str.strip/str.isspace restricted to ASCII (assumption of the model): space, \t \n \v \f \r and the four
   separator controls \x1c..\x1f, which Python counts as whitespace in both places *)
Definition is_space (c : N) : bool := ((c =? 32) || (9 <=? c) && (c <=? 13) || (28 <=? c) && (c <=? 31))%N.

(* a placeholder name of the TAG: [\w?-]+ (any Liquid identifier: hyphens, trailing question mark) *)
Definition is_tname (c : N) : bool := (is_word c || (c =? 45) || (c =? 63))%N.
Fixpoint take_tname (s : str) : str * str :=
  match s with
  | c :: r => if is_tname c then let '(w, rest) := take_tname r in (c :: w, rest) else ([], s)
  | [] => ([], [])
  end.
(* after a '%': "(" [\w?-]+ ")s" *)
Definition parse_ph_t (r : str) : option (str * str) :=
  match r with
  | c :: r1 =>
      if (c =? 40)%N then
        let '(w, r2) := take_tname r1 in
        match w, r2 with
        | _ :: _, c1 :: c2 :: rest => if ((c1 =? 41) && (c2 =? 115))%N then Some (w, rest) else None
        | _, _ => None
        end
      else None
  | [] => None
  end.

Fixpoint take_word (s : str) : str * str :=
  match s with
  | c :: r => if is_word c then let '(w, rest) := take_word r in (c :: w, rest) else ([], s)
  | [] => ([], [])
  end.

(* after a '%': "(" \w+ ")s" *)
Definition parse_ph (r : str) : option (str * str) :=
  match r with
  | c :: r1 =>
      if (c =? c_lpar)%N then
        let '(w, r2) := take_word r1 in
        match w, r2 with
        | _ :: _, c1 :: c2 :: rest => if ((c1 =? c_rpar) && (c2 =? c_s))%N then Some (w, rest) else None
        | _, _ => None
        end
      else None
  | [] => None
  end.

Definition lookup_fn := str -> str.     (* a variable's rendered value; missing => "" (default undefined) *)

(* ---- the filters (t, gettext, ngettext, pgettext, npgettext): only (?<!%)%\((\w+)\)s placeholders are
        replaced; every other character, percent signs included, is kept.
        [skip] = characters of an already matched placeholder still to be passed over. ---- *)
Fixpoint fmt_filter (skip : nat) (prev_pct : bool) (s : str) (lk : lookup_fn) : str :=
  match s with
  | [] => []
  | c :: r =>
      match skip with
      | S k => fmt_filter k false r lk
      | O =>
          if ((c =? c_pct)%N && negb prev_pct)%bool then
            match parse_ph r with
            | Some (n, _) => lk n ++ fmt_filter (length n + 3) false r lk
            | None => c :: fmt_filter 0 true r lk
            end
          else c :: fmt_filter 0 (c =? c_pct)%N r lk
      end
  end.

Definition format_filter (text : str) (lk : lookup_fn) : str := fmt_filter 0 false text lk.

(* the names found by re_vars.findall with (?<!%)%\((\w+)\)s *)
Fixpoint find_vars_f (skip : nat) (prev_pct : bool) (s : str) : list str :=
  match s with
  | [] => []
  | c :: r =>
      match skip with
      | S k => find_vars_f k false r
      | O =>
          if ((c =? c_pct)%N && negb prev_pct)%bool then
            match parse_ph r with
            | Some (n, _) => n :: find_vars_f (length n + 3) false r
            | None => find_vars_f 0 true r
            end
          else find_vars_f 0 (c =? c_pct)%N r
      end
  end.
Definition find_vars (text : str) : list str := find_vars_f 0 false text.

(* ---- Python printf-style formatting `msg % mapping`, for the conversions the tag can produce.
        A key missing from the mapping is KeyError; any other conversion is an error too. ---- *)
Fixpoint take_until_rpar (s : str) : option (str * str) :=
  match s with
  | [] => None
  | c :: r => if (c =? c_rpar)%N then Some ([], r)
              else match take_until_rpar r with Some (k, rest) => Some (c :: k, rest) | None => None end
  end.

Fixpoint printf (skip : nat) (s : str) (get : str -> option str) : res str :=
  match s with
  | [] => Ok []
  | c :: r =>
      match skip with
      | S k => printf k r get
      | O =>
          if (c =? c_pct)%N then
            match r with
            | [] => Err EValueError                                    (* incomplete format *)
            | d :: r' =>
                if (d =? c_pct)%N then do o <- printf 1 r get; Ok (c_pct :: o)
                else if (d =? c_lpar)%N then
                  match take_until_rpar r' with
                  | None => Err EValueError                            (* incomplete format key *)
                  | Some (k, rest) =>
                      match rest with
                      | e :: _ =>
                          if (e =? c_s)%N then
                            match get k with
                            | Some v => do o <- printf (length k + 3) r get; Ok (v ++ o)
                            | None => Err EKeyError
                            end
                          else Err EValueError                         (* other conversions: not produced by the tag *)
                      | [] => Err EValueError
                      end
                  end
                else Err ETypeError                                    (* positional conversion with a mapping *)
            end
          else do o <- printf 0 r get; Ok (c :: o)
      end
  end.

(* ---- the translate tag ---- *)
Inductive item := IChar (c : N) | IVar (name : str).     (* template text character | {{ name }} *)

(* validate_message_block: '%' in text is doubled, a variable becomes %(name)s *)
Fixpoint serialize (items : list item) : str :=
  match items with
  | [] => []
  | IChar c :: r => if (c =? c_pct)%N then c_pct :: c_pct :: serialize r else c :: serialize r
  | IVar n :: r => c_pct :: c_lpar :: n ++ c_rpar :: c_s :: serialize r
  end.

(* msg.strip() then re.sub(r"\s*\n\s*", " ", msg): every maximal whitespace run that contains a newline -> " " *)
Fixpoint drop_space (s : str) : str :=
  match s with c :: r => if is_space c then drop_space r else s | [] => [] end.
Definition strip (s : str) : str := rev (drop_space (rev (drop_space s))).

Fixpoint span_space (s : str) : str * str :=
  match s with
  | c :: r => if is_space c then let '(w, rest) := span_space r in (c :: w, rest) else ([], s)
  | [] => ([], [])
  end.

Fixpoint collapse (skip : nat) (s : str) : str :=
  match s with
  | [] => []
  | c :: r =>
      match skip with
      | S k => collapse k r
      | O =>
          if is_space c then
            let w := fst (span_space s) in
            (if existsb (fun x => (x =? 10)%N) w then [32%N] else w) ++ collapse (length w - 1) r
          else c :: collapse 0 r
      end
  end.

Definition normalise (msg : str) : str := collapse 0 (strip msg).

(* re_vars.findall for the tag: (?<!%)(?:%%)*%\(([\w?-]+)\)s -- a placeholder preceded by an EVEN number of '%' *)
Fixpoint find_vars_t (skip : nat) (run : nat) (s : str) : list str :=
  match s with
  | [] => []
  | c :: r =>
      match skip with
      | S k => find_vars_t k 0 r
      | O =>
          if (c =? c_pct)%N then
            if Nat.even run then
              match parse_ph_t r with
              | Some (n, _) => n :: find_vars_t (length n + 3) 0 r
              | None => find_vars_t 0 (S run) r
              end
            else find_vars_t 0 (S run) r
          else find_vars_t 0 0 r
      end
  end.
Definition find_vars_tag (msg : str) : list str := find_vars_t 0 0 msg.

(* the same with the name pattern \w+ the tag used before the variable-name repair *)
Fixpoint find_vars_tw (skip : nat) (run : nat) (s : str) : list str :=
  match s with
  | [] => []
  | c :: r =>
      match skip with
      | S k => find_vars_tw k 0 r
      | O =>
          if (c =? c_pct)%N then
            if Nat.even run then
              match parse_ph r with
              | Some (n, _) => n :: find_vars_tw (length n + 3) 0 r
              | None => find_vars_tw 0 (S run) r
              end
            else find_vars_tw 0 (S run) r
          else find_vars_tw 0 0 r
      end
  end.
Definition find_vars_tag_w (msg : str) : list str := find_vars_tw 0 0 msg.

Fixpoint mem (x : str) (l : list str) : bool :=
  match l with [] => false | y :: r => str_eqb x y || mem x r end.

(* TranslateNode._format_message with NullTranslations: _vars holds the names findall found *)
Definition format_tag_msg (msg : str) (lk : lookup_fn) : res str :=
  let vars := find_vars_tag msg in
  printf 0 msg (fun k => if mem k vars then Some (lk k) else None).

(* validate_message_block: a variable whose name is not [\w?-]+ (possible with quoted names) is a
   TranslationSyntaxError when the template is parsed *)
Definition name_valid (n : str) : bool := match n with [] => false | _ => forallb is_tname n end.
Fixpoint names_valid (items : list item) : bool :=
  match items with
  | [] => true
  | IChar _ :: r => names_valid r
  | IVar n :: r => name_valid n && names_valid r
  end.

Definition format_tag (items : list item) (lk : lookup_fn) : res str :=
  if names_valid items then format_tag_msg (normalise (serialize items)) lk else Err ESyntax.

(* before the variable-name repair: no check of the name, and \w+ in the pattern that collects the variables *)
Definition format_tag_names_old (items : list item) (lk : lookup_fn) : res str :=
  let msg := normalise (serialize items) in
  let vars := find_vars_tag_w msg in
  printf 0 msg (fun k => if mem k vars then Some (lk k) else None).

(* the old findall of the tag, (?<!%)%\((\w+)\)s, misses a placeholder that directly follows a '%' of the text *)
Definition format_tag_msg_old (msg : str) (lk : lookup_fn) : res str :=
  let vars := find_vars msg in
  printf 0 msg (fun k => if mem k vars then Some (lk k) else None).

(* what the property demands of the tag, before whitespace normalisation: text as is, variables substituted *)
Fixpoint render_items (items : list item) (lk : lookup_fn) : str :=
  match items with
  | [] => []
  | IChar c :: r => c :: render_items r lk
  | IVar n :: r => lk n ++ render_items r lk
  end.

(* ---- the declarative reading of the tag's whitespace rule ----
   A block is, in exactly one way, either blank or
     lead w1 g1 w2 g2 ... wn trail
   where the w are non-empty runs of non-whitespace items (characters and variables), the g non-empty runs of
   whitespace characters, and lead/trail possibly empty whitespace runs.  The message keeps the words; lead and trail
   go; a gap that contains a newline becomes one space; a gap without a newline stays as it is. *)
Definition item_space (i : item) : bool := match i with IChar c => is_space c | IVar _ => false end.
Definition item_nl (i : item) : bool := match i with IChar c => (c =? 10)%N | IVar _ => false end.

Inductive block :=
| BBlank (ws : list item)
| BWords (lead : list item) (w1 : list item) (rest : list (list item * list item)) (trail : list item).

Definition gap_out (g : list item) : list item := if existsb item_nl g then [IChar 32%N] else g.

Fixpoint flat_rest (rest : list (list item * list item)) : list item :=
  match rest with [] => [] | (g, w) :: r => g ++ w ++ flat_rest r end.
Fixpoint norm_rest (rest : list (list item * list item)) : list item :=
  match rest with [] => [] | (g, w) :: r => gap_out g ++ w ++ norm_rest r end.

Definition flatten (b : block) : list item :=
  match b with
  | BBlank ws => ws
  | BWords lead w1 rest trail => lead ++ w1 ++ flat_rest rest ++ trail
  end.
Definition norm_block (b : block) : list item :=
  match b with
  | BBlank _ => []
  | BWords _ w1 rest _ => w1 ++ norm_rest rest
  end.

Definition all_space (g : list item) : bool := forallb item_space g.
Definition is_word_run (w : list item) : bool :=
  match w with [] => false | _ => forallb (fun i => negb (item_space i)) w end.
Definition is_gap (g : list item) : bool := match g with [] => false | _ => all_space g end.
Definition wf_block (b : block) : bool :=
  match b with
  | BBlank ws => all_space ws
  | BWords lead w1 rest trail =>
      all_space lead && is_word_run w1 && forallb (fun gw => is_gap (fst gw) && is_word_run (snd gw)) rest && all_space trail
  end.

(* the decomposition, computed (used to show that every block has one) *)
Fixpoint span_items (p : item -> bool) (l : list item) : list item * list item :=
  match l with
  | i :: r => if p i then let '(a, b) := span_items p r in (i :: a, b) else ([], l)
  | [] => ([], [])
  end.
(* [l] starts with a word (or is empty): words and gaps alternately; a final gap is the trail *)
Fixpoint split_rest (fuel : nat) (l : list item) : list (list item * list item) * list item :=
  match fuel with
  | O => ([], l)
  | S f =>
      let '(g, r1) := span_items item_space l in
      match r1 with
      | [] => ([], g)
      | _ => let '(w, r2) := span_items (fun i => negb (item_space i)) r1 in
             let '(rest, trail) := split_rest f r2 in ((g, w) :: rest, trail)
      end
  end.
Definition decompose (items : list item) : block :=
  let '(lead, r1) := span_items item_space items in
  match r1 with
  | [] => BBlank lead
  | _ => let '(w1, r2) := span_items (fun i => negb (item_space i)) r1 in
         let '(rest, trail) := split_rest (length r2) r2 in BWords lead w1 rest trail
  end.

(* ---- message counts ---- *)
(* int(str) for ASCII strings: surrounding whitespace, one optional sign, digits with single underscores between them *)
Definition is_digit (c : N) : bool := ((48 <=? c) && (c <=? 57))%N.
Fixpoint digits_us (s : str) (acc : Z) (prev_digit : bool) : option Z :=
  match s with
  | [] => if prev_digit then Some acc else None
  | c :: r =>
      if is_digit c then digits_us r (acc * 10 + Z.of_N (c - 48)) true
      else if ((c =? 95)%N && prev_digit)%bool then digits_us r acc false
      else None
  end.
Definition py_int (s : str) : option Z :=
  match strip s with
  | [] => None
  | c :: r =>
      if (c =? 43)%N then digits_us r 0 false
      else if (c =? 45)%N then match digits_us r 0 false with Some z => Some (- z)%Z | None => None end
      else digits_us (c :: r) 0 false
  end.

Inductive countval :=
| CAbsent | CNil | CBool (b : bool) | CInt (z : Z)
| CFloat (m : Z) (e : nat)          (* the float m / 10^e *)
| CInf | CNan
| CStr (s : str)
| CArr | CHash.
Inductive form := Singular | Plural.

(* liquid.limits.to_int: int(val), OverflowError (infinity) turned into ValueError *)
Inductive toint := TI (z : Z) | TIValueError | TITypeError.
Definition to_int (c : countval) : toint :=
  match c with
  | CAbsent | CNil | CArr | CHash => TITypeError
  | CBool b => TI (if b then 1 else 0)
  | CInt z => TI z
  | CFloat m e => TI (Z.quot m (10 ^ Z.of_nat e))      (* int(float) truncates towards zero *)
  | CInf | CNan => TIValueError
  | CStr s => match py_int s with Some z => TI z | None => TIValueError end
  end.

(* gettext.NullTranslations.ngettext *)
Definition null_ngettext (n : Z) : form := if (n =? 1)%Z then Singular else Plural.

(* the `t` filter: _count (None and booleans mean "no count"; to_int; ValueError -> no count; a TypeError
   becomes the filter's LiquidTypeError) *)
Definition t_count (c : countval) : res (option Z) :=
  match c with
  | CAbsent | CNil | CBool _ => Ok None
  | _ => match to_int c with TI z => Ok (Some z) | TIValueError => Ok None | TITypeError => Err EType end
  end.
Definition t_form (has_plural : bool) (c : countval) : res form :=
  do n <- t_count c;
  Ok (match has_plural, n with true, Some n => null_ngettext n | _, _ => Singular end).
(* before the infinity repair _count called int() itself and let its OverflowError escape *)
Definition t_count_inf_old (c : countval) : res (option Z) :=
  match c with CInf => Err EOverflowError | _ => t_count c end.
(* before the first repair: `val in (None, False, True)` also swallowed 0 and 1 *)
Definition t_count_old (c : countval) : res (option Z) :=
  match c with
  | CInt z => if ((z =? 0) || (z =? 1))%Z then Ok None else Ok (Some z)
  | _ => t_count c
  end.
Definition t_form_old (has_plural : bool) (c : countval) : res form :=
  do n <- t_count_old c;
  Ok (match has_plural, n with true, Some n => null_ngettext n | _, _ => Singular end).

(* ngettext / npgettext filters: int_arg(count, default=1) *)
Definition ng_count (c : countval) : res Z :=
  match to_int c with TI z => Ok z | TIValueError => Ok 1%Z | TITypeError => Err EType end.
Definition ng_form (c : countval) : res form := do n <- ng_count c; Ok (null_ngettext n).

(* the tag: resolve_count (absent -> 1; to_int; ValueError and -- since the C02 repair -- TypeError -> 1) *)
Definition tag_count (c : countval) : res Z :=
  match c with
  | CAbsent => Ok 1%Z
  | _ => match to_int c with TI z => Ok z | _ => Ok 1%Z end
  end.
Definition tag_form (has_plural : bool) (c : countval) : res form :=
  do n <- tag_count c; Ok (if has_plural then null_ngettext n else Singular).
(* before the C02 repair a nil count let the TypeError of to_int(None) escape *)
Definition tag_count_nil_old (c : countval) : res Z := match c with CNil => Err ETypeError | _ => tag_count c end.
(* before the fix: `if self.plural_block and count:` *)
Definition tag_form_old (has_plural : bool) (c : countval) : res form :=
  do n <- tag_count c; Ok (if (has_plural && negb (n =? 0)%Z)%bool then null_ngettext n else Singular).

(* what a count denotes, independently of the three entry points: integers, booleans as 0/1, floats truncated,
   integer strings; everything else denotes no number *)
Definition count_int (c : countval) : option Z :=
  match c with
  | CBool b => Some (if b then 1 else 0)%Z
  | CInt z => Some z
  | CFloat m e => Some (Z.quot m (10 ^ Z.of_nat e))
  | CStr s => py_int s
  | _ => None
  end.
Definition count_no_type (c : countval) : bool :=       (* values int() raises TypeError for *)
  match c with CAbsent | CNil | CArr | CHash => true | _ => false end.

(* ---- message context and the gettext function that is called ---- *)
Inductive ctxval := XAbsent | XNil | XBool (b : bool) | XInt (z : Z) | XStr (s : str).
Inductive gcall := GGet | GNget (n : Z) | GPget (c : str) | GNpget (c : str) (n : Z).

(* the tag: `if message_context:` (Python truthiness), then str() *)
Definition tag_ctx (x : ctxval) : option str :=
  match x with
  | XAbsent | XNil | XBool false => None
  | XBool true => Some (lit "True")
  | XInt z => if (z =? 0)%Z then None else Some (Z_to_str z)
  | XStr s => match s with [] => None | _ => Some s end
  end.
Definition tag_call (has_plural : bool) (c : countval) (x : ctxval) : res gcall :=
  do n <- tag_count c;
  Ok (match has_plural, tag_ctx x with
      | true, Some k => GNpget k n
      | true, None => GNget n
      | false, Some k => GPget k
      | false, None => GGet
      end).

(* the filters: `is not None`, then to_liquid_string *)
Definition liquid_str_ctx (x : ctxval) : str :=
  match x with
  | XAbsent | XNil => []
  | XBool b => bool_to_str b
  | XInt z => Z_to_str z
  | XStr s => s
  end.
Definition t_ctx (x : ctxval) : option str :=
  match x with XAbsent | XNil => None | _ => Some (liquid_str_ctx x) end.
Definition t_call (has_plural : bool) (c : countval) (x : ctxval) : res gcall :=
  do n <- t_count c;
  Ok (match has_plural, n, t_ctx x with
      | true, Some n, Some k => GNpget k n
      | true, Some n, None => GNget n
      | _, _, Some k => GPget k
      | _, _, None => GGet
      end).
Definition pgettext_call (x : ctxval) : gcall := GPget (liquid_str_ctx x).
Definition ngettext_call (c : countval) : res gcall := do n <- ng_count c; Ok (GNget n).
Definition npgettext_call (c : countval) (x : ctxval) : res gcall := do n <- ng_count c; Ok (GNpget (liquid_str_ctx x) n).

(* gettext.NullTranslations: the context never matters *)
Definition null_eval (g : gcall) : form :=
  match g with GGet | GPget _ => Singular | GNget n | GNpget _ n => null_ngettext n end.

(* ---- correspondence cases ---- *)
Definition assoc_lookup (vars : list (str * str)) : lookup_fn :=
  fun k => match alookup k vars with Some v => v | None => [] end.

Record fcase := { fc_text : str; fc_vars : list (str * str) }.
Definition run_filter (c : fcase) : str := format_filter (fc_text c) (assoc_lookup (fc_vars c)).

Record tcase := { tc_items : list item; tc_vars : list (str * str) }.
Inductive tobs := TOut (s : str) | TErr (e : exn).
Definition run_tag (c : tcase) : tobs :=
  match format_tag (tc_items c) (assoc_lookup (tc_vars c)) with
  | Ok s => TOut s | Err e => TErr e | OutOfFuel => TErr EOtherForeign
  end.
Definition tobs_eqb (a b : tobs) : bool :=
  match a, b with TOut x, TOut y => str_eqb x y | TErr x, TErr y => exn_eqb x y | _, _ => false end.
(* the same case through the declarative reading (decompose, normalise the shape, substitute) *)
Definition run_tag_spec (c : tcase) : tobs :=
  if names_valid (tc_items c) then TOut (render_items (norm_block (decompose (tc_items c))) (assoc_lookup (tc_vars c)))
  else TErr ESyntax.

(* which gettext function is called with which context and count, per entry point *)
Inductive entry := ETag | ETFilter | EGettext | ENgettext | EPgettext | ENpgettext.
Definition gcall_eqb (a b : gcall) : bool :=
  match a, b with
  | GGet, GGet => true
  | GNget n, GNget m => (n =? m)%Z
  | GPget c, GPget d => str_eqb c d
  | GNpget c n, GNpget d m => str_eqb c d && (n =? m)%Z
  | _, _ => false
  end.
Record pcase := { pc_entry : entry; pc_plural : bool; pc_count : countval; pc_ctx : ctxval }.
Definition run_call (c : pcase) : res gcall :=
  match pc_entry c with
  | ETag => tag_call (pc_plural c) (pc_count c) (pc_ctx c)
  | ETFilter => t_call (pc_plural c) (pc_count c) (pc_ctx c)
  | EGettext => Ok GGet
  | ENgettext => ngettext_call (pc_count c)
  | EPgettext => Ok (pgettext_call (pc_ctx c))
  | ENpgettext => npgettext_call (pc_count c) (pc_ctx c)
  end.
Definition cobs_eqb (a b : res gcall) : bool :=
  match a, b with Ok x, Ok y => gcall_eqb x y | Err x, Err y => exn_eqb x y | _, _ => false end.

Definition form_eqb (a b : form) : bool := match a, b with Singular, Singular | Plural, Plural => true | _, _ => false end.
(* the form rendered with null translations *)
Definition run_plural (c : pcase) : res form := do g <- run_call c; Ok (null_eval g).
Definition pobs_eqb (a b : res form) : bool :=
  match a, b with Ok x, Ok y => form_eqb x y | Err x, Err y => exn_eqb x y | _, _ => false end.
