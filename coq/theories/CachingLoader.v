(* Model of the caching template loaders: liquid/builtin/loaders/mixins.py (CachingLoaderMixin:
   cache_key, _check_cache, _check_cache_async, load, load_async), liquid/loader.py (BaseLoader.load,
   load_async) and the part of BoundTemplate the cache touches (is_up_to_date, the globals attribute).
   The LRU cache is the one of Lru.v (liquid/utils/lru_cache.py).  Executable definitions only; proofs
   live in CachingLoader_Proofs.v.

   What stands for what.
   - A *store* is the non-caching loader's view of the world: (template name, namespace) |-> version of
     the source text.  DictLoader / ChoiceLoader / FileSystemLoader ignore the namespace ([aware] = false:
     the store key is the name alone); a loader whose get_source narrows its search by a keyword argument
     or by the render context ([aware] = true) uses both.  An edit replaces the text (new version).
   - A parsed template is a record: its name attribute, which store entry and which version its source
     came from, and its globals.  Templates are *objects*: the cache holds references (heap ids); the code as
     found did `cached_template.globals = ...` on a hit, mutating the object every earlier holder also sees
     ([v_hit_mutates]); the repaired code never changes a cached object (a hit returns it, or a shallow copy
     bound to other globals).  The heap keeps every object handed out so that it can be observed again later.
   - The specification of a caching loader is the non-caching loader [base_load] applied to the store as
     it is at the time of the request. *)
From LiquidVerif Require Import Prelude Lru.

(* ---------- strings ---------- *)
Definition slash : N := 47%N.

(* cache keys are Python strings; Lru.v has N keys: an injective coding (enc_inj in the proofs file):
   enc (c :: r) = (2 * enc r + 1) * 2^c, computed by a shift *)
Fixpoint enc (s : str) : N :=
  match s with
  | [] => 0%N
  | c :: r => N.shiftl (2 * enc r + 1) c
  end.

(* pathlib: Path(full_name).name for a name without '.'/'..' parts and without a trailing separator:
   the text after the last '/' *)
Fixpoint basename_from (acc s : str) : str :=
  match s with
  | [] => acc
  | c :: r => if N.eqb c slash then basename_from [] r else basename_from (acc ++ [c]) r
  end.
Definition basename (s : str) : str := basename_from [] s.

Definition ostr_eqb (a b : option str) : bool := option_eqb str_eqb a b.

(* ---------- configuration, requests ---------- *)
Record config := {
  nk : str;             (* CachingLoaderMixin.namespace_key; [] = not set *)
  auto_reload : bool;
  capacity : nat;
  aware : bool;         (* the wrapped loader's get_source uses the namespace (kwarg first, then context) *)
  detects : bool;       (* get_source returns an `uptodate` callable that notices an edit (file system: mtime;
                           DictLoader before the repair: uptodate = None, i.e. always "up to date") *)
  awaitable_uptodate : bool;
                        (* get_source_async returns an `uptodate` that must be awaited (FileSystemLoader as found:
                           partial(self._uptodate_async, ...)); get_source always returns a plain callable *)
  missing_raises : bool;
                        (* the `uptodate` callable raises OSError when the source has been removed
                           (FileSystemLoader._uptodate as found: source_path.stat() without a handler) *)
  env_g : N             (* Environment.globals: 0 = empty, otherwise an identifier of its content *)
}.

Inductive mode := Sync | Async.

Record get := {
  g_mode : mode;          (* get_template | get_template_async *)
  g_name : str;
  g_kw : option str;      (* value of the keyword argument named namespace_key, if given *)
  g_ctx : option str;     (* value of context.globals[namespace_key], if a context is given and has it *)
  g_globals : N           (* globals= argument: 0 = absent/empty, otherwise an identifier of its content *)
}.

Inductive request :=
| Get (g : get)
| Edit (name : str) (ns : option str)     (* the source text of that store entry is replaced; a deleted one is re-created *)
| Delete (name : str) (ns : option str).  (* the source is removed (file deleted, dict key removed) *)

(* the two transcription variants: the code as found (all three true) and as repaired (all false) *)
Record variant := {
  v_async_swap : bool;      (* load_async passes `name` as the cache key and `cache_key` as the template name *)
  v_globals_if : bool;      (* `if globals: cached_template.globals = globals` (conditional) *)
  v_async_rawname : bool;   (* BaseLoader.load_async: name=name, where load has name=Path(full_name).name *)
  v_hit_mutates : bool      (* a cache hit rebinds `cached_template.globals` IN PLACE and returns the shared object;
                               repaired: the cached object is never changed, a hit returns it only if it is already
                               bound to the same globals, otherwise a shallow copy bound to this request's globals *)
}.
Definition fixed : variant :=
  {| v_async_swap := false; v_globals_if := false; v_async_rawname := false; v_hit_mutates := false |}.
Definition as_found : variant :=
  {| v_async_swap := true; v_globals_if := true; v_async_rawname := true; v_hit_mutates := true |}.
(* after the first round of repairs: globals rebound unconditionally, but still in place *)
Definition rebinding : variant :=
  {| v_async_swap := false; v_globals_if := false; v_async_rawname := false; v_hit_mutates := true |}.

(* ---------- the store ---------- *)
Definition skey := (str * option str)%type.
Definition skey_eqb (a b : skey) : bool := str_eqb (fst a) (fst b) && ostr_eqb (snd a) (snd b).

(* an entry: (version of the text last written, is it there now).  The version counter survives a
   deletion so that a re-created source never carries a version seen before. *)
Definition store := list (skey * (N * bool)).

Fixpoint slookup (k : skey) (st : store) : option N :=
  match st with
  | [] => None
  | (k', (v, present)) :: r => if skey_eqb k k' then (if present then Some v else None) else slookup k r
  end.

(* writing a text: new version, present (also after a deletion) *)
Fixpoint sedit (k : skey) (st : store) : store :=
  match st with
  | [] => []
  | (k', (v, present)) :: r => if skey_eqb k k' then (k', (N.succ v, true)) :: r else (k', (v, present)) :: sedit k r
  end.

Fixpoint sdelete (k : skey) (st : store) : store :=
  match st with
  | [] => []
  | (k', (v, present)) :: r => if skey_eqb k k' then (k', (v, false)) :: r else (k', (v, present)) :: sdelete k r
  end.

(* ---------- templates ---------- *)
Record tmpl := {
  t_name : str;           (* template.name *)
  t_src : skey;           (* which store entry the source text was read from *)
  t_ver : N;              (* ... and which version of it *)
  t_awaitable : bool;     (* template.uptodate is a coroutine function *)
  t_globals : N * N       (* (environment globals, request globals) after Environment.make_globals *)
}.

Definition with_globals (t : tmpl) (g : N * N) : tmpl :=
  {| t_name := t_name t; t_src := t_src t; t_ver := t_ver t; t_awaitable := t_awaitable t; t_globals := g |}.

(* Environment.make_globals: {**env.globals, **globals}; a dict is truthy iff it is not empty *)
Definition make_globals (c : config) (g : N) : N * N := (env_g c, g).
Definition same_globals (a b : N * N) : bool := N.eqb (fst a) (fst b) && N.eqb (snd a) (snd b).
Definition truthy_globals (g : N * N) : bool := negb (N.eqb (fst g) 0) || negb (N.eqb (snd g) 0).

(* namespace seen by a namespace-aware get_source: keyword arguments take priority over the context *)
Definition eff_ns (kw ctx : option str) : option str := match kw with Some a => Some a | None => ctx end.

Definition source_key (c : config) (name : str) (kw ctx : option str) : skey :=
  (name, if aware c then eff_ns kw ctx else None).

(* BaseLoader.load / load_async over the store: the NON-caching loader, and the specification *)
Definition base_load (v : variant) (c : config) (st : store) (m : mode)
           (name : str) (kw ctx : option str) (gl : N * N) : res tmpl :=
  match slookup (source_key c name kw ctx) st with
  | None => Err ENotFound
  | Some ver =>
      Ok {| t_name := match m with
                      | Sync => basename name
                      | Async => if v_async_rawname v then name else basename name
                      end;
            t_src := source_key c name kw ctx;
            t_ver := ver;
            t_awaitable := match m with Sync => false | Async => awaitable_uptodate c end;
            t_globals := gl |}
  end.

(* the `uptodate` callable of a template: the source is still there and still carries the version the
   template was read from; a removed source is "not up to date" -- or, as found in the file system loader,
   an OSError from stat() *)
Definition uptodate_call (c : config) (st : store) (t : tmpl) : res bool :=
  match slookup (t_src t) st with
  | Some v => Ok (N.eqb v (t_ver t))
  | None => if missing_raises c then Err EOSError else Ok false
  end.

(* BoundTemplate.is_up_to_date_async: no uptodate callable => True; else call it, await the result if it is
   awaitable *)
Definition up_to_date (c : config) (st : store) (t : tmpl) : res bool :=
  if negb (detects c) then Ok true else uptodate_call c st t.

(* BoundTemplate.is_up_to_date: the synchronous copy cannot await: a result that is not a bool raises
   LiquidError("expected a boolean from uptodate, found coroutine") (the coroutine is created, not run) *)
Definition up_to_date_sync (c : config) (st : store) (t : tmpl) : res bool :=
  if negb (detects c) then Ok true
  else if t_awaitable t then Err ELiquid
  else uptodate_call c st t.

(* ---------- CachingLoaderMixin ---------- *)
(* cache_key, verbatim *)
Definition cache_key (c : config) (name : str) (kw ctx : option str) : str :=
  match nk c with
  | [] => name
  | _ =>
      match kw with
      | Some a => a ++ [slash] ++ name
      | None =>
          match ctx with
          | Some a => a ++ [slash] ++ name
          | None => name
          end
      end
  end.

(* template objects: id |-> record; newest binding first; a new object gets the next unused id *)
Definition heap := list (Z * tmpl).
Fixpoint hget (id : Z) (h : heap) : option tmpl :=
  match h with
  | [] => None
  | (i, t) :: r => if Z.eqb id i then Some t else hget id r
  end.
Definition hfresh (h : heap) : Z := Z.of_nat (length h).

Record state := { st_cache : Lru.cache; st_heap : heap; st_store : store }.

Inductive response :=
| RT (t : tmpl)        (* the template returned, as it is at the time it is returned *)
| RE (e : exn)
| RDone                (* an edit *)
| RInternal.           (* a cache entry without an object: unreachable (proved) *)

(* _check_cache *)
Definition check_cache (v : variant) (c : config) (s : state) (key : str) (gl : N * N)
           (load_func : unit -> res tmpl) : state * response :=
  let k := enc key in
  match do_get (st_cache s) k with
  | (cache1, None) =>                                     (* except KeyError *)
      match load_func tt with
      | Ok t =>
          let id := hfresh (st_heap s) in
          ({| st_cache := do_set cache1 k id; st_heap := (id, t) :: st_heap s; st_store := st_store s |}, RT t)
      | Err e => ({| st_cache := cache1; st_heap := st_heap s; st_store := st_store s |}, RE e)
      | OutOfFuel => (s, RInternal)
      end
  | (cache1, Some id) =>
      match hget id (st_heap s) with
      | None => (s, RInternal)
      | Some cached =>
          (* `self.auto_reload and not cached_template.is_up_to_date()`: `and` evaluates the call only with auto_reload *)
          match (if auto_reload c then up_to_date_sync c (st_store s) cached else Ok true) with
          | Err e => ({| st_cache := cache1; st_heap := st_heap s; st_store := st_store s |}, RE e)
          | OutOfFuel => (s, RInternal)
          | Ok false =>
            match load_func tt with
            | Ok t =>
                let id' := hfresh (st_heap s) in
                ({| st_cache := do_set cache1 k id'; st_heap := (id', t) :: st_heap s; st_store := st_store s |}, RT t)
            | Err e => ({| st_cache := cache1; st_heap := st_heap s; st_store := st_store s |}, RE e)
            | OutOfFuel => (s, RInternal)
            end
          | Ok true =>
            if v_hit_mutates v then
              let cached' := if v_globals_if v
                             then (if truthy_globals gl then with_globals cached gl else cached)
                             else with_globals cached gl in
              ({| st_cache := cache1; st_heap := (id, cached') :: st_heap s; st_store := st_store s |}, RT cached')
            else if same_globals (t_globals cached) gl then
              (* handed out as it is (the binding is repeated so that the newest heap binding is always the
                 object just returned) *)
              ({| st_cache := cache1; st_heap := (id, cached) :: st_heap s; st_store := st_store s |}, RT cached)
            else
              let id' := hfresh (st_heap s) in          (* copy.copy(cached_template); .globals = globals *)
              ({| st_cache := cache1; st_heap := (id', with_globals cached gl) :: st_heap s; st_store := st_store s |},
               RT (with_globals cached gl))
          end
      end
  end.

(* _check_cache_async: the second hand-written copy (awaits do not change the order of effects) *)
Definition check_cache_async (v : variant) (c : config) (s : state) (key : str) (gl : N * N)
           (load_func : unit -> res tmpl) : state * response :=
  let k := enc key in
  match do_get (st_cache s) k with
  | (cache1, None) =>
      match load_func tt with
      | Ok t =>
          let id := hfresh (st_heap s) in
          ({| st_cache := do_set cache1 k id; st_heap := (id, t) :: st_heap s; st_store := st_store s |}, RT t)
      | Err e => ({| st_cache := cache1; st_heap := st_heap s; st_store := st_store s |}, RE e)
      | OutOfFuel => (s, RInternal)
      end
  | (cache1, Some id) =>
      match hget id (st_heap s) with
      | None => (s, RInternal)
      | Some cached =>
          match (if auto_reload c then up_to_date c (st_store s) cached else Ok true) with
          | Err e => ({| st_cache := cache1; st_heap := st_heap s; st_store := st_store s |}, RE e)
          | OutOfFuel => (s, RInternal)
          | Ok false =>
            match load_func tt with
            | Ok t =>
                let id' := hfresh (st_heap s) in
                ({| st_cache := do_set cache1 k id'; st_heap := (id', t) :: st_heap s; st_store := st_store s |}, RT t)
            | Err e => ({| st_cache := cache1; st_heap := st_heap s; st_store := st_store s |}, RE e)
            | OutOfFuel => (s, RInternal)
            end
          | Ok true =>
            if v_hit_mutates v then
              let cached' := if v_globals_if v
                             then (if truthy_globals gl then with_globals cached gl else cached)
                             else with_globals cached gl in
              ({| st_cache := cache1; st_heap := (id, cached') :: st_heap s; st_store := st_store s |}, RT cached')
            else if same_globals (t_globals cached) gl then
              (* handed out as it is (the binding is repeated so that the newest heap binding is always the
                 object just returned) *)
              ({| st_cache := cache1; st_heap := (id, cached) :: st_heap s; st_store := st_store s |}, RT cached)
            else
              let id' := hfresh (st_heap s) in          (* copy.copy(cached_template); .globals = globals *)
              ({| st_cache := cache1; st_heap := (id', with_globals cached gl) :: st_heap s; st_store := st_store s |},
               RT (with_globals cached gl))
          end
      end
  end.

(* load: cache key = cache_key(name, context, kwargs); loads `name` *)
Definition mixin_load (v : variant) (c : config) (s : state) (g : get) : state * response :=
  let gl := make_globals c (g_globals g) in                       (* Environment.get_template *)
  let ck := cache_key c (g_name g) (g_kw g) (g_ctx g) in
  check_cache v c s ck gl
    (fun _ => base_load v c (st_store s) Sync (g_name g) (g_kw g) (g_ctx g) gl).

(* load_async: as found, the two arguments are swapped *)
Definition mixin_load_async (v : variant) (c : config) (s : state) (g : get) : state * response :=
  let gl := make_globals c (g_globals g) in                       (* Environment.get_template_async *)
  let ck := cache_key c (g_name g) (g_kw g) (g_ctx g) in
  if v_async_swap v then
    check_cache_async v c s (g_name g) gl
      (fun _ => base_load v c (st_store s) Async ck (g_kw g) (g_ctx g) gl)
  else
    check_cache_async v c s ck gl
      (fun _ => base_load v c (st_store s) Async (g_name g) (g_kw g) (g_ctx g) gl).

Definition step (v : variant) (c : config) (s : state) (r : request) : state * response :=
  match r with
  | Get g => match g_mode g with Sync => mixin_load v c s g | Async => mixin_load_async v c s g end
  | Edit name ns =>
      ({| st_cache := st_cache s; st_heap := st_heap s; st_store := sedit (name, ns) (st_store s) |}, RDone)
  | Delete name ns =>
      ({| st_cache := st_cache s; st_heap := st_heap s; st_store := sdelete (name, ns) (st_store s) |}, RDone)
  end.

Fixpoint run (v : variant) (c : config) (s : state) (rs : list request) : list response :=
  match rs with
  | [] => []
  | r :: rs' => let '(s', o) := step v c s r in o :: run v c s' rs'
  end.

(* The objects handed out.  Every step that returns a template leaves that object as the NEWEST heap binding;
   [run_h] records its id next to the response, [final] is the state after the whole history, and
   [reobserve] reads a handed-out object again from a (later) heap. *)
Definition handle (s' : state) (o : response) : option Z :=
  match o with RT _ => match st_heap s' with (id, _) :: _ => Some id | [] => None end | _ => None end.

Fixpoint run_h (v : variant) (c : config) (s : state) (rs : list request) : list (response * option Z) :=
  match rs with
  | [] => []
  | r :: rs' => let '(s', o) := step v c s r in (o, handle s' o) :: run_h v c s' rs'
  end.

Fixpoint final (v : variant) (c : config) (s : state) (rs : list request) : state :=
  match rs with
  | [] => s
  | r :: rs' => final v c (fst (step v c s r)) rs'
  end.

Definition reobserve (h : heap) (x : response * option Z) : response :=
  match x with
  | (RT _, Some id) => match hget id h with Some t => RT t | None => RInternal end
  | (o, _) => o
  end.

(* every response of the history, observed again when the history is over *)
Definition run_again (v : variant) (c : config) (s : state) (rs : list request) : list response :=
  map (reobserve (st_heap (final v c s rs))) (run_h v c s rs).

Definition init (c : config) (st : store) : state :=
  {| st_cache := Lru.empty (capacity c); st_heap := []; st_store := st |}.

(* ---------- the specification: a fresh non-caching loader for every request ---------- *)
Definition ref_get (c : config) (st : store) (g : get) : response :=
  match base_load fixed c st (g_mode g) (g_name g) (g_kw g) (g_ctx g) (make_globals c (g_globals g)) with
  | Ok t => RT t
  | Err e => RE e
  | OutOfFuel => RInternal
  end.

Fixpoint ref_run (c : config) (st : store) (rs : list request) : list response :=
  match rs with
  | [] => []
  | Get g :: rs' => ref_get c st g :: ref_run c st rs'
  | Edit name ns :: rs' => RDone :: ref_run c (sedit (name, ns) st) rs'
  | Delete name ns :: rs' => RDone :: ref_run c (sdelete (name, ns) st) rs'
  end.

(* the same reference with the transcription variant left open (for the witnesses of the defects as found:
   caching loader as found vs non-caching loader as found) *)
Definition ref_get_v (v : variant) (c : config) (st : store) (g : get) : response :=
  match base_load v c st (g_mode g) (g_name g) (g_kw g) (g_ctx g) (make_globals c (g_globals g)) with
  | Ok t => RT t
  | Err e => RE e
  | OutOfFuel => RInternal
  end.

Fixpoint ref_run_v (v : variant) (c : config) (st : store) (rs : list request) : list response :=
  match rs with
  | [] => []
  | Get g :: rs' => ref_get_v v c st g :: ref_run_v v c st rs'
  | Edit name ns :: rs' => RDone :: ref_run_v v c (sedit (name, ns) st) rs'
  | Delete name ns :: rs' => RDone :: ref_run_v v c (sdelete (name, ns) st) rs'
  end.

(* ---------- the side condition of the theorems, executable ----------
   Two requests of a history that have the same cache key must read the same source entry (cache_key is
   f"{namespace}/{name}": a name containing '/' can collide with a namespaced name). *)
Definition ckey (c : config) (g : get) : str := cache_key c (g_name g) (g_kw g) (g_ctx g).
Definition srckey (c : config) (g : get) : skey := source_key c (g_name g) (g_kw g) (g_ctx g).

Fixpoint gets_of (rs : list request) : list get :=
  match rs with [] => [] | Get g :: r => g :: gets_of r | Edit _ _ :: r | Delete _ _ :: r => gets_of r end.

Definition pair_ok (c : config) (g1 g2 : get) : bool :=
  negb (str_eqb (ckey c g1) (ckey c g2)) || skey_eqb (srckey c g1) (srckey c g2).

Definition keys_injective_b (c : config) (rs : list request) : bool :=
  forallb (fun g1 => forallb (pair_ok c g1) (gets_of rs)) (gets_of rs).

(* ---------- correspondence interface ---------- *)
Record case := { c_cfg : config; c_store : store; c_reqs : list request }.
Definition run_case (k : case) : list response := run fixed (c_cfg k) (init (c_cfg k) (c_store k)) (c_reqs k).
(* the harness evaluates this one: a history outside the theorems' side condition shows up as a mismatch *)
(* the responses as returned, followed by the same responses observed again at the end of the history *)
Definition run_case_guarded (k : case) : list response :=
  if keys_injective_b (c_cfg k) (c_reqs k)
  then run_case k ++ run_again fixed (c_cfg k) (init (c_cfg k) (c_store k)) (c_reqs k)
  else [RInternal].
Definition run_case_as_found (k : case) : list response :=
  run as_found (c_cfg k) (init (c_cfg k) (c_store k)) (c_reqs k).

Definition tmpl_eqb (a b : tmpl) : bool :=
  str_eqb (t_name a) (t_name b) && skey_eqb (t_src a) (t_src b) && N.eqb (t_ver a) (t_ver b)
  && Bool.eqb (t_awaitable a) (t_awaitable b)
  && N.eqb (fst (t_globals a)) (fst (t_globals b)) && N.eqb (snd (t_globals a)) (snd (t_globals b)).

Definition response_eqb (a b : response) : bool :=
  match a, b with
  | RT x, RT y => tmpl_eqb x y
  | RE x, RE y => exn_eqb x y
  | RDone, RDone => true
  | RInternal, RInternal => true
  | _, _ => false
  end.

Definition obs_eqb (a b : list response) : bool := list_eqb response_eqb a b.
