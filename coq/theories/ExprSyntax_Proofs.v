(* Expressions: parsing the serialisation gives the tree back (primitives, paths, ranges). *)
From LiquidVerif Require Import Prelude PyPrims Cond CondPrint Cond_Proofs CondParen CondParen_Proofs StrLit PathSyntax PathSyntax_Proofs ExprSyntax.

(* ---- small list facts ---- *)
Lemma skipn_exact {A} (a b : list A) n : length a = n -> skipn n (a ++ b) = b.
Proof. revert n. induction a as [|x a IH]; intros n H; cbn in H; subst n; [reflexivity|]. cbn. apply IH. reflexivity. Qed.

Lemma skipn_suffix {A B} (a : list A) (b : list A) (b' : list B) :
  length b' = length b -> skipn (length (a ++ b) - length b') (a ++ b) = b.
Proof. intro H. apply skipn_exact. rewrite app_length, H. lia. Qed.

(* the two copies of the well-formedness of paths are the same function *)
Lemma wfl_same l : ExprSyntax.wfl l = PathSyntax_Proofs.wfl l.
Proof. reflexivity. Qed.

(* ---- induction on segments through nested paths ---- *)
Fixpoint seg_ind' (P : seg -> Prop) (Hn : forall s, P (SName s)) (Hi : forall z, P (SIdx z))
  (Hs : forall p, Forall P p -> P (SNested p)) (g : seg) : P g :=
  match g with
  | SName s => Hn s
  | SIdx z => Hi z
  | SNested p => Hs p ((fix go (l : list seg) : Forall P l :=
                          match l with [] => Forall_nil _ | x :: r => Forall_cons _ (seg_ind' P Hn Hi Hs x) (go r) end) p)
  end.

Definition follow_ok (rest : list etok) : Prop := match rest with [] => True | t :: _ => to_ptok t = POther end.
Definition pstart (t : etok) : bool :=
  match t with
  | EWord _ | EIdentStr _ | ELBr | EInt _ | EFloat _ | EStr _ | ETrue | EFalse | EEmpty | EBlank | ERangeL => true
  | _ => false
  end.
Definition path_start (t : etok) : bool := match t with EWord _ | EIdentStr _ | ELBr => true | _ => false end.
Definition no_colon (ts : list etok) : bool := forallb (fun t => negb (is_colon (Some t))) ts.

Lemma word_tok_word s : is_kw s = false -> word_tok s = EWord s.
Proof. unfold is_kw, word_tok. destruct (alookup s kw_table); [discriminate|reflexivity]. Qed.

Lemma word_tok_not_colon s : is_colon (Some (word_tok s)) = false.
Proof.
  unfold word_tok. destruct (alookup s kw_table) as [t|] eqn:E; [|reflexivity].
  unfold kw_table in E. cbn [alookup] in E.
  repeat (match type of E with (if ?c then _ else _) = _ => destruct c; [inversion E; reflexivity|] end). discriminate.
Qed.

Lemma of_ptok_not_colon t : is_colon (Some (of_ptok t)) = false.
Proof. destruct t; try reflexivity. apply word_tok_not_colon. Qed.

Lemma map_of_ptok_no_colon l : no_colon (map of_ptok l) = true.
Proof. induction l as [|x r IH]; [reflexivity|]. cbn [map no_colon forallb]. rewrite of_ptok_not_colon. exact IH. Qed.

Lemma no_colon_app a b : no_colon (a ++ b) = no_colon a && no_colon b.
Proof. unfold no_colon. apply forallb_app. Qed.

Lemma hd_tl_not_colon a rest : a <> [] -> no_colon a = true -> is_colon (hd_tok rest) = false ->
  is_colon (hd_tok (tl (a ++ rest))) = false.
Proof.
  intros Hne Hn Hr. destruct a as [|x a]; [congruence|]. cbn [app tl]. destruct a as [|y a]; [exact Hr|].
  cbn [no_colon forallb] in Hn. apply andb_true_iff in Hn. destruct Hn as [_ Hn]. apply andb_true_iff in Hn. destruct Hn as [Hy _].
  cbn [app hd_tok hd_error]. destruct (is_colon (Some y)); [discriminate|reflexivity].
Qed.

Lemma hd_not_colon a rest : no_colon a = true -> is_colon (hd_tok rest) = false -> is_colon (hd_tok (a ++ rest)) = false.
Proof.
  intros Hn Hr. destruct a as [|x a]; [exact Hr|]. cbn [no_colon forallb] in Hn. apply andb_true_iff in Hn. destruct Hn as [Hx _].
  cbn. destruct x; try reflexivity; discriminate.
Qed.

Section RoundTrip.
  Variable is_prop : str -> bool.
  Hypothesis is_prop_not_kw : forall s, is_prop s = true -> is_kw s = false.
  Local Notation print_seg := (PathSyntax.print_seg is_prop).
  Local Notation print_segs := (PathSyntax.print_segs is_prop).
  Local Notation print_path := (PathSyntax.print_path is_prop).
  Local Notation print_prim := (ExprSyntax.print_prim is_prop).

  (* every word the path serialiser writes bare is a word for the lexer *)
  Definition okp (t : ptok) : Prop := match t with PWord s => is_kw s = false | POther => False | _ => True end.

  Lemma okp_segs l : Forall (fun g => forall first, Forall okp (print_seg first g)) l -> forall first, Forall okp (print_segs first l).
  Proof.
    induction 1 as [|x r Hx _ IH]; intro first; [constructor|]. cbn [PathSyntax.print_segs]. apply Forall_app. split; [apply Hx|apply IH].
  Qed.

  Lemma okp_seg g : forall first, Forall okp (print_seg first g).
  Proof.
    induction g as [s|z|p IH] using seg_ind'; intro first.
    - cbn [PathSyntax.print_seg]. destruct (is_prop s) eqn:E.
      + destruct first; repeat constructor; apply is_prop_not_kw, E.
      + repeat constructor.
    - repeat constructor.
    - rewrite print_nested_first. constructor; [exact I|]. apply Forall_app. split; [apply okp_segs, IH|repeat constructor].
  Qed.

  Lemma okp_path first l : Forall okp (print_segs first l).
  Proof. apply okp_segs. apply Forall_forall. intros g _. apply okp_seg. Qed.
  Lemma okp_print_path l : Forall okp (print_path l).
  Proof. apply okp_path. Qed.

  Lemma to_of_ptok l : Forall okp l -> map to_ptok (map of_ptok l) = l.
  Proof.
    induction 1 as [|t r Ht _ IH]; [reflexivity|]. cbn [map]. rewrite IH. f_equal.
    destruct t; try reflexivity; cbn in Ht. cbn [of_ptok]. rewrite word_tok_word by exact Ht. reflexivity.
  Qed.

  Lemma follow_rest_ok rest : follow_ok rest -> rest_ok (map to_ptok rest).
  Proof. destruct rest as [|t r]; cbn; [trivial|]. intro H. rewrite H. exact I. Qed.

  (* Path.parse reads back what Path.__str__ writes, whatever non-path token follows *)
  Lemma path_e_roundtrip l rest : l <> [] -> ExprSyntax.wfl l = true -> follow_ok rest ->
    parse_path_e (map of_ptok (print_path l) ++ rest) = Ok (l, rest).
  Proof.
    intros Hne Hwf Hf. unfold parse_path_e.
    rewrite map_app, (to_of_ptok _ (okp_print_path l)).
    replace (length (map of_ptok (print_path l) ++ rest)) with (length (print_path l ++ map to_ptok rest))
      by (rewrite !app_length, !map_length; reflexivity).
    rewrite (path_roundtrip is_prop l (map to_ptok rest) Hne Hwf (follow_rest_ok rest Hf)).
    cbn [bind fst snd]. f_equal. f_equal.
    replace (length (print_path l ++ map to_ptok rest)) with (length (map of_ptok (print_path l) ++ rest))
      by (rewrite !app_length, !map_length; reflexivity).
    apply skipn_suffix. apply map_length.
  Qed.

  (* a single word is a path of one name *)
  Lemma word_path s rest : follow_ok rest -> parse_path_e (EWord s :: rest) = Ok ([SName s], rest).
  Proof.
    intro Hf. unfold parse_path_e. cbn [map to_ptok length PathSyntax.parse_path].
    assert (Hw : is_word (hd_error (map to_ptok rest)) = false) by (destruct rest as [|t r]; [reflexivity|]; cbn in *; rewrite Hf; reflexivity).
    rewrite Hw. destruct rest as [|t r].
    - cbn. reflexivity.
    - cbn [map length PathSyntax.parse_path]. cbn in Hf. rewrite Hf. cbn [bind fst snd rev app length].
      replace (S (S (length r)) - S (length (map to_ptok r))) with 1 by (rewrite map_length; lia). reflexivity.
  Qed.

  Lemma wf_path_inv l : wf_path l = true -> l <> [] /\ ExprSyntax.wfl l = true /\
    exists t r, map of_ptok (print_path l) = t :: r /\ path_start t = true.
  Proof.
    intro H. destruct l as [|g l]; [discriminate|]. split; [discriminate|].
    destruct g as [s|z|p]; [| discriminate |]; (split; [exact H|]).
    - unfold PathSyntax.print_path. cbn [PathSyntax.print_segs PathSyntax.print_seg]. destruct (is_prop s) eqn:E.
      + cbn [app map of_ptok]. rewrite word_tok_word by (apply is_prop_not_kw, E). eexists _, _. split; reflexivity.
      + cbn [app map of_ptok]. eexists _, _. split; reflexivity.
    - unfold PathSyntax.print_path. cbn [PathSyntax.print_segs]. rewrite print_nested_first. cbn [app map of_ptok]. eexists _, _. split; reflexivity.
  Qed.

  Lemma parse_prim_path f ts : path_start (hd ENil ts) = true ->
    parse_prim (S f) ts = do x <- parse_path_e ts; Ok (PPath (fst x), snd x).
  Proof. destruct ts as [|[] r]; cbn [hd path_start]; intro H; try discriminate; reflexivity. Qed.

  Fixpoint need (p : prim) : nat := match p with PRange a b => S (Nat.max (need a) (need b)) | _ => 1 end.

  Lemma need_length p : need p <= S (length (print_prim p)).
  Proof.
    induction p as [| | | | | | | | |a IHa b IHb]; cbn [need]; try lia.
    cbn [ExprSyntax.print_prim length]. rewrite app_length. cbn [length]. rewrite app_length. cbn [length]. lia.
  Qed.

  (* parse_primitive reads back every well-formed primitive *)
  Lemma prim_roundtrip p : wf_prim p = true -> forall rest fuel, follow_ok rest -> need p <= fuel ->
    parse_prim fuel (print_prim p ++ rest) = Ok (p, rest).
  Proof.
    induction p as [z|s|s| | | | | |l|a IHa b IHb]; intros Hwf rest fuel Hf Hn; cbn [need] in Hn;
      (destruct fuel as [|f]; [lia|]); try reflexivity; try discriminate.
    - (* path *)
      cbn [wf_prim] in Hwf. destruct (wf_path_inv l Hwf) as (Hne & Hwl & t & r & Ht & Hs).
      cbn [ExprSyntax.print_prim]. rewrite parse_prim_path by (rewrite Ht; exact Hs).
      rewrite (path_e_roundtrip l rest Hne Hwl Hf). reflexivity.
    - (* range *)
      cbn [wf_prim] in Hwf. apply andb_true_iff in Hwf. destruct Hwf as [Ha Hb].
      cbn [ExprSyntax.print_prim]. cbn [app]. rewrite <- app_assoc. cbn [app]. rewrite <- app_assoc. cbn [app ExprSyntax.parse_prim].
      rewrite (IHa Ha _ f) by (cbn; trivial; lia). cbn [bind fst snd].
      rewrite (IHb Hb _ f) by (cbn; trivial; lia). reflexivity.
  Qed.

  Lemma pprim_roundtrip p rest : wf_prim p = true -> follow_ok rest -> pprim (print_prim p ++ rest) = Ok (p, rest).
  Proof.
    intros Hwf Hf. unfold pprim, pfuel. apply prim_roundtrip; [exact Hwf|exact Hf|].
    pose proof (need_length p). rewrite app_length. lia.
  Qed.

  Lemma print_prim_no_colon p : no_colon (print_prim p) = true.
  Proof.
    induction p as [| | | | | | | | l |a IHa b IHb]; try reflexivity.
    - apply map_of_ptok_no_colon.
    - cbn [ExprSyntax.print_prim]. change (ERangeL :: ?x) with ([ERangeL] ++ x). rewrite !no_colon_app, IHa. cbn [no_colon forallb is_colon negb andb].
      fold (no_colon (print_prim b ++ [ERParen])). rewrite no_colon_app, IHb. reflexivity.
  Qed.

  Lemma print_prim_head p : wf_prim p = true -> exists t r, print_prim p = t :: r /\ pstart t = true /\
    (t = EEmpty -> p = PEmpty) /\ (t = EBlank -> p = PBlank).
  Proof.
    destruct p as [z|s|s| | | | | |l|a b]; intro H; try discriminate; try (eexists _, _; repeat split; try reflexivity; discriminate).
    cbn [wf_prim] in H. destruct (wf_path_inv l H) as (_ & _ & t & r & Ht & Hs). exists t, r. cbn [ExprSyntax.print_prim].
    repeat split; [exact Ht|destruct t; try discriminate; reflexivity| |]; intro; subst t; discriminate.
  Qed.

  (* ================= filters ================= *)
  Local Notation print_arg := (ExprSyntax.print_arg is_prop).
  Local Notation print_filter := (ExprSyntax.print_filter is_prop).
  Local Notation print_pipes := (ExprSyntax.print_pipes is_prop).
  Local Notation print_fexpr := (ExprSyntax.print_fexpr is_prop).
  Local Notation print_expr := (ExprSyntax.print_expr is_prop).

  (* what may follow an argument / a filter: a separator, or the end *)
  Definition sep_head (rest : list etok) : bool :=
    match rest with [] => true | t :: _ => match t with EComma | EPipe | EDPipe | EIf | EElse => true | _ => false end end.
  Definition ffollow (rest : list etok) : bool :=
    match rest with [] => true | t :: _ => match t with EPipe | EDPipe | EIf | EElse => true | _ => false end end.

  Lemma sep_follow rest : sep_head rest = true -> follow_ok rest.
  Proof. destruct rest as [|[] r]; cbn; intro; try discriminate; trivial. Qed.
  Lemma sep_not_filter rest : sep_head rest = true -> is_filter_tok_gen true (hd_tok rest) = false.
  Proof. destruct rest as [|[] r]; cbn; intro; try discriminate; trivial. Qed.
  Lemma sep_not_colon rest : sep_head rest = true -> is_colon (hd_tok rest) = false.
  Proof. destruct rest as [|[] r]; cbn; intro; try discriminate; trivial. Qed.
  Lemma ffollow_sep rest : ffollow rest = true -> sep_head rest = true.
  Proof. destruct rest as [|[] r]; cbn; intro; try discriminate; trivial. Qed.

  Lemma join_cons2 sep x y (r : list (list etok)) : join sep (x :: y :: r) = x ++ sep ++ join sep (y :: r).
  Proof. reflexivity. Qed.

  Lemma arg_step a rest f acc : wf_arg a = true -> sep_head rest = true ->
    parse_fargs true (S f) acc (print_arg a ++ rest) = parse_fargs true f (a :: acc) rest.
  Proof.
    intros Hwf Hs. pose proof (sep_not_filter rest Hs) as Hflt.
    destruct a as [p|k p]; cbn [wf_arg] in Hwf; apply andb_true_iff in Hwf; destruct Hwf as [H1 H2].
    - pose proof (pprim_roundtrip p rest H1 (sep_follow rest Hs)) as Hpp.
      destruct (print_prim_head p H1) as (t & r & Hp & Hst & He & Hb).
      assert (Hc : is_colon (hd_tok (tl (print_prim p ++ rest))) = false).
      { apply hd_tl_not_colon; [rewrite Hp; discriminate|apply print_prim_no_colon|apply sep_not_colon, Hs]. }
      cbn [ExprSyntax.print_arg]. rewrite Hp in Hpp, Hc |- *. cbn [app tl] in Hpp, Hc |- *.
      destruct t; try discriminate Hst;
        try (cbn [ExprSyntax.parse_fargs is_filter_tok_gen]; rewrite Hpp; cbn [bind fst snd]; rewrite Hflt; reflexivity).
      + cbn [ExprSyntax.parse_fargs]. rewrite Hc, Hpp. cbn [bind fst snd]. rewrite Hflt. reflexivity.
      + rewrite (He eq_refl) in H2. discriminate.
      + rewrite (Hb eq_refl) in H2. discriminate.
    - cbn [ExprSyntax.print_arg]. unfold wf_name in H1. apply negb_true_iff in H1. rewrite (word_tok_word k H1).
      cbn [app ExprSyntax.parse_fargs hd_tok hd_error is_colon tl].
      rewrite (pprim_roundtrip p rest H2 (sep_follow rest Hs)). cbn [bind fst snd]. rewrite Hflt. reflexivity.
  Qed.

  Lemma comma_step t r f acc : pstart t = true ->
    parse_fargs true (S f) acc (EComma :: t :: r) = parse_fargs true f acc (t :: r).
  Proof. intro H. destruct t; try discriminate H; reflexivity. Qed.

  Lemma fargs_end rest f acc : ffollow rest = true -> parse_fargs true (S f) acc rest = Ok (rev acc, rest).
  Proof. destruct rest as [|[] r]; cbn [ffollow]; intro H; try discriminate H; reflexivity. Qed.

  Lemma print_arg_head a : wf_arg a = true -> exists t r, print_arg a = t :: r /\ pstart t = true.
  Proof.
    destruct a as [p|k p]; cbn [wf_arg]; intro H; apply andb_true_iff in H; destruct H as [H1 H2].
    - destruct (print_prim_head p H1) as (t & r & Hp & Hst & _). exists t, r. split; assumption.
    - unfold wf_name in H1. apply negb_true_iff in H1. cbn [ExprSyntax.print_arg]. rewrite (word_tok_word k H1). eexists _, _. split; reflexivity.
  Qed.

  Lemma fargs_roundtrip : forall l acc rest fuel, l <> [] -> forallb wf_arg l = true -> ffollow rest = true -> 2 * length l <= fuel ->
    parse_fargs true fuel acc (join [EComma] (map print_arg l) ++ rest) = Ok (rev acc ++ l, rest).
  Proof.
    induction l as [|a l IH]; intros acc rest fuel Hne Hwf Hff Hfu; [congruence|].
    cbn [forallb] in Hwf. apply andb_true_iff in Hwf. destruct Hwf as [Ha Hl].
    destruct l as [|b l'].
    - cbn [map join length] in *. destruct fuel as [|[|f]]; try lia.
      rewrite (arg_step a rest _ acc Ha (ffollow_sep rest Hff)). rewrite (fargs_end rest f _ Hff). reflexivity.
    - cbn [map]. rewrite join_cons2. rewrite <- !app_assoc. cbn [app].
      cbn [length] in Hfu. destruct fuel as [|[|f]]; try lia.
      rewrite (arg_step a (EComma :: _) _ acc Ha eq_refl).
      assert (Hb : wf_arg b = true) by (cbn [forallb] in Hl; apply andb_true_iff in Hl; tauto).
      destruct (print_arg_head b Hb) as (t & r & Ht & Hst).
      assert (Hj : exists r', join [EComma] (map print_arg (b :: l')) ++ rest = t :: r').
      { cbn [map]. destruct l' as [|c l'']; [cbn [map join]; rewrite Ht; eexists; reflexivity|].
        cbn [map]. rewrite join_cons2, Ht. eexists. reflexivity. }
      destruct Hj as (r' & Hj). cbn [map] in Hj. rewrite Hj. rewrite (comma_step t r' f _ Hst). rewrite <- Hj.
      change (print_arg b :: map print_arg l') with (map print_arg (b :: l')).
      rewrite (IH (a :: acc) rest f ltac:(discriminate) Hl Hff ltac:(cbn [length] in *; lia)).
      cbn [rev]. rewrite <- app_assoc. reflexivity.
  Qed.

  Lemma join_length (l : list arg) : l <> [] -> forallb wf_arg l = true -> 2 * length l <= S (length (join [EComma] (map print_arg l))).
  Proof.
    induction l as [|a l IH]; intros Hne Hwf; [congruence|]. cbn [forallb] in Hwf. apply andb_true_iff in Hwf. destruct Hwf as [Ha Hl].
    destruct (print_arg_head a Ha) as (t & r & Ht & _).
    destruct l as [|b l']; [cbn [map join length]; rewrite Ht; cbn [length]; lia|].
    cbn [map]. rewrite join_cons2. cbn [map] in IH. rewrite !app_length, Ht. cbn [length] in *. specialize (IH ltac:(discriminate) Hl). lia.
  Qed.

  Definition is_delim (dpipe : bool) (d : etok) : bool := match d with EPipe => true | EDPipe => dpipe | _ => false end.

  Lemma filter_step f d dpipe rest fu acc : wf_filter f = true -> is_delim dpipe d = true -> ffollow rest = true ->
    parse_filters true (S fu) dpipe acc (d :: print_filter f ++ rest) = parse_filters true fu dpipe (f :: acc) rest.
  Proof.
    intros Hwf Hd Hff. destruct f as [name args]. unfold wf_filter in Hwf. cbn [f_name f_args] in Hwf.
    apply andb_true_iff in Hwf. destruct Hwf as [Hn Ha]. unfold wf_name in Hn. apply negb_true_iff in Hn.
    unfold ExprSyntax.print_filter. cbn [f_name f_args]. rewrite (word_tok_word name Hn).
    assert (Hdd : (match d with EPipe => true | EDPipe => dpipe | _ => false end) = true) by exact Hd.
    destruct args as [|a l].
    - cbn [app ExprSyntax.parse_filters]. rewrite Hdd. rewrite (sep_not_colon rest (ffollow_sep rest Hff)). reflexivity.
    - cbn [app ExprSyntax.parse_filters]. rewrite Hdd. cbn [hd_tok hd_error is_colon tl].
      rewrite (fargs_roundtrip (a :: l) [] rest _ ltac:(discriminate) Ha Hff).
      + reflexivity.
      + pose proof (join_length (a :: l) ltac:(discriminate) Ha). cbn [length] in *. rewrite app_length. lia.
  Qed.

  (* the token after the last filter is not a delimiter *)
  Definition fend (dpipe : bool) (rest : list etok) : bool :=
    match rest with [] => true | t :: _ => match t with EIf | EElse => true | EDPipe => negb dpipe | _ => false end end.
  Lemma fend_ffollow dpipe rest : fend dpipe rest = true -> ffollow rest = true.
  Proof. destruct rest as [|[] r]; cbn; intro; try discriminate; trivial. Qed.

  Lemma pipes_head fs rest : ffollow rest = true -> ffollow (print_pipes fs ++ rest) = true.
  Proof. destruct fs; intro; [assumption|reflexivity]. Qed.

  Lemma pipes_roundtrip dpipe : forall fs acc rest fuel, forallb wf_filter fs = true -> fend dpipe rest = true -> length fs < fuel ->
    parse_filters true fuel dpipe acc (print_pipes fs ++ rest) = Ok (rev acc ++ fs, rest).
  Proof.
    induction fs as [|f fs IH]; intros acc rest fuel Hwf He Hfu.
    - destruct fuel as [|fu]; [cbn in Hfu; lia|]. rewrite app_nil_r.
      destruct rest as [|[] r]; cbn [fend] in He; try discriminate He; try reflexivity.
      cbn [app ExprSyntax.parse_filters]. apply negb_true_iff in He. rewrite He. reflexivity.
    - cbn [forallb] in Hwf. apply andb_true_iff in Hwf. destruct Hwf as [Hf Hfs].
      destruct fuel as [|fu]; [lia|]. unfold ExprSyntax.print_pipes. cbn [flat_map]. fold (print_pipes fs).
      cbn [app]. rewrite <- app_assoc.
      rewrite (filter_step f EPipe dpipe _ fu acc Hf eq_refl (pipes_head fs rest (fend_ffollow dpipe rest He))).
      rewrite (IH (f :: acc) rest fu Hfs He ltac:(cbn [length] in Hfu; lia)). cbn [rev]. rewrite <- app_assoc. reflexivity.
  Qed.

  Lemma pipes_length fs : length fs <= length (print_pipes fs).
  Proof.
    induction fs as [|f fs IH]; [cbn; lia|]. unfold ExprSyntax.print_pipes. cbn [flat_map]. fold (print_pipes fs).
    cbn [length app]. rewrite app_length. lia.
  Qed.

  Lemma pfilters_roundtrip dpipe fs rest : forallb wf_filter fs = true -> fend dpipe rest = true ->
    pfilters true dpipe (print_pipes fs ++ rest) = Ok (fs, rest).
  Proof.
    intros Hwf He. unfold pfilters. apply (pipes_roundtrip dpipe fs [] rest); [exact Hwf|exact He|].
    pose proof (pipes_length fs). rewrite app_length. lia.
  Qed.

  (* ' || f | g' *)
  Lemma tail_roundtrip f fs : wf_filter f = true -> forallb wf_filter fs = true ->
    pfilters true true (EDPipe :: print_filter f ++ print_pipes fs) = Ok (f :: fs, []).
  Proof.
    intros Hf Hfs. unfold pfilters. cbn [length].
    rewrite <- (app_nil_r (print_pipes fs)).
    rewrite (filter_step f EDPipe true _ _ [] Hf eq_refl (pipes_head fs [] eq_refl)).
    rewrite (pipes_roundtrip true fs [f] [] _ Hfs eq_refl); [reflexivity|].
    pose proof (pipes_length fs). rewrite !app_length. cbn [length]. lia.
  Qed.

  (* ================= ternaries ================= *)
  Lemma to_ctok_cond l : map to_ctok (map ECond l) = l.
  Proof. induction l as [|x r IH]; [reflexivity|]. cbn [map to_ctok]. rewrite IH. reflexivity. Qed.

  Definition cfollow (rest : list etok) : bool :=
    match rest with [] => true | t :: _ => match t with EElse | EDPipe => true | _ => false end end.

  (* the condition: Cond.pp reads back what BooleanExpression.__str__ writes and stops at `else`, `||` or the end *)
  Lemma cond_roundtrip c rest : cfollow rest = true ->
    let ts := map ECond (print2 c) ++ rest in
    pp flags_on (4 * length ts + 4) 1 (map to_ctok ts) = Ok (c, map to_ctok rest) /\
    skipn (length ts - length (map to_ctok rest)) ts = rest.
  Proof.
    intros Hc ts. subst ts. split; [|apply skipn_suffix, map_length].
    rewrite map_app, to_ctok_cond. unfold print2.
    pose proof (toks_length (pq2 0 false c)) as Hl.
    rewrite (parse_toks_body (psize (pq2 0 false c)) (pq2 0 false c) (le_n _) (pq2_wg c 0 false) _ 1 (map to_ctok rest)).
    - rewrite pq2_erase. reflexivity.
    - rewrite app_length, map_length. unfold print2. lia.
    - destruct (pq2 0 false c) as [| | | | |[] ? ?|]; cbn; lia.
    - assert (Hs : stops1 (map to_ctok rest)) by (destruct rest as [|[] r]; cbn in *; try discriminate; reflexivity).
      split; [apply stops1_any, Hs|]. destruct (pq2 0 false c); try exact I. exact Hs.
  Qed.

  Lemma fexpr_left e rest : wf_fexpr e = true -> ffollow rest = true ->
    pprim (print_fexpr e ++ rest) = Ok (fe_left e, print_pipes (fe_filters e) ++ rest).
  Proof.
    intros Hwf Hr. unfold wf_fexpr in Hwf. apply andb_true_iff in Hwf. destruct Hwf as [Hl _].
    unfold ExprSyntax.print_fexpr. rewrite <- app_assoc. apply pprim_roundtrip; [exact Hl|].
    apply sep_follow, ffollow_sep, pipes_head, Hr.
  Qed.

  Lemma ternary_roundtrip e c alt tail :
    match alt with Some (a, fs) => wf_prim a && forallb wf_filter fs | None => true end = true -> forallb wf_filter tail = true ->
    parse_ternary true e (map ECond (print2 c)
        ++ match alt with Some (a, fs) => EElse :: print_prim a ++ print_pipes fs | None => [] end
        ++ match tail with [] => [] | f :: r => EDPipe :: print_filter f ++ print_pipes r end) = Ok (XTern e c alt tail).
  Proof.
    intros Halt Htail. unfold parse_ternary.
    remember (match tail with [] => [] | f :: r => EDPipe :: print_filter f ++ print_pipes r end) as tailT eqn:Et.
    assert (Hcase : (tailT = [] /\ tail = []) \/ (exists r, tailT = EDPipe :: r /\ pfilters true true (EDPipe :: r) = Ok (tail, []))).
    { destruct tail as [|f r]; [left; split; [exact Et|reflexivity]|]. right. eexists. split; [exact Et|].
      cbn [forallb] in Htail. apply andb_true_iff in Htail. destruct Htail as [Hf Hr]. apply tail_roundtrip; assumption. }
    clear Et Htail.
    assert (HtailT : fend false tailT = true) by (destruct Hcase as [[-> _]|(r & -> & _)]; reflexivity).
    destruct alt as [[a fs]|].
    - apply andb_true_iff in Halt. destruct Halt as [Ha Hfs].
      destruct (cond_roundtrip c (EElse :: print_prim a ++ print_pipes fs ++ tailT) eq_refl) as [Hpp Hsk].
      cbn zeta in Hpp, Hsk. cbn [app]. rewrite <- ?app_assoc. rewrite Hpp. cbn [bind fst snd]. rewrite Hsk.
      rewrite (pprim_roundtrip a _ Ha (sep_follow _ (ffollow_sep _ (pipes_head fs tailT (fend_ffollow false tailT HtailT))))).
      cbn [bind fst snd].
      destruct fs as [|f fs'].
      + cbn [ExprSyntax.print_pipes flat_map app].
        destruct Hcase as [[-> ->]|(r & -> & Htl)]; cbn [bind fst snd]; [reflexivity|]. rewrite Htl. reflexivity.
      + assert (Hpf : pfilters true false (print_pipes (f :: fs') ++ tailT) = Ok (f :: fs', tailT)) by (apply pfilters_roundtrip; assumption).
        unfold ExprSyntax.print_pipes in Hpf |- *. cbn [flat_map app] in Hpf |- *. rewrite Hpf. cbn [bind fst snd].
        destruct Hcase as [[-> ->]|(r & -> & Htl)]; cbn [bind fst snd]; [reflexivity|]. rewrite Htl. reflexivity.
    - destruct (cond_roundtrip c tailT ltac:(destruct Hcase as [[-> _]|(r & -> & _)]; reflexivity)) as [Hpp Hsk].
      cbn zeta in Hpp, Hsk. cbn [app]. rewrite Hpp. cbn [bind fst snd]. rewrite Hsk.
      destruct Hcase as [[-> ->]|(r & -> & Htl)]; cbn [bind fst snd]; [reflexivity|]. rewrite Htl. reflexivity.
  Qed.

  (* FilteredExpression.parse reads back every filtered expression and every ternary *)
  Theorem expr_roundtrip e : wf_expr e = true -> parse_expr true (print_expr e) = Ok e.
  Proof.
    intro Hwf. destruct e as [e|e c alt tail]; cbn [wf_expr] in Hwf.
    - unfold parse_expr. cbn [ExprSyntax.print_expr]. rewrite <- (app_nil_r (print_fexpr e)).
      rewrite (fexpr_left e [] Hwf eq_refl). cbn [bind fst snd].
      unfold wf_fexpr in Hwf. apply andb_true_iff in Hwf. destruct Hwf as [_ Hfs].
      rewrite (pfilters_roundtrip false (fe_filters e) [] Hfs eq_refl). cbn [bind fst snd]. destruct e; reflexivity.
    - apply andb_true_iff in Hwf. destruct Hwf as [Hwf Htail]. apply andb_true_iff in Hwf. destruct Hwf as [He Halt].
      unfold parse_expr. cbn [ExprSyntax.print_expr].
      rewrite (fexpr_left e (EIf :: _) He eq_refl). cbn [bind fst snd].
      pose proof He as He'. unfold wf_fexpr in He'. apply andb_true_iff in He'. destruct He' as [_ Hfs].
      rewrite (pfilters_roundtrip false (fe_filters e) (EIf :: _) Hfs eq_refl). cbn [bind fst snd].
      replace {| fe_left := fe_left e; fe_filters := fe_filters e |} with e by (destruct e; reflexivity).
      apply ternary_roundtrip; assumption.
  Qed.
End RoundTrip.
